/* pd_ext_c20: extension of harness/pipe_driver.c for C20 (getters report what
 * setters stored and do not change the pipe).  Hooks with letter d.
 *
 *  - pd_types_d: more pipe types.  Every type is allocated through a wrapper
 *    manager that puts a probe in front of the driver's recording probe; it
 *    answers need_upump_mgr with the mock event loop (harness/vloop.c) and
 *    provide_request (uref_mgr, ubuf_mgr, uclock, flow_format, sink_latency)
 *    like the probes of a real application, also during allocation.
 *    "xsink" is a recording sink that prints EVERYTHING a buffer or a flow
 *    definition carries (payload, dates, delays, all attributes) and answers
 *    requests at once.
 *  - pd_option_d: every getter/setter pair the check covers, one uniform
 *    format: "opt pN set <name> <value>" -> "ret <code>",
 *    "opt pN get <name>" -> "ret 0 <value>" | "ret <code>".  The variable
 *    handed to a getter is preset (777777 / a sentinel pointer printed as
 *    UNWRITTEN) so that a getter that does not write is visible.
 *  - pd_ext_d: commands
 *      c20reset [id]             forget dead pipes, fresh event loop, clock at 0
 *      c20in pN <id> <size|ts:n|hex:..> [k=v ...]   upipe_input of a block uref;
 *                                attrs: cr_sys cr_prog cr_orig dts_sys dts_prog dts_orig
 *                                pts_sys pts_prog pts_orig rap_sys dp cd dur tag disc start random
 *      c20run [n]                run the mock loop until idle (fd pumps, idlers)
 *      c20adv <ticks>            advance the virtual clock, firing timers, then run
 *      c20fd pN pic[:h,v]|<def>  upipe_set_flow_def with a one-plane picture definition / a bare def
 *      c20file <path> <hex|->    create a file
 *      c20ls                     print every file of the scratch directory (as "sink file" lines)
 *    File names are relative to a scratch directory of this process (under
 *    $C20_TMP), emptied by every c20reset.
 */
#include <stdio.h>
#include <stdlib.h>
#include <string.h>
#include <stdint.h>
#include <inttypes.h>
#include <unistd.h>
#include <fcntl.h>
#include <dirent.h>
#include <sys/stat.h>

#include "upipe/ubase.h"
#include "upipe/uref_block_flow.h"
#include "upipe/uprobe.h"
#include "upipe/uclock.h"
#include "upipe/udict.h"
#include "upipe/uref.h"
#include "upipe/uref_attr.h"
#include "upipe/uref_flow.h"
#include "upipe/uref_block.h"
#include "upipe/uref_pic_flow.h"
#include "upipe/uref_clock.h"
#include "upipe/ubuf.h"
#include "upipe/ubuf_block.h"
#include "upipe/upump.h"
#include "upipe/upipe.h"
#include "upipe/upipe_helper_upipe.h"
#include "upipe/upipe_helper_urefcount.h"
#include "upipe-modules/upipe_idem.h"
#include "upipe-modules/upipe_skip.h"
#include "upipe-modules/upipe_delay.h"
#include "upipe-modules/upipe_aggregate.h"
#include "upipe-modules/upipe_chunk_stream.h"
#include "upipe-modules/upipe_setattr.h"
#include "upipe-modules/upipe_setflowdef.h"
#include "upipe-modules/upipe_setrap.h"
#include "upipe-modules/upipe_genaux.h"
#include "upipe-modules/upipe_probe_uref.h"
#include "upipe-modules/upipe_noclock.h"
#include "upipe-modules/upipe_multicat_probe.h"
#include "upipe-modules/upipe_buffer.h"
#include "upipe-modules/upipe_time_limit.h"
#include "upipe-modules/upipe_rate_limit.h"
#include "upipe-modules/upipe_trickplay.h"
#include "upipe-modules/upipe_discard_blocking.h"
#include "upipe-modules/upipe_queue_source.h"
#include "upipe-modules/upipe_queue_sink.h"
#include "upipe-modules/upipe_even.h"
#include "upipe-modules/upipe_stream_switcher.h"
#include "upipe-modules/upipe_crop.h"
#include "upipe-modules/upipe_videocont.h"
#include "upipe-modules/upipe_file_sink.h"
#include "upipe-modules/upipe_file_source.h"
#include "upipe-modules/upipe_multicat_sink.h"
#include "upipe-ts/upipe_ts_sync.h"
#include "upipe-ts/upipe_ts_check.h"

#include "pipe_driver.h"
#include "vloop.h"

/* ------------------------------------------------- mock loop, virtual clock */
static struct upump_mgr *g_vloop;
static uint64_t vclock_now(struct uclock *uclock)
{
    return UINT64_C(1000000) + (g_vloop ? vloop_now(g_vloop) : 0);
}
static struct uclock vclock = { .refcount = NULL, .uclock_now = vclock_now };

static char g_tmp[256];
static void tmp_clear(void)
{
    if (!g_tmp[0]) return;
    DIR *d = opendir(g_tmp);
    if (d != NULL) {
        struct dirent *e;
        while ((e = readdir(d)) != NULL) {
            if (!strcmp(e->d_name, ".") || !strcmp(e->d_name, "..")) continue;
            char p[600];
            snprintf(p, sizeof(p), "%s/%s", g_tmp, e->d_name);
            unlink(p);
        }
        closedir(d);
    }
}
static void tmp_remove(void)
{
    tmp_clear();
    if (g_tmp[0]) { if (chdir("/") == 0) rmdir(g_tmp); }
}
static void tmp_enter(void)
{
    if (!g_tmp[0]) {
        const char *base = getenv("C20_TMP");
        snprintf(g_tmp, sizeof(g_tmp), "%s/c20_XXXXXX", base ? base : "/tmp");
        if (mkdtemp(g_tmp) == NULL) { g_tmp[0] = 0; return; }
        atexit(tmp_remove);
    }
    tmp_clear();
    if (chdir(g_tmp) != 0) g_tmp[0] = 0;
}

static void c20_env(void)
{
    if (g_vloop == NULL) g_vloop = vloop_mgr_alloc();
    if (g_uclock != &vclock) { uclock_release(g_uclock); g_uclock = &vclock; }
}

static void dump_attrs(struct uref *uref);
static void dump_dates(struct uref *uref);

/* ------------------------------------------------- probe in front of the driver's */
#define MAXW 8192
static struct uprobe wprobes[MAXW];
static int nwprobes;

static int wcatch(struct uprobe *uprobe, struct upipe *upipe, int event, va_list args)
{
    if (event == UPROBE_NEED_UPUMP_MGR) {
        va_list c;
        va_copy(c, args);
        struct upump_mgr **p = va_arg(c, struct upump_mgr **);
        va_end(c);
        c20_env();
        *p = upump_mgr_use(g_vloop);
        return UBASE_ERR_NONE;
    }
    if (event == UPROBE_PROVIDE_REQUEST) {
        va_list c;
        va_copy(c, args);
        struct urequest *r = va_arg(c, struct urequest *);
        va_end(c);
        switch (r->type) {
        case UREQUEST_UREF_MGR: case UREQUEST_UBUF_MGR: case UREQUEST_UCLOCK:
        case UREQUEST_FLOW_FORMAT: case UREQUEST_SINK_LATENCY:
            c20_env();
            return provide(r, "probe");
        default: break;
        }
    }
    if (event == UPROBE_NEW_FLOW_DEF) {
        /* the whole definition (the driver's probe prints its name only) */
        va_list c;
        va_copy(c, args);
        struct uref *fd = va_arg(c, struct uref *);
        va_end(c);
        if (fd != NULL) {
            printf("ev %s flow_def", pipe_name(upipe));
            dump_dates(fd);
            dump_attrs(fd);
            printf("\n");
        }
    }
    return uprobe_throw_next(uprobe, upipe, event, args);
}

static struct uprobe *wrap_probe(struct uprobe *next)
{
    if (nwprobes >= MAXW) { printf("note zombie wprobes exhausted\n"); return next; }
    struct uprobe *w = &wprobes[nwprobes++];
    uprobe_init(w, wcatch, next);
    w->refcount = NULL;
    return w;
}

static struct upipe *g_last_qsrc;

enum wkind { W_VOID, W_QSRC, W_QSINK };
static struct upipe *walloc(struct upipe_mgr *(*real_alloc)(void), enum wkind kind,
                            struct uprobe *uprobe, uint32_t signature, va_list args)
{
    c20_env();
    struct upipe_mgr *real = real_alloc();
    struct uprobe *w = wrap_probe(uprobe);
    struct upipe *up;
    if (kind == W_QSRC) {
        up = upipe_qsrc_alloc(real, w, 4);
        g_last_qsrc = up;
    } else if (kind == W_QSINK)
        up = upipe_qsink_alloc(real, w, g_last_qsrc);
    else
        up = real->upipe_alloc(real, w, signature, args);
    upipe_mgr_release(real);
    return up;
}

#define WTYPE(NAME, REAL, KIND)                                              \
static struct upipe *w_##NAME##_alloc(struct upipe_mgr *m, struct uprobe *p,  \
                                      uint32_t sig, va_list args)             \
{ return walloc(REAL, KIND, p, sig, args); }                                  \
static struct upipe_mgr w_##NAME##_mgr = { .refcount = NULL, .upipe_alloc = w_##NAME##_alloc }; \
static struct upipe_mgr *w_##NAME(void) { return &w_##NAME##_mgr; }

/* ------------------------------------------------- recording sink "xsink" */
struct xsink {
    struct urefcount urefcount;
    struct upipe upipe;
};
UPIPE_HELPER_UPIPE(xsink, upipe, 0x78736e6b)
UPIPE_HELPER_UREFCOUNT(xsink, urefcount, xsink_free)

static void dump_attrs(struct uref *uref)
{
    printf(" attrs{");
    if (uref->udict != NULL) {
        const char *iname = NULL;
        enum udict_type itype = UDICT_TYPE_END;
        bool first = true;
        while (ubase_check(udict_iterate(uref->udict, &iname, &itype)) && itype != UDICT_TYPE_END) {
            const char *name;
            enum udict_type type;
            if (!ubase_check(udict_name(uref->udict, itype, &name, &type))) { name = iname; type = itype; }
            printf("%s%s=", first ? "" : ",", name);
            first = false;
            switch (type) {
            case UDICT_TYPE_OPAQUE: { struct udict_opaque v; if (ubase_check(udict_get_opaque(uref->udict, &v, itype, iname))) printf("opaque%zu", v.size); break; }
            case UDICT_TYPE_STRING: { const char *v = ""; if (ubase_check(udict_get_string(uref->udict, &v, itype, iname))) printf("'%s'", v); break; }
            case UDICT_TYPE_VOID: printf("void"); break;
            case UDICT_TYPE_BOOL: { bool v = false; if (ubase_check(udict_get_bool(uref->udict, &v, itype, iname))) printf("%s", v ? "true" : "false"); break; }
            case UDICT_TYPE_RATIONAL: { struct urational v = { 0, 0 }; if (ubase_check(udict_get_rational(uref->udict, &v, itype, iname))) printf("%" PRId64 "/%" PRIu64, v.num, v.den); break; }
            case UDICT_TYPE_SMALL_UNSIGNED: { uint8_t v = 0; if (ubase_check(udict_get_small_unsigned(uref->udict, &v, itype, iname))) printf("%u", v); break; }
            case UDICT_TYPE_SMALL_INT: { int8_t v = 0; if (ubase_check(udict_get_small_int(uref->udict, &v, itype, iname))) printf("%d", v); break; }
            case UDICT_TYPE_UNSIGNED: { uint64_t v = 0; if (ubase_check(udict_get_unsigned(uref->udict, &v, itype, iname))) printf("%" PRIu64, v); break; }
            case UDICT_TYPE_INT: { int64_t v = 0; if (ubase_check(udict_get_int(uref->udict, &v, itype, iname))) printf("%" PRId64, v); break; }
            case UDICT_TYPE_FLOAT: { double v = 0; if (ubase_check(udict_get_float(uref->udict, &v, itype, iname))) printf("%g", v); break; }
            default: printf("?"); break;
            }
        }
    }
    printf("}");
}

static void dump_dates(struct uref *uref)
{
    uint64_t d;
    int t;
    uref_clock_get_date_sys(uref, &d, &t);
    if (t != UREF_DATE_NONE) printf(" sys=%d:%" PRIu64, t, d);
    uref_clock_get_date_prog(uref, &d, &t);
    if (t != UREF_DATE_NONE) printf(" prog=%d:%" PRIu64, t, d);
    uref_clock_get_date_orig(uref, &d, &t);
    if (t != UREF_DATE_NONE) printf(" orig=%d:%" PRIu64, t, d);
    if (uref->dts_pts_delay != UINT64_MAX) printf(" dp=%" PRIu64, uref->dts_pts_delay);
    if (uref->cr_dts_delay != UINT64_MAX) printf(" cd=%" PRIu64, uref->cr_dts_delay);
    if (uref->rap_cr_delay != UINT64_MAX) printf(" rc=%" PRIu64, uref->rap_cr_delay);
    if (uref->flags) printf(" flags=%" PRIx64, uref->flags);
}

static void xsink_input(struct upipe *upipe, struct uref *uref, struct upump **upump_p)
{
    printf("sink %s input", pipe_name(upipe));
    size_t size = 0;
    if (uref->ubuf != NULL && ubase_check(uref_block_size(uref, &size))) {
        printf(" size=%zu hex=", size);
        if (size == 0) printf("-");
        uint32_t h = 2166136261u;
        int off = 0, shown = 0;
        while (off < (int)size) {
            int sz = -1;
            const uint8_t *buf;
            if (!ubase_check(uref_block_read(uref, off, &sz, &buf))) { printf("!"); break; }
            for (int i = 0; i < sz; i++) {
                h = (h ^ buf[i]) * 16777619u;
                if (shown < 48) { printf("%02x", buf[i]); shown++; }
            }
            uref_block_unmap(uref, off);
            off += sz;
        }
        if (size > 48) printf("..sum=%08x", h);
    } else if (uref->ubuf != NULL)
        printf(" ubuf=other");
    else
        printf(" ubuf=none");
    dump_dates(uref);
    dump_attrs(uref);
    printf("\n");
    uref_free(uref);
}

static int xsink_control(struct upipe *upipe, int command, va_list args)
{
    switch (command) {
    case UPIPE_SET_FLOW_DEF: {
        struct uref *fd = va_arg(args, struct uref *);
        printf("sink %s set_flow_def", pipe_name(upipe));
        if (fd == NULL) { printf(" null\n"); return UBASE_ERR_INVALID; }
        dump_dates(fd);
        dump_attrs(fd);
        printf("\n");
        return UBASE_ERR_NONE;
    }
    case UPIPE_REGISTER_REQUEST: {
        struct urequest *r = va_arg(args, struct urequest *);
        switch (r->type) {
        case UREQUEST_UREF_MGR: case UREQUEST_UBUF_MGR: case UREQUEST_UCLOCK:
        case UREQUEST_FLOW_FORMAT: case UREQUEST_SINK_LATENCY:
            c20_env();
            return provide(r, pipe_name(upipe));
        default:
            return upipe_throw_provide_request(upipe, r);
        }
    }
    case UPIPE_UNREGISTER_REQUEST:
        return UBASE_ERR_NONE;
    case UPIPE_FLUSH:
        printf("sink %s flush\n", pipe_name(upipe));
        return UBASE_ERR_NONE;
    default:
        return UBASE_ERR_UNHANDLED;
    }
}

static struct upipe *xsink_alloc(struct upipe_mgr *mgr, struct uprobe *uprobe,
                                 uint32_t signature, va_list args)
{
    struct xsink *s = malloc(sizeof(*s));
    if (s == NULL) return NULL;
    upipe_init(&s->upipe, mgr, uprobe);
    xsink_init_urefcount(&s->upipe);
    upipe_throw_ready(&s->upipe);
    return &s->upipe;
}

static void xsink_free(struct upipe *upipe)
{
    struct xsink *s = xsink_from_upipe(upipe);
    upipe_throw_dead(upipe);
    xsink_clean_urefcount(upipe);
    upipe_clean(upipe);
    free(s);
}

static struct upipe_mgr xsink_mgr = {
    .refcount = NULL, .signature = 0x78736e6b,
    .upipe_alloc = xsink_alloc, .upipe_input = xsink_input, .upipe_control = xsink_control,
};
static struct upipe_mgr *xsink_mgr_alloc(void) { return &xsink_mgr; }

/* ------------------------------------------------- pipe types */
static void post_multicat_sink(struct upipe *up)
{
    struct upipe_mgr *fsink = upipe_fsink_mgr_alloc();
    upipe_multicat_sink_set_fsink_mgr(up, fsink);
    upipe_mgr_release(fsink);
}

WTYPE(idem, upipe_idem_mgr_alloc, W_VOID)
WTYPE(skip, upipe_skip_mgr_alloc, W_VOID)
WTYPE(delay, upipe_delay_mgr_alloc, W_VOID)
WTYPE(agg, upipe_agg_mgr_alloc, W_VOID)
WTYPE(chunk_stream, upipe_chunk_stream_mgr_alloc, W_VOID)
WTYPE(setattr, upipe_setattr_mgr_alloc, W_VOID)
WTYPE(setflowdef, upipe_setflowdef_mgr_alloc, W_VOID)
WTYPE(setrap, upipe_setrap_mgr_alloc, W_VOID)
WTYPE(genaux, upipe_genaux_mgr_alloc, W_VOID)
WTYPE(probe_uref, upipe_probe_uref_mgr_alloc, W_VOID)
WTYPE(noclock, upipe_noclock_mgr_alloc, W_VOID)
WTYPE(multicat_probe, upipe_multicat_probe_mgr_alloc, W_VOID)
WTYPE(buffer, upipe_buffer_mgr_alloc, W_VOID)
WTYPE(time_limit, upipe_time_limit_mgr_alloc, W_VOID)
WTYPE(rate_limit, upipe_rate_limit_mgr_alloc, W_VOID)
WTYPE(trickp, upipe_trickp_mgr_alloc, W_VOID)
WTYPE(disblo, upipe_disblo_mgr_alloc, W_VOID)
WTYPE(qsrc, upipe_qsrc_mgr_alloc, W_QSRC)
WTYPE(qsink, upipe_qsink_mgr_alloc, W_QSINK)
WTYPE(even, upipe_even_mgr_alloc, W_VOID)
WTYPE(stream_switcher, upipe_stream_switcher_mgr_alloc, W_VOID)
WTYPE(crop, upipe_crop_mgr_alloc, W_VOID)
WTYPE(videocont, upipe_videocont_mgr_alloc, W_VOID)
WTYPE(fsink, upipe_fsink_mgr_alloc, W_VOID)
WTYPE(fsrc, upipe_fsrc_mgr_alloc, W_VOID)
WTYPE(multicat_sink, upipe_multicat_sink_mgr_alloc, W_VOID)
WTYPE(ts_sync, upipe_ts_sync_mgr_alloc, W_VOID)
WTYPE(ts_check, upipe_ts_check_mgr_alloc, W_VOID)

static const struct pipe_type c20_types[] = {
    { "xsink", xsink_mgr_alloc, NULL, NULL },
    { "c.idem", w_idem, NULL, NULL },
    { "c.skip", w_skip, NULL, NULL },
    { "c.delay", w_delay, NULL, NULL },
    { "c.agg", w_agg, NULL, NULL },
    { "c.chunk_stream", w_chunk_stream, NULL, NULL },
    { "c.setattr", w_setattr, NULL, NULL },
    { "c.setflowdef", w_setflowdef, NULL, NULL },
    { "c.setrap", w_setrap, NULL, NULL },
    { "c.genaux", w_genaux, NULL, NULL },
    { "c.probe_uref", w_probe_uref, NULL, NULL },
    { "c.noclock", w_noclock, NULL, NULL },
    { "c.multicat_probe", w_multicat_probe, NULL, NULL },
    { "c.buffer", w_buffer, NULL, NULL },
    { "c.time_limit", w_time_limit, NULL, NULL },
    { "c.rate_limit", w_rate_limit, NULL, NULL },
    { "c.trickp", w_trickp, NULL, NULL },
    { "c.disblo", w_disblo, NULL, NULL },
    { "c.qsrc", w_qsrc, NULL, NULL },
    { "c.qsink", w_qsink, NULL, NULL },
    { "c.even", w_even, NULL, NULL },
    { "c.stream_switcher", w_stream_switcher, NULL, NULL },
    { "c.crop", w_crop, NULL, NULL },
    { "c.videocont", w_videocont, NULL, NULL },
    { "c.fsink", w_fsink, NULL, NULL },
    { "c.fsrc", w_fsrc, NULL, NULL },
    { "c.multicat_sink", w_multicat_sink, NULL, post_multicat_sink },
    { "c.ts_sync", w_ts_sync, NULL, NULL },
    { "c.ts_check", w_ts_check, NULL, NULL },
    { NULL, NULL, NULL, NULL }
};

const struct pipe_type *pd_types_d(const char *name)
{
    for (int i = 0; c20_types[i].name; i++)
        if (!strcmp(c20_types[i].name, name)) return &c20_types[i];
    return NULL;
}

/* ------------------------------------------------- options */
#define PRESET 777777
static int g_sentinel;     /* address used as preset of pointer out-variables */
#define SENTINEL ((void *)&g_sentinel)

static bool is_type(const struct pipe_type *type, const char *n)
{
    return type != NULL && !strcmp(type->name + (type->name[0] == 'c' && type->name[1] == '.' ? 2 : 0), n);
}

static void ret_u64(int err, uint64_t v)
{
    if (ubase_check(err)) printf("ret 0 %" PRIu64 "\n", v); else printf("ret %d\n", err);
}

/* attribute dictionaries: "none" | T<tag> (x.tag) | D<def> (flow def block.<def>.) */
static struct uref *dict_parse(const char *value)
{
    if (value == NULL || !strcmp(value, "none")) return NULL;
    struct uref *d = uref_alloc_control(g_uref);
    if (value[0] == 'D') {
        char def[64];
        snprintf(def, sizeof(def), "block.%s.", value + 1);
        uref_flow_set_def(d, def);
    } else
        uref_attr_set_string(d, value + 1, UDICT_TYPE_STRING, "x.tag");
    return d;
}
static void dict_print(int err, struct uref *d)
{
    if (!ubase_check(err)) { printf("ret %d\n", err); return; }
    if (d == SENTINEL) { printf("ret 0 UNWRITTEN\n"); return; }
    if (d == NULL) { printf("ret 0 none\n"); return; }
    const char *v = NULL;
    if (ubase_check(uref_flow_get_def(d, &v)) && !strncmp(v, "block.", 6)) {
        printf("ret 0 D%.*s\n", (int)strlen(v + 6) - 1, v + 6);
    } else if (ubase_check(uref_attr_get_string(d, &v, UDICT_TYPE_STRING, "x.tag")))
        printf("ret 0 T%s\n", v);
    else
        printf("ret 0 dict\n");
}

typedef int (*getattr_fn)(struct uref *, uint64_t *);
static const struct { const char *name; getattr_fn fn; } getattrs[] = {
    { "cr_sys", uref_clock_get_cr_sys }, { "cr_prog", uref_clock_get_cr_prog },
    { "pts_sys", uref_clock_get_pts_sys }, { "dts_prog", uref_clock_get_dts_prog },
    { "pts_orig", uref_clock_get_pts_orig }, { "null", NULL }, { NULL, NULL }
};

static const char *nonull(const char *s) { return s ? s : "none"; }
static const char *tonull(const char *s) { return (s == NULL || !strcmp(s, "none")) ? NULL : s; }

bool pd_option_d(struct upipe *upipe, const struct pipe_type *type, bool set,
                 const char *name, const char *value)
{
    int err = UBASE_ERR_UNHANDLED;
    if (set && value == NULL) return false;
    /* ---- generic pairs of include/upipe/upipe.h */
    if (!strcmp(name, "output")) {
        if (set) {
            struct upipe *o = !strcmp(value, "null") ? NULL : find_any(value);
            if (o == NULL && strcmp(value, "null")) { printf("ret -1\n"); return true; }
            err = upipe_set_output(upipe, o);
        } else {
            struct upipe *o = SENTINEL;
            err = upipe_get_output(upipe, &o);
            if (ubase_check(err)) { printf("ret 0 %s\n", o == SENTINEL ? "UNWRITTEN" : pipe_name(o)); return true; }
        }
    } else if (!strcmp(name, "flow_def")) {
        if (set) {
            struct uref *fd = NULL;
            if (strcmp(value, "null")) {
                /* <def>[@<size>]: the definition, optionally announcing a block size */
                char def[96];
                snprintf(def, sizeof(def), "%s", value);
                char *at = strchr(def, '@');
                if (at) *at = 0;
                fd = uref_alloc_control(g_uref);
                uref_flow_set_def(fd, def);
                if (at) uref_block_flow_set_size(fd, strtoull(at + 1, NULL, 10));
            }
            err = upipe_set_flow_def(upipe, fd);
            uref_free(fd);
        } else {
            struct uref *fd = SENTINEL;
            err = upipe_get_flow_def(upipe, &fd);
            if (ubase_check(err)) { printf("ret 0 %s\n", fd == SENTINEL ? "UNWRITTEN" : fd_name(fd)); return true; }
        }
    } else if (!strcmp(name, "output_size")) {
        if (set) err = upipe_set_output_size(upipe, strtoul(value, NULL, 10));
        else { unsigned v = PRESET; err = upipe_get_output_size(upipe, &v); ret_u64(err, v); return true; }
    } else if (!strcmp(name, "max_length")) {
        if (set) err = upipe_set_max_length(upipe, strtoul(value, NULL, 10));
        else { unsigned v = PRESET; err = upipe_get_max_length(upipe, &v); ret_u64(err, v); return true; }
    } else if (!strcmp(name, "uri")) {
        if (set) err = upipe_set_uri(upipe, tonull(value));
        else { const char *v = SENTINEL; err = upipe_get_uri(upipe, &v);
               if (ubase_check(err)) { printf("ret 0 %s\n", v == SENTINEL ? "UNWRITTEN" : nonull(v)); return true; } }
    } else if (!strcmp(name, "position")) {
        if (set) err = upipe_src_set_position(upipe, strtoull(value, NULL, 10));
        else { uint64_t v = PRESET;
               /* the public wrapper takes the argument by value: call the command */
               err = upipe_control(upipe, UPIPE_SRC_GET_POSITION, &v); ret_u64(err, v); return true; }
    } else if (!strcmp(name, "range")) {
        if (set) { uint64_t o = 0, l = 0; sscanf(value, "%" SCNu64 ",%" SCNu64, &o, &l); err = upipe_src_set_range(upipe, o, l); }
        else { uint64_t o = PRESET, l = PRESET; err = upipe_src_get_range(upipe, &o, &l);
               if (ubase_check(err)) { printf("ret 0 %" PRIu64 ",%" PRIu64 "\n", o, l); return true; } }
    /* ---- module specific pairs */
    } else if (is_type(type, "skip") && !strcmp(name, "offset")) {
        if (set) err = upipe_skip_set_offset(upipe, strtoull(value, NULL, 10));
        else { size_t v = PRESET; err = upipe_skip_get_offset(upipe, &v); ret_u64(err, v); return true; }
    } else if (is_type(type, "delay") && !strcmp(name, "delay")) {
        if (set) err = upipe_delay_set_delay(upipe, strtoll(value, NULL, 10));
        else { int64_t v = PRESET; err = upipe_delay_get_delay(upipe, &v);
               if (ubase_check(err)) { printf("ret 0 %" PRId64 "\n", v); return true; } }
    } else if (is_type(type, "chunk_stream") && !strcmp(name, "mtu")) {
        if (set) { unsigned m = 0, a = 0; sscanf(value, "%u,%u", &m, &a); err = upipe_chunk_stream_set_mtu(upipe, m, a); }
        else { unsigned m = PRESET, a = PRESET; err = upipe_chunk_stream_get_mtu(upipe, &m, &a);
               if (ubase_check(err)) { printf("ret 0 %u,%u\n", m, a); return true; } }
    } else if (is_type(type, "setattr") && !strcmp(name, "dict")) {
        if (set) { struct uref *d = dict_parse(value); err = upipe_setattr_set_dict(upipe, d); uref_free(d); }
        else { struct uref *d = SENTINEL; err = upipe_setattr_get_dict(upipe, &d); dict_print(err, d); return true; }
    } else if (is_type(type, "setflowdef") && !strcmp(name, "dict")) {
        if (set) { struct uref *d = dict_parse(value); err = upipe_setflowdef_set_dict(upipe, d); uref_free(d); }
        else { struct uref *d = SENTINEL; err = upipe_setflowdef_get_dict(upipe, &d); dict_print(err, d); return true; }
    } else if (is_type(type, "setrap") && !strcmp(name, "rap")) {
        if (set) err = upipe_setrap_set_rap(upipe, strtoull(value, NULL, 10));
        else { uint64_t v = PRESET; err = upipe_setrap_get_rap(upipe, &v); ret_u64(err, v); return true; }
    } else if (is_type(type, "genaux") && !strcmp(name, "getattr")) {
        if (set) {
            err = UBASE_ERR_INVALID;
            for (int i = 0; getattrs[i].name; i++)
                if (!strcmp(getattrs[i].name, value)) err = upipe_genaux_set_getattr(upipe, getattrs[i].fn);
        } else {
            getattr_fn fn = (getattr_fn)SENTINEL;
            err = upipe_genaux_get_getattr(upipe, &fn);
            if (ubase_check(err)) {
                const char *n = fn == (getattr_fn)SENTINEL ? "UNWRITTEN" : "other";
                for (int i = 0; getattrs[i].name; i++) if (getattrs[i].fn == fn) n = getattrs[i].name;
                printf("ret 0 %s\n", n);
                return true;
            }
        }
    } else if (is_type(type, "multicat_probe") && !strcmp(name, "rotate")) {
        if (set) { uint64_t r = 0, o = 0; sscanf(value, "%" SCNu64 ",%" SCNu64, &r, &o); err = upipe_multicat_probe_set_rotate(upipe, r, o); }
        else { uint64_t r = PRESET, o = PRESET; err = upipe_multicat_probe_get_rotate(upipe, &r, &o);
               if (ubase_check(err)) { printf("ret 0 %" PRIu64 ",%" PRIu64 "\n", r, o); return true; } }
    } else if (is_type(type, "multicat_sink") && !strcmp(name, "rotate")) {
        if (set) { uint64_t r = 0, o = 0; sscanf(value, "%" SCNu64 ",%" SCNu64, &r, &o); err = upipe_multicat_sink_set_rotate(upipe, r, o); }
        else { uint64_t r = PRESET, o = PRESET; err = upipe_multicat_sink_get_rotate(upipe, &r, &o);
               if (ubase_check(err)) { printf("ret 0 %" PRIu64 ",%" PRIu64 "\n", r, o); return true; } }
    } else if (is_type(type, "multicat_sink") && !strcmp(name, "path")) {
        /* value: <dir>,<suffix> */
        if (set) {
            char buf[256];
            snprintf(buf, sizeof(buf), "%s", value);
            char *comma = strchr(buf, ',');
            if (comma) *comma = 0;
            if (!strcmp(buf, "none")) err = upipe_multicat_sink_set_path(upipe, NULL, NULL);
            else err = upipe_multicat_sink_set_path(upipe, buf, comma ? comma + 1 : "");
        } else {
            const char *p = SENTINEL, *s = SENTINEL;
            err = upipe_multicat_sink_get_path(upipe, &p, &s);
            if (ubase_check(err)) {
                if (p == NULL && s == NULL) printf("ret 0 none\n");
                else printf("ret 0 %s,%s\n", p == SENTINEL ? "UNWRITTEN" : nonull(p), s == SENTINEL ? "UNWRITTEN" : nonull(s));
                return true;
            }
        }
    } else if ((is_type(type, "multicat_sink") || is_type(type, "fsink")) && !strcmp(name, "sync_period")) {
        if (set) err = upipe_fsink_set_sync_period(upipe, strtoull(value, NULL, 10));
        else { uint64_t v = PRESET; err = upipe_fsink_get_sync_period(upipe, &v); ret_u64(err, v); return true; }
    } else if (is_type(type, "fsink") && !strcmp(name, "path")) {
        /* value: <path>[,<mode>]  mode: a(ppend) o(verwrite) c(reate) x(invalid mode) */
        if (set) {
            char buf[256];
            snprintf(buf, sizeof(buf), "%s", value);
            char *comma = strchr(buf, ',');
            enum upipe_fsink_mode mode = UPIPE_FSINK_OVERWRITE;
            if (comma) {
                *comma = 0;
                mode = comma[1] == 'a' ? UPIPE_FSINK_APPEND : comma[1] == 'c' ? UPIPE_FSINK_CREATE :
                       comma[1] == 'x' ? (enum upipe_fsink_mode)77 : UPIPE_FSINK_OVERWRITE;
            }
            err = upipe_fsink_set_path(upipe, tonull(buf), mode);
        } else {
            const char *p = SENTINEL;
            err = upipe_fsink_get_path(upipe, &p);
            if (ubase_check(err)) { printf("ret 0 %s\n", p == SENTINEL ? "UNWRITTEN" : nonull(p)); return true; }
        }
    } else if (is_type(type, "buffer") && !strcmp(name, "max_size")) {
        if (set) err = upipe_buffer_set_max_size(upipe, strtoull(value, NULL, 10));
        else { uint64_t v = PRESET; err = upipe_buffer_get_max_size(upipe, &v); ret_u64(err, v); return true; }
    } else if (is_type(type, "buffer") && !strcmp(name, "low")) {
        if (set) err = upipe_buffer_set_low_limit(upipe, strtoull(value, NULL, 10));
        else { uint64_t v = PRESET; err = upipe_buffer_get_low_limit(upipe, &v); ret_u64(err, v); return true; }
    } else if (is_type(type, "buffer") && !strcmp(name, "high")) {
        if (set) err = upipe_buffer_set_high_limit(upipe, strtoull(value, NULL, 10));
        else { uint64_t v = PRESET; err = upipe_buffer_get_high_limit(upipe, &v); ret_u64(err, v); return true; }
    } else if (is_type(type, "time_limit") && !strcmp(name, "limit")) {
        if (set) err = upipe_time_limit_set_limit(upipe, strtoull(value, NULL, 10));
        else { uint64_t v = PRESET; err = upipe_time_limit_get_limit(upipe, &v); ret_u64(err, v); return true; }
    } else if (is_type(type, "rate_limit") && !strcmp(name, "limit")) {
        if (set) err = upipe_rate_limit_set_limit(upipe, strtoull(value, NULL, 10));
        else { uint64_t v = PRESET; err = upipe_rate_limit_get_limit(upipe, &v); ret_u64(err, v); return true; }
    } else if (is_type(type, "rate_limit") && !strcmp(name, "duration")) {
        if (set) err = upipe_rate_limit_set_duration(upipe, strtoull(value, NULL, 10));
        else { uint64_t v = PRESET; err = upipe_rate_limit_get_duration(upipe, &v); ret_u64(err, v); return true; }
    } else if (is_type(type, "trickp") && !strcmp(name, "rate")) {
        if (set) { struct urational r = { 0, 0 }; sscanf(value, "%" SCNd64 "/%" SCNu64, &r.num, &r.den); err = upipe_trickp_set_rate(upipe, r); }
        else { struct urational r = { PRESET, PRESET }; err = upipe_trickp_get_rate(upipe, &r);
               if (ubase_check(err)) { printf("ret 0 %" PRId64 "/%" PRIu64 "\n", r.num, r.den); return true; } }
    } else if (is_type(type, "ts_sync") && !strcmp(name, "sync")) {
        if (set) err = upipe_ts_sync_set_sync(upipe, atoi(value));
        else { int v = PRESET; err = upipe_ts_sync_get_sync(upipe, &v);
               if (ubase_check(err)) { printf("ret 0 %d\n", v); return true; } }
    } else if (is_type(type, "crop") && !strcmp(name, "rect")) {
        if (set) { int64_t l = 0, r = 0, t = 0, b = 0; sscanf(value, "%" SCNd64 ",%" SCNd64 ",%" SCNd64 ",%" SCNd64, &l, &r, &t, &b);
                   err = upipe_crop_set_rect(upipe, l, r, t, b); }
        else { int64_t l = PRESET, r = PRESET, t = PRESET, b = PRESET; err = upipe_crop_get_rect(upipe, &l, &r, &t, &b);
               if (ubase_check(err)) { printf("ret 0 %" PRId64 ",%" PRId64 ",%" PRId64 ",%" PRId64 "\n", l, r, t, b); return true; } }
    } else if (is_type(type, "videocont") && !strcmp(name, "input")) {
        if (set) err = upipe_videocont_set_input(upipe, tonull(value));
        else { const char *v = SENTINEL; err = upipe_videocont_get_input(upipe, &v);
               if (ubase_check(err)) { printf("ret 0 %s\n", v == SENTINEL ? "UNWRITTEN" : nonull(v)); return true; } }
    } else if (is_type(type, "videocont") && !strcmp(name, "tolerance")) {
        if (set) err = upipe_videocont_set_tolerance(upipe, strtoull(value, NULL, 10));
        else { uint64_t v = PRESET; err = upipe_videocont_get_tolerance(upipe, &v); ret_u64(err, v); return true; }
    } else if (is_type(type, "videocont") && !strcmp(name, "latency")) {
        if (set) err = upipe_videocont_set_latency(upipe, strtoull(value, NULL, 10));
        else { uint64_t v = PRESET; err = upipe_videocont_get_latency(upipe, &v); ret_u64(err, v); return true; }
    } else
        return false;
    printf("ret %d\n", err);
    return true;
}

/* ------------------------------------------------- commands */
static void set_date(struct uref *u, const char *k, uint64_t v)
{
    if (!strcmp(k, "cr_sys")) uref_clock_set_cr_sys(u, v);
    else if (!strcmp(k, "cr_prog")) uref_clock_set_cr_prog(u, v);
    else if (!strcmp(k, "cr_orig")) uref_clock_set_cr_orig(u, v);
    else if (!strcmp(k, "dts_sys")) uref_clock_set_dts_sys(u, v);
    else if (!strcmp(k, "dts_prog")) uref_clock_set_dts_prog(u, v);
    else if (!strcmp(k, "dts_orig")) uref_clock_set_dts_orig(u, v);
    else if (!strcmp(k, "pts_sys")) uref_clock_set_pts_sys(u, v);
    else if (!strcmp(k, "pts_prog")) uref_clock_set_pts_prog(u, v);
    else if (!strcmp(k, "pts_orig")) uref_clock_set_pts_orig(u, v);
    else if (!strcmp(k, "rap_sys")) uref_clock_set_rap_sys(u, v);
    else if (!strcmp(k, "dp")) uref_clock_set_dts_pts_delay(u, v);
    else if (!strcmp(k, "cd")) uref_clock_set_cr_dts_delay(u, v);
    else if (!strcmp(k, "dur")) uref_clock_set_duration(u, v);
}

bool pd_ext_d(int nt, char **tok)
{
    const char *c = tok[0];
    if (!strcmp(c, "c20reset")) {
        bool zombies = false;
        /* a run that left something behind must not disturb the next one: release the
         * handles, hide what is still alive (its slot holds the probe) and say so */
        for (int i = 0; i < MAXOBJ; i++)
            if (pipes[i].name[0] && pipes[i].name[0] != '~' && pipes[i].upipe != NULL) {
                struct upipe *u = pipes[i].upipe;
                pipes[i].upipe = NULL;
                printf("note unreleased %s\n", pipes[i].name);
                upipe_release(u);
            }
        for (int i = 0; i < MAXOBJ; i++) {
            if (!pipes[i].name[0] || pipes[i].name[0] == '~') continue;
            if (pipes[i].alive) { printf("note zombie %s\n", pipes[i].name); strcpy(pipes[i].name, "~"); zombies = true; }
            else pipes[i].name[0] = 0;
        }
        for (int i = 0; i < MAXOBJ; i++)
            if (sinks[i].used && sinks[i].dead) sinks[i].used = false;
        if (!zombies) nwprobes = 0;
        g_last_qsrc = NULL;
        if (g_vloop != NULL) {
            struct vloop_pump_info info[4];
            size_t n = vloop_pumps(g_vloop, info, 4);
            if (n) printf("note pumps_left %zu\n", n);
            upump_mgr_release(g_vloop);
            g_vloop = NULL;
        }
        c20_env();
        tmp_enter();
        printf("ret 0\n");
        return true;
    }
    if (!strcmp(c, "c20ls")) {
        struct dirent **list = NULL;
        int n = g_tmp[0] ? scandir(g_tmp, &list, NULL, alphasort) : 0;
        for (int i = 0; i < n; i++) {
            if (list[i]->d_name[0] != '.') {
                FILE *f = fopen(list[i]->d_name, "rb");
                printf("sink file %s hex=", list[i]->d_name);
                int ch, k = 0;
                while (f != NULL && (ch = fgetc(f)) != EOF && k++ < 256) printf("%02x", ch);
                if (f != NULL) fclose(f);
                printf(" n=%d\n", k);
            }
            free(list[i]);
        }
        free(list);
        printf("ret 0\n");
        return true;
    }
    if (!strcmp(c, "c20in") && nt >= 4) {
        struct upipe *up = find_any(tok[1]);
        if (!up) { printf("ret -1\n"); return true; }
        unsigned id = atoi(tok[2]);
        uint8_t *data;
        size_t size;
        if (!strncmp(tok[3], "ts:", 3)) {
            /* n TS-like packets: sync byte then a pattern */
            int n = atoi(tok[3] + 3);
            size = (size_t)n * 188;
            data = malloc(size + 1);
            for (size_t i = 0; i < size; i++) data[i] = (i % 188 == 0) ? 0x47 : (uint8_t)(1 + (id * 7 + i) % 0x40);
        } else if (!strncmp(tok[3], "hex:", 4)) {
            const char *hex = tok[3] + 4;
            size = strlen(hex) / 2;
            data = malloc(size + 1);
            for (size_t i = 0; i < size; i++) { unsigned b = 0; sscanf(hex + 2 * i, "%2x", &b); data[i] = (uint8_t)b; }
        } else {
            size = atoi(tok[3]);
            data = malloc(size + 1);
            for (size_t i = 0; i < size; i++) data[i] = (uint8_t)(id * 7 + i);
        }
        struct uref *u = make_block(data, size, 1);
        free(data);
        uref_attr_set_unsigned(u, id, UDICT_TYPE_UNSIGNED, "x.id");
        for (int k = 4; k < nt; k++) {
            char *eq = strchr(tok[k], '=');
            if (eq) {
                *eq = 0;
                if (!strcmp(tok[k], "tag")) uref_attr_set_string(u, eq + 1, UDICT_TYPE_STRING, "x.tag");
                else set_date(u, tok[k], strtoull(eq + 1, NULL, 10));
            } else if (!strcmp(tok[k], "disc")) uref_flow_set_discontinuity(u);
            else if (!strcmp(tok[k], "start")) uref_block_set_start(u);
            else if (!strcmp(tok[k], "random")) uref_flow_set_random(u);
        }
        upipe_input(up, u, NULL);
        printf("ret 0\n");
        return true;
    }
    if (!strcmp(c, "c20run")) {
        c20_env();
        vloop_run(g_vloop, nt > 1 ? atoi(tok[1]) : 64);
        printf("ret 0\n");
        return true;
    }
    if (!strcmp(c, "c20adv") && nt >= 2) {
        c20_env();
        vloop_run(g_vloop, 64);
        vloop_advance(g_vloop, strtoull(tok[1], NULL, 10), 256);
        vloop_run(g_vloop, 64);
        printf("ret 0\n");
        return true;
    }
    if (!strcmp(c, "c20fd") && nt >= 3) {
        struct upipe *up = find_any(tok[1]);
        if (!up) { printf("ret -1\n"); return true; }
        struct uref *fd = NULL;
        if (!strncmp(tok[2], "pic", 3)) {
            /* pic[:hsize,vsize] one 8-bit plane */
            unsigned h = 32, v = 16;
            if (tok[2][3] == ':') sscanf(tok[2] + 4, "%u,%u", &h, &v);
            fd = uref_pic_flow_alloc_def(g_uref, 1);
            uref_pic_flow_add_plane(fd, 1, 1, 1, "y8");
            uref_pic_flow_set_hsize(fd, h);
            uref_pic_flow_set_vsize(fd, v);
        } else {
            fd = uref_alloc_control(g_uref);
            uref_flow_set_def(fd, tok[2]);
        }
        int err = upipe_set_flow_def(up, fd);
        uref_free(fd);
        printf("ret %d\n", err);
        return true;
    }
    if (!strcmp(c, "c20file") && nt >= 3) {
        FILE *f = fopen(tok[1], "wb");
        if (!f) { printf("ret -1\n"); return true; }
        if (strcmp(tok[2], "-"))
            for (size_t i = 0; i + 1 < strlen(tok[2]); i += 2) { unsigned b = 0; sscanf(tok[2] + i, "%2x", &b); fputc(b, f); }
        fclose(f);
        printf("ret 0\n");
        return true;
    }
    return false;
}
