/* replay_ubufreq: a pipe made ONLY of the repository's helper macro UPIPE_HELPER_UBUF_MGR
 * (include/upipe/upipe_helper_ubuf_mgr.h) whose buffer manager request is answered several times, with the
 * same or another manager and the same or another flow format (C12: "... the answer reaches the original
 * requester; ... every still-registered request is ... re-issued to the new [output]" - a request that stays
 * registered is answered again by every new output).  Commands on stdin; one event per command for
 * spec/UbufMgrReq_Trace.tla.
 *   exec <id>           a new pipe
 *   require <f>         require_ubuf_mgr with flow format f (0..3)
 *   provide <m> <f>     the holder of the request answers it with manager m (0..2) and flow format f
 */
#include <stdio.h>
#include <stdlib.h>
#include <string.h>
#include <stdbool.h>
#include <stdarg.h>
#include <assert.h>

#include "upipe/ubase.h"
#include "upipe/urefcount.h"
#include "upipe/uprobe.h"
#include "upipe/umem.h"
#include "upipe/umem_alloc.h"
#include "upipe/udict.h"
#include "upipe/udict_inline.h"
#include "upipe/ubuf.h"
#include "upipe/ubuf_block_mem.h"
#include "upipe/uref.h"
#include "upipe/uref_std.h"
#include "upipe/uref_flow.h"
#include "upipe/uref_block_flow.h"
#include "upipe/urequest.h"
#include "upipe/upipe.h"
#include "upipe/upipe_helper_upipe.h"
#include "upipe/upipe_helper_urefcount.h"
#include "upipe/upipe_helper_void.h"
#include "upipe/upipe_helper_ubuf_mgr.h"

#define NMGR 3
#define NFMT 4

static struct umem_mgr *umem_mgr;
static struct udict_mgr *udict_mgr;
static struct uref_mgr *uref_mgr;
static struct ubuf_mgr *mgrs[NMGR];

static char evs[1024];
static void ev_add(const char *fmt, ...)
{
    size_t n = strlen(evs);
    if (n) { evs[n++] = ','; evs[n] = 0; }
    va_list ap;
    va_start(ap, fmt);
    vsnprintf(evs + n, sizeof(evs) - n, fmt, ap);
    va_end(ap);
}

/* flow format f: "block." with the latency attribute f + 1 (distinguishable by content, same definition) */
static struct uref *fmt_uref(int f)
{
    struct uref *u = uref_block_flow_alloc_def(uref_mgr, NULL);
    assert(u != NULL);
    ubase_assert(uref_block_flow_set_align(u, (uint64_t)(16 << f)));
    return u;
}
static int fmt_id(struct uref *u)
{
    uint64_t a = 0;
    if (u == NULL || !ubase_check(uref_block_flow_get_align(u, &a))) return -1;
    for (int f = 0; f < NFMT; f++)
        if (a == (uint64_t)(16 << f)) return f;
    return -1;
}
static int mgr_id(struct ubuf_mgr *m)
{
    for (int i = 0; i < NMGR; i++)
        if (mgrs[i] == m) return i;
    return -1;
}

struct vrq {
    struct upipe upipe;
    struct urefcount urefcount;
    struct ubuf_mgr *ubuf_mgr;
    struct uref *flow_format;
    struct urequest request;
};
static int vrq_check(struct upipe *upipe, struct uref *flow_format);
static int vrq_reg(struct upipe *upipe, struct urequest *urequest);
static int vrq_unreg(struct upipe *upipe, struct urequest *urequest);
UPIPE_HELPER_UPIPE(vrq, upipe, 0x76727132)
UPIPE_HELPER_UREFCOUNT(vrq, urefcount, vrq_free)
UPIPE_HELPER_VOID(vrq)
UPIPE_HELPER_UBUF_MGR(vrq, ubuf_mgr, flow_format, request, vrq_check, vrq_reg, vrq_unreg)

/* the "downstream": whoever holds the registered request */
static struct urequest *held;
static int vrq_check(struct upipe *upipe, struct uref *flow_format)
{
    ev_add("[\"chk\",\"f%d\"]", fmt_id(flow_format));
    uref_free(flow_format);
    return UBASE_ERR_NONE;
}
static int vrq_reg(struct upipe *upipe, struct urequest *urequest)
{
    ev_add("[\"reg\",\"f%d\"]", fmt_id(urequest->uref));
    held = urequest;
    return UBASE_ERR_NONE;
}
static int vrq_unreg(struct upipe *upipe, struct urequest *urequest)
{
    ev_add("[\"unreg\"]");
    held = NULL;
    return UBASE_ERR_NONE;
}
static struct upipe *vrq_alloc(struct upipe_mgr *mgr, struct uprobe *uprobe, uint32_t sig, va_list args)
{
    struct upipe *upipe = vrq_alloc_void(mgr, uprobe, sig, args);
    if (upipe == NULL) return NULL;
    vrq_init_urefcount(upipe);
    vrq_init_ubuf_mgr(upipe);
    upipe_throw_ready(upipe);
    return upipe;
}
static void vrq_free(struct upipe *upipe)
{
    upipe_throw_dead(upipe);
    vrq_clean_ubuf_mgr(upipe);
    vrq_clean_urefcount(upipe);
    vrq_free_void(upipe);
}
static struct upipe_mgr vrq_mgr = { .signature = 0x76727132, .upipe_alloc = vrq_alloc };

static int catch(struct uprobe *uprobe, struct upipe *upipe, int event, va_list args) { return UBASE_ERR_NONE; }
static struct uprobe probe;
static struct upipe *pipe_;

int main(void)
{
    char line[128], c[16];
    setvbuf(stdout, NULL, _IOFBF, 1 << 16);
    umem_mgr = umem_alloc_mgr_alloc();
    udict_mgr = udict_inline_mgr_alloc(0, umem_mgr, -1, -1);
    uref_mgr = uref_std_mgr_alloc(0, udict_mgr, 0);
    for (int i = 0; i < NMGR; i++) {
        mgrs[i] = ubuf_block_mem_mgr_alloc(0, 0, umem_mgr, 0, 0, 0, 0);
        assert(mgrs[i] != NULL);
    }
    uprobe_init(&probe, catch, NULL);
    while (fgets(line, sizeof(line), stdin)) {
        int a = 0, b = 0;
        if (sscanf(line, "%15s %d %d", c, &a, &b) < 1) continue;
        evs[0] = 0;
        if (!strcmp(c, "exec")) {
            if (pipe_ != NULL) upipe_release(pipe_);
            held = NULL;
            pipe_ = upipe_void_alloc(&vrq_mgr, uprobe_use(&probe));
            assert(pipe_ != NULL);
            printf("{\"e\":\"Reset\",\"id\":%d}\n", a);
        } else if (!strcmp(c, "require")) {
            vrq_require_ubuf_mgr(pipe_, fmt_uref(a));
            printf("{\"e\":\"Require\",\"f\":\"f%d\",\"evs\":[%s]}\n", a, evs);
        } else if (!strcmp(c, "provide")) {
            struct vrq *s = vrq_from_upipe(pipe_);
            int err = -1;
            if (held != NULL)
                err = urequest_provide_ubuf_mgr(held, ubuf_mgr_use(mgrs[a]), fmt_uref(b));
            int hm = mgr_id(s->ubuf_mgr), hf = fmt_id(s->flow_format);
            printf("{\"e\":\"Provide\",\"m\":\"m%d\",\"f\":\"f%d\",\"evs\":[%s],\"ret\":%d,", a, b, evs, err);
            if (hm >= 0) printf("\"hm\":\"m%d\",", hm); else printf("\"hm\":\"none\",");
            if (hf >= 0) printf("\"hf\":\"f%d\"}\n", hf); else printf("\"hf\":\"none\"}\n");
        }
    }
    if (pipe_ != NULL) upipe_release(pipe_);
    uprobe_clean(&probe);
    for (int i = 0; i < NMGR; i++) ubuf_mgr_release(mgrs[i]);
    uref_mgr_release(uref_mgr);
    udict_mgr_release(udict_mgr);
    umem_mgr_release(umem_mgr);
    return 0;
}
