/* replay_ts: command interpreter over the REAL pipes upipe_ts_decaps,
 * upipe_ts_pes_decaps, upipe_ts_pes_encaps and upipe_ts_encaps (C15;
 * DESIGN.md 4/C15), compiled against the clean-room biTStream shim.
 *
 * The script is read from stdin, one command per line; every command prints
 * event lines on stdout.  checks/c15.py turns them into ndjson events judged
 * by spec/TsPackets_Trace.tla, and compares them textually with the
 * behaviours predicted by spec/TsPackets.tla.  There is no oracle here: the
 * harness serializes abstract packets / PES packets into octets with its OWN
 * serializer (written from ISO/IEC 13818-1 2.4.3.2, 2.4.3.4, 2.4.3.6; it does
 * not use the shim), parses emitted packets with its own parser, and reports
 * what the sinks received.
 *
 *   exec <id>                         start of an execution (fresh pipes)
 *   mode D                            ts_decaps -> sink
 *   mode P                            ts_pes_decaps -> sink
 *   mode X                            ts_decaps -> ts_pes_decaps -> sink (corrupt input)
 *   mode F                            ts_pid_filter -> ts_decaps -> sink
 *   mode S pids=a,b,..                ts_split with one output per listed PID (a PID
 *                                     may be listed twice), each -> ts_decaps -> sink k
 *   addpid pid=<n> / delpid pid=<n>   (mode F)
 *   mode Q sid=<id> hdr=<n>           ts_pes_encaps -> ts_pes_decaps -> sink
 *   mode E pid= sid= cc= pcrint= hdr= octetrate= tbrate= align=
 *                                     ts_encaps -(splice)-> parser -> ts_decaps
 *                                     -> ts_pes_decaps -> sink
 *   pkt  [size= sync= tei= pusi= pid= scr= afc= cc= af= disc= rai= pcrf=
 *         pcrb= pcre= pay=<seed> seg=<k> flip=<i>:<x>[,..] trunc=<n>]
 *                                     (modes D, X) one TS packet; flip / trunc
 *                                     damage the octets afterwards (-> "raw")
 *   raw  hex=<octets> [seg=<k>]       (modes D, X) arbitrary octets as one buffer
 *   pes  sid= pad= ptsf= dtsf= pts= dts= n= pay= len=<auto|v> cut=a,b,.. lose=<k>
 *        [flip=.. seg=..]             (mode P) one PES packet, fed in chunks
 *   rawchunk start=<b> hex=<octets>   (mode P)
 *   au   n= pay= ptsf= pts= dtsf= dts= rap= disc= cr=<b>   (modes Q, E)
 *   idle dt=<ticks>                   (mode E) one splice although nothing is ready
 *   drain                             (mode E) splice while the pipe is ready
 *   eos                               (mode E)
 *   end
 *
 * Every buffer handed to a pipe lives in its own exactly-sized allocation
 * (ubuf_block_mem with no prepend / append / alignment over umem_alloc), so
 * that AddressSanitizer sees any access outside it.  Executions run in a
 * forked child: a sanitizer report / failed assertion / signal ends the
 * execution with a "san" event and the parent goes on with the next one.
 */
#undef NDEBUG
#include <stdio.h>
#include <stdlib.h>
#include <string.h>
#include <stdint.h>
#include <stdbool.h>
#include <inttypes.h>
#include <assert.h>
#include <unistd.h>
#include <signal.h>
#include <sys/mman.h>
#include <sys/wait.h>

#include "upipe/ubase.h"
#include "upipe/uprobe.h"
#include "upipe/umem.h"
#include "upipe/umem_alloc.h"
#include "upipe/udict.h"
#include "upipe/udict_inline.h"
#include "upipe/ubuf.h"
#include "upipe/ubuf_block.h"
#include "upipe/ubuf_block_mem.h"
#include "upipe/uref.h"
#include "upipe/uref_std.h"
#include "upipe/uref_flow.h"
#include "upipe/uref_block.h"
#include "upipe/uref_block_flow.h"
#include "upipe/uref_clock.h"
#include "upipe/uclock.h"
#include "upipe/urequest.h"
#include "upipe/upipe.h"
#include "upipe-ts/upipe_ts_decaps.h"
#include "upipe-ts/upipe_ts_split.h"
#include "upipe-ts/upipe_ts_pid_filter.h"
#include "upipe-ts/upipe_ts_pes_decaps.h"
#include "upipe-ts/upipe_ts_pes_encaps.h"
#include "upipe-ts/upipe_ts_encaps.h"
#include "upipe-ts/upipe_ts_mux.h"
#include "upipe-ts/uref_ts_flow.h"

#if defined(__SANITIZE_ADDRESS__)
const char *__asan_default_options(void) { return "detect_leaks=0:abort_on_error=0:symbolize=1"; }
#endif
const char *__ubsan_default_options(void) { return "print_stacktrace=0"; }

/* description strings of upipe_ts_mux.c (not built here; debugging aid only) */
const char *upipe_ts_mux_command_str(int cmd) { (void)cmd; return NULL; }
const char *upipe_ts_mux_event_str(int event) { (void)event; return NULL; }

#define MAXTOK 64
#define BASE_SYS   (UINT64_C(1) << 33)
#define PERIOD     UINT64_C(1080000)       /* 40 ms */
#define CR_DELAY   UINT64_C(2700000)       /* cr -> dts delay used with cr=1 */

static struct umem_mgr *umem_mgr;
static struct udict_mgr *udict_mgr;
static struct uref_mgr *uref_mgr;
static struct ubuf_mgr *ubuf_mgr;
static struct uprobe probe;

static char mode = 0;
#define MAXSUB 4
static struct upipe *sink, *decaps, *pesd, *pese, *encaps;
static struct upipe *pidf, *split, *subs[MAXSUB], *sub_decaps[MAXSUB], *sub_sinks[MAXSUB];
static int nsubs;
static struct upipe *ts_in;           /* where TS packets are fed */
static bool hexout;                   /* print the octets of every output */
static uint8_t *last_in;              /* copy of the last buffer fed (mode D) */
static size_t last_in_size;

/* mode E */
static uint64_t next_cr_sys = UINT64_MAX, next_dts_sys = UINT64_MAX, next_pcr_sys = UINT64_MAX;
static bool next_ready;
static uint64_t mux_sys, au_count;
static bool e_cr;

/* ------------------------------------------------------------- utilities */
static uint32_t crc32_of(const uint8_t *p, size_t n)
{
    uint32_t c = 0xffffffffu;
    for (size_t i = 0; i < n; i++) {
        c ^= p[i];
        for (int k = 0; k < 8; k++)
            c = (c >> 1) ^ (0xedb88320u & (-(c & 1)));
    }
    return ~c;
}
/* identity of a payload in the traces: never 0 */
static unsigned digest(const uint8_t *p, size_t n) { return (crc32_of(p, n) & 0x3fffffffu) + 1; }

/* payload octets of identity (seed, n) */
static void gen_payload(uint8_t *p, size_t n, unsigned seed)
{
    uint32_t x = seed * 2654435761u ^ ((uint32_t)n * 40503u) ^ 0x9e3779b9u;
    if (!x) x = 1;
    for (size_t i = 0; i < n; i++) {
        x ^= x << 13; x ^= x >> 17; x ^= x << 5;
        p[i] = (uint8_t)(x >> 11);
    }
}

static char *hexstr(const uint8_t *p, size_t n)
{
    char *s = malloc(2 * n + 2);
    if (!n) { strcpy(s, "-"); return s; }
    for (size_t i = 0; i < n; i++) sprintf(s + 2 * i, "%02x", p[i]);
    return s;
}
static size_t unhex(const char *s, uint8_t **out)
{
    size_t n = (!strcmp(s, "-")) ? 0 : strlen(s) / 2;
    uint8_t *p = malloc(n ? n : 1);
    for (size_t i = 0; i < n; i++) {
        unsigned v = 0;
        sscanf(s + 2 * i, "%2x", &v);
        p[i] = v;
    }
    *out = p;
    return n;
}

static const char *arg(int nt, char **tok, const char *key, const char *def)
{
    size_t kl = strlen(key);
    for (int i = 1; i < nt; i++)
        if (!strncmp(tok[i], key, kl) && tok[i][kl] == '=')
            return tok[i] + kl + 1;
    return def;
}
static long long argn(int nt, char **tok, const char *key, long long def)
{
    const char *v = arg(nt, tok, key, NULL);
    return v ? strtoll(v, NULL, 10) : def;
}
static uint64_t argu(int nt, char **tok, const char *key, uint64_t def)
{
    const char *v = arg(nt, tok, key, NULL);
    return v ? strtoull(v, NULL, 10) : def;
}

/* a block uref over exactly-sized allocations; seg > 0: two segments */
static struct uref *mk_uref(const uint8_t *p, size_t n, size_t seg)
{
    size_t first = (seg > 0 && seg < n) ? seg : n;
    struct uref *uref = uref_block_alloc(uref_mgr, ubuf_mgr, first);
    if (uref == NULL) { printf("err alloc %zu\n", first); exit(3); }
    if (first) {
        uint8_t *w; int size = -1;
        ubase_assert(uref_block_write(uref, 0, &size, &w));
        assert((size_t)size == first);
        memcpy(w, p, first);
        uref_block_unmap(uref, 0);
    }
    if (first < n) {
        struct ubuf *ubuf = ubuf_block_alloc(ubuf_mgr, n - first);
        assert(ubuf != NULL);
        uint8_t *w; int size = -1;
        ubase_assert(ubuf_block_write(ubuf, 0, &size, &w));
        memcpy(w, p + first, n - first);
        ubuf_block_unmap(ubuf, 0);
        ubase_assert(uref_block_append(uref, ubuf));
    }
    return uref;
}

static void remember_input(const uint8_t *p, size_t n)
{
    free(last_in);
    last_in = malloc(n ? n : 1);
    memcpy(last_in, p, n);
    last_in_size = n;
}

/* ------------------------------------------------------- probe and sink */
static int provide(struct urequest *req)
{
    switch (req->type) {
        case UREQUEST_UBUF_MGR:
            return urequest_provide_ubuf_mgr(req, ubuf_mgr_use(ubuf_mgr), uref_dup(req->uref));
        case UREQUEST_UREF_MGR:
            return urequest_provide_uref_mgr(req, uref_mgr_use(uref_mgr));
        case UREQUEST_FLOW_FORMAT:
            return urequest_provide_flow_format(req, uref_dup(req->uref));
        case UREQUEST_SINK_LATENCY:
            return urequest_provide_sink_latency(req, 0);
        default:
            return UBASE_ERR_UNHANDLED;
    }
}

static int catch(struct uprobe *uprobe, struct upipe *upipe, int event, va_list args)
{
    (void)uprobe; (void)upipe;
    switch (event) {
        case UPROBE_FATAL:
        case UPROBE_ERROR:
            printf("ev %s code=%d\n", event == UPROBE_FATAL ? "fatal" : "error", va_arg(args, int));
            return UBASE_ERR_NONE;
        case UPROBE_PROVIDE_REQUEST:
            return provide(va_arg(args, struct urequest *));
        case UPROBE_SYNC_ACQUIRED:
            printf("ev sync=1\n");
            return UBASE_ERR_NONE;
        case UPROBE_SYNC_LOST:
            printf("ev sync=0\n");
            return UBASE_ERR_NONE;
        case UPROBE_CLOCK_REF: {
            va_arg(args, struct uref *);
            uint64_t pcr = va_arg(args, uint64_t);
            int disc = va_arg(args, int);
            printf("ref pcr=%" PRIu64 " disc=%d\n", pcr, disc);
            return UBASE_ERR_NONE;
        }
        default:
            break;
    }
    if (event >= UPROBE_LOCAL) {
        unsigned int sig = va_arg(args, unsigned int);
        if (event == UPROBE_TS_ENCAPS_STATUS && sig == UPIPE_TS_ENCAPS_SIGNATURE) {
            next_cr_sys = va_arg(args, uint64_t);
            next_dts_sys = va_arg(args, uint64_t);
            next_pcr_sys = va_arg(args, uint64_t);
            next_ready = !!va_arg(args, int);
        }
    }
    return UBASE_ERR_NONE;
}

struct sinkp {
    struct upipe upipe;
    int idx;
};

static void record_out(struct uref *uref, int idx)
{
    size_t size = 0;
    uint8_t *buf = NULL;
    if (uref->ubuf != NULL && ubase_check(uref_block_size(uref, &size))) {
        buf = malloc(size ? size : 1);
        if (size && !ubase_check(uref_block_extract(uref, 0, size, buf))) {
            /* the block says `size` octets but they cannot be read */
            printf("out sink=%d broken=1 n=%zu\n", idx, size);
            free(buf);
            return;
        }
    } else {
        printf("out sink=%d nobuf=1\n", idx);
        return;
    }
    uint64_t dts = 0, del = 0;
    int dtsf = ubase_check(uref_clock_get_dts_orig(uref, &dts));
    int delf = ubase_check(uref_clock_get_dts_pts_delay(uref, &del));
    int suf = -1;
    if (mode == 'D' || mode == 'F' || mode == 'S')
        suf = last_in != NULL && size <= last_in_size &&
              (size == 0 || memmem(last_in, last_in_size, buf, size) != NULL);
    char *hex = hexout ? hexstr(buf, size) : NULL;
    printf("out sink=%d n=%zu pay=%u start=%d end=%d disc=%d rap=%d err=%d dtsf=%d dts=%" PRIu64
           " delf=%d del=%" PRIu64 " suf=%d hex=%s\n", idx, size, digest(buf, size),
           ubase_check(uref_block_get_start(uref)), ubase_check(uref_block_get_end(uref)),
           ubase_check(uref_flow_get_discontinuity(uref)), ubase_check(uref_flow_get_random(uref)),
           ubase_check(uref_flow_get_error(uref)), dtsf, dtsf ? dts : 0, delf, delf ? del : 0,
           suf, hex ? hex : "-");
    free(hex);
    free(buf);
}

static struct upipe *sink_alloc(struct upipe_mgr *mgr, struct uprobe *uprobe,
                                uint32_t signature, va_list args)
{
    (void)signature; (void)args;
    struct sinkp *sp = malloc(sizeof(struct sinkp));
    assert(sp != NULL);
    sp->idx = 0;
    upipe_init(&sp->upipe, mgr, uprobe);
    return &sp->upipe;
}
static void sink_input(struct upipe *upipe, struct uref *uref, struct upump **upump_p)
{
    (void)upump_p;
    record_out(uref, ((struct sinkp *)upipe)->idx);
    uref_free(uref);
}
static int sink_control(struct upipe *upipe, int command, va_list args)
{
    (void)upipe;
    switch (command) {
        case UPIPE_SET_FLOW_DEF:
            return UBASE_ERR_NONE;
        case UPIPE_REGISTER_REQUEST:
            return provide(va_arg(args, struct urequest *));
        case UPIPE_UNREGISTER_REQUEST:
            return UBASE_ERR_NONE;
        default:
            return UBASE_ERR_UNHANDLED;
    }
}
static struct upipe_mgr sink_mgr = {
    .refcount = NULL,
    .upipe_alloc = sink_alloc,
    .upipe_input = sink_input,
    .upipe_control = sink_control
};

/* --------------------------------------- reference serializer and parser */
struct tsf {
    long size, sync, tei, pusi, prio, pid, scr, afc, cc, af, disc, rai, pcrf, pcre, plen;
    uint64_t pcrb;
    unsigned pay;
};

/* ISO/IEC 13818-1 2.4.3.2 transport_packet(), 2.4.3.4 adaptation_field() */
static size_t ts_serialize(uint8_t *b, const struct tsf *f, unsigned seed)
{
    size_t o = 0;
    b[o++] = (uint8_t)f->sync;
    b[o++] = (uint8_t)((f->tei << 7) | (f->pusi << 6) | (f->prio << 5) | ((f->pid >> 8) & 0x1f));
    b[o++] = (uint8_t)(f->pid & 0xff);
    b[o++] = (uint8_t)((f->scr << 6) | (f->afc << 4) | (f->cc & 0xf));
    if (f->afc & 2) {
        b[o++] = (uint8_t)f->af;                       /* adaptation_field_length */
        size_t end = o + (size_t)f->af;
        if (f->af > 0) {
            b[o++] = (uint8_t)((f->disc << 7) | (f->rai << 6) | (f->pcrf << 4));
            if (f->pcrf && f->af >= 7) {
                /* program_clock_reference_base(33) reserved(6) extension(9) */
                uint64_t v = (f->pcrb << 15) | (UINT64_C(0x3f) << 9) | ((uint64_t)f->pcre & 0x1ff);
                for (int k = 5; k >= 0; k--)
                    b[o++] = (uint8_t)(v >> (8 * k));
            }
            while (o < end && o < (size_t)f->size)
                b[o++] = 0xff;                          /* stuffing_byte */
        }
    }
    if ((f->afc & 1) && o < (size_t)f->size) {
        gen_payload(b + o, f->size - o, seed);
        o = f->size;
    }
    while (o < (size_t)f->size)
        b[o++] = 0xff;
    return o;
}

static void ts_parse(const uint8_t *b, size_t size, struct tsf *f)
{
    memset(f, 0, sizeof(*f));
    f->size = size;
    f->af = -1;
    if (size < 4) { f->sync = size ? b[0] : -1; f->afc = 0; return; }
    f->sync = b[0];
    f->tei = b[1] >> 7;
    f->pusi = (b[1] >> 6) & 1;
    f->prio = (b[1] >> 5) & 1;
    f->pid = ((b[1] & 0x1f) << 8) | b[2];
    f->scr = b[3] >> 6;
    f->afc = (b[3] >> 4) & 3;
    f->cc = b[3] & 0xf;
    size_t hdr = 4;
    if ((f->afc & 2) && size > 4) {
        f->af = b[4];
        hdr = 5 + f->af;
        if (f->af > 0 && size > 5) {
            f->disc = b[5] >> 7;
            f->rai = (b[5] >> 6) & 1;
            f->pcrf = (b[5] >> 4) & 1;
            if (f->pcrf && f->af >= 7 && size >= 12) {
                uint64_t v = 0;
                for (int k = 0; k < 6; k++) v = (v << 8) | b[6 + k];
                f->pcrb = v >> 15;
                f->pcre = v & 0x1ff;
            }
        }
    }
    if ((f->afc & 1) && hdr <= size) {
        f->plen = size - hdr;
        f->pay = digest(b + hdr, size - hdr);
    }
}

static void print_ts(const char *tag, const struct tsf *f)
{
    printf("%s size=%ld sync=%ld tei=%ld pusi=%ld pid=%ld scr=%ld afc=%ld cc=%ld af=%ld disc=%ld "
           "rai=%ld pcrf=%ld pcrb=%" PRIu64 " pcre=%ld plen=%ld pay=%u\n", tag, f->size, f->sync,
           f->tei, f->pusi, f->pid, f->scr, f->afc, f->cc, f->af, f->disc, f->rai, f->pcrf,
           f->pcrb, f->pcre, f->plen, f->pay);
}

/* 2.4.3.6 PES_packet(): time stamp field with its 4-bit prefix */
static void put_stamp(uint8_t *b, unsigned prefix, uint64_t v)
{
    b[0] = (uint8_t)((prefix << 4) | (((v >> 30) & 7) << 1) | 1);
    b[1] = (uint8_t)(v >> 22);
    b[2] = (uint8_t)((((v >> 15) & 0x7f) << 1) | 1);
    b[3] = (uint8_t)(v >> 7);
    b[4] = (uint8_t)(((v & 0x7f) << 1) | 1);
}

/* apply flip=i:x,j:y damage */
static bool damage(uint8_t *b, size_t n, const char *flip)
{
    bool any = false;
    while (flip != NULL && *flip) {
        char *e;
        long i = strtol(flip, &e, 10);
        long x = (*e == ':') ? strtol(e + 1, &e, 10) : 0xff;
        if (i >= 0 && (size_t)i < n && (x & 0xff)) { b[i] ^= (uint8_t)x; any = true; }
        flip = (*e == ',') ? e + 1 : NULL;
    }
    return any;
}

/* --------------------------------------------------------------- set-up */
static struct upipe *mk_decaps(struct upipe *output)
{
    struct upipe *p = upipe_void_alloc(upipe_ts_decaps_mgr_alloc(), uprobe_use(&probe));
    assert(p != NULL);
    struct uref *fd = uref_block_flow_alloc_def(uref_mgr, "mpegts.mpegtspes.");
    assert(fd != NULL);
    ubase_assert(upipe_set_flow_def(p, fd));
    uref_free(fd);
    ubase_assert(upipe_set_output(p, output));
    return p;
}
static struct upipe *mk_pesd(struct upipe *output, bool flowdef)
{
    struct upipe *p = upipe_void_alloc(upipe_ts_pesd_mgr_alloc(), uprobe_use(&probe));
    assert(p != NULL);
    if (flowdef) {
        struct uref *fd = uref_block_flow_alloc_def(uref_mgr, "mpegtspes.");
        assert(fd != NULL);
        ubase_assert(upipe_set_flow_def(p, fd));
        uref_free(fd);
    }
    ubase_assert(upipe_set_output(p, output));
    return p;
}

static void teardown(void)
{
    if (encaps) upipe_release(encaps);
    if (pese) upipe_release(pese);
    if (decaps) upipe_release(decaps);
    if (pesd) upipe_release(pesd);
    if (pidf) upipe_release(pidf);
    for (int k = 0; k < nsubs; k++) {
        if (subs[k]) upipe_release(subs[k]);
        if (sub_decaps[k]) upipe_release(sub_decaps[k]);
    }
    if (split) upipe_release(split);
    for (int k = 0; k < nsubs; k++)
        if (sub_sinks[k]) { upipe_clean(sub_sinks[k]); free(sub_sinks[k]); }
    if (sink) { upipe_clean(sink); free(sink); }
    encaps = pese = decaps = pesd = sink = pidf = split = ts_in = NULL;
    for (int k = 0; k < MAXSUB; k++)
        subs[k] = sub_decaps[k] = sub_sinks[k] = NULL;
    nsubs = 0;
    free(last_in);
    last_in = NULL;
    last_in_size = 0;
    mode = 0;
}

static void cmd_mode(int nt, char **tok)
{
    if (nt < 2) { printf("err mode\n"); exit(3); }
    teardown();
    mode = tok[1][0];
    sink = upipe_void_alloc(&sink_mgr, uprobe_use(&probe));
    assert(sink != NULL);
    hexout = mode != 'D' && mode != 'F' && mode != 'S';
    next_cr_sys = next_dts_sys = next_pcr_sys = UINT64_MAX;
    next_ready = false;
    mux_sys = BASE_SYS;
    au_count = 0;
    switch (mode) {
        case 'D':
            decaps = mk_decaps(sink);
            ts_in = decaps;
            printf("mode m=D\n");
            break;
        case 'F': {
            decaps = mk_decaps(sink);
            pidf = upipe_void_alloc(upipe_ts_pidf_mgr_alloc(), uprobe_use(&probe));
            assert(pidf != NULL);
            struct uref *fd = uref_block_flow_alloc_def(uref_mgr, "mpegts.mpegtspes.");
            assert(fd != NULL);
            ubase_assert(upipe_set_flow_def(pidf, fd));
            uref_free(fd);
            ubase_assert(upipe_set_output(pidf, decaps));
            ts_in = pidf;
            printf("mode m=F\n");
            break;
        }
        case 'S': {
            split = upipe_void_alloc(upipe_ts_split_mgr_alloc(), uprobe_use(&probe));
            assert(split != NULL);
            struct uref *fd = uref_block_flow_alloc_def(uref_mgr, "mpegts.");
            assert(fd != NULL);
            ubase_assert(upipe_set_flow_def(split, fd));
            uref_free(fd);
            const char *pl = arg(nt, tok, "pids", "68");
            printf("mode m=S pids=%s\n", pl);
            while (*pl && nsubs < MAXSUB) {
                char *e;
                long pid = strtol(pl, &e, 10);
                pl = (*e == ',') ? e + 1 : "";
                int k = nsubs++;
                sub_sinks[k] = upipe_void_alloc(&sink_mgr, uprobe_use(&probe));
                assert(sub_sinks[k] != NULL);
                ((struct sinkp *)sub_sinks[k])->idx = k;
                sub_decaps[k] = mk_decaps(sub_sinks[k]);
                fd = uref_block_flow_alloc_def(uref_mgr, "mpegts.mpegtspes.");
                assert(fd != NULL);
                ubase_assert(uref_ts_flow_set_pid(fd, pid));
                subs[k] = upipe_flow_alloc_sub(split, uprobe_use(&probe), fd);
                assert(subs[k] != NULL);
                uref_free(fd);
                ubase_assert(upipe_set_output(subs[k], sub_decaps[k]));
            }
            ts_in = split;
            break;
        }
        case 'P':
            pesd = mk_pesd(sink, true);
            printf("mode m=P\n");
            break;
        case 'X':
            pesd = mk_pesd(sink, false);
            decaps = mk_decaps(pesd);
            ts_in = decaps;
            hexout = false;
            printf("mode m=X\n");
            break;
        case 'Q': {
            pesd = mk_pesd(sink, false);
            pese = upipe_void_alloc(upipe_ts_pese_mgr_alloc(), uprobe_use(&probe));
            assert(pese != NULL);
            ubase_assert(upipe_set_output(pese, pesd));
            struct uref *fd = uref_block_flow_alloc_def(uref_mgr, NULL);
            assert(fd != NULL);
            ubase_assert(uref_ts_flow_set_pes_id(fd, argn(nt, tok, "sid", 224)));
            if (argn(nt, tok, "hdr", 0) > 0)
                ubase_assert(uref_ts_flow_set_pes_header(fd, argn(nt, tok, "hdr", 0)));
            ubase_assert(upipe_set_flow_def(pese, fd));
            uref_free(fd);
            printf("mode m=Q sid=%lld hdr=%lld\n", argn(nt, tok, "sid", 224), argn(nt, tok, "hdr", 0));
            break;
        }
        case 'E': {
            pesd = mk_pesd(sink, false);
            decaps = mk_decaps(pesd);
            encaps = upipe_void_alloc(upipe_ts_encaps_mgr_alloc(), uprobe_use(&probe));
            assert(encaps != NULL);
            struct uref *fd = uref_block_flow_alloc_def(uref_mgr, NULL);
            assert(fd != NULL);
            long long pid = argn(nt, tok, "pid", 68), cc = argn(nt, tok, "cc", 0);
            uint64_t pcrint = argu(nt, tok, "pcrint", 0);
            ubase_assert(uref_block_flow_set_octetrate(fd, argu(nt, tok, "octetrate", 25000)));
            ubase_assert(uref_ts_flow_set_tb_rate(fd, argu(nt, tok, "tbrate", 50000)));
            ubase_assert(uref_ts_flow_set_pid(fd, pid));
            ubase_assert(uref_ts_flow_set_pes_id(fd, argn(nt, tok, "sid", 224)));
            /* align=0: the access units are not aligned with the PES packets (what upipe_ts_mux selects for
             * audio): the octets of an access unit that do not fill a TS packet travel with the next one */
            if (argn(nt, tok, "align", 1))
                ubase_assert(uref_ts_flow_set_pes_alignment(fd));
            if (argn(nt, tok, "hdr", 0) > 0)
                ubase_assert(uref_ts_flow_set_pes_header(fd, argn(nt, tok, "hdr", 0)));
            ubase_assert(upipe_set_flow_def(encaps, fd));
            uref_free(fd);
            if (pcrint)
                ubase_assert(upipe_ts_mux_set_pcr_interval(encaps, pcrint));
            ubase_assert(upipe_ts_mux_set_cc(encaps, (unsigned int)cc));
            e_cr = pcrint != 0;
            printf("mode m=E pid=%lld cc=%lld pcrint=%" PRIu64 " al=%lld\n", pid, cc, pcrint, argn(nt, tok, "align", 1));
            break;
        }
        default:
            printf("err mode %c\n", mode);
            exit(3);
    }
}

/* --------------------------------------------------------- modes D and X */
static void feed_ts(const uint8_t *b, size_t n, size_t seg)
{
    remember_input(b, n);
    struct uref *uref = mk_uref(b, n, seg);
    upipe_input(ts_in, uref, NULL);
}

static void cmd_pid(int nt, char **tok, bool add)
{
    if (mode != 'F') { printf("err pid\n"); exit(3); }
    unsigned int pid = (unsigned int)argn(nt, tok, "pid", 0);
    if (add)
        ubase_assert(upipe_ts_pidf_add_pid(pidf, pid));
    else
        ubase_assert(upipe_ts_pidf_del_pid(pidf, pid));
    printf("%s pid=%u\n", add ? "addpid" : "delpid", pid);
}

static void cmd_pkt(int nt, char **tok)
{
    if (ts_in == NULL) { printf("err pkt\n"); exit(3); }
    struct tsf f;
    memset(&f, 0, sizeof(f));
    f.size = argn(nt, tok, "size", 188);
    f.sync = argn(nt, tok, "sync", 0x47);
    f.tei = argn(nt, tok, "tei", 0);
    f.pusi = argn(nt, tok, "pusi", 0);
    f.pid = argn(nt, tok, "pid", 68);
    f.scr = argn(nt, tok, "scr", 0);
    f.afc = argn(nt, tok, "afc", 1);
    f.cc = argn(nt, tok, "cc", 0);
    f.af = argn(nt, tok, "af", -1);
    f.disc = argn(nt, tok, "disc", 0);
    f.rai = argn(nt, tok, "rai", 0);
    f.pcrf = argn(nt, tok, "pcrf", 0);
    f.pcrb = argu(nt, tok, "pcrb", 0);
    f.pcre = argn(nt, tok, "pcre", 0);
    unsigned seed = (unsigned)argn(nt, tok, "pay", 1);
    /* the serializer is given well-formed field combinations only */
    bool ok = f.size == 188 && (f.afc == 1 || f.afc == 2 || f.afc == 3) &&
              ((f.afc == 1 && f.af == -1) || (f.afc == 2 && f.af == 183) ||
               (f.afc == 3 && f.af >= 0 && f.af <= 182)) && (!f.pcrf || f.af >= 7) &&
              (!(f.disc || f.rai || f.pcrf) || f.af >= 1);
    if (!ok) { printf("err pkt fields\n"); exit(3); }
    uint8_t b[188];
    size_t n = ts_serialize(b, &f, seed);
    assert(n == 188);
    /* echo what was serialized (payload length and identity from the octets written) */
    size_t hdr = (f.afc & 2) ? 5 + (size_t)f.af : 4;
    f.plen = (f.afc & 1) ? 188 - hdr : 0;
    f.pay = (f.afc & 1) ? digest(b + hdr, 188 - hdr) : 0;
    bool damaged = damage(b, n, arg(nt, tok, "flip", NULL));
    long long trunc = argn(nt, tok, "trunc", -1);
    if (trunc >= 0 && (size_t)trunc < n) { n = trunc; damaged = true; }
    if (damaged)
        printf("raw size=%zu\n", n);
    else
        print_ts("pkt", &f);
    feed_ts(b, n, argn(nt, tok, "seg", 0));
}

static void cmd_raw(int nt, char **tok)
{
    if (ts_in == NULL) { printf("err raw\n"); exit(3); }
    uint8_t *b;
    size_t n = unhex(arg(nt, tok, "hex", "-"), &b);
    printf("raw size=%zu\n", n);
    feed_ts(b, n, argn(nt, tok, "seg", 0));
    free(b);
}

/* ---------------------------------------------------------------- mode P */
static void cmd_pes(int nt, char **tok)
{
    if (mode != 'P') { printf("err pes\n"); exit(3); }
    long sid = argn(nt, tok, "sid", 224), pad = argn(nt, tok, "pad", 0);
    long ptsf = argn(nt, tok, "ptsf", 0), dtsf = argn(nt, tok, "dtsf", 0);
    uint64_t pts = argu(nt, tok, "pts", 0), dts = argu(nt, tok, "dts", 0);
    size_t n = argn(nt, tok, "n", 0);
    unsigned seed = (unsigned)argn(nt, tok, "pay", 1);
    if (dtsf && !ptsf) { printf("err pes flags\n"); exit(3); }
    /* stream ids without the optional header (2.4.3.7) */
    bool bare = sid == 0xbc || sid == 0xbe || sid == 0xbf || sid == 0xf0 || sid == 0xf1 ||
                sid == 0xff || sid == 0xf2 || sid == 0xf8;
    size_t hdl = bare ? 0 : (ptsf ? 5 : 0) + (dtsf ? 5 : 0) + pad;
    size_t hs = bare ? 6 : 9 + hdl;
    size_t total = hs + n;
    uint8_t *b = malloc(total);
    b[0] = 0; b[1] = 0; b[2] = 1; b[3] = (uint8_t)sid;
    const char *lens = arg(nt, tok, "len", "auto");
    size_t alen = total - 6 > 65535 ? 0 : total - 6;     /* PES_packet_length */
    size_t plen = !strcmp(lens, "auto") ? alen : (size_t)atol(lens);
    b[4] = (uint8_t)(plen >> 8); b[5] = (uint8_t)plen;
    if (!bare) {
        b[6] = 0x80 | 0x04;                             /* '10', data_alignment_indicator */
        b[7] = (uint8_t)((ptsf << 7) | (dtsf << 6));    /* PTS_DTS_flags */
        b[8] = (uint8_t)hdl;                            /* PES_header_data_length */
        size_t o = 9;
        if (ptsf) { put_stamp(b + o, dtsf ? 3 : 2, pts); o += 5; }
        if (dtsf) { put_stamp(b + o, 1, dts); o += 5; }
        while (o < hs) b[o++] = 0xff;                   /* stuffing_byte */
    }
    gen_payload(b + hs, n, seed);
    char *hex = hexstr(b + hs, n);
    bool damaged = damage(b, total, arg(nt, tok, "flip", NULL));
    /* a length that is neither right nor 0 (unbounded) makes it a corrupt packet */
    if (plen != alen && plen != 0)
        damaged = true;
    if (damaged)
        printf("raw size=%zu\n", total);
    else
        printf("pes sid=%ld hs=%zu n=%zu ptsf=%ld dtsf=%ld pts=%" PRIu64 " dts=%" PRIu64 " bare=%d hex=%s\n",
               sid, hs, n, bare ? 0 : ptsf, bare ? 0 : dtsf, pts, dts, bare, hex);
    free(hex);
    /* cut into chunks */
    const char *cut = arg(nt, tok, "cut", "");
    long lose = argn(nt, tok, "lose", 0);
    size_t seg = argn(nt, tok, "seg", 0);
    size_t off = 0;
    long k = 0;
    while (off < total) {
        size_t m = total - off;
        if (*cut) {
            char *e;
            long c = strtol(cut, &e, 10);
            cut = (*e == ',') ? e + 1 : "";
            if (c > 0 && (size_t)c < m) m = c;
        }
        k++;
        printf("chunk k=%ld n=%zu start=%d lost=%d\n", k, m, off == 0, k == lose);
        if (k != lose) {
            struct uref *uref = mk_uref(b + off, m, seg);
            if (off == 0)
                uref_block_set_start(uref);
            upipe_input(pesd, uref, NULL);
        }
        off += m;
    }
    free(b);
}

static void cmd_rawchunk(int nt, char **tok)
{
    if (mode != 'P') { printf("err rawchunk\n"); exit(3); }
    uint8_t *b;
    size_t n = unhex(arg(nt, tok, "hex", "-"), &b);
    printf("raw size=%zu\n", n);
    struct uref *uref = mk_uref(b, n, argn(nt, tok, "seg", 0));
    if (argn(nt, tok, "start", 0))
        uref_block_set_start(uref);
    upipe_input(pesd, uref, NULL);
    free(b);
}

/* --------------------------------------------------------- modes Q and E */
static void handle_packet(struct ubuf *ubuf)
{
    size_t size = 0;
    ubase_assert(ubuf_block_size(ubuf, &size));
    uint8_t *b = malloc(size ? size : 1);
    if (size)
        ubase_assert(ubuf_block_extract(ubuf, 0, size, b));
    ubuf_free(ubuf);
    struct tsf f;
    ts_parse(b, size, &f);
    print_ts("ts", &f);
    struct uref *uref = mk_uref(b, size, 0);
    free(b);
    upipe_input(decaps, uref, NULL);
}

static void splice_one(void)
{
    struct ubuf *ubuf = NULL;
    uint64_t dts_sys = UINT64_MAX;
    int err = upipe_ts_encaps_splice(encaps, mux_sys, mux_sys, &ubuf, &dts_sys);
    if (!ubase_check(err) || ubuf == NULL) {
        printf("ev splice_err=%d\n", err);
        return;
    }
    handle_packet(ubuf);
}

static void cmd_drain(void)
{
    if (mode != 'E') { printf("err drain\n"); exit(3); }
    int guard = 0;
    while (next_ready && next_cr_sys != UINT64_MAX && guard++ < 100000) {
        if (mux_sys < next_cr_sys)
            mux_sys = next_cr_sys;            /* the mux waits until the input wants to send */
        splice_one();
    }
    printf("drained n=%d\n", guard);
}

static void cmd_au(int nt, char **tok)
{
    if (mode != 'Q' && mode != 'E') { printf("err au\n"); exit(3); }
    size_t n = argn(nt, tok, "n", 1);
    unsigned seed = (unsigned)argn(nt, tok, "pay", 1);
    long ptsf = argn(nt, tok, "ptsf", 0), dtsf = argn(nt, tok, "dtsf", 0);
    uint64_t pts = argu(nt, tok, "pts", 0), dts = argu(nt, tok, "dts", 0);
    long rap = argn(nt, tok, "rap", 0), disc = argn(nt, tok, "disc", 0);
    if ((dtsf && !ptsf) || (dtsf && pts < dts) || !n) { printf("err au fields\n"); exit(3); }
    uint8_t *b = malloc(n);
    gen_payload(b, n, seed);
    char *hex = hexstr(b, n);
    printf("au n=%zu ptsf=%ld pts=%" PRIu64 " dtsf=%ld dts=%" PRIu64 " rap=%ld disc=%ld hex=%s\n",
           n, ptsf, pts, dtsf, dts, rap, disc, hex);
    free(hex);
    struct uref *uref = mk_uref(b, n, argn(nt, tok, "seg", 0));
    free(b);
    if (mode == 'E') {
        au_count++;
        uint64_t cr_sys = BASE_SYS + au_count * PERIOD;
        uref_clock_set_cr_sys(uref, cr_sys);
        if (e_cr) {
            /* PCRs need cr_prog: dates through cr_prog + delays */
            if (ptsf && dtsf && dts >= CR_DELAY) {
                uref_clock_set_cr_prog(uref, dts - CR_DELAY);
                uref_clock_set_cr_dts_delay(uref, CR_DELAY);
                uref_clock_set_dts_pts_delay(uref, pts - dts);
            } else if (!ptsf) {
                uref_clock_set_cr_prog(uref, cr_sys);
            } else { printf("err au needs dts with pcr\n"); exit(3); }
        }
    }
    if (mode == 'Q' || !e_cr) {
        if (ptsf && dtsf) {
            uref_clock_set_dts_prog(uref, dts);
            uref_clock_set_dts_pts_delay(uref, pts - dts);
        } else if (ptsf)
            uref_clock_set_pts_prog(uref, pts);
    }
    if (rap) uref_flow_set_random(uref);
    if (disc) uref_flow_set_discontinuity(uref);
    upipe_input(mode == 'Q' ? pese : encaps, uref, NULL);
}

static void cmd_idle(int nt, char **tok)
{
    if (mode != 'E') { printf("err idle\n"); exit(3); }
    mux_sys += argu(nt, tok, "dt", 1000);
    splice_one();
}

/* ------------------------------------------------------------ interpreter */
static char **lines;
static long nlines;

static void do_line(char *line)
{
    char *tok[MAXTOK];
    int nt = 0;
    char *sv = NULL;
    for (char *t = strtok_r(line, " \t\r\n", &sv); t != NULL && nt < MAXTOK;
         t = strtok_r(NULL, " \t\r\n", &sv))
        tok[nt++] = t;
    if (!nt)
        return;
    if (!strcmp(tok[0], "exec")) {
        teardown();
        printf("exec %s\n", nt > 1 ? tok[1] : "?");
    } else if (!strcmp(tok[0], "end")) {
        teardown();
        printf("end\n");
    } else if (!strcmp(tok[0], "mode"))
        cmd_mode(nt, tok);
    else if (!mode) { printf("err nomode\n"); exit(3); }
    else if (!strcmp(tok[0], "pkt")) cmd_pkt(nt, tok);
    else if (!strcmp(tok[0], "raw")) cmd_raw(nt, tok);
    else if (!strcmp(tok[0], "addpid")) cmd_pid(nt, tok, true);
    else if (!strcmp(tok[0], "delpid")) cmd_pid(nt, tok, false);
    else if (!strcmp(tok[0], "pes")) cmd_pes(nt, tok);
    else if (!strcmp(tok[0], "rawchunk")) cmd_rawchunk(nt, tok);
    else if (!strcmp(tok[0], "au")) cmd_au(nt, tok);
    else if (!strcmp(tok[0], "idle")) cmd_idle(nt, tok);
    else if (!strcmp(tok[0], "drain")) cmd_drain();
    else if (!strcmp(tok[0], "eos")) {
        if (mode != 'E') { printf("err eos\n"); exit(3); }
        ubase_assert(upipe_ts_encaps_eos(encaps));
        printf("eos\n");
    } else { printf("err command %s\n", tok[0]); exit(3); }
    fflush(stdout);
}

/* keep what is stable in a sanitizer / assert message */
static void report_san(const char *err, int status)
{
    char kind[32] = "signal", where[128] = "?", msg[256] = "";
    const char *p;
    if ((p = strstr(err, "runtime error: ")) != NULL) {
        strcpy(kind, "ubsan");
        const char *b = p;
        while (b > err && b[-1] != '\n') b--;
        const char *slash = b;
        for (const char *q = b; q < p; q++) if (*q == '/') slash = q + 1;
        size_t n = strcspn(slash, ":");
        snprintf(where, sizeof(where), "%.*s", (int)(n < 100 ? n : 100), slash);
        snprintf(msg, sizeof(msg), "%.*s", (int)strcspn(p + 15, "\n"), p + 15);
    } else if ((p = strstr(err, "AddressSanitizer: ")) != NULL) {
        strcpy(kind, "asan");
        size_t n = strcspn(p + 18, " \n");
        const char *rw = strstr(p, "WRITE of size") ? "WRITE" :
                         strstr(p, "READ of size") ? "READ" : "";
        snprintf(msg, sizeof(msg), "%.*s %s", (int)n, p + 18, rw);
        /* first frame inside the library */
        const char *f = strstr(p, " in upipe_ts");
        if (f == NULL) f = strstr(p, " in u");
        if (f == NULL) { f = strstr(p, "#0 "); if (f) f = strstr(f, " in "); }
        if (f != NULL) {
            f += 4;
            snprintf(where, sizeof(where), "%.*s", (int)strcspn(f, " \n"), f);
        }
    } else if ((p = strstr(err, "Assertion")) != NULL) {
        strcpy(kind, "assert");
        snprintf(msg, sizeof(msg), "%.*s", (int)strcspn(p, "\n"), p);
        const char *b = p;
        while (b > err && b[-1] != '\n') b--;
        const char *slash = b;
        for (const char *q = b; q < p; q++) if (*q == '/') slash = q + 1;
        size_t n = strcspn(slash, ":");
        snprintf(where, sizeof(where), "%.*s", (int)(n < 100 ? n : 100), slash);
    } else
        snprintf(msg, sizeof(msg), "status %d", status);
    for (char *q = msg; *q; q++)
        if (*q == '"' || *q == '\\' || *q == '\'' || *q == '`' || (unsigned char)*q < 32)
            *q = ' ';
    for (char *q = where; *q; q++)
        if (*q == '"' || *q == '\\' || (unsigned char)*q < 32)
            *q = ' ';
    printf("san {\"kind\":\"%s\",\"where\":\"%s\",\"msg\":\"%s\"}\n", kind, where, msg);
    printf("end\n");
    fflush(stdout);
}

int main(void)
{
    size_t capl = 1024;
    lines = malloc(capl * sizeof(char *));
    char *l = NULL;
    size_t ln = 0;
    while (getline(&l, &ln, stdin) > 0) {
        if ((size_t)nlines == capl)
            lines = realloc(lines, (capl *= 2) * sizeof(char *));
        lines[nlines++] = strdup(l);
    }
    free(l);

    long *cur = mmap(NULL, sizeof(long), PROT_READ | PROT_WRITE,
                     MAP_SHARED | MAP_ANONYMOUS, -1, 0);
    assert(cur != MAP_FAILED);
    long start = 0;
    while (start < nlines) {
        int pe[2];
        if (pipe(pe) != 0) return 2;
        fflush(stdout);
        *cur = start;
        pid_t pid = fork();
        if (pid < 0) return 2;
        if (pid == 0) {
            close(pe[0]);
            dup2(pe[1], 2);
            close(pe[1]);
            alarm(600);
            umem_mgr = umem_alloc_mgr_alloc();
            assert(umem_mgr != NULL);
            udict_mgr = udict_inline_mgr_alloc(0, umem_mgr, -1, -1);
            assert(udict_mgr != NULL);
            uref_mgr = uref_std_mgr_alloc(0, udict_mgr, 0);
            assert(uref_mgr != NULL);
            /* tight buffers: no prepend, no append, no alignment */
            ubuf_mgr = ubuf_block_mem_mgr_alloc(0, 0, umem_mgr, 0, 0, 0, 0);
            assert(ubuf_mgr != NULL);
            uprobe_init(&probe, catch, NULL);
            for (long i = start; i < nlines; i++) {
                if (!strncmp(lines[i], "exec", 4))
                    *cur = i;
                do_line(lines[i]);
            }
            fflush(stdout);
            _exit(0);
        }
        close(pe[1]);
        static char err[65536];
        size_t eo = 0;
        ssize_t rd;
        while (eo < sizeof(err) - 1 && (rd = read(pe[0], err + eo, sizeof(err) - 1 - eo)) > 0)
            eo += rd;
        err[eo] = 0;
        char dump[4096];
        while (read(pe[0], dump, sizeof(dump)) > 0);
        close(pe[0]);
        int status = 0;
        waitpid(pid, &status, 0);
        if (WIFEXITED(status) && WEXITSTATUS(status) == 0)
            break;
        if (WIFEXITED(status) && WEXITSTATUS(status) == 3) {
            fprintf(stderr, "replay_ts: script error\n%s", err);
            return 3;
        }
        report_san(err, status);
        long i = *cur + 1;
        while (i < nlines && strncmp(lines[i], "exec", 4))
            i++;
        start = i;
    }
    return 0;
}
