/*
 * replay_pic - command interpreter over the REAL picture / sound buffer
 * managers of Upipe (ubuf_pic_mem, ubuf_sound_mem), used by checks C19 and
 * C02 (plane part).  One command per line on stdin, one result line per
 * command on stdout.  The harness contains no oracle: it reports what the
 * public API answers (accepted / refused, address relative to the umem
 * buffer, strides and sub-samplings as ubuf_pic_plane_size reports them, the
 * octets read back); the TLA+ specification (PicGeom.tla, PicGeom_Trace.tla)
 * judges them.
 *
 * Every buffer comes from a guard-zoned umem manager defined here (base and
 * size of each allocation are known, guard octets are verified on free); the
 * harness never dereferences an address outside the allocation it belongs
 * to: such mappings are reported ("oob") and left to the specification.
 *
 * commands (handles are small integers, planes are 0-based indexes):
 *   skew N                          next allocations start at (64-aligned + N)
 *   mgr fmt NAME hmpre hmapp vpre vapp align aoff pool
 *   mgr geom MP NP hsub:vsub:mps{,..} hmpre hmapp vpre vapp align aoff pool
 *   smgr SS NP align pool
 *   alloc H W Ht | salloc H N | dup H SRC | free H
 *   resize H hskip vskip hsize vsize | sresize H off size
 *   replace H hskip vskip hsize vsize       ubuf_pic_replace (copy into a new picture)
 *   map H P hoff voff hsize vsize r|w | smap H P off size r|w
 *   fill H K | check H | peek H P x y | size H | end (closes an execution)
 *   poke H P x y K                  write one cell through its own write mapping
 *   view H SRC P                    block view of plane P of buffer SRC
 *                                   (ubuf_block_mem_alloc_from_pic / _from_sound)
 *   bread H | bpoke H I V           read a view / write octet I of a view
 *   fmts                            the table of uref_pic_flow_formats.h as compiled
 */
#include "upipe/ubase.h"
#include "upipe/urefcount.h"
#include "upipe/umem.h"
#include "upipe/umem_alloc.h"
#include "upipe/udict.h"
#include "upipe/udict_inline.h"
#include "upipe/uref.h"
#include "upipe/uref_std.h"
#include "upipe/uref_flow.h"
#include "upipe/uref_pic_flow.h"
#include "upipe/uref_pic_flow_formats.h"
#include "upipe/ubuf.h"
#include "upipe/ubuf_pic.h"
#include "upipe/ubuf_pic_mem.h"
#include "upipe/ubuf_sound.h"
#include "upipe/ubuf_sound_mem.h"
#include "upipe/ubuf_mem.h"
#include "upipe/ubuf_block.h"
#include "upipe/ubuf_block_mem.h"

#include <stdio.h>
#include <stdlib.h>
#include <string.h>
#include <stdint.h>
#include <inttypes.h>
#include <signal.h>
#include <unistd.h>

/* ------------------------------------------------------------------------ */
/* guard-zoned umem manager                                                 */
#define GUARD 64
#define GUARD_BYTE 0xA5
#define FRESH_BYTE 0xFD
#define MAX_AREAS 4096

struct area {
    uint8_t *raw;
    uint8_t *buf;
    size_t size;
    int live;
};
static struct area areas[MAX_AREAS];
static int nb_areas = 0;
static int last_area = -1;
static int live_areas = 0;
static int guard_corrupt = 0;
static unsigned skew = 0;

struct gumem_mgr {
    struct urefcount urefcount;
    struct umem_mgr mgr;
};

static bool gumem_alloc(struct umem_mgr *mgr, struct umem *umem, size_t size)
{
    if (nb_areas >= MAX_AREAS || size > (1u << 30))
        return false;
    struct area *a = &areas[nb_areas];
    a->raw = malloc(size + 2 * GUARD + 128);
    if (a->raw == NULL)
        return false;
    uintptr_t p = (uintptr_t)a->raw;
    p = (p + 63) & ~(uintptr_t)63;
    a->buf = (uint8_t *)p + GUARD + (skew % 64);
    a->size = size;
    a->live = 1;
    memset(a->buf - GUARD, GUARD_BYTE, GUARD);
    memset(a->buf, FRESH_BYTE, size);
    memset(a->buf + size, GUARD_BYTE, GUARD);
    umem->mgr = mgr;
    umem->buffer = a->buf;
    umem->size = size;
    umem->real_size = size;
    last_area = nb_areas++;
    live_areas++;
    return true;
}

static int area_check_guards(struct area *a)
{
    for (int i = 0; i < GUARD; i++)
        if (a->buf[-1 - i] != GUARD_BYTE || a->buf[a->size + i] != GUARD_BYTE)
            return 0;
    return 1;
}

static int last_free_guard = 1;
static void gumem_free(struct umem *umem)
{
    for (int i = 0; i < nb_areas; i++) {
        struct area *a = &areas[i];
        if (a->live && a->buf == umem->buffer) {
            last_free_guard = area_check_guards(a);
            if (!last_free_guard)
                guard_corrupt++;
            a->live = 0;
            live_areas--;
            free(a->raw);
            a->raw = NULL;
            umem->buffer = NULL;
            umem->mgr = NULL;
            return;
        }
    }
    fprintf(stderr, "HARNESS: umem_free of unknown buffer\n");
    guard_corrupt++;
}

static bool gumem_realloc(struct umem *umem, size_t new_size)
{
    return false;
}

static void gumem_vacuum(struct umem_mgr *mgr)
{
}

static void gumem_mgr_free(struct urefcount *urefcount)
{
}

static struct gumem_mgr gmgr;
static struct umem_mgr *gumem_mgr_init(void)
{
    urefcount_init(&gmgr.urefcount, gumem_mgr_free);
    gmgr.mgr.refcount = &gmgr.urefcount;
    gmgr.mgr.umem_alloc = gumem_alloc;
    gmgr.mgr.umem_realloc = gumem_realloc;
    gmgr.mgr.umem_free = gumem_free;
    gmgr.mgr.umem_mgr_vacuum = gumem_vacuum;
    return &gmgr.mgr;
}

/* ------------------------------------------------------------------------ */
#define MAX_HANDLES 16
#define MAX_PLANES 8

static struct umem_mgr *umem_mgr;       /* guard-zoned, for picture/sound */
static struct umem_mgr *plain_umem_mgr; /* for dictionaries */
static struct udict_mgr *udict_mgr;
static struct uref_mgr *uref_mgr;
static struct ubuf_mgr *mgr = NULL;
static struct ubuf_mgr *block_mgr = NULL; /* for the views of planes */
static int mgr_sound = 0;
static int mgr_np = 0;
static char plane_names[MAX_PLANES][32];

static struct ubuf *handles[MAX_HANDLES];
static int handle_area[MAX_HANDLES];
static int handle_view[MAX_HANDLES];   /* 1: block view of a plane */

static const char *errname(int err)
{
    switch (err) {
        case UBASE_ERR_NONE: return "ok";
        case UBASE_ERR_INVALID: return "invalid";
        case UBASE_ERR_BUSY: return "busy";
        case UBASE_ERR_ALLOC: return "allocerr";
        case UBASE_ERR_UNHANDLED: return "unhandled";
        default: return "error";
    }
}

static uint8_t code(int k, int p, long i, long j, int b)
{
    return (uint8_t)(((i + 1) * 37 + (j + 1) * 101 + p * 59 + b * 17 + k * 73)
                     % 251);
}

static void mgr_drop(void)
{
    for (int h = 0; h < MAX_HANDLES; h++)
        if (handles[h] != NULL) {
            ubuf_free(handles[h]);
            handles[h] = NULL;
        }
    if (mgr != NULL) {
        ubuf_mgr_release(mgr);
        mgr = NULL;
    }
    if (block_mgr != NULL) {
        ubuf_mgr_release(block_mgr);
        block_mgr = NULL;
    }
}

static void block_mgr_make(int pool)
{
    block_mgr = ubuf_block_mem_mgr_alloc(pool, pool, umem_mgr, 0, 0, 0, 0);
    if (block_mgr == NULL) {
        fprintf(stderr, "HARNESS: block manager set-up failed\n");
        exit(3);
    }
}

/* geometry of one plane of one handle as the public API reports it */
struct pgeo {
    size_t W, H;        /* pixels, lines (sound: samples, 1) */
    uint8_t mp;
    size_t stride;
    uint8_t hsub, vsub, mps;
    long nc, nl;        /* cells per line, lines of the full window */
};

static int plane_geo(struct ubuf *ubuf, int p, struct pgeo *g)
{
    if (mgr_sound) {
        uint8_t ss;
        int err = ubuf_sound_size(ubuf, &g->W, &ss);
        if (!ubase_check(err))
            return err;
        g->H = 1;
        g->mp = 1;
        g->hsub = g->vsub = 1;
        g->mps = ss;
        g->stride = 0;
        g->nc = (long)g->W;
        g->nl = 1;
        return UBASE_ERR_NONE;
    }
    int err = ubuf_pic_size(ubuf, &g->W, &g->H, &g->mp);
    if (!ubase_check(err))
        return err;
    err = ubuf_pic_plane_size(ubuf, plane_names[p], &g->stride, &g->hsub,
                              &g->vsub, &g->mps);
    if (!ubase_check(err))
        return err;
    g->nc = (long)g->W / g->mp / g->hsub;
    g->nl = (long)g->H / g->vsub;
    return UBASE_ERR_NONE;
}

static int do_map(struct ubuf *ubuf, int p, int ho, int vo, int hs, int vs,
                  int write, uint8_t **ptr)
{
    if (mgr_sound) {
        if (write)
            return ubuf_sound_plane_write_uint8_t(ubuf, plane_names[p], ho, hs,
                                                  ptr);
        return ubuf_sound_plane_read_uint8_t(ubuf, plane_names[p], ho, hs,
                                             (const uint8_t **)ptr);
    }
    if (write)
        return ubuf_pic_plane_write(ubuf, plane_names[p], ho, vo, hs, vs, ptr);
    return ubuf_pic_plane_read(ubuf, plane_names[p], ho, vo, hs, vs,
                               (const uint8_t **)ptr);
}

static void do_unmap(struct ubuf *ubuf, int p, int ho, int vo, int hs, int vs)
{
    if (mgr_sound)
        ubuf_sound_plane_unmap(ubuf, plane_names[p], ho, hs);
    else {
        /* the wrapper re-validates the arguments: fall back on the control
         * command so that the reader count stays balanced in any case */
        if (!ubase_check(ubuf_pic_plane_unmap(ubuf, plane_names[p],
                                              ho, vo, hs, vs)))
            ubuf_control(ubuf, UBUF_UNMAP_PICTURE_PLANE, plane_names[p],
                         ho, vo, hs, vs);
    }
}

/* is [off, off + (nl-1)*stride + nc*mps) inside the allocation ? */
static int inside(struct area *a, long long off, long nc, long nl,
                  size_t stride, int mps)
{
    if (nc <= 0 || nl <= 0)
        return off >= 0 && (unsigned long long)off <= a->size;
    if (off < 0)
        return 0;
    unsigned long long end = (unsigned long long)off +
        (unsigned long long)(nl - 1) * stride + (unsigned long long)nc * mps;
    return end <= a->size;
}

/* A command of the code under test that does not return must cost seconds,
 * not the time-out of the whole batch: every command runs under an alarm; on
 * expiry the process exits with status 5 WITHOUT a result line for that
 * command, which the check reads as "this command hung" (the results of the
 * earlier commands are already flushed). */
static void on_alarm(int sig)
{
    (void)sig;
    _exit(5);
}

int main(int argc, char **argv)
{
    unsigned alarm_s = 10;
    if (getenv("REPLAY_ALARM_S") != NULL && atoi(getenv("REPLAY_ALARM_S")) > 0)
        alarm_s = atoi(getenv("REPLAY_ALARM_S"));
    signal(SIGALRM, on_alarm);
    umem_mgr = gumem_mgr_init();
    plain_umem_mgr = umem_alloc_mgr_alloc();
    udict_mgr = udict_inline_mgr_alloc(4, plain_umem_mgr, -1, -1);
    uref_mgr = uref_std_mgr_alloc(4, udict_mgr, 0);
    if (plain_umem_mgr == NULL || udict_mgr == NULL || uref_mgr == NULL) {
        fprintf(stderr, "HARNESS: manager set-up failed\n");
        return 3;
    }
    setvbuf(stdout, NULL, _IOFBF, 1 << 16);

    char line[1024];
    while (fflush(stdout), alarm(0), fgets(line, sizeof(line), stdin) != NULL) {
        char cmd[32];
        if (sscanf(line, "%31s", cmd) != 1 || cmd[0] == '#')
            continue;
        alarm(alarm_s);

        if (!strcmp(cmd, "skew")) {
            unsigned n;
            if (sscanf(line, "%*s %u", &n) != 1)
                goto syntax;
            skew = n;
            printf("ok\n");

        } else if (!strcmp(cmd, "mgr")) {
            char how[16], arg[256];
            int off = 0;
            if (sscanf(line, "%*s %15s %n", how, &off) != 1)
                goto syntax;
            const char *rest = line + off;
            int hmpre, hmapp, vpre, vapp, align, aoff, pool;
            mgr_drop();
            mgr_sound = 0;
            int mp = 0;
            if (!strcmp(how, "fmt")) {
                if (sscanf(rest, "%255s %d %d %d %d %d %d %d", arg, &hmpre,
                           &hmapp, &vpre, &vapp, &align, &aoff, &pool) != 8)
                    goto syntax;
                const struct uref_pic_flow_format *fmt =
                    uref_pic_flow_get_format_by_name(arg);
                if (fmt == NULL) {
                    printf("nofmt\n");
                    continue;
                }
                struct uref *flow_def =
                    uref_pic_flow_alloc_format(uref_mgr, fmt);
                if (flow_def == NULL ||
                    !ubase_check(uref_pic_flow_set_hmprepend(flow_def, hmpre)) ||
                    !ubase_check(uref_pic_flow_set_hmappend(flow_def, hmapp)) ||
                    !ubase_check(uref_pic_flow_set_vprepend(flow_def, vpre)) ||
                    !ubase_check(uref_pic_flow_set_vappend(flow_def, vapp)) ||
                    !ubase_check(uref_pic_flow_set_align(flow_def, align)) ||
                    !ubase_check(uref_pic_flow_set_align_hmoffset(flow_def,
                                                                  aoff))) {
                    fprintf(stderr, "HARNESS: flow def set-up failed\n");
                    return 3;
                }
                mgr = ubuf_mem_mgr_alloc_from_flow_def(pool, pool, umem_mgr,
                                                       flow_def);
                uref_free(flow_def);
                block_mgr_make(pool);
                mp = fmt->macropixel;
                mgr_np = fmt->nb_planes;
                printf("%s kind=pic mp=%d np=%d pl=", mgr ? "ok" : "null", mp,
                       mgr_np);
                for (int p = 0; p < mgr_np; p++) {
                    snprintf(plane_names[p], sizeof(plane_names[p]), "%s",
                             fmt->planes[p].chroma);
                    printf("%s%d:%d:%d", p ? "," : "", fmt->planes[p].hsub,
                           fmt->planes[p].vsub, fmt->planes[p].mpixel_size);
                }
                printf("\n");
            } else if (!strcmp(how, "geom")) {
                int np;
                if (sscanf(rest, "%d %d %255s %d %d %d %d %d %d %d", &mp, &np,
                           arg, &hmpre, &hmapp, &vpre, &vapp, &align, &aoff,
                           &pool) != 10 || np < 1 || np > MAX_PLANES)
                    goto syntax;
                mgr = ubuf_pic_mem_mgr_alloc(pool, pool, umem_mgr, mp,
                                             hmpre * mp, hmapp * mp,
                                             vpre, vapp, align, aoff);
                if (mgr == NULL) {
                    printf("null\n");
                    continue;
                }
                block_mgr_make(pool);
                mgr_np = np;
                char *s = arg;
                printf("ok kind=pic mp=%d np=%d pl=", mp, np);
                for (int p = 0; p < np; p++) {
                    int hsub, vsub, mps, n = 0;
                    if (sscanf(s, "%d:%d:%d%n", &hsub, &vsub, &mps, &n) != 3)
                        goto syntax;
                    s += n;
                    if (*s == ',')
                        s++;
                    snprintf(plane_names[p], sizeof(plane_names[p]), "c%d", p);
                    if (!ubase_check(ubuf_pic_mem_mgr_add_plane(mgr,
                                    plane_names[p], hsub, vsub, mps))) {
                        fprintf(stderr, "HARNESS: add_plane failed\n");
                        return 3;
                    }
                    printf("%s%d:%d:%d", p ? "," : "", hsub, vsub, mps);
                }
                printf("\n");
            } else
                goto syntax;

        } else if (!strcmp(cmd, "smgr")) {
            int ss, np, align, pool;
            if (sscanf(line, "%*s %d %d %d %d", &ss, &np, &align, &pool) != 4 ||
                np < 1 || np > MAX_PLANES)
                goto syntax;
            mgr_drop();
            mgr_sound = 1;
            mgr = ubuf_sound_mem_mgr_alloc(pool, pool, umem_mgr, ss, align);
            if (mgr == NULL) {
                printf("null\n");
                continue;
            }
            block_mgr_make(pool);
            mgr_np = np;
            for (int p = 0; p < np; p++) {
                snprintf(plane_names[p], sizeof(plane_names[p]), "ch%d", p);
                if (!ubase_check(ubuf_sound_mem_mgr_add_plane(mgr,
                                                         plane_names[p]))) {
                    fprintf(stderr, "HARNESS: add_plane failed\n");
                    return 3;
                }
            }
            printf("ok kind=sound ss=%d np=%d\n", ss, np);

        } else if (!strcmp(cmd, "alloc") || !strcmp(cmd, "salloc")) {
            int h, W, H = 1;
            int sound = cmd[0] == 's';
            if (sound ? sscanf(line, "%*s %d %d", &h, &W) != 2
                      : sscanf(line, "%*s %d %d %d", &h, &W, &H) != 3)
                goto syntax;
            if (h < 0 || h >= MAX_HANDLES || handles[h] != NULL ||
                mgr == NULL || sound != mgr_sound)
                goto syntax;
            last_area = -1;
            struct ubuf *ubuf = sound ? ubuf_sound_alloc(mgr, W)
                                      : ubuf_pic_alloc(mgr, W, H);
            if (ubuf == NULL) {
                printf("null\n");
                continue;
            }
            if (last_area < 0) {
                fprintf(stderr, "HARNESS: allocation without umem\n");
                return 3;
            }
            handles[h] = ubuf;
            handle_area[h] = last_area;
            handle_view[h] = 0;
            printf("ok area=%d size=%zu basemod=%u\n", last_area,
                   areas[last_area].size,
                   (unsigned)((uintptr_t)areas[last_area].buf % 64));

        } else if (!strcmp(cmd, "dup")) {
            int h, src;
            if (sscanf(line, "%*s %d %d", &h, &src) != 2 ||
                h < 0 || h >= MAX_HANDLES || src < 0 || src >= MAX_HANDLES ||
                handles[h] != NULL || handles[src] == NULL)
                goto syntax;
            handles[h] = ubuf_dup(handles[src]);
            if (handles[h] == NULL) {
                printf("null\n");
                continue;
            }
            handle_area[h] = handle_area[src];
            handle_view[h] = handle_view[src];
            printf("ok\n");

        } else if (!strcmp(cmd, "free")) {
            int h;
            if (sscanf(line, "%*s %d", &h) != 1 || h < 0 ||
                h >= MAX_HANDLES || handles[h] == NULL)
                goto syntax;
            int before = live_areas;
            last_free_guard = 1;
            ubuf_free(handles[h]);
            handles[h] = NULL;
            printf("ok released=%d guard=%s\n", before - live_areas,
                   last_free_guard ? "ok" : "corrupt");

        } else if (!strcmp(cmd, "resize") || !strcmp(cmd, "sresize")) {
            int h, hskip, vskip = 0, hsize, vsize = -1;
            int sound = cmd[0] == 's';
            if (sound ? sscanf(line, "%*s %d %d %d", &h, &hskip, &hsize) != 3
                      : sscanf(line, "%*s %d %d %d %d %d", &h, &hskip, &vskip,
                               &hsize, &vsize) != 5)
                goto syntax;
            if (h < 0 || h >= MAX_HANDLES || handles[h] == NULL ||
                handle_view[h] || sound != mgr_sound)
                goto syntax;
            int err = sound ? ubuf_sound_resize(handles[h], hskip, hsize)
                : ubuf_pic_resize(handles[h], hskip, vskip, hsize, vsize);
            printf("%s\n", errname(err));

        } else if (!strcmp(cmd, "replace")) {
            /* ubuf_pic_replace: crop / extension by COPY into a newly allocated picture (ubuf_pic_copy,
             * ubuf_pic_blit), the old one is released */
            int h, hskip, vskip, hsize, vsize;
            if (sscanf(line, "%*s %d %d %d %d %d", &h, &hskip, &vskip, &hsize, &vsize) != 5)
                goto syntax;
            if (h < 0 || h >= MAX_HANDLES || handles[h] == NULL || handle_view[h] || mgr_sound)
                goto syntax;
            int before = live_areas;
            last_area = -1;
            last_free_guard = 1;
            int err = ubuf_pic_replace(mgr, &handles[h], hskip, vskip, hsize, vsize);
            if (!ubase_check(err)) {
                printf("%s\n", errname(err));
                continue;
            }
            if (last_area < 0) {
                fprintf(stderr, "HARNESS: replace without umem\n");
                return 3;
            }
            handle_area[h] = last_area;
            printf("ok area=%d size=%zu released=%d guard=%s\n", last_area, areas[last_area].size,
                   before + 1 - live_areas, last_free_guard ? "ok" : "corrupt");

        } else if (!strcmp(cmd, "size")) {
            int h;
            if (sscanf(line, "%*s %d", &h) != 1 || h < 0 ||
                h >= MAX_HANDLES || handles[h] == NULL)
                goto syntax;
            if (handle_view[h]) {
                size_t bs = 0;
                int berr = ubuf_block_size(handles[h], &bs);
                if (!ubase_check(berr))
                    printf("%s\n", errname(berr));
                else
                    printf("ok W=%zu H=1 mp=1\n",
                           bs > 0x3fffffff ? (size_t)0x3fffffff : bs);
                continue;
            }
            struct pgeo g;
            int err = plane_geo(handles[h], 0, &g);
            if (!ubase_check(err))
                printf("%s\n", errname(err));
            else if (g.W > 0x3fffffff || g.H > 0x3fffffff)
                printf("ok W=%d H=%d mp=%d\n", 0x3fffffff, 0x3fffffff, g.mp);
            else
                printf("ok W=%zu H=%zu mp=%d\n", g.W, g.H, g.mp);

        } else if (!strcmp(cmd, "map") || !strcmp(cmd, "smap")) {
            int h, p, ho, vo = 0, hs, vs = -1;
            char mode[8];
            int sound = cmd[0] == 's';
            if (sound ? sscanf(line, "%*s %d %d %d %d %7s", &h, &p, &ho, &hs,
                               mode) != 5
                      : sscanf(line, "%*s %d %d %d %d %d %d %7s", &h, &p, &ho,
                               &vo, &hs, &vs, mode) != 7)
                goto syntax;
            if (h < 0 || h >= MAX_HANDLES || handles[h] == NULL ||
                handle_view[h] || p < 0 || p >= mgr_np || sound != mgr_sound)
                goto syntax;
            uint8_t *ptr = NULL;
            int err = do_map(handles[h], p, ho, vo, hs, vs, mode[0] == 'w',
                             &ptr);
            if (!ubase_check(err)) {
                /* leak=1: the refused call nevertheless wrote an address into the caller's pointer */
                printf("%s leak=%d\n", errname(err), ptr != NULL);
                continue;
            }
            struct pgeo g;
            int gerr = plane_geo(handles[h], p, &g);
            struct area *a = &areas[handle_area[h]];
            long long off = (long long)((intptr_t)ptr - (intptr_t)a->buf);
            do_unmap(handles[h], p, ho, vo, hs, vs);
            if (!ubase_check(gerr)) {
                printf("ok off=%lld nogeo\n", off);
                continue;
            }
            /* which cell of the window is it ?  measured with the stride and
             * macropixel size the API reports, from the address of the
             * mapping of the whole window */
            long ci = -1, cj = -1;
            uint8_t *wptr = NULL;
            if (ubase_check(do_map(handles[h], p, 0, 0, -1, -1, 0, &wptr))) {
                long long d = (long long)((intptr_t)ptr - (intptr_t)wptr);
                do_unmap(handles[h], p, 0, 0, -1, -1);
                if (d >= 0 && g.mps > 0) {
                    long long j = g.stride > 0 ? d / (long long)g.stride : 0;
                    long long rem = d - j * (long long)g.stride;
                    if (rem % g.mps == 0 && j < (1 << 30) &&
                        rem / g.mps < (1 << 30)) {
                        ci = (long)(rem / g.mps);
                        cj = (long)j;
                    }
                }
            }
            printf("ok off=%lld stride=%zu hsub=%d vsub=%d mps=%d size=%zu "
                   "cell=%ld,%ld\n",
                   off, g.stride, g.hsub, g.vsub, g.mps, a->size, ci, cj);

        } else if (!strcmp(cmd, "fill") || !strcmp(cmd, "check")) {
            int h, k = 0;
            int fill = cmd[0] == 'f';
            if (fill ? sscanf(line, "%*s %d %d", &h, &k) != 2
                     : sscanf(line, "%*s %d", &h) != 1)
                goto syntax;
            if (h < 0 || h >= MAX_HANDLES || handles[h] == NULL ||
                handle_view[h])
                goto syntax;
            struct ubuf *ubuf = handles[h];
            struct area *a = &areas[handle_area[h]];
            const char *overall = "ok";
            /* first pass: all planes must be mappable, else nothing is
             * written (a refused plane leaves the buffer untouched) */
            uint8_t *ptrs[MAX_PLANES];
            struct pgeo geos[MAX_PLANES];
            int mapped = 0;
            for (int p = 0; p < mgr_np; p++) {
                int err = plane_geo(ubuf, p, &geos[p]);
                if (ubase_check(err))
                    err = do_map(ubuf, p, 0, 0, -1, -1, fill, &ptrs[p]);
                if (!ubase_check(err)) {
                    overall = errname(err);
                    break;
                }
                mapped++;
                long long off = (long long)((intptr_t)ptrs[p] -
                                            (intptr_t)a->buf);
                if (!inside(a, off, geos[p].nc, geos[p].nl, geos[p].stride,
                            geos[p].mps)) {
                    overall = "oob";
                    break;
                }
            }
            printf("%s", overall);
            if (!strcmp(overall, "ok") || !strcmp(overall, "oob")) {
                for (int p = 0; p < mapped; p++) {
                    struct pgeo *g = &geos[p];
                    long long off = (long long)((intptr_t)ptrs[p] -
                                                (intptr_t)a->buf);
                    printf(" p%d=%lld:%zu:%ld:%ld:%d", p, off, g->stride,
                           g->nc, g->nl, g->mps);
                    if (strcmp(overall, "ok"))
                        continue;
                    if (!fill)
                        printf(":");
                    for (long j = 0; j < g->nl; j++)
                        for (long i = 0; i < g->nc; i++)
                            for (int b = 0; b < g->mps; b++) {
                                uint8_t *q = ptrs[p] + j * g->stride +
                                             i * g->mps + b;
                                if (fill)
                                    *q = code(k, p, i, j, b);
                                else
                                    printf("%02x", *q);
                            }
                }
            }
            printf(" size=%zu\n", a->size);
            for (int p = 0; p < mapped; p++)
                do_unmap(ubuf, p, 0, 0, -1, -1);

        } else if (!strcmp(cmd, "peek")) {
            int h, p, x, y;
            if (sscanf(line, "%*s %d %d %d %d", &h, &p, &x, &y) != 4 ||
                h < 0 || h >= MAX_HANDLES || handles[h] == NULL ||
                handle_view[h] || p < 0 || p >= mgr_np)
                goto syntax;
            struct ubuf *ubuf = handles[h];
            struct area *a = &areas[handle_area[h]];
            struct pgeo g;
            int err = plane_geo(ubuf, p, &g);
            uint8_t *ptr = NULL;
            int hs = mgr_sound ? 1 : g.mp * g.hsub, vs = mgr_sound ? -1 : g.vsub;
            if (ubase_check(err))
                err = do_map(ubuf, p, x, y, hs, vs, 0, &ptr);
            if (!ubase_check(err)) {
                printf("%s\n", errname(err));
                continue;
            }
            long long off = (long long)((intptr_t)ptr - (intptr_t)a->buf);
            if (!inside(a, off, 1, 1, g.stride, g.mps))
                printf("oob off=%lld mps=%d size=%zu\n", off, g.mps, a->size);
            else {
                printf("ok off=%lld mps=%d size=%zu bytes=", off, g.mps,
                       a->size);
                for (int b = 0; b < g.mps; b++)
                    printf("%02x", ptr[b]);
                printf("\n");
            }
            do_unmap(ubuf, p, x, y, hs, vs);

        } else if (!strcmp(cmd, "poke")) {
            int h, p, x, y, k;
            if (sscanf(line, "%*s %d %d %d %d %d", &h, &p, &x, &y, &k) != 5 ||
                h < 0 || h >= MAX_HANDLES || handles[h] == NULL ||
                handle_view[h] || p < 0 || p >= mgr_np)
                goto syntax;
            struct ubuf *ubuf = handles[h];
            struct area *a = &areas[handle_area[h]];
            struct pgeo g;
            int err = plane_geo(ubuf, p, &g);
            uint8_t *ptr = NULL;
            int hs = mgr_sound ? 1 : g.mp * g.hsub, vs = mgr_sound ? -1 : g.vsub;
            if (ubase_check(err))
                err = do_map(ubuf, p, x, y, hs, vs, 1, &ptr);
            if (!ubase_check(err)) {
                printf("%s\n", errname(err));
                continue;
            }
            long long off = (long long)((intptr_t)ptr - (intptr_t)a->buf);
            if (!inside(a, off, 1, 1, g.stride, g.mps))
                printf("oob off=%lld mps=%d size=%zu\n", off, g.mps, a->size);
            else {
                for (int b = 0; b < g.mps; b++)
                    ptr[b] = code(k, p, 0, 0, b);
                printf("ok off=%lld mps=%d size=%zu\n", off, g.mps, a->size);
            }
            do_unmap(ubuf, p, x, y, hs, vs);

        } else if (!strcmp(cmd, "view")) {
            int h, src, p;
            if (sscanf(line, "%*s %d %d %d", &h, &src, &p) != 3 ||
                h < 0 || h >= MAX_HANDLES || src < 0 || src >= MAX_HANDLES ||
                handles[h] != NULL || handles[src] == NULL ||
                handle_view[src] || p < 0 || p >= mgr_np || block_mgr == NULL)
                goto syntax;
            struct area *a = &areas[handle_area[src]];
            struct pgeo g;
            int gerr = plane_geo(handles[src], p, &g);
            struct ubuf *ubuf = mgr_sound ?
                ubuf_block_mem_alloc_from_sound(block_mgr, handles[src],
                                                plane_names[p]) :
                ubuf_block_mem_alloc_from_pic(block_mgr, handles[src],
                                              plane_names[p]);
            if (ubuf == NULL || !ubase_check(gerr)) {
                if (ubuf != NULL)
                    ubuf_free(ubuf);
                printf("null\n");
                continue;
            }
            handles[h] = ubuf;
            handle_area[h] = handle_area[src];
            handle_view[h] = 1;
            size_t bs = 0;
            ubuf_block_size(ubuf, &bs);
            long long off = 0, d = 0;
            int sz = -1;
            const uint8_t *ptr = NULL;
            if (bs > 0 && ubase_check(ubuf_block_read(ubuf, 0, &sz, &ptr))) {
                off = (long long)((intptr_t)ptr - (intptr_t)a->buf);
                uint8_t *wptr = NULL;
                if (ubase_check(do_map(handles[src], p, 0, 0, -1, -1, 0,
                                       &wptr))) {
                    d = (long long)((intptr_t)ptr - (intptr_t)wptr);
                    do_unmap(handles[src], p, 0, 0, -1, -1);
                }
                ubuf_block_unmap(ubuf, 0);
            }
            if (off > 0x3fffffff) off = 0x3fffffff;
            if (off < -0x3fffffff) off = -0x3fffffff;
            if (d > 0x3fffffff) d = 0x3fffffff;
            if (d < -0x3fffffff) d = -0x3fffffff;
            printf("ok off=%lld size=%zu stride=%zu d=%lld asize=%zu\n", off,
                   bs > 0x3fffffff ? (size_t)0x3fffffff : bs,
                   mgr_sound ? (size_t)0 : g.stride, d, a->size);

        } else if (!strcmp(cmd, "bread")) {
            int h;
            if (sscanf(line, "%*s %d", &h) != 1 || h < 0 ||
                h >= MAX_HANDLES || handles[h] == NULL || !handle_view[h])
                goto syntax;
            struct area *a = &areas[handle_area[h]];
            size_t bs = 0;
            int err = ubuf_block_size(handles[h], &bs);
            if (!ubase_check(err)) {
                printf("%s\n", errname(err));
                continue;
            }
            if (bs == 0) {
                printf("ok size=0 bytes=\n");
                continue;
            }
            int sz = -1;
            const uint8_t *ptr = NULL;
            err = ubuf_block_read(handles[h], 0, &sz, &ptr);
            if (!ubase_check(err)) {
                printf("%s\n", errname(err));
                continue;
            }
            long long off = (long long)((intptr_t)ptr - (intptr_t)a->buf);
            if (sz < 0 || (size_t)sz != bs || !inside(a, off, sz, 1, 0, 1))
                printf("oob off=%lld size=%zu got=%d asize=%zu\n", off, bs, sz,
                       a->size);
            else {
                printf("ok size=%zu bytes=", bs);
                for (int i = 0; i < sz; i++)
                    printf("%02x", ptr[i]);
                printf("\n");
            }
            ubuf_block_unmap(handles[h], 0);

        } else if (!strcmp(cmd, "bpoke")) {
            int h, i, v;
            if (sscanf(line, "%*s %d %d %d", &h, &i, &v) != 3 || h < 0 ||
                h >= MAX_HANDLES || handles[h] == NULL || !handle_view[h])
                goto syntax;
            struct area *a = &areas[handle_area[h]];
            int sz = 1;
            uint8_t *ptr = NULL;
            int err = ubuf_block_write(handles[h], i, &sz, &ptr);
            if (!ubase_check(err)) {
                printf("%s\n", errname(err));
                continue;
            }
            long long off = (long long)((intptr_t)ptr - (intptr_t)a->buf);
            if (sz != 1 || !inside(a, off, 1, 1, 0, 1))
                printf("oob off=%lld got=%d asize=%zu\n", off, sz, a->size);
            else {
                *ptr = (uint8_t)v;
                printf("ok off=%lld\n", off);
            }
            ubuf_block_unmap(handles[h], i);

        } else if (!strcmp(cmd, "fmts")) {
            int n = 0;
            for (unsigned i = 0; i < UBASE_ARRAY_SIZE(uref_pic_flow_formats);
                 i++) {
                const struct uref_pic_flow_format *f = uref_pic_flow_formats[i];
                printf("fmt %s %d %d ", f->name, f->macropixel, f->nb_planes);
                for (int p = 0; p < f->nb_planes; p++)
                    printf("%s%d:%d:%d", p ? "," : "", f->planes[p].hsub,
                           f->planes[p].vsub, f->planes[p].mpixel_size);
                printf("\n");
                n++;
            }
            printf("ok n=%d\n", n);

        } else if (!strcmp(cmd, "end")) {
            /* end of an execution: everything is released; the table of
             * areas restarts so that many executions fit in one process */
            mgr_drop();
            printf("ok live=%d corrupt=%d\n", live_areas, guard_corrupt);
            if (live_areas == 0)
                nb_areas = 0;
            guard_corrupt = 0;
            skew = 0;

        } else {
syntax:
            printf("syntax\n");
            fflush(stdout);
            fprintf(stderr, "HARNESS: bad command: %s", line);
            return 3;
        }
    }
    mgr_drop();
    fflush(stdout);
    uref_mgr_release(uref_mgr);
    udict_mgr_release(udict_mgr);
    umem_mgr_release(plain_umem_mgr);
    return 0;
}
