/* sched_ring: run small client programs on the real ufifo / ulifo / upool
 * under the deterministic scheduler (hooks H1+H2) and emit the histories
 * (invocation / response events in real-time order) as NDJSON for
 * Lin_Trace.tla.  (C07; DESIGN.md 4/C07)
 *
 * usage: sched_ring <fifo|lifo|pool> <N> <prog0>[,<prog1>...] <mode> [args]
 *   prog: string over P (push next value) p (pop)   [fifo/lifo]
 *                     A (alloc) F (free oldest held) [pool]
 *   mode: dfs <preemption_bound> <max_runs>
 *         random <runs> <seed> <switch_den>
 *         replay <schedule digits>
 */
#include <stdio.h>
#include <stdlib.h>
#include <string.h>
#include <stdint.h>
#include <stdbool.h>
#include <assert.h>
#include <setjmp.h>

#include "upipe/ubase.h"
#include "upipe/uatomic.h"
#include "upipe/urefcount.h"
#include "upipe/uring.h"
#include "upipe/ufifo.h"
#include "upipe/ulifo.h"
#include "upipe/upool.h"
#include "vsched.h"

enum { K_FIFO, K_LIFO, K_POOL };
static int kind, N, nprog;
static const char *prog[VS_MAXT];

static struct ufifo fifo;
static struct ulifo lifo;
static struct upool pool;
static void *extra;

/* history */
struct ev { char inv; uint8_t t; char op; int v; };
#define MAXEV 256
static struct ev evs[MAXEV];
static int nev;
static void log_ev(char inv, int t, char op, int v)
{
    if (nev < MAXEV) evs[nev++] = (struct ev){ inv, (uint8_t)t, op, v };
}

/* pool callbacks */
static int fresh_next;
static int last_fresh[VS_MAXT + 1], last_dropped[VS_MAXT + 1];
static int cur_tid(void) { int c = vs_current(); return c < 0 ? nprog : c; }
static void *pool_alloc_cb(struct upool *p)
{
    int id = 100 + fresh_next++;
    last_fresh[cur_tid()] = 1;
    return (void *)(uintptr_t)id;
}
static void pool_free_cb(struct upool *p, void *obj)
{
    last_dropped[cur_tid()] = 1;
}

static int held[VS_MAXT + 1][16], nheld[VS_MAXT + 1];

static void do_op(int t, char op, int *pushk)
{
    if (kind == K_POOL) {
        if (op == 'A') {
            log_ev('I', t, 'A', 0);
            last_fresh[t] = 0;
            void *o = upool_alloc(&pool, void *);
            int id = (int)(uintptr_t)o;
            held[t][nheld[t]++] = id;
            /* fresh object: reported as negative id */
            log_ev('R', t, 'A', last_fresh[t] ? -id : id);
        } else {
            if (!nheld[t]) return;
            int id = held[t][0];
            memmove(&held[t][0], &held[t][1], sizeof(int) * (--nheld[t]));
            log_ev('I', t, 'F', id);
            last_dropped[t] = 0;
            upool_free(&pool, (void *)(uintptr_t)id);
            log_ev('R', t, 'F', last_dropped[t] ? 0 : 1);
        }
        return;
    }
    if (op == 'P') {
        int v = (t + 1) * 16 + (*pushk)++;
        log_ev('I', t, 'P', v);
        bool ok = kind == K_FIFO ? ufifo_push(&fifo, (void *)(uintptr_t)v)
                                 : ulifo_push(&lifo, (void *)(uintptr_t)v);
        log_ev('R', t, 'P', ok ? 1 : 0);
    } else {
        log_ev('I', t, 'p', 0);
        void *o = kind == K_FIFO ? ufifo_pop(&fifo, void *) : ulifo_pop(&lifo, void *);
        log_ev('R', t, 'p', (int)(uintptr_t)o);
    }
}

static void thread_fn(void *arg)
{
    int t = (int)(intptr_t)arg;
    int pushk = 0;
    for (const char *p = prog[t]; *p; p++)
        do_op(t, *p, &pushk);
}

static void setup(void *ctx)
{
    vs_reset();
    free(extra);
    nev = 0;
    fresh_next = 0;
    memset(nheld, 0, sizeof(nheld));
    if (kind == K_FIFO) {
        extra = malloc(ufifo_sizeof(N) + 16);
        ufifo_init(&fifo, N, extra);
    } else if (kind == K_LIFO) {
        extra = malloc(ulifo_sizeof(N) + 16);
        ulifo_init(&lifo, N, extra);
    } else {
        extra = malloc(upool_sizeof(N) + 16);
        upool_init(&pool, NULL, N, extra, pool_alloc_cb, pool_free_cb);
    }
    for (int t = 0; t < nprog; t++)
        vs_spawn(thread_fn, (void *)(intptr_t)t);
}

/* sequential probe epilogue run in scheduler context by pseudo thread nprog */
static void epilogue(void)
{
    int E = nprog, pushk = 0;
    if (kind == K_POOL) {
        for (int t = 0; t < nprog; t++)
            while (nheld[t]) {
                int id = held[t][0];
                memmove(&held[t][0], &held[t][1], sizeof(int) * (--nheld[t]));
                held[E][nheld[E]++] = id;
            }
        while (nheld[E]) do_op(E, 'F', &pushk);
        for (int i = 0; i < N + 1; i++) do_op(E, 'A', &pushk);
        return;
    }
    /* fill: push until one push fails (at most N+1 pushes) */
    for (int i = 0; i < N + 1; i++) do_op(E, 'P', &pushk);
    /* drain: N+1 pops, the last must return nothing */
    for (int i = 0; i < N + 1; i++) do_op(E, 'p', &pushk);
}

/* ------------------------------------------------------------- dedup + output */
#define HBITS 22
static uint64_t *seen;
static long nunique, nruns, nstuck;
static int max_preempt_seen;

static uint64_t hash_hist(void)
{
    uint64_t h = 1469598103934665603ULL;
    for (int i = 0; i < nev; i++) {
        uint64_t x = ((uint64_t)(uint8_t)evs[i].inv << 40) ^ ((uint64_t)evs[i].t << 32) ^
                     ((uint64_t)(uint8_t)evs[i].op << 24) ^ (uint32_t)evs[i].v;
        h = (h ^ x) * 1099511628211ULL;
        h ^= h >> 29;
    }
    return h | 1;
}

static bool insert_seen(uint64_t h)
{
    uint64_t mask = (1ULL << HBITS) - 1, i = h & mask;
    while (seen[i]) {
        if (seen[i] == h) return false;
        i = (i + 1) & mask;
    }
    seen[i] = h;
    return true;
}

static long out_id;
static const char *progs_arg = "";
static void emit(const uint8_t *sched, int len, bool stuck)
{
    printf("{\"e\":\"Reset\",\"kind\":\"%s\",\"cap\":%d,\"id\":%ld,\"stuck\":%s,\"prog\":\"%s\",\"sched\":\"",
           kind == K_FIFO ? "fifo" : kind == K_LIFO ? "lifo" : "bag", N, out_id++, stuck ? "true" : "false", progs_arg);
    for (int i = 0; i < len; i++) putchar('0' + sched[i]);
    printf("\"}\n");
    for (int i = 0; i < nev; i++) {
        if (evs[i].inv == 'H') {
            printf("{\"e\":\"Hang\",\"t\":%d,\"where\":\"%s\"}\n", evs[i].t, evs[i].v == 2 ? "crash" : evs[i].v ? "epilogue" : "threads");
            continue;
        }
        const char *op = evs[i].op == 'P' ? "push" : evs[i].op == 'p' ? "pop" :
                         evs[i].op == 'A' ? "alloc" : "free";
        printf("{\"e\":\"%s\",\"t\":%d,\"op\":\"%s\",\"v\":%d}\n",
               evs[i].inv == 'I' ? "Inv" : "Ret", evs[i].t, op, evs[i].v);
    }
}

static jmp_buf epi_jmp;
static long epi_yields;
static void epi_yield(void) { if (++epi_yields > 20000) longjmp(epi_jmp, 1); }
static struct vs_explore *cur_e;

static bool crashed;
static bool finish(void *ctx, const uint8_t *sched, int len, bool stuck);
static void crash_dump(int sig)
{
    int len;
    const uint8_t *s = vs_cur_sched(&len);
    crashed = true;
    finish(NULL, s, len, false);
    fprintf(stderr, "{\"crash_signal\":%d,\"runs\":%ld,\"unique\":%ld,\"complete\":false}\n", sig, nruns, nunique);
}

static bool finish(void *ctx, const uint8_t *sched, int len, bool stuck)
{
    nruns++;
    if (stuck) nstuck++;
    if (crashed)
        log_ev('H', 0, 'H', 2);          /* the code under test crashed (assert / signal) */
    else if (cur_e && cur_e->overrun)
        log_ev('H', 0, 'H', 0);          /* livelock in the concurrent part */
    else {
        epi_yields = 0;
        vs_on_sched_yield = epi_yield;
        if (!setjmp(epi_jmp))
            epilogue();
        else
            log_ev('H', nprog, 'H', 1);  /* the sequential epilogue does not terminate */
        vs_on_sched_yield = NULL;
    }
    if (insert_seen(hash_hist())) {
        nunique++;
        emit(sched, len, stuck);
    }
    return nunique < (1L << (HBITS - 1));
}

int main(int argc, char **argv)
{
    if (argc < 5) { fprintf(stderr, "usage\n"); return 2; }
    kind = !strcmp(argv[1], "fifo") ? K_FIFO : !strcmp(argv[1], "lifo") ? K_LIFO : K_POOL;
    N = atoi(argv[2]);
    progs_arg = argv[3];
    char *ps = strdup(argv[3]);
    for (char *tok = strtok(ps, ","); tok; tok = strtok(NULL, ","))
        prog[nprog++] = tok;
    seen = calloc(1ULL << HBITS, sizeof(uint64_t));
    vs_install_hooks();
    vs_install_crash_handler(crash_dump);
    struct vs_explore e = { .setup = setup, .finish = finish, .ctx = NULL };
    cur_e = &e;
    const char *mode = argv[4];
    bool complete = false;
    if (!strcmp(mode, "dfs")) {
        e.preemption_bound = atoi(argv[5]);
        e.max_runs = atol(argv[6]);
        vs_explore_run(&e);
        complete = e.complete;
    } else if (!strcmp(mode, "random")) {
        long runs = atol(argv[5]);
        uint64_t rng = strtoull(argv[6], NULL, 10) * 2654435761ULL + 12345;
        int sw = atoi(argv[7]);
        static uint8_t out[VS_MAXSTEPS];
        for (long i = 0; i < runs; i++) {
            bool stuck;
            int len = vs_random(&e, &rng, sw, out, VS_MAXSTEPS, &stuck);
            finish(NULL, out, len, stuck);
        }
    } else if (!strcmp(mode, "replay")) {
        static uint8_t pre[VS_MAXSTEPS], out[VS_MAXSTEPS];
        int plen = 0;
        for (const char *p = argv[5]; *p; p++) pre[plen++] = (uint8_t)(*p - '0');
        bool stuck;
        int len = vs_replay(&e, pre, plen, out, VS_MAXSTEPS, &stuck);
        finish(NULL, out, len, stuck);
        fprintf(stderr, "{\"replay_len\":%d,\"given_len\":%d}\n", len, plen);
    } else { fprintf(stderr, "bad mode\n"); return 2; }
    fprintf(stderr, "{\"runs\":%ld,\"unique\":%ld,\"stuck\":%ld,\"complete\":%s,\"max_len\":%d}\n",
            nruns, nunique, nstuck, complete ? "true" : "false", e.max_len);
    return 0;
}
