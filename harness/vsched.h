/* vsched: deterministic scheduler for virtual threads (ucontext coroutines)
 * driven by the UPIPE_VERIF yield hooks.  A "step" of thread t performs the
 * shared access t is parked before and runs t up to (not including) its next
 * shared access.  See DESIGN.md 3.2. */
#ifndef VSCHED_H
#define VSCHED_H
#include <stdbool.h>
#include <stdint.h>
#include <stddef.h>

#define VS_MAXT 8
#define VS_MAXSTEPS 4096

/* extra yield kinds used by harnesses (beyond enum uverif_kind) */
#define VS_KIND_START 100   /* thread not started yet */
#define VS_KIND_WAIT  101   /* thread waits for a predicate (event loop sleep) */
#define VS_KIND_USER  102   /* harness-defined yield (API call boundary) */

typedef void (*vs_fn)(void *arg);
typedef bool (*vs_pred)(void *arg);

void vs_reset(void);                       /* forget all threads */
int  vs_spawn(vs_fn fn, void *arg);        /* returns thread id 0.. */
int  vs_nthreads(void);
bool vs_finished(int t);
bool vs_runnable(int t);                   /* not finished and (not waiting or predicate true) */
bool vs_waiting(int t);                    /* parked in vs_wait with false predicate */
int  vs_pending_kind(int t);               /* kind of the access t is parked before */
const void *vs_pending_obj(int t);
int  vs_current(void);                     /* id of the running virtual thread, -1 in the scheduler */
void vs_step(int t);                       /* run t for one step */
void vs_run_until_kind(int t, int kind);   /* run t until it is parked before an op of `kind` (or finished/waiting) */
void vs_run_to_end(int t);                 /* run t until finished or waiting */

/* called from inside a virtual thread */
void vs_yield(int kind, const void *obj);  /* generic yield point */
void vs_wait(vs_pred pred, void *arg);     /* park until pred(arg) (re-evaluated by the scheduler) */

/* called at every yield point reached in scheduler context (epilogues) */
extern void (*vs_on_sched_yield)(void);

/* install vs_yield as upipe_verif_yield_cb */
void vs_install_hooks(void);
void vs_uninstall_hooks(void);

/* Step budget: vs_step aborts the process with exit code 3 and a message if
 * a single step performs more than this many internal operations without
 * yielding; used for termination checks. */

/* ---- systematic exploration (stateless DFS with preemption bound) ---- */
struct vs_explore {
    void (*setup)(void *ctx);                 /* build objects, vs_reset + vs_spawn threads */
    /* called after each complete run; sched = thread id per step; stuck = some
     * thread not finished but none runnable.  Return false to stop exploring. */
    bool (*finish)(void *ctx, const uint8_t *sched, int len, bool stuck);
    void (*after_step)(void *ctx, int t);     /* optional: observe after each step */
    void (*step)(void *ctx, int t);           /* optional: macro-step function (default: vs_step(t)) */
    void *ctx;
    int preemption_bound;                     /* -1 = unbounded */
    long max_runs;                            /* stop after this many runs (0 = no limit) */
    /* results */
    bool overrun;                             /* last run exceeded the step budget (livelock) */
    long runs;
    bool complete;                            /* whole bounded space enumerated */
    int max_len;
};
void vs_explore_run(struct vs_explore *e);

/* run one schedule given as thread ids; after it ends, continue with the
 * lowest-numbered runnable thread until nobody is runnable.  Returns length. */
int vs_replay(struct vs_explore *e, const uint8_t *sched, int len, uint8_t *out, int outmax, bool *stuck);

/* random schedule with PRNG; pct-like: at each step keep current thread with
 * probability (1 - 1/sw) */
int vs_random(struct vs_explore *e, uint64_t *rng, int sw, uint8_t *out, int outmax, bool *stuck);

uint64_t vs_rand(uint64_t *s);

/* schedule of the run in progress (for crash dumps) */
const uint8_t *vs_cur_sched(int *len);
/* on SIGSEGV/SIGBUS/SIGABRT/SIGFPE/SIGILL: call dump(sig) (print the trace so
 * far and a Crash event), flush stdout, _exit(0) */
void vs_install_crash_handler(void (*dump)(int sig));
#endif
