/* sched_queue: a real upipe_qsink -> upipe_qsrc -> recording sink pipeline on
 * two mock event loops (vloop), one per modelled thread.  (C06)
 *
 * usage: sched_queue <L> <mode> ...
 *   script <tokens>             tokens executed sequentially, each atomically
 *        (call-back granularity; this is the granularity of QueuePipes.tla):
 *        A B      upipe_set_flow_def(qsink, "block.A." / "block.B.")
 *        i        upipe_input(qsink, next buffer)
 *        f        upipe_flush(qsink)
 *        r        upipe_release(qsink)    (application handle)
 *        w        one iteration of the producer thread's event loop
 *        c        dispatch the consumer's data worker pump if it is ready
 *        o        dispatch the consumer's out-of-band pump if it is ready
 *        several scripts may be given separated by ',' (one execution each)
 *   sched <prog> <poll 0|1> dfs <pb> <max_runs> | random <runs> <seed> <sw> | replay <digits>
 *        producer thread = program over A B i f r (poll=1: one loop iteration
 *        before every step), then its event loop; consumer thread = its event
 *        loop; every yield point of hooks H1-H3 is a scheduling point.
 * Output: NDJSON traces for QueuePipes_Trace.tla.
 */
#include <stdio.h>
#include <stdlib.h>
#include <string.h>
#include <stdint.h>
#include <stdbool.h>
#include <stdarg.h>
#include <assert.h>

#include "upipe/ubase.h"
#include "upipe/uprobe.h"
#include "upipe/umem.h"
#include "upipe/umem_alloc.h"
#include "upipe/udict.h"
#include "upipe/udict_inline.h"
#include "upipe/uref.h"
#include "upipe/uref_std.h"
#include "upipe/uref_attr.h"
#include "upipe/uref_flow.h"
#include "upipe/upump.h"
#include "upipe/upipe.h"
#include "upipe/upipe_helper_upipe.h"
#include "upipe/upipe_helper_urefcount.h"
#include "upipe-modules/upipe_queue_sink.h"
#include "upipe-modules/upipe_queue_source.h"
#include "vsched.h"
#include "vloop.h"

UREF_ATTR_UNSIGNED(vx, id, "x.id", verification buffer id)

static int L;
static struct umem_mgr *umem;
static struct udict_mgr *udict;
static struct uref_mgr *urefm;

static struct upump_mgr *loop[2];      /* 0 producer thread, 1 consumer thread */
static struct upipe *qsink, *qsrc, *rsink;
static int cur_thread_script = 0;
static bool sched_mode;
static int th(void) { return sched_mode ? vs_current() : cur_thread_script; }

/* ---- trace ---- */
#define MAXEV 1024
static char evbuf[MAXEV][96];
static int nev;
static void log_line(const char *fmt, ...)
{
    if (nev >= MAXEV) return;
    va_list a;
    va_start(a, fmt);
    vsnprintf(evbuf[nev++], sizeof(evbuf[0]), fmt, a);
    va_end(a);
}

/* ---- probes: each pipe gets the loop of the thread it lives in ---- */
struct tprobe { struct uprobe probe; int thread; const char *name; };
static struct tprobe pr_qsink = { .thread = 0, .name = "qsink" },
                     pr_qsrc = { .thread = 1, .name = "qsrc" },
                     pr_rsink = { .thread = 1, .name = "rsink" };
static int tcatch(struct uprobe *uprobe, struct upipe *upipe, int event, va_list args)
{
    struct tprobe *tp = (struct tprobe *)uprobe;
    switch (event) {
    case UPROBE_NEED_UPUMP_MGR: {
        struct upump_mgr **p = va_arg(args, struct upump_mgr **);
        *p = upump_mgr_use(loop[tp->thread]);
        return UBASE_ERR_NONE;
    }
    case UPROBE_SOURCE_END:
        log_line("{\"e\":\"SourceEnd\",\"th\":%d,\"pipe\":\"%s\"}", th(), tp->name);
        return UBASE_ERR_NONE;
    case UPROBE_NEW_FLOW_DEF:
    case UPROBE_READY: case UPROBE_DEAD: case UPROBE_LOG: case UPROBE_STALLED:
        return UBASE_ERR_NONE;
    case UPROBE_NEED_OUTPUT:
        return UBASE_ERR_UNHANDLED;
    case UPROBE_FATAL: case UPROBE_ERROR:
        log_line("{\"e\":\"Fatal\",\"th\":%d,\"pipe\":\"%s\"}", th(), tp->name);
        return UBASE_ERR_NONE;
    }
    return UBASE_ERR_UNHANDLED;
}

/* ---- recording sink (consumer side) ---- */
struct rs { struct upipe upipe; struct urefcount urefcount; };
UPIPE_HELPER_UPIPE(rs, upipe, 0x72736e6b)
UPIPE_HELPER_UREFCOUNT(rs, urefcount, rs_free)
static struct rs the_rs;
static struct upipe *rs_alloc(struct upipe_mgr *mgr, struct uprobe *uprobe, uint32_t sig, va_list args)
{
    upipe_init(&the_rs.upipe, mgr, uprobe);
    rs_init_urefcount(&the_rs.upipe);
    upipe_throw_ready(&the_rs.upipe);
    return &the_rs.upipe;
}
static void rs_input(struct upipe *upipe, struct uref *uref, struct upump **upump_p)
{
    uint64_t id = 0;
    uref_vx_get_id(uref, &id);
    log_line("{\"e\":\"Deliver\",\"id\":%d,\"th\":%d}", (int)id, th());
    uref_free(uref);
}
static int rs_control(struct upipe *upipe, int command, va_list args)
{
    switch (command) {
    case UPIPE_SET_FLOW_DEF: {
        struct uref *fd = va_arg(args, struct uref *);
        const char *def = "?";
        uref_flow_get_def(fd, &def);
        log_line("{\"e\":\"FdOut\",\"f\":\"%c\",\"th\":%d}", def[0] == 'b' && strlen(def) > 6 ? def[6] : '?', th());
        return UBASE_ERR_NONE;
    }
    case UPIPE_REGISTER_REQUEST:
    case UPIPE_UNREGISTER_REQUEST:
        log_line("{\"e\":\"Enter\",\"pipe\":\"rsink\",\"th\":%d}", th());
        return UBASE_ERR_NONE;
    }
    return UBASE_ERR_UNHANDLED;
}
static void rs_free(struct upipe *upipe)
{
    upipe_throw_dead(upipe);
    rs_clean_urefcount(upipe);
    upipe_clean(upipe);
}
static struct upipe_mgr rs_mgr = { .signature = 0x72736e6b, .upipe_alloc = rs_alloc,
                                   .upipe_input = rs_input, .upipe_control = rs_control };

/* ---- set-up / teardown ---- */
static int next_id;
static void build(void)
{
    nev = 0;
    next_id = 1;
    loop[0] = vloop_mgr_alloc();
    loop[1] = vloop_mgr_alloc();
    uprobe_init(&pr_qsink.probe, tcatch, NULL);
    uprobe_init(&pr_qsrc.probe, tcatch, NULL);
    uprobe_init(&pr_rsink.probe, tcatch, NULL);
    rsink = upipe_void_alloc(&rs_mgr, &pr_rsink.probe);
    cur_thread_script = 1;
    qsrc = upipe_qsrc_alloc(upipe_qsrc_mgr_alloc(), &pr_qsrc.probe, L);
    assert(qsrc);
    ubase_assert(upipe_set_output(qsrc, rsink));      /* also attaches the consumer's loop */
    cur_thread_script = 0;
    qsink = upipe_qsink_alloc(upipe_qsink_mgr_alloc(), &pr_qsink.probe, qsrc);
    assert(qsink);
}

static void teardown(void)
{
    /* not part of the judged trace: release what is left, run both loops dry */
    if (qsink) { upipe_release(qsink); qsink = NULL; }
    for (int k = 0; k < 50; k++) {
        cur_thread_script = 0; unsigned a = vloop_run_once(loop[0]);
        cur_thread_script = 1; unsigned b = vloop_run_once(loop[1]);
        if (!a && !b) break;
    }
    if (qsrc) { upipe_release(qsrc); qsrc = NULL; }
    for (int k = 0; k < 50; k++) {
        cur_thread_script = 1; unsigned b = vloop_run_once(loop[1]);
        cur_thread_script = 0; unsigned a = vloop_run_once(loop[0]);
        if (!a && !b) break;
    }
    if (rsink) { upipe_release(rsink); rsink = NULL; }
    upump_mgr_release(loop[0]);
    upump_mgr_release(loop[1]);
}

static void op(char c)
{
    switch (c) {
    case 'A': case 'B': {
        char def[16];
        snprintf(def, sizeof(def), "block.%c.", c);
        struct uref *fd = uref_alloc_control(urefm);
        uref_flow_set_def(fd, def);
        log_line("{\"e\":\"SetFd\",\"f\":\"%c\"}", c);
        upipe_set_flow_def(qsink, fd);
        uref_free(fd);
        break;
    }
    case 'i': {
        struct uref *u = uref_alloc(urefm);
        uref_vx_set_id(u, next_id);
        log_line("{\"e\":\"Send\",\"id\":%d}", next_id);
        next_id++;
        upipe_input(qsink, u, NULL);
        break;
    }
    case 'f':
        log_line("{\"e\":\"Flush\"}");
        upipe_flush(qsink);
        break;
    case 'r':
        log_line("{\"e\":\"Release\"}");
        { struct upipe *q = qsink; qsink = NULL; upipe_release(q); }
        break;
    }
}

/* dispatch the n-th fd pump of a loop if ready (consumer: 1st = data worker, 2nd = oob) */
static bool dispatch_nth(struct upump_mgr *m, int n)
{
    struct vloop_pump_info infos[16];
    size_t cnt = vloop_pumps(m, infos, 16);
    int k = 0;
    for (size_t i = 0; i < cnt; i++) {
        if (infos[i].fd < 0) continue;
        if (k++ == n) {
            if (!vloop_is_ready(m, infos[i].upump)) return false;
            return vloop_dispatch(m, infos[i].upump);
        }
    }
    return false;
}

static bool any_ready(void *arg)
{
    struct upump_mgr *m = arg;
    struct vloop_pump_info infos[16];
    size_t cnt = vloop_pumps(m, infos, 16);
    for (size_t i = 0; i < cnt && i < 16; i++)
        if (vloop_is_ready(m, infos[i].upump)) return true;
    return false;
}

static long out_id;
static void emit(const char *kind, const char *what, const char *sched)
{
    printf("{\"e\":\"Reset\",\"L\":%d,\"tc\":1,\"kind\":\"%s\",\"what\":\"%s\",\"id\":%ld,\"sched\":\"%s\"}\n",
           L, kind, what, out_id++, sched ? sched : "");
    for (int k = 0; k < nev; k++) printf("%s\n", evbuf[k]);
}

/* ---------------------------------------------------------------- script mode */
static void run_script(const char *s)
{
    build();
    for (const char *p = s; *p; p++) {
        if (strchr("ABifr", *p)) {
            if (qsink == NULL) continue;       /* after release the handle is gone */
            cur_thread_script = 0;
            op(*p);
        } else if (*p == 'w') { cur_thread_script = 0; vloop_run_once(loop[0]); }
        else if (*p == 'c') { cur_thread_script = 1; dispatch_nth(loop[1], 0); }
        else if (*p == 'o') { cur_thread_script = 1; dispatch_nth(loop[1], 1); }
    }
    /* quiescence: is anything still dispatchable? if so the script stopped
     * early: run to quiescence (both loops) so that the end state is judged */
    for (int k = 0; k < 200; k++) {
        cur_thread_script = 0; unsigned a = vloop_run_once(loop[0]);
        cur_thread_script = 1; unsigned b = vloop_run_once(loop[1]);
        if (!a && !b) break;
    }
    log_line("{\"e\":\"Quiescent\"}");
    emit("script", s, NULL);
    teardown();
}

/* ---------------------------------------------------------------- sched mode */
static const char *prog;
static int poll_between;
static void producer(void *arg)
{
    for (const char *p = prog; *p; p++) {
        if (poll_between) vloop_run_once(loop[0]);
        vs_yield(VS_KIND_USER, NULL);
        if (qsink) op(*p);
    }
    for (;;) {
        vs_wait(any_ready, loop[0]);
        vloop_run_once(loop[0]);
    }
}
static void consumer(void *arg)
{
    for (;;) {
        vs_wait(any_ready, loop[1]);
        vloop_run_once(loop[1]);
    }
}
static bool built;
static void setup(void *ctx)
{
    vs_reset();
    if (built) { vs_uninstall_hooks(); teardown(); vs_install_hooks(); }
    build();
    built = true;
    vs_spawn(producer, NULL);
    vs_spawn(consumer, NULL);
}
#define HBITS 20
static uint64_t *seen;
static long nunique, nruns;
static struct vs_explore *cur_e;
static bool crashed;
static bool finish(void *ctx, const uint8_t *sched, int len, bool stuck)
{
    nruns++;
    if (crashed) log_line("{\"e\":\"Crash\"}");
    else if (cur_e->overrun) log_line("{\"e\":\"Hang\"}");
    else log_line("{\"e\":\"Quiescent\"}");
    uint64_t h = 1469598103934665603ULL;
    for (int i = 0; i < nev; i++)
        for (const char *p = evbuf[i]; *p; p++) { h = (h ^ (uint8_t)*p) * 1099511628211ULL; }
    h |= 1;
    uint64_t mask = (1ULL << HBITS) - 1, i = h & mask;
    while (seen[i]) { if (seen[i] == h) return true; i = (i + 1) & mask; }
    seen[i] = h;
    nunique++;
    static char sbuf[VS_MAXSTEPS + 1];
    for (int k = 0; k < len; k++) sbuf[k] = '0' + sched[k];
    sbuf[len] = 0;
    char what[64];
    snprintf(what, sizeof(what), "%s/%d", prog, poll_between);
    emit("sched", what, sbuf);
    return nunique < (1L << (HBITS - 1));
}
static void crash_dump(int sig)
{
    int len;
    const uint8_t *s = vs_cur_sched(&len);
    crashed = true;
    if (sched_mode) finish(NULL, s, len, false);
    else { log_line("{\"e\":\"Crash\"}"); emit("script", "crash", NULL); }
}

int main(int argc, char **argv)
{
    if (argc < 4) { fprintf(stderr, "usage\n"); return 2; }
    L = atoi(argv[1]);
    umem = umem_alloc_mgr_alloc();
    udict = udict_inline_mgr_alloc(0, umem, -1, -1);
    urefm = uref_std_mgr_alloc(0, udict, 0);
    vs_install_crash_handler(crash_dump);
    if (!strcmp(argv[2], "script")) {
        char *all = strdup(argv[3]);
        for (char *tok = strtok(all, ","); tok; tok = strtok(NULL, ","))
            run_script(tok);
        return 0;
    }
    sched_mode = true;
    prog = argv[3];
    poll_between = atoi(argv[4]);
    seen = calloc(1ULL << HBITS, sizeof(uint64_t));
    vs_install_hooks();
    struct vs_explore e = { .setup = setup, .finish = finish };
    cur_e = &e;
    const char *mode = argv[5];
    bool complete = false;
    if (!strcmp(mode, "dfs")) {
        e.preemption_bound = atoi(argv[6]);
        e.max_runs = atol(argv[7]);
        vs_explore_run(&e);
        complete = e.complete;
    } else if (!strcmp(mode, "random")) {
        long runs = atol(argv[6]);
        uint64_t rng = strtoull(argv[7], NULL, 10) * 2654435761ULL + 12345;
        int sw = atoi(argv[8]);
        static uint8_t out[VS_MAXSTEPS];
        for (long i = 0; i < runs; i++) {
            bool stuck;
            int len = vs_random(&e, &rng, sw, out, VS_MAXSTEPS, &stuck);
            finish(NULL, out, len, stuck);
        }
    } else {
        static uint8_t pre[VS_MAXSTEPS], out[VS_MAXSTEPS];
        int plen = 0;
        for (const char *p = argv[6]; *p; p++) pre[plen++] = (uint8_t)(*p - '0');
        bool stuck;
        int len = vs_replay(&e, pre, plen, out, VS_MAXSTEPS, &stuck);
        finish(NULL, out, len, stuck);
    }
    fprintf(stderr, "{\"runs\":%ld,\"unique\":%ld,\"complete\":%s,\"max_len\":%d}\n",
            nruns, nunique, complete ? "true" : "false", e.max_len);
    return 0;
}
