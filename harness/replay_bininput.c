/* replay_bininput: a bin pipe made ONLY of the repository's helper macros (UPIPE_HELPER_INNER +
 * UPIPE_HELPER_BIN_INPUT, include/upipe/upipe_helper_bin_input.h) whose first inner pipe is replaced /
 * dropped while requests are registered on it (C12: "... every still-registered request is withdrawn from
 * the old output and re-issued to the new one").  The inner pipes are recording pipes i0..i2 that hold the
 * registrations they are given (or answer them while they are made); the application keeps references of its
 * own on them until told to drop them.  Commands on stdin; one event per command for BinInput_Trace.tla.
 *   exec <id> <mask> <p>  a new bin and three new inner pipes; bit k of mask: inner k answers at registration
 *                         time; p=1: the bin's probe answers the provide_request events it catches
 *   reg <r> / unreg <r>   upipe_register_request / upipe_unregister_request(bin, request r)      (r = 0..2)
 *   store <x>             store_bin_input(bin, inner x) (x = 0..2, or -1: NULL)
 *   provide <i> <r>       inner i answers the registration of r it holds (no event if it holds none)
 *   drop <i>              the application releases its reference on inner i
 */
#include <stdio.h>
#include <stdlib.h>
#include <string.h>
#include <stdbool.h>
#include <stdarg.h>
#include <assert.h>

#include "upipe/ubase.h"
#include "upipe/ulist.h"
#include "upipe/urefcount.h"
#include "upipe/uprobe.h"
#include "upipe/uref.h"
#include "upipe/urequest.h"
#include "upipe/upipe.h"
#include "upipe/upipe_helper_upipe.h"
#include "upipe/upipe_helper_urefcount.h"
#include "upipe/upipe_helper_void.h"
#include "upipe/upipe_helper_inner.h"
#include "upipe/upipe_helper_bin_input.h"

#define NREQ 3
#define NINNER 3

/* ---- event collection ---- */
static char evs[4096];
static void ev_reset(void) { evs[0] = 0; }
static void ev_add(const char *fmt, ...)
{
    size_t n = strlen(evs);
    if (n) { evs[n++] = ','; evs[n] = 0; }
    va_list ap;
    va_start(ap, fmt);
    vsnprintf(evs + n, sizeof(evs) - n, fmt, ap);
    va_end(ap);
}

static struct urequest reqs[NREQ];
static bool req_reg[NREQ];
static const char *provider = "none";

static int req_index(struct urequest *r)
{
    /* the bin hands its proxies to the inner pipes: the opaque of a proxy is the upstream request */
    for (int depth = 0; r != NULL && depth < 4; depth++) {
        if (r >= reqs && r < reqs + NREQ) return (int)(r - reqs);
        r = urequest_get_opaque(r, struct urequest *);
    }
    return -1;
}
static int req_cb(struct urequest *r, va_list args)
{
    ev_add("[\"cb\",\"%s\",\"r%d\"]", provider, req_index(r));
    return UBASE_ERR_NONE;
}

/* ---- recording inner pipe ---- */
struct rec {
    struct upipe upipe;
    struct urefcount urefcount;
    int idx;
    bool answering;
    struct urequest *regs[8];
    int nregs;
};
UPIPE_HELPER_UPIPE(rec, upipe, 0x72656320)
UPIPE_HELPER_UREFCOUNT(rec, urefcount, rec_free)
UPIPE_HELPER_VOID(rec)
static char rec_names[NINNER][4] = { "i0", "i1", "i2" };

static struct upipe *rec_alloc(struct upipe_mgr *mgr, struct uprobe *uprobe, uint32_t sig, va_list args)
{
    struct upipe *upipe = rec_alloc_void(mgr, uprobe, sig, args);
    if (upipe == NULL) return NULL;
    rec_init_urefcount(upipe);
    rec_from_upipe(upipe)->nregs = 0;
    upipe_throw_ready(upipe);
    return upipe;
}
static int rec_control(struct upipe *upipe, int command, va_list args)
{
    struct rec *s = rec_from_upipe(upipe);
    switch (command) {
    case UPIPE_REGISTER_REQUEST: {
        struct urequest *r = va_arg(args, struct urequest *);
        ev_add("[\"sreg\",\"%s\",\"r%d\"]", rec_names[s->idx], req_index(r));
        if (s->nregs < 8) s->regs[s->nregs++] = r;
        if (s->answering) {
            const char *was = provider;
            provider = rec_names[s->idx];
            urequest_provide_sink_latency(r, (uint64_t)1000);
            provider = was;
        }
        return UBASE_ERR_NONE;
    }
    case UPIPE_UNREGISTER_REQUEST: {
        struct urequest *r = va_arg(args, struct urequest *);
        ev_add("[\"sunreg\",\"%s\",\"r%d\"]", rec_names[s->idx], req_index(r));
        for (int i = 0; i < s->nregs; i++)
            if (s->regs[i] == r) { s->regs[i] = s->regs[--s->nregs]; break; }
        return UBASE_ERR_NONE;
    }
    case UPIPE_SET_FLOW_DEF:
        return UBASE_ERR_NONE;
    default:
        return UBASE_ERR_UNHANDLED;
    }
}
static void rec_free(struct upipe *upipe)
{
    struct rec *s = rec_from_upipe(upipe);
    ev_add("[\"freed\",\"%s\",%d]", rec_names[s->idx], s->nregs);
    upipe_throw_dead(upipe);
    rec_clean_urefcount(upipe);
    rec_free_void(upipe);
}
static struct upipe_mgr rec_mgr = { .signature = 0x72656320, .upipe_alloc = rec_alloc, .upipe_control = rec_control };

/* ---- the bin ---- */
struct vbin {
    struct upipe upipe;
    struct urefcount urefcount;
    struct upipe *first_inner;
    struct uchain request_list;
};
UPIPE_HELPER_UPIPE(vbin, upipe, 0x7662696e)
UPIPE_HELPER_UREFCOUNT(vbin, urefcount, vbin_free)
UPIPE_HELPER_VOID(vbin)
UPIPE_HELPER_INNER(vbin, first_inner)
UPIPE_HELPER_BIN_INPUT(vbin, first_inner, request_list)

static struct upipe *vbin_alloc(struct upipe_mgr *mgr, struct uprobe *uprobe, uint32_t sig, va_list args)
{
    struct upipe *upipe = vbin_alloc_void(mgr, uprobe, sig, args);
    if (upipe == NULL) return NULL;
    vbin_init_urefcount(upipe);
    vbin_init_bin_input(upipe);
    upipe_throw_ready(upipe);
    return upipe;
}
static int vbin_control(struct upipe *upipe, int command, va_list args)
{
    return vbin_control_bin_input(upipe, command, args);
}
static void vbin_free(struct upipe *upipe)
{
    upipe_throw_dead(upipe);
    vbin_clean_bin_input(upipe);
    vbin_clean_urefcount(upipe);
    vbin_free_void(upipe);
}
static struct upipe_mgr vbin_mgr = { .signature = 0x7662696e, .upipe_alloc = vbin_alloc, .upipe_control = vbin_control };

/* ---- the application ---- */
static bool probe_answers;
static int catch(struct uprobe *uprobe, struct upipe *upipe, int event, va_list args)
{
    if (event == UPROBE_PROVIDE_REQUEST) {
        struct urequest *r = va_arg(args, struct urequest *);
        ev_add("[\"pr\",\"none\",\"r%d\"]", req_index(r));
        if (probe_answers) {
            const char *was = provider;
            provider = "none";
            urequest_provide_sink_latency(r, (uint64_t)2000);
            provider = was;
        }
        return UBASE_ERR_NONE;
    }
    return UBASE_ERR_NONE;
}
static struct uprobe probe;
static struct upipe *bin;
static struct upipe *inner[NINNER];     /* the pipes, as long as they may exist */
static bool held[NINNER];               /* the application's own reference */

static void teardown(void)
{
    if (bin == NULL) return;
    for (int r = 0; r < NREQ; r++)
        if (req_reg[r]) { upipe_unregister_request(bin, &reqs[r]); req_reg[r] = false; }
    vbin_store_bin_input(bin, NULL);
    upipe_release(bin);
    bin = NULL;
    for (int i = 0; i < NINNER; i++)
        if (held[i]) { upipe_release(inner[i]); held[i] = false; }
    for (int r = 0; r < NREQ; r++) urequest_clean(&reqs[r]);
}

int main(void)
{
    char line[128], c[16];
    setvbuf(stdout, NULL, _IOFBF, 1 << 16);
    uprobe_init(&probe, catch, NULL);
    while (fgets(line, sizeof(line), stdin)) {
        int a = 0, b = 0, d = 0;
        if (sscanf(line, "%15s %d %d %d", c, &a, &b, &d) < 1) continue;
        ev_reset();
        if (!strcmp(c, "exec")) {
            teardown();
            ev_reset();
            probe_answers = d != 0;
            for (int r = 0; r < NREQ; r++) urequest_init_sink_latency(&reqs[r], req_cb, NULL);
            bin = upipe_void_alloc(&vbin_mgr, uprobe_use(&probe));
            assert(bin != NULL);
            for (int i = 0; i < NINNER; i++) {
                inner[i] = upipe_void_alloc(&rec_mgr, uprobe_use(&probe));
                assert(inner[i] != NULL);
                rec_from_upipe(inner[i])->idx = i;
                rec_from_upipe(inner[i])->answering = (b >> i) & 1;
                held[i] = true;
            }
            printf("{\"e\":\"Reset\",\"id\":%d,\"answering\":[", a);
            for (int i = 0, n = 0; i < NINNER; i++)
                if ((b >> i) & 1) printf("%s\"i%d\"", n++ ? "," : "", i);
            printf("],\"probe\":%s}\n", probe_answers ? "true" : "false");
        } else if (!strcmp(c, "reg")) {
            int err = upipe_register_request(bin, &reqs[a]);
            req_reg[a] = true;
            printf("{\"e\":\"Reg\",\"r\":\"r%d\",\"evs\":[%s],\"ret\":%d}\n", a, evs, err);
        } else if (!strcmp(c, "unreg")) {
            int err = upipe_unregister_request(bin, &reqs[a]);
            req_reg[a] = false;
            printf("{\"e\":\"Unreg\",\"r\":\"r%d\",\"evs\":[%s],\"ret\":%d}\n", a, evs, err);
        } else if (!strcmp(c, "store")) {
            vbin_store_bin_input(bin, a < 0 ? NULL : upipe_use(inner[a]));
            if (a < 0) printf("{\"e\":\"Store\",\"x\":\"none\",\"evs\":[%s]}\n", evs);
            else printf("{\"e\":\"Store\",\"x\":\"i%d\",\"evs\":[%s]}\n", a, evs);
        } else if (!strcmp(c, "provide")) {
            struct rec *s = rec_from_upipe(inner[a]);
            for (int i = 0; i < s->nregs; i++)
                if (req_index(s->regs[i]) == b) {
                    provider = rec_names[a];
                    urequest_provide_sink_latency(s->regs[i], (uint64_t)3000);
                    provider = "none";
                    break;
                }
            printf("{\"e\":\"Provide\",\"i\":\"i%d\",\"r\":\"r%d\",\"evs\":[%s]}\n", a, b, evs);
        } else if (!strcmp(c, "drop")) {
            held[a] = false;
            upipe_release(inner[a]);
            printf("{\"e\":\"Drop\",\"i\":\"i%d\",\"evs\":[%s]}\n", a, evs);
        }
    }
    teardown();
    uprobe_clean(&probe);
    return 0;
}
