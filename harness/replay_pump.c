/* replay_pump: executes command scripts on ONE pump of
 *   (a) the vloop mock manager over the real lib/upipe/upump_common.c, or
 *   (b) the real upump_ev manager (lib/upump-ev/upump_ev.c + libev),
 * and prints what it observes after every command (property C13).
 *
 * stdin, one command per line:
 *   new <vloop|ev> <idler|fd|timer|oneshot>   tear down, fresh manager + pump
 *   start | stop | restart | status <0|1> | getstatus
 *   balloc <1..3> | bfree <1..3>              blocker slots
 *   dispatch                                  vloop: vloop_dispatch(); ev: one loop iteration
 *   poll <none|stop|free|restart|block>       one loop iteration (vloop_run_once /
 *                                             ev_run(EVRUN_NOWAIT)); the word says what the
 *                                             pump's call-back does if it is invoked
 *   free
 * stdout, one line per command:
 *   a=<0|1|-> fired=<n> notif=<n1><n2><n3> ret=<0|1|-> calls=[..] alive=<0|1|->
 *     a      back-end watcher active after the command (vloop only; "-" for ev); after
 *            free: the watcher was left active by upump_free
 *     fired  invocations of the pump's call-back during the command
 *     notif  invocations of each blocker's call-back during the command
 *     ret    value returned by getstatus
 *     calls  back-end calls real_start/stop/restart with their status argument (vloop only)
 *     alive  loop reports a watcher keeping it alive (ev: return value of ev_run, polls only;
 *            vloop: vloop_busy) - informational
 *   or "skip" if the command is not legal in the current situation (slot busy /
 *   empty, pump already freed, dispatch while inactive on vloop): nothing was done.
 * The blocker call-back frees its blocker, as upipe_helper_input does.
 */
#include "upipe/ubase.h"
#include "upipe/urefcount.h"
#include "upipe/upump.h"
#include "upipe/upump_blocker.h"
#include "upump-ev/upump_ev.h"
#include "vloop.h"

#include <ev.h>
#include <stdio.h>
#include <stdlib.h>
#include <string.h>
#include <unistd.h>
#include <sys/eventfd.h>

#define NB 3

enum act { ACT_NONE, ACT_STOP, ACT_FREE, ACT_RESTART, ACT_BLOCK };

static bool is_ev;
static bool is_timer;
static struct ev_loop *loop;
static struct upump_mgr *mgr;
static struct upump *pump;          /* NULL once freed */
static int evfd = -1;
static struct upump_blocker *blk[NB];
static unsigned fired, notif[NB];
static enum act cb_act;

static void blocker_cb(struct upump_blocker *blocker)
{
    int slot = (int)(intptr_t)upump_blocker_get_opaque(blocker, void *);
    notif[slot]++;
    blk[slot] = NULL;
    upump_blocker_free(blocker);
}

static bool do_balloc(int slot)
{
    if (pump == NULL || blk[slot] != NULL)
        return false;
    blk[slot] = upump_blocker_alloc(pump, blocker_cb, (void *)(intptr_t)slot);
    if (blk[slot] == NULL) {
        fprintf(stderr, "blocker alloc failed\n");
        exit(3);
    }
    return true;
}

static void pump_cb(struct upump *upump)
{
    fired++;
    if (upump != pump) {
        /* call-back of a pump that was already freed: counted, nothing else */
        cb_act = ACT_NONE;
        return;
    }
    switch (cb_act) {
        case ACT_NONE:
            break;
        case ACT_STOP:
            upump_stop(upump);
            break;
        case ACT_FREE:
            pump = NULL;
            upump_free(upump);
            memset(blk, 0, sizeof(blk));
            break;
        case ACT_RESTART:
            upump_restart(upump);
            break;
        case ACT_BLOCK:
            do_balloc(0);
            break;
    }
    cb_act = ACT_NONE;
}

static void teardown(void)
{
    if (mgr == NULL)
        return;
    for (int i = 0; i < NB; i++)
        if (blk[i] != NULL) {
            upump_blocker_free(blk[i]);
            blk[i] = NULL;
        }
    if (pump != NULL) {
        upump_free(pump);
        pump = NULL;
    }
    upump_mgr_release(mgr);
    mgr = NULL;
    if (loop != NULL) {
        ev_loop_destroy(loop);
        loop = NULL;
    }
    if (evfd != -1) {
        close(evfd);
        evfd = -1;
    }
}

static bool do_new(const char *be, const char *kind)
{
    teardown();
    is_ev = !strcmp(be, "ev");
    if (is_ev) {
        loop = ev_loop_new(0);
        if (loop == NULL)
            return false;
        mgr = upump_ev_mgr_alloc(loop, 1, 1);
    } else if (!strcmp(be, "vloop"))
        mgr = vloop_mgr_alloc();
    else
        return false;
    if (mgr == NULL)
        return false;
    is_timer = false;
    if (!strcmp(kind, "idler"))
        pump = upump_alloc_idler(mgr, pump_cb, NULL, NULL);
    else if (!strcmp(kind, "fd")) {
        /* an event descriptor that stays readable */
        evfd = eventfd(1, EFD_NONBLOCK | EFD_CLOEXEC);
        if (evfd == -1)
            return false;
        pump = upump_alloc_fd_read(mgr, pump_cb, NULL, NULL, evfd);
    } else if (!strcmp(kind, "timer")) {
        is_timer = true;
        pump = upump_alloc_timer(mgr, pump_cb, NULL, NULL,
                                 UINT64_C(0), UINT64_C(1));
    } else if (!strcmp(kind, "oneshot")) {
        is_timer = true;
        pump = upump_alloc_timer(mgr, pump_cb, NULL, NULL,
                                 UINT64_C(0), UINT64_C(0));
    } else
        return false;
    return pump != NULL;
}

/* one iteration of the loop; returns "alive" */
static int loop_once(void)
{
    if (is_ev) {
        int alive = 0;
        unsigned before = fired;
        /* a timer needs the loop's clock to have moved past its deadline */
        for (int tries = 0; tries < (is_timer ? 3 : 1); tries++) {
            if (tries)
                usleep(60);
            alive = ev_run(loop, EVRUN_NOWAIT) ? 1 : 0;
            if (fired != before)
                break;
        }
        return alive;
    }
    /* vloop: idlers and ready descriptors by the loop, timers by hand */
    if (is_timer) {
        if (pump != NULL)
            vloop_dispatch(mgr, pump);
    } else
        vloop_run_once(mgr);
    return vloop_busy(mgr) ? 1 : 0;
}

int main(void)
{
    char line[256];
    /* REPLAY_PUMP_FLUSH: flush after every line (to locate a crash) */
    bool flush = getenv("REPLAY_PUMP_FLUSH") != NULL;
    setvbuf(stdout, NULL, _IOFBF, 1 << 16);
    while (fgets(line, sizeof(line), stdin) != NULL) {
        char op[32] = "", a1[32] = "", a2[32] = "";
        if (sscanf(line, "%31s %31s %31s", op, a1, a2) < 1)
            continue;
        if (!strcmp(op, "new")) {
            if (!do_new(a1, a2)) {
                fprintf(stderr, "cannot build %s %s\n", a1, a2);
                return 3;
            }
            printf("ok\n");
            fflush(stdout);
            continue;
        }
        if (mgr == NULL) {
            fprintf(stderr, "command before new\n");
            return 3;
        }
        fired = 0;
        memset(notif, 0, sizeof(notif));
        int ret = -1, alive = -1;
        bool legal = true;
        bool is_poll = !strcmp(op, "poll") || !strcmp(op, "dispatch");
        if (!is_ev)
            vloop_log_clear(mgr);

        if (pump == NULL && !is_poll)
            legal = false;
        else if (!strcmp(op, "start"))
            upump_start(pump);
        else if (!strcmp(op, "stop"))
            upump_stop(pump);
        else if (!strcmp(op, "restart"))
            upump_restart(pump);
        else if (!strcmp(op, "status"))
            upump_set_status(pump, atoi(a1) != 0);
        else if (!strcmp(op, "getstatus")) {
            bool s;
            upump_get_status(pump, &s);
            ret = s ? 1 : 0;
        } else if (!strcmp(op, "balloc")) {
            int slot = atoi(a1) - 1;
            legal = slot >= 0 && slot < NB && do_balloc(slot);
        } else if (!strcmp(op, "bfree")) {
            int slot = atoi(a1) - 1;
            legal = slot >= 0 && slot < NB && blk[slot] != NULL;
            if (legal) {
                struct upump_blocker *b = blk[slot];
                blk[slot] = NULL;
                upump_blocker_free(b);
            }
        } else if (!strcmp(op, "free")) {
            struct upump *p = pump;
            pump = NULL;
            upump_free(p);
            /* blockers that were not notified cannot be released any more */
            memset(blk, 0, sizeof(blk));
        } else if (!strcmp(op, "dispatch")) {
            cb_act = ACT_NONE;
            if (is_ev)
                alive = loop_once();
            else {
                legal = pump != NULL && vloop_dispatch(mgr, pump);
                alive = vloop_busy(mgr) ? 1 : 0;
            }
        } else if (!strcmp(op, "poll")) {
            cb_act = !strcmp(a1, "stop") ? ACT_STOP :
                     !strcmp(a1, "free") ? ACT_FREE :
                     !strcmp(a1, "restart") ? ACT_RESTART :
                     !strcmp(a1, "block") ? ACT_BLOCK : ACT_NONE;
            alive = loop_once();
            cb_act = ACT_NONE;
        } else {
            fprintf(stderr, "unknown command %s\n", op);
            return 3;
        }

        if (!legal) {
            printf("skip\n");
            if (flush)
                fflush(stdout);
            continue;
        }
        char calls[512] = "";
        if (is_ev)
            strcpy(calls, "-");
        else {
            const struct vloop_log_entry *log;
            size_t n = vloop_log(mgr, &log);
            size_t o = 0;
            calls[o++] = '[';
            for (size_t i = 0; i < n && o < sizeof(calls) - 16; i++) {
                if (log[i].call != VLOOP_REAL_START &&
                    log[i].call != VLOOP_REAL_STOP &&
                    log[i].call != VLOOP_REAL_RESTART)
                    continue;
                o += snprintf(calls + o, sizeof(calls) - o, "%s%s%d",
                              o > 1 ? "," : "", vloop_call_name(log[i].call),
                              log[i].status ? 1 : 0);
            }
            calls[o++] = ']';
            calls[o] = '\0';
        }
        char act = '-';
        if (!is_ev)
            act = (pump != NULL ? vloop_is_active(mgr, pump) :
                   vloop_leaked_active(mgr) != 0) ? '1' : '0';
        printf("a=%c fired=%u notif=%u%u%u ret=%c calls=%s alive=%c\n",
               act, fired, notif[0], notif[1], notif[2],
               ret < 0 ? '-' : '0' + ret, calls,
               alive < 0 ? '-' : '0' + alive);
        if (flush)
            fflush(stdout);
    }
    teardown();
    fflush(stdout);
    return 0;
}
