/* replay_pump: executes command scripts on ONE pump of
 *   (a) the vloop mock manager over the real lib/upipe/upump_common.c, or
 *   (b) the real upump_ev manager (lib/upump-ev/upump_ev.c + libev),
 * and prints what it observes after every command (property C13).
 *
 * stdin, one command per line:
 *   new <vloop|ev> <idler|fd|timer|oneshot>   tear down, fresh manager + pump
 *   start | stop | restart | status <0|1> | getstatus
 *   balloc <1..3> | bfree <1..3>              blocker slots
 *   dispatch                                  vloop: vloop_dispatch(); ev: one loop iteration
 *   poll <none|stop|free|restart|block>       one loop iteration (vloop_run_once /
 *                                             ev_run(EVRUN_NOWAIT)); the word says what the
 *                                             pump's call-back does if it is invoked
 *   poll2 <stop|block|free>                   one loop iteration in which ANOTHER ready watcher (ev: a raw
 *                                             libev timer of higher priority) runs first and stops /
 *                                             blocks (lowest free slot) / frees the pump
 *   free
 *   selftest                                  sanity test of the vloop API that the commands above
 *                                             do not reach (prints "selftest ok" or aborts)
 * stdout, one line per command:
 *   a=<0|1|-> fired=<n> notif=<n1><n2><n3> ret=<0|1|-> calls=[..] alive=<0|1|->
 *     a      back-end watcher active after the command (vloop only; "-" for ev); after
 *            free: the watcher was left active by upump_free
 *     fired  invocations of the pump's call-back during the command
 *     notif  invocations of each blocker's call-back during the command
 *     ret    value returned by getstatus
 *     calls  back-end calls real_start/stop/restart with their status argument (vloop only)
 *     alive  loop reports a watcher keeping it alive (ev: return value of ev_run, polls only;
 *            vloop: vloop_busy) - informational
 *   or "skip" if the command is not legal in the current situation (slot busy /
 *   empty, pump already freed, dispatch while inactive on vloop): nothing was done.
 * The blocker call-back frees its blocker, as upipe_helper_input does.
 */
#include "upipe/ubase.h"
#include "upipe/urefcount.h"
#include "upipe/upump.h"
#include "upipe/upump_blocker.h"
#include "upump-ev/upump_ev.h"
#include "vloop.h"

#include <ev.h>
#include <stdio.h>
#include <stdlib.h>
#include <string.h>
#include <unistd.h>
#include <sys/eventfd.h>

#define NB 3

enum act { ACT_NONE, ACT_STOP, ACT_FREE, ACT_RESTART, ACT_BLOCK };

static bool is_ev;
static bool is_timer;
static struct ev_loop *loop;
static struct upump_mgr *mgr;
static struct upump *pump;          /* NULL once freed */
static int evfd = -1;
static struct upump_blocker *blk[NB];
static unsigned fired, notif[NB];
static enum act cb_act;

static void blocker_cb(struct upump_blocker *blocker)
{
    int slot = (int)(intptr_t)upump_blocker_get_opaque(blocker, void *);
    notif[slot]++;
    blk[slot] = NULL;
    upump_blocker_free(blocker);
}

/* malloc is wrapped (-Wl,--wrap=malloc): the next allocation can be refused (ballocfail) */
void *__real_malloc(size_t n);
static bool fail_next_malloc;
static int refused_mallocs;
void *__wrap_malloc(size_t n)
{
    if (fail_next_malloc) {
        fail_next_malloc = false;
        refused_mallocs++;
        return NULL;
    }
    return __real_malloc(n);
}

static bool do_balloc(int slot)
{
    if (pump == NULL || blk[slot] != NULL)
        return false;
    blk[slot] = upump_blocker_alloc(pump, blocker_cb, (void *)(intptr_t)slot);
    if (blk[slot] == NULL) {
        fprintf(stderr, "blocker alloc failed\n");
        exit(3);
    }
    return true;
}

static void pump_cb(struct upump *upump)
{
    fired++;
    if (upump != pump) {
        /* call-back of a pump that was already freed: counted, nothing else */
        cb_act = ACT_NONE;
        return;
    }
    switch (cb_act) {
        case ACT_NONE:
            break;
        case ACT_STOP:
            upump_stop(upump);
            break;
        case ACT_FREE:
            pump = NULL;
            upump_free(upump);
            memset(blk, 0, sizeof(blk));
            break;
        case ACT_RESTART:
            upump_restart(upump);
            break;
        case ACT_BLOCK:
            do_balloc(0);
            break;
    }
    cb_act = ACT_NONE;
}

/* the other ready watcher of "poll2" */
static ev_timer helper;
static enum act h_act;
static void helper_act(void)
{
    enum act a = h_act;
    h_act = ACT_NONE;
    if (pump == NULL)
        return;
    switch (a) {
        case ACT_STOP:
            upump_stop(pump);
            break;
        case ACT_FREE: {
            struct upump *p = pump;
            pump = NULL;
            upump_free(p);
            memset(blk, 0, sizeof(blk));
            break;
        }
        case ACT_BLOCK:
            for (int i = 0; i < NB; i++)
                if (blk[i] == NULL) {
                    do_balloc(i);
                    break;
                }
            break;
        default:
            break;
    }
}
static void helper_cb(struct ev_loop *l, ev_timer *w, int revents)
{
    helper_act();
}

static void teardown(void)
{
    if (mgr == NULL)
        return;
    for (int i = 0; i < NB; i++)
        if (blk[i] != NULL) {
            upump_blocker_free(blk[i]);
            blk[i] = NULL;
        }
    if (pump != NULL) {
        upump_free(pump);
        pump = NULL;
    }
    upump_mgr_release(mgr);
    mgr = NULL;
    if (loop != NULL) {
        ev_loop_destroy(loop);
        loop = NULL;
    }
    if (evfd != -1) {
        close(evfd);
        evfd = -1;
    }
}

static bool do_new(const char *be, const char *kind)
{
    teardown();
    is_ev = !strcmp(be, "ev");
    if (is_ev) {
        loop = ev_loop_new(0);
        if (loop == NULL)
            return false;
        mgr = upump_ev_mgr_alloc(loop, 1, 1);
    } else if (!strcmp(be, "vloop"))
        mgr = vloop_mgr_alloc();
    else
        return false;
    if (mgr == NULL)
        return false;
    is_timer = false;
    if (!strcmp(kind, "idler"))
        pump = upump_alloc_idler(mgr, pump_cb, NULL, NULL);
    else if (!strcmp(kind, "fd")) {
        /* an event descriptor that stays readable */
        evfd = eventfd(1, EFD_NONBLOCK | EFD_CLOEXEC);
        if (evfd == -1)
            return false;
        pump = upump_alloc_fd_read(mgr, pump_cb, NULL, NULL, evfd);
    } else if (!strcmp(kind, "timer")) {
        is_timer = true;
        pump = upump_alloc_timer(mgr, pump_cb, NULL, NULL,
                                 UINT64_C(0), UINT64_C(1));
    } else if (!strcmp(kind, "oneshot")) {
        is_timer = true;
        pump = upump_alloc_timer(mgr, pump_cb, NULL, NULL,
                                 UINT64_C(0), UINT64_C(0));
    } else
        return false;
    return pump != NULL;
}

/* one iteration of the loop; returns "alive" */
static int loop_once(void)
{
    if (is_ev) {
        int alive = 0;
        unsigned before = fired;
        /* a timer needs the loop's clock to have moved past its deadline */
        for (int tries = 0; tries < (is_timer ? 3 : 1); tries++) {
            if (tries)
                usleep(60);
            alive = ev_run(loop, EVRUN_NOWAIT) ? 1 : 0;
            if (fired != before)
                break;
        }
        return alive;
    }
    /* vloop: idlers and ready descriptors by the loop, timers by hand */
    if (is_timer) {
        if (pump != NULL)
            vloop_dispatch(mgr, pump);
    } else
        vloop_run_once(mgr);
    return vloop_busy(mgr) ? 1 : 0;
}

/* --- vloop sanity test (tool check, not a verdict) --------------------------- */
#define ST_CHECK(c) do { if (!(c)) { fprintf(stderr, "vloop selftest failed line %d: %s\n", \
                                             __LINE__, #c); exit(3); } } while (0)
static unsigned st_count[8];
static void st_cb(struct upump *upump)
{
    st_count[upump_get_opaque(upump, uintptr_t)]++;
}
static void st_cb_free_other(struct upump *upump)
{
    /* frees the pump whose address is in the opaque */
    struct upump **other_p = upump_get_opaque(upump, struct upump **);
    if (*other_p != NULL) {
        upump_free(*other_p);
        *other_p = NULL;
    }
    st_count[7]++;
}

static void selftest(void)
{
    /* two managers coexist */
    struct upump_mgr *m1 = vloop_mgr_alloc(), *m2 = vloop_mgr_alloc_depth(2, 2);
    ST_CHECK(m1 != NULL && m2 != NULL);
    int efd = eventfd(0, EFD_NONBLOCK), pfd[2];
    ST_CHECK(efd != -1 && pipe(pfd) == 0);
    struct upump *rd = upump_alloc_fd_read(m1, st_cb, (void *)(uintptr_t)0, NULL, efd);
    struct upump *wr = upump_alloc_fd_write(m1, st_cb, (void *)(uintptr_t)1, NULL, pfd[1]);
    struct upump *idl = upump_alloc_idler(m1, st_cb, (void *)(uintptr_t)2, NULL);
    struct upump *t1 = upump_alloc_timer(m1, st_cb, (void *)(uintptr_t)3, NULL, 100, 0);
    struct upump *t2 = upump_alloc_timer(m1, st_cb, (void *)(uintptr_t)4, NULL, 30, 50);
    struct upump *sig = upump_alloc_signal(m1, st_cb, (void *)(uintptr_t)5, NULL, 10);
    struct upump *other = upump_alloc_idler(m2, st_cb, (void *)(uintptr_t)6, NULL);
    ST_CHECK(rd && wr && idl && t1 && t2 && sig && other);
    ST_CHECK(upump_alloc(m1, st_cb, NULL, NULL, 12345) == NULL);

    struct vloop_pump_info info[8];
    ST_CHECK(vloop_pumps(m1, info, 8) == 6 && vloop_pumps(m2, NULL, 0) == 1);
    ST_CHECK(info[0].upump == rd && info[0].type == UPUMP_TYPE_FD_READ && info[0].fd == efd);
    ST_CHECK(info[1].type == UPUMP_TYPE_FD_WRITE && info[1].fd == pfd[1] && !info[1].active);
    ST_CHECK(info[3].type == UPUMP_TYPE_TIMER && info[3].after == 100 && info[3].repeat == 0);
    ST_CHECK(info[5].type == UPUMP_TYPE_SIGNAL && info[5].signal == 10 && info[5].id == 6);
    ST_CHECK(vloop_pump_by_id(m1, 3) == idl && vloop_pump_by_id(m1, 9) == NULL);
    ST_CHECK(!vloop_pump_info(m2, rd, NULL) && vloop_pump_info(m1, rd, &info[0]));

    /* nothing started: nothing runs */
    ST_CHECK(vloop_run_once(m1) == 0 && !vloop_dispatch(m1, idl) && !vloop_busy(m1));
    upump_start(rd); upump_start(wr); upump_start(t1); upump_start(t2); upump_start(sig);
    upump_start(other);
    /* descriptor not readable: only the writable pipe end fires */
    ST_CHECK(!vloop_is_ready(m1, rd) && vloop_is_ready(m1, wr));
    ST_CHECK(vloop_run_once(m1) == 1 && st_count[1] == 1 && st_count[0] == 0);
    uint64_t one = 1;
    ST_CHECK(write(efd, &one, sizeof(one)) == sizeof(one));
    upump_stop(wr);
    ST_CHECK(vloop_run_once(m1) == 1 && st_count[0] == 1);
    /* the other manager is independent */
    ST_CHECK(st_count[6] == 0 && vloop_run(m2, 3) == 3 && st_count[6] == 3);
    /* order: descriptors before idlers */
    upump_start(idl);
    vloop_log_clear(m1);
    ST_CHECK(vloop_run_once(m1) == 2);
    const struct vloop_log_entry *log;
    ST_CHECK(vloop_log(m1, &log) == 2 && log[0].call == VLOOP_DISPATCH && log[0].id == 1 &&
             log[1].id == 3);
    upump_stop(idl);
    ST_CHECK(read(efd, &one, sizeof(one)) == sizeof(one) && vloop_run(m1, 10) == 0);
    /* timers: virtual clock, deadline order, one-shot vs repeat */
    ST_CHECK(vloop_now(m1) == 0 && vloop_next_timer(m1) == t2);
    ST_CHECK(vloop_advance(m1, 29, 100) == 0 && vloop_advance(m1, 1, 100) == 1 && st_count[4] == 1);
    ST_CHECK(vloop_advance(m1, 100, 100) == 3 && st_count[3] == 1 && st_count[4] == 3);
    ST_CHECK(!vloop_is_active(m1, t1) && vloop_is_active(m1, t2) && vloop_now(m1) == 130);
    upump_restart(t1);
    ST_CHECK(vloop_pump_info(m1, t1, &info[0]) && info[0].active && info[0].deadline == 230);
    /* stop keeps the time left */
    ST_CHECK(vloop_advance(m1, 40, 0) == 0);
    upump_stop(t1); upump_start(t1);
    ST_CHECK(vloop_pump_info(m1, t1, &info[0]) && info[0].deadline == 230);
    /* signals fire only by hand */
    ST_CHECK(vloop_dispatch(m1, sig) && st_count[5] == 1);
    /* UPUMP_MGR_RUN in virtual time: non-blocking pumps do not keep it alive */
    upump_set_status(t2, false); upump_set_status(sig, false); upump_set_status(rd, false);
    ST_CHECK(vloop_busy(m1));
    ubase_assert(upump_mgr_run(m1, NULL));
    ST_CHECK(st_count[3] == 2 && !vloop_busy(m1) && vloop_is_active(m1, t2));
    /* a call-back frees a later pump of the same iteration */
    struct upump *killer = upump_alloc_idler(m1, st_cb_free_other, &idl, NULL);
    ST_CHECK(killer != NULL);
    upump_start(killer); upump_start(idl);      /* idl (id 3) precedes killer (id 7) */
    unsigned before = st_count[2];
    ST_CHECK(vloop_run_once(m1) == 2 && st_count[2] == before + 1 && idl == NULL);
    ST_CHECK(vloop_run_once(m1) == 1);
    upump_free(killer);
    struct upump *victim = upump_alloc_idler(m1, st_cb, (void *)(uintptr_t)2, NULL);
    killer = upump_alloc_idler(m1, st_cb_free_other, &victim, NULL);
    /* now the killer is allocated after its victim but fires ... after it too;
     * put the victim later by re-allocating it */
    upump_free(victim);
    victim = upump_alloc_idler(m1, st_cb, (void *)(uintptr_t)2, NULL);
    upump_start(killer); upump_start(victim);
    before = st_count[2];
    ST_CHECK(vloop_run_once(m1) == 1 && st_count[2] == before && victim == NULL);
    ST_CHECK(vloop_leaked_active(m1) == 0);
    upump_free(killer);
    upump_free(rd); upump_free(wr); upump_free(t1); upump_free(t2); upump_free(sig);
    upump_free(other);
    ST_CHECK(vloop_pumps(m1, NULL, 0) == 0);
    upump_mgr_release(m1);
    upump_mgr_release(m2);
    close(efd); close(pfd[0]); close(pfd[1]);
    printf("selftest ok\n");
}

int main(void)
{
    char line[256];
    /* REPLAY_PUMP_FLUSH: flush after every line (to locate a crash) */
    bool flush = getenv("REPLAY_PUMP_FLUSH") != NULL;
    setvbuf(stdout, NULL, _IOFBF, 1 << 16);
    while (fgets(line, sizeof(line), stdin) != NULL) {
        char op[32] = "", a1[32] = "", a2[32] = "";
        if (sscanf(line, "%31s %31s %31s", op, a1, a2) < 1)
            continue;
        if (!strcmp(op, "selftest")) {
            selftest();
            continue;
        }
        if (!strcmp(op, "new")) {
            if (!do_new(a1, a2)) {
                fprintf(stderr, "cannot build %s %s\n", a1, a2);
                return 3;
            }
            printf("ok\n");
            fflush(stdout);
            continue;
        }
        if (mgr == NULL) {
            fprintf(stderr, "command before new\n");
            return 3;
        }
        fired = 0;
        memset(notif, 0, sizeof(notif));
        int ret = -1, alive = -1;
        bool legal = true;
        bool is_poll = !strcmp(op, "poll") || !strcmp(op, "dispatch");
        if (!strcmp(op, "poll2") && pump == NULL) { printf("skip\n"); if (flush) fflush(stdout); continue; }
        if (!is_ev)
            vloop_log_clear(mgr);

        if (pump == NULL && !is_poll)
            legal = false;
        else if (!strcmp(op, "start"))
            upump_start(pump);
        else if (!strcmp(op, "stop"))
            upump_stop(pump);
        else if (!strcmp(op, "restart"))
            upump_restart(pump);
        else if (!strcmp(op, "status"))
            upump_set_status(pump, atoi(a1) != 0);
        else if (!strcmp(op, "getstatus")) {
            bool s;
            upump_get_status(pump, &s);
            ret = s ? 1 : 0;
        } else if (!strcmp(op, "balloc")) {
            int slot = atoi(a1) - 1;
            legal = slot >= 0 && slot < NB && do_balloc(slot);
        } else if (!strcmp(op, "ballocfail")) {
            /* the allocation of the blocker is refused: nothing may happen to the pump */
            int slot = atoi(a1) - 1;
            legal = slot >= 0 && slot < NB && pump != NULL && blk[slot] == NULL;
            if (legal) {
                upump_mgr_vacuum(mgr);          /* no recycled blocker: malloc will be asked */
                int before = refused_mallocs;
                fail_next_malloc = true;
                struct upump_blocker *b = upump_blocker_alloc(pump, blocker_cb, (void *)(intptr_t)slot);
                fail_next_malloc = false;
                if (b != NULL || refused_mallocs != before + 1) {
                    fprintf(stderr, "ballocfail: the allocation was not refused\n");
                    exit(3);
                }
            }
        } else if (!strcmp(op, "bfree")) {
            int slot = atoi(a1) - 1;
            legal = slot >= 0 && slot < NB && blk[slot] != NULL;
            if (legal) {
                struct upump_blocker *b = blk[slot];
                blk[slot] = NULL;
                upump_blocker_free(b);
            }
        } else if (!strcmp(op, "free")) {
            struct upump *p = pump;
            pump = NULL;
            upump_free(p);
            /* blockers that were not notified cannot be released any more */
            memset(blk, 0, sizeof(blk));
        } else if (!strcmp(op, "dispatch")) {
            cb_act = ACT_NONE;
            if (is_ev)
                alive = loop_once();
            else {
                legal = pump != NULL && vloop_dispatch(mgr, pump);
                alive = vloop_busy(mgr) ? 1 : 0;
            }
        } else if (!strcmp(op, "poll2")) {
            /* one loop iteration in which another ready watcher runs first and acts on the pump */
            h_act = !strcmp(a1, "stop") ? ACT_STOP : !strcmp(a1, "free") ? ACT_FREE : ACT_BLOCK;
            if (h_act == ACT_BLOCK) {
                legal = false;
                for (int i = 0; i < NB; i++) if (blk[i] == NULL) legal = true;
            }
            if (legal) {
                cb_act = ACT_NONE;
                if (is_ev) {
                    /* a raw libev timer of higher priority: invoked before the pump's watcher when both
                     * are pending in the same iteration */
                    ev_timer_init(&helper, helper_cb, 0., 0.);
                    ev_set_priority(&helper, 1);
                    ev_timer_start(loop, &helper);
                    alive = loop_once();
                    ev_timer_stop(loop, &helper);
                } else {
                    helper_act();
                    alive = loop_once();
                }
            }
        } else if (!strcmp(op, "poll")) {
            cb_act = !strcmp(a1, "stop") ? ACT_STOP :
                     !strcmp(a1, "free") ? ACT_FREE :
                     !strcmp(a1, "restart") ? ACT_RESTART :
                     !strcmp(a1, "block") ? ACT_BLOCK : ACT_NONE;
            alive = loop_once();
            cb_act = ACT_NONE;
        } else {
            fprintf(stderr, "unknown command %s\n", op);
            return 3;
        }

        if (!legal) {
            printf("skip\n");
            if (flush)
                fflush(stdout);
            continue;
        }
        char calls[512] = "";
        if (is_ev)
            strcpy(calls, "-");
        else {
            const struct vloop_log_entry *log;
            size_t n = vloop_log(mgr, &log);
            size_t o = 0;
            calls[o++] = '[';
            for (size_t i = 0; i < n && o < sizeof(calls) - 16; i++) {
                if (log[i].call != VLOOP_REAL_START &&
                    log[i].call != VLOOP_REAL_STOP &&
                    log[i].call != VLOOP_REAL_RESTART)
                    continue;
                o += snprintf(calls + o, sizeof(calls) - o, "%s%s%d",
                              o > 1 ? "," : "", vloop_call_name(log[i].call),
                              log[i].status ? 1 : 0);
            }
            calls[o++] = ']';
            calls[o] = '\0';
        }
        char act = '-';
        if (!is_ev)
            act = (pump != NULL ? vloop_is_active(mgr, pump) :
                   vloop_leaked_active(mgr) != 0) ? '1' : '0';
        printf("a=%c fired=%u notif=%u%u%u ret=%c calls=%s alive=%c\n",
               act, fired, notif[0], notif[1], notif[2],
               ret < 0 ? '-' : '0' + ret, calls,
               alive < 0 ? '-' : '0' + alive);
        if (flush)
            fflush(stdout);
    }
    teardown();
    fflush(stdout);
    return 0;
}
