/* replay_bits: command interpreter over the REAL bit writer (ubits_put /
 * ubits_clean), the REAL bit reader over the same memory (ubits_get), and
 * the REAL block bit-stream reader (ubuf_block_stream_*) over segmented block
 * ubufs holding the written bytes.  (C18; DESIGN.md 4/C18)
 *
 * The script is read from stdin, one command per line; every command prints
 * one or more event lines on stdout.  The events are turned into ndjson by
 * checks/c18.py and judged by spec/Ubits_Trace.tla; behaviours predicted by
 * spec/Ubits.tla are compared with them textually.  There is no oracle here.
 *
 *   exec <id>                       start of an execution
 *   begin <cap>                     buffer of <cap> octets between two guard
 *                                   zones (pattern + ASan poison); ubits_init
 *   put <w> <hexvalue>              ubits_put
 *   clean                           ubits_clean
 *   (the readers are given the first min(size, octets produced) octets;
 *    their commands are skipped when ubits_clean did not succeed)
 *   rget <size> <w>...              ubits_get over buf[0,size)
 *   oget <size> <offbits> <w>...    ubuf_block_stream over buf[0,size) (init_from_opaque)
 *   sget <size> <offbits> <seg> <w>...
 *                                   ubuf_block_stream over a segmented block
 *                                   ubuf holding a copy of buf[0,size);
 *                                   seg = all | le2 | a+b+c (explicit sizes), optionally prefixed by
 *                                   w<pre>.<post>: the reader is given a window spliced out of a larger
 *                                   block (pre / post foreign octets in the first / last segment), or by
 *                                   x<k>.<m>: the block is built by append, split after k octets and appended
 *                                   to again (what pipes do to the buffers they cut and gather)
 *   end                             end of the execution
 *
 * Reader contract respected here: at most 24 bits are requested from
 * ubuf_block_stream_fill_bits / show_bits at once (the cache is 32 bits and
 * is filled octet-wise: available + 8 <= 32 must hold whenever an octet is
 * fetched; 24 is the largest request used in the repository).  A field
 * wider than 24 bits is read in two parts (w - 16 bits, then 16 bits).
 *
 * Executions run in a forked child: a sanitizer report / assertion failure /
 * signal ends the execution with a "san" event (captured from stderr), and
 * the parent goes on with the next execution.
 */
#undef NDEBUG
#include <stdio.h>
#include <stdlib.h>
#include <string.h>
#include <stdint.h>
#include <stdbool.h>
#include <assert.h>
#include <unistd.h>
#include <signal.h>
#include <sys/mman.h>
#include <sys/wait.h>

#include "upipe/ubase.h"
#include "upipe/ubits.h"
#include "upipe/umem.h"
#include "upipe/umem_alloc.h"
#include "upipe/ubuf.h"
#include "upipe/ubuf_block.h"
#include "upipe/ubuf_block_stream.h"
#include "upipe/ubuf_block_mem.h"

#if defined(__SANITIZE_ADDRESS__)
#include <sanitizer/asan_interface.h>
#define POISON(p, n)   do { if ((n) > 0) ASAN_POISON_MEMORY_REGION((p), (n)); } while (0)
#define UNPOISON(p, n) do { if ((n) > 0) ASAN_UNPOISON_MEMORY_REGION((p), (n)); } while (0)
const char *__asan_default_options(void) { return "detect_leaks=0:abort_on_error=0:symbolize=1"; }
#else
#define POISON(p, n)   do { } while (0)
#define UNPOISON(p, n) do { } while (0)
#endif
const char *__ubsan_default_options(void) { return "print_stacktrace=0"; }

#define G 32              /* guard octets on each side */
#define MAXSHOW 24        /* reader contract, see above */
#define MAXF 64
#define MAXSEG 64

static uint8_t *big, *buf;
static long cap = -1;
static long wend = -1;      /* octets produced by a successful ubits_clean, else -1 */
static struct ubits bw;
static struct umem_mgr *umem_mgr;
static struct ubuf_mgr *ubuf_mgr;

static uint8_t gpat(long i) { return (uint8_t)(0xA5 ^ (i * 7)); }

static int guards_intact(void)
{
    int ok = 1;
    UNPOISON(big, G);
    UNPOISON(buf + cap, G);
    for (long i = 0; i < G; i++) {
        if (big[i] != gpat(i)) ok = 0;
        if (buf[cap + i] != gpat(G + i)) ok = 0;
    }
    POISON(big, G);
    POISON(buf + cap, G);
    return ok;
}

static void hexbytes(char *out, size_t outsz, const uint8_t *p, long n)
{
    size_t o = 0;
    out[0] = 0;
    for (long i = 0; i < n && o + 3 < outsz; i++)
        o += snprintf(out + o, outsz - o, "%02x", p[i]);
}

static void cmd_begin(long c)
{
    if (big != NULL) {
        UNPOISON(big, G + cap + G);
        free(big);
    }
    cap = c;
    big = malloc(G + cap + G);
    assert(big != NULL);
    buf = big + G;
    for (long i = 0; i < G; i++) {
        big[i] = gpat(i);
        buf[cap + i] = gpat(G + i);
    }
    memset(buf, 0xCC, cap);
    POISON(big, G);
    POISON(buf + cap, G);
    ubits_init(&bw, buf, cap, UBITS_WRITE);
    wend = -1;
    printf("begin cap=%ld\n", cap);
}

static void cmd_put(int w, uint32_t v)
{
    uint8_t *old = bw.buffer;
    ubits_put(&bw, w, v);
    long n = bw.buffer - old;
    char hex[256];
    /* the new octets; an out-of-range pointer is reported through n, the
     * octets printed are clamped to the buffer */
    long from = old - buf, to = from + n;
    if (from < 0) from = 0;
    if (to > cap) to = cap;
    hexbytes(hex, sizeof(hex), buf + from, to > from ? to - from : 0);
    printf("put w=%d v=%x n=%ld b=%s ov=%d g=%d\n", w, v, n, hex,
           bw.overflow ? 1 : 0, guards_intact());
}

static void cmd_clean(void)
{
    uint8_t *endp = NULL;
    int r = ubits_clean(&bw, &endp);
    if (r == UBASE_ERR_NONE) {
        long end = endp - buf;
        static char hex[8192];
        long to = end;
        if (to > cap) to = cap;
        wend = to > 0 ? to : 0;
        hexbytes(hex, sizeof(hex), buf, to > 0 ? to : 0);
        printf("clean r=0 end=%ld all=%s g=%d\n", end, hex, guards_intact());
    } else
        printf("clean r=%d end=-1 all= g=%d\n", r == UBASE_ERR_NOSPC ? 1 : 2,
               guards_intact());
}

static void cmd_rget(long size, int nw, const int *ws)
{
    if (size > wend) size = wend;
    POISON(buf + size, cap - size);
    struct ubits br;
    ubits_init(&br, buf, size, UBITS_READ);
    printf("rinit rd=ubits size=%ld off=0 seg=- nseg=1 ok=1\n", size);
    for (int i = 0; i < nw; i++) {
        uint32_t v = ubits_get(&br, ws[i]);
        printf("get w=%d v=%x ov=%d\n", ws[i], v, br.overflow ? 1 : 0);
    }
    UNPOISON(buf + size, cap - size);
    printf("rdone r=0 g=%d\n", guards_intact());
}

/* one pass of the block stream reader; the outcome is appended to out */
static void stream_pass(struct ubuf_block_stream *s, int nw, const int *ws,
                        char *out, size_t outsz)
{
    size_t o = strlen(out);
    for (int i = 0; i < nw; i++) {
        int w = ws[i];
        uint32_t v;
        if (w <= MAXSHOW) {
            ubuf_block_stream_fill_bits(s, w);
            v = ubuf_block_stream_show_bits(s, w);
            ubuf_block_stream_skip_bits(s, w);
        } else {
            int hi = w - 16;
            ubuf_block_stream_fill_bits(s, hi);
            uint32_t a = ubuf_block_stream_show_bits(s, hi);
            ubuf_block_stream_skip_bits(s, hi);
            ubuf_block_stream_fill_bits(s, 16);
            uint32_t b = ubuf_block_stream_show_bits(s, 16);
            ubuf_block_stream_skip_bits(s, 16);
            v = (a << 16) | b;
        }
        o += snprintf(out + o, outsz - o, "get w=%d v=%x ov=%d\n", w, v,
                      s->overflow ? 1 : 0);
    }
}

static void cmd_oget(long size, int off, int nw, const int *ws)
{
    if (size > wend) size = wend;
    POISON(buf + size, cap - size);
    struct ubuf_block_stream s;
    static char out[16384];
    out[0] = 0;
    int ok = off / 8 <= size;
    if (ok) {
        ubuf_block_stream_init_from_opaque(&s, buf + off / 8, size - off / 8);
        if (off % 8) {
            ubuf_block_stream_fill_bits(&s, off % 8);
            ubuf_block_stream_skip_bits(&s, off % 8);
        }
    }
    printf("rinit rd=opaque size=%ld off=%d seg=- nseg=1 ok=%d\n", size, off, ok);
    int r = 0;
    if (ok) {
        stream_pass(&s, nw, ws, out, sizeof(out));
        r = ubuf_block_stream_clean(&s);
    }
    fputs(out, stdout);
    UNPOISON(buf + size, cap - size);
    printf("rdone r=%d g=%d\n", r, guards_intact());
}

/* window mode (seg token "w<pre>.<post>:<seg>"): the readers are given a WINDOW spliced out of a larger
 * block - pre foreign octets (0xa5) in front, in the first segment, and post behind, in the last one, so
 * that the window crosses the segment boundaries and ends inside a segment */
static long win_pre, win_post;
/* split mode (seg token "x<k>.<m>:<seg>", k < size): the block is put together the way pipes do it - the
 * first k octets and m foreign octets arrive in one append-built block, the block is split after the k
 * octets (the foreign tail goes away) and the remaining segments are appended to what is left */
static long split_k = -1, split_m;

static struct ubuf *seg_of_bytes(const uint8_t *p, long n, int fill)
{
    struct ubuf *u = ubuf_block_alloc(ubuf_mgr, n);
    if (u == NULL) { printf("err alloc\n"); exit(3); }
    if (n > 0) {
        int sz = -1;
        uint8_t *w;
        if (!ubase_check(ubuf_block_write(u, 0, &sz, &w)) || sz != n) { printf("err write\n"); exit(3); }
        if (p != NULL) memcpy(w, p, n); else memset(w, fill, n);
        ubuf_block_unmap(u, 0);
    }
    return u;
}

static struct ubuf *build_block(long size, int nseg, const int *segs);
static struct ubuf *build_split(long size, int nseg, const int *segs)
{
    long k = split_k < size ? split_k : size / 2, m = split_m > 0 ? split_m : 1;
    /* head: buf[0,k) in the given segmentation (cut at k), then two foreign segments */
    struct ubuf *head = NULL;
    long pos = 0;
    for (int i = 0; i < nseg && pos < k; i++) {
        long n = segs[i] < k - pos ? segs[i] : k - pos;
        struct ubuf *u = seg_of_bytes(buf + pos, n, 0);
        pos += n;
        if (head == NULL) head = u;
        else if (!ubase_check(ubuf_block_append(head, u))) { printf("err append\n"); exit(3); }
    }
    if (head == NULL) head = seg_of_bytes(buf, 0, 0);
    if (!ubase_check(ubuf_block_append(head, seg_of_bytes(NULL, m, 0x5a))) ||
        !ubase_check(ubuf_block_append(head, seg_of_bytes(NULL, m + 1, 0xa5)))) { printf("err append\n"); exit(3); }
    struct ubuf *tail = ubuf_block_split(head, k);
    if (tail == NULL) { printf("err split\n"); exit(3); }
    ubuf_free(tail);
    /* the rest of the octets, in the rest of the segmentation */
    pos = 0;
    for (int i = 0; i < nseg; i++) {
        long a = pos, b = pos + segs[i];
        pos = b;
        if (b <= k) continue;
        if (a < k) a = k;
        if (!ubase_check(ubuf_block_append(head, seg_of_bytes(buf + a, b - a, 0)))) { printf("err append\n"); exit(3); }
    }
    return head;
}

/* p<h>.<n>: the block first carries an old header of h octets that is exactly its first segment; the header is
 * stripped (the head segment is empty from then on, with room in front of it), the block is looked at, n <= h
 * octets are prepended and filled with the first n octets of the data: what an encapsulation pipe does when it
 * swaps one header for another */
static long prep_h = -1, prep_n;
static struct ubuf *build_prep(long size, int nseg, const int *segs)
{
    long h = prep_h > 0 ? prep_h : 1, n = prep_n < h ? prep_n : h;
    if (n > size) n = size;
    struct ubuf *head = seg_of_bytes(NULL, h, 0x3c);
    long pos = 0;
    for (int i = 0; i < nseg; i++) {
        long a = pos, b = pos + segs[i];
        pos = b;
        if (b <= n && !(segs[i] == 0 && a >= n)) continue;
        if (a < n) a = n;
        if (!ubase_check(ubuf_block_append(head, seg_of_bytes(buf + a, b - a, 0)))) { printf("err append\n"); exit(3); }
    }
    if (!ubase_check(ubuf_block_resize(head, h, -1))) { printf("err strip\n"); exit(3); }
    if (size > n) {
        int sz = 1;
        const uint8_t *r;
        if (!ubase_check(ubuf_block_read(head, 0, &sz, &r))) { printf("err look\n"); exit(3); }
        ubuf_block_unmap(head, 0);
    }
    if (n > 0) {
        if (!ubase_check(ubuf_block_prepend(head, n))) { printf("err prepend\n"); exit(3); }
        for (long o = 0; o < n; ) {
            int sz = n - o;
            uint8_t *w;
            /* (a refusal here is the code's: the read-back below then differs from what was written) */
            if (!ubase_check(ubuf_block_write(head, o, &sz, &w)) || sz <= 0) break;
            memcpy(w, buf + o, sz);
            ubuf_block_unmap(head, o);
            o += sz;
        }
    }
    return head;
}

static struct ubuf *build_block(long size, int nseg, const int *segs)
{
    if (prep_h >= 0 && size >= 1)
        return build_prep(size, nseg, segs);
    if (split_k >= 0 && size >= 2)
        return build_split(size, nseg, segs);
    struct ubuf *head = NULL;
    long pos = 0;
    for (int k = 0; k < nseg; k++) {
        long extra_front = (k == 0) ? win_pre : 0, extra_back = (k == nseg - 1) ? win_post : 0;
        long total = extra_front + segs[k] + extra_back;
        struct ubuf *u = ubuf_block_alloc(ubuf_mgr, total);
        if (u == NULL) { printf("err alloc\n"); exit(3); }
        if (total > 0) {
            int sz = -1;
            uint8_t *w;
            if (!ubase_check(ubuf_block_write(u, 0, &sz, &w)) || sz != total) {
                printf("err write\n"); exit(3);
            }
            memset(w, 0xa5, total);
            memcpy(w + extra_front, buf + pos, segs[k]);
            ubuf_block_unmap(u, 0);
        }
        pos += segs[k];
        if (head == NULL)
            head = u;
        else if (!ubase_check(ubuf_block_append(head, u))) {
            printf("err append\n"); exit(3);
        }
    }
    assert(pos == size);
    if (win_pre || win_post) {
        struct ubuf *win = ubuf_block_splice(head, win_pre, size);
        if (win == NULL) { printf("err splice\n"); exit(3); }
        ubuf_free(head);
        return win;
    }
    return head;
}

#define MAXOUT 64
static char *outs[MAXOUT];
static char outseg[MAXOUT][3 * MAXSEG + 8];
static long outcnt[MAXOUT];
static int nouts;

static void one_segmentation(long size, int off, int nseg, const int *segs,
                             int nw, const int *ws)
{
    static char out[16384];
    struct ubuf *ubuf = build_block(size, nseg, segs);
    struct ubuf_block_stream s;
    int err = off ? ubuf_block_stream_init_bits(&s, ubuf, off)
                  : ubuf_block_stream_init(&s, ubuf, 0);
    int ok = ubase_check(err);
    snprintf(out, sizeof(out), "ok=%d\n", ok);
    int r = 0;
    if (ok) {
        stream_pass(&s, nw, ws, out, sizeof(out));
        r = ubuf_block_stream_clean(&s);
    }
    size_t o = strlen(out);
    snprintf(out + o, sizeof(out) - o, "rdone r=%d g=%d\n", r, guards_intact());
    ubuf_free(ubuf);
    int k;
    for (k = 0; k < nouts; k++)
        if (!strcmp(outs[k], out))
            break;
    if (k == nouts) {
        if (nouts == MAXOUT)
            return;
        outs[k] = strdup(out);
        outcnt[k] = 0;
        size_t so = 0;
        outseg[k][0] = 0;
        for (int i = 0; i < nseg; i++)
            so += snprintf(outseg[k] + so, sizeof(outseg[k]) - so, "%s%d",
                           i ? "+" : "", segs[i]);
        nouts++;
    }
    outcnt[k]++;
}

static void cmd_sget(long size, int off, const char *seg, int nw, const int *ws)
{
    if (size > wend) size = wend;
    win_pre = win_post = 0;
    split_k = -1;
    prep_h = -1;
    if (seg[0] == 'p') {
        char *e;
        prep_h = strtol(seg + 1, &e, 10);
        prep_n = 1;
        if (*e == '.') prep_n = strtol(e + 1, &e, 10);
        if (*e != ':') { printf("err prep token\n"); exit(3); }
        seg = e + 1;
    }
    if (seg[0] == 'x') {
        char *e;
        split_k = strtol(seg + 1, &e, 10);
        split_m = 1;
        if (*e == '.') split_m = strtol(e + 1, &e, 10);
        if (*e != ':') { printf("err split token\n"); exit(3); }
        seg = e + 1;
    }
    if (seg[0] == 'w') {
        char *e;
        win_pre = strtol(seg + 1, &e, 10);
        if (*e == '.') win_post = strtol(e + 1, &e, 10);
        if (*e != ':') { printf("err window\n"); exit(3); }
        seg = e + 1;
    }
    int segs[MAXSEG];
    nouts = 0;
    if (!strcmp(seg, "all") || !strcmp(seg, "le2")) {
        bool le2 = !strcmp(seg, "le2");
        if (size <= 1) {
            segs[0] = size;
            one_segmentation(size, off, 1, segs, nw, ws);
        } else {
            if (size - 1 > 20 && !le2) { printf("err size\n"); exit(3); }
            if (le2) {
                /* every octet its own segment */
                for (long i = 0; i < size && i < MAXSEG; i++) segs[i] = 1;
                if (size <= MAXSEG)
                    one_segmentation(size, off, size, segs, nw, ws);
                /* no cut, one cut (c1 == c2), two cuts (c1 < c2) */
                segs[0] = size;
                one_segmentation(size, off, 1, segs, nw, ws);
                for (long c1 = 1; c1 < size; c1++)
                    for (long c2 = c1; c2 < size; c2++) {
                        int n = 0;
                        segs[n++] = c1;
                        if (c2 > c1)
                            segs[n++] = c2 - c1;
                        segs[n++] = size - c2;
                        one_segmentation(size, off, n, segs, nw, ws);
                    }
            } else {
                for (unsigned long m = 0; m < (1UL << (size - 1)); m++) {
                    int n = 0;
                    long last = 0;
                    for (long c = 1; c < size; c++)
                        if (m & (1UL << (c - 1))) { segs[n++] = c - last; last = c; }
                    segs[n++] = size - last;
                    one_segmentation(size, off, n, segs, nw, ws);
                }
            }
        }
    } else {
        int n = 0;
        long tot = 0;
        const char *p = seg;
        while (*p && n < MAXSEG) {
            segs[n] = strtol(p, (char **)&p, 10);
            tot += segs[n++];
            if (*p == '+') p++;
        }
        /* the writer under test may have produced fewer octets than the script expected (size was
         * clipped to what it announced): trim the segmentation instead of calling it a script error */
        while (tot > size && n > 0) {
            long cut = tot - size < segs[n - 1] ? tot - size : segs[n - 1];
            segs[n - 1] -= cut;
            tot -= cut;
            if (segs[n - 1] == 0 && tot > size) n--;
        }
        if (tot != size) { printf("err segsum\n"); exit(3); }
        one_segmentation(size, off, n, segs, nw, ws);
    }
    for (int k = 0; k < nouts; k++) {
        int ok = outs[k][3] - '0';
        printf("rinit rd=stream size=%ld off=%d seg=%s nseg=%ld ok=%d\n", size,
               off, outseg[k], outcnt[k], ok);
        fputs(outs[k] + 5, stdout);
        free(outs[k]);
    }
}

/* ------------------------------------------------------------ interpreter */
static char **lines;
static long nlines;

static int parse_ws(char *tok[], int ntok, int from, int *ws)
{
    int nw = 0;
    for (int i = from; i < ntok && nw < MAXF; i++) {
        ws[nw] = atoi(tok[i]);
        if (ws[nw] < 1 || ws[nw] > 32) { printf("err width\n"); exit(3); }
        nw++;
    }
    return nw;
}

static void do_line(char *line)
{
    char *tok[MAXF + 8];
    int ntok = 0;
    char *sv = NULL;
    for (char *t = strtok_r(line, " \t\r\n", &sv); t != NULL && ntok < MAXF + 8;
         t = strtok_r(NULL, " \t\r\n", &sv))
        tok[ntok++] = t;
    if (!ntok)
        return;
    int ws[MAXF];
    if (!strcmp(tok[0], "exec"))
        printf("exec %s\n", ntok > 1 ? tok[1] : "?");
    else if (!strcmp(tok[0], "end"))
        printf("end\n");
    else if (!strcmp(tok[0], "begin") && ntok == 2)
        cmd_begin(atol(tok[1]));
    else if (cap < 0) { printf("err nobuffer\n"); exit(3); }
    else if (!strcmp(tok[0], "put") && ntok == 3)
        cmd_put(atoi(tok[1]), (uint32_t)strtoul(tok[2], NULL, 16));
    else if (!strcmp(tok[0], "clean"))
        cmd_clean();
    else if (wend < 0 && (!strcmp(tok[0], "rget") || !strcmp(tok[0], "oget") ||
                          !strcmp(tok[0], "sget")))
        ; /* nothing was produced (NOSPC): nothing to read back */
    else if (!strcmp(tok[0], "rget") && ntok >= 2) {
        int nw = parse_ws(tok, ntok, 2, ws);
        cmd_rget(atol(tok[1]), nw, ws);
    } else if (!strcmp(tok[0], "oget") && ntok >= 3) {
        int nw = parse_ws(tok, ntok, 3, ws);
        cmd_oget(atol(tok[1]), atoi(tok[2]), nw, ws);
    } else if (!strcmp(tok[0], "sget") && ntok >= 4) {
        int nw = parse_ws(tok, ntok, 4, ws);
        cmd_sget(atol(tok[1]), atoi(tok[2]), tok[3], nw, ws);
    } else { printf("err command %s\n", tok[0]); exit(3); }
    fflush(stdout);
}

/* keep what is stable in a sanitizer / assert message */
static void report_san(const char *err, int status)
{
    char kind[32] = "signal", where[128] = "?", msg[256] = "";
    const char *p;
    if ((p = strstr(err, "runtime error: ")) != NULL) {
        strcpy(kind, "ubsan");
        /* file name: walk back to the beginning of the line */
        const char *b = p;
        while (b > err && b[-1] != '\n') b--;
        const char *slash = b;
        for (const char *q = b; q < p; q++) if (*q == '/') slash = q + 1;
        size_t n = strcspn(slash, ":");
        snprintf(where, sizeof(where), "%.*s", (int)(n < 100 ? n : 100), slash);
        snprintf(msg, sizeof(msg), "%.*s", (int)strcspn(p + 15, "\n"), p + 15);
    } else if ((p = strstr(err, "AddressSanitizer: ")) != NULL) {
        strcpy(kind, "asan");
        size_t n = strcspn(p + 18, " \n");
        const char *rw = strstr(p, "WRITE of size") ? "WRITE" :
                         strstr(p, "READ of size") ? "READ" : "";
        snprintf(msg, sizeof(msg), "%.*s %s", (int)n, p + 18, rw);
        const char *f = strstr(p, "#0 ");
        if (f != NULL && (f = strstr(f, " in ")) != NULL) {
            f += 4;
            snprintf(where, sizeof(where), "%.*s", (int)strcspn(f, " \n"), f);
        }
    } else if ((p = strstr(err, "Assertion")) != NULL) {
        strcpy(kind, "assert");
        snprintf(msg, sizeof(msg), "%.*s", (int)strcspn(p, "\n"), p);
        const char *b = p;
        while (b > err && b[-1] != '\n') b--;
        const char *slash = b;
        for (const char *q = b; q < p; q++) if (*q == '/') slash = q + 1;
        size_t n = strcspn(slash, ":");
        snprintf(where, sizeof(where), "%.*s", (int)(n < 100 ? n : 100), slash);
    } else if (WIFSIGNALED(status) && WTERMSIG(status) == SIGALRM) {
        strcpy(kind, "hang");
        snprintf(msg, sizeof(msg), "execution did not terminate within the harness alarm");
    } else
        snprintf(msg, sizeof(msg), "status %d", status);
    for (char *q = msg; *q; q++)
        if (*q == '"' || *q == '\\' || *q == '\'' || *q == '`' || (unsigned char)*q < 32)
            *q = ' ';
    for (char *q = where; *q; q++)
        if (*q == '"' || *q == '\\' || (unsigned char)*q < 32)
            *q = ' ';
    printf("san {\"kind\":\"%s\",\"where\":\"%s\",\"msg\":\"%s\"}\n", kind, where, msg);
    printf("end\n");
    fflush(stdout);
}

int main(int argc, char **argv)
{
    /* read the whole script */
    size_t capl = 1024;
    lines = malloc(capl * sizeof(char *));
    char *l = NULL;
    size_t ln = 0;
    while (getline(&l, &ln, stdin) > 0) {
        if ((size_t)nlines == capl)
            lines = realloc(lines, (capl *= 2) * sizeof(char *));
        lines[nlines++] = strdup(l);
    }
    free(l);

    long *cur = mmap(NULL, sizeof(long), PROT_READ | PROT_WRITE,
                     MAP_SHARED | MAP_ANONYMOUS, -1, 0);
    assert(cur != MAP_FAILED);
    long start = 0;
    while (start < nlines) {
        int pe[2];
        if (pipe(pe) != 0) return 2;
        fflush(stdout);
        *cur = start;
        pid_t pid = fork();
        if (pid < 0) return 2;
        if (pid == 0) {
            close(pe[0]);
            dup2(pe[1], 2);
            close(pe[1]);
            umem_mgr = umem_alloc_mgr_alloc();
            assert(umem_mgr != NULL);
            /* tight buffers: no prepend/append, alignment 1 */
            ubuf_mgr = ubuf_block_mem_mgr_alloc(0, 0, umem_mgr, 0, 0, 1, 0);
            assert(ubuf_mgr != NULL);
            /* an execution of the code under test that does not terminate
             * (e.g. a flush loop that makes no progress) must become an
             * event, not block the parent's read() until the check's
             * time-out: every execution runs under an alarm whose default
             * action kills the child; the parent reports kind "hang" */
            unsigned alarm_s = 20;
            if (getenv("REPLAY_ALARM_S") != NULL && atoi(getenv("REPLAY_ALARM_S")) > 0)
                alarm_s = atoi(getenv("REPLAY_ALARM_S"));
            for (long i = start; i < nlines; i++) {
                if (!strncmp(lines[i], "exec", 4)) {
                    *cur = i;
                    alarm(alarm_s);
                }
                do_line(lines[i]);
            }
            alarm(0);
            fflush(stdout);
            _exit(0);
        }
        close(pe[1]);
        static char err[65536];
        size_t eo = 0;
        ssize_t rd;
        while ((rd = read(pe[0], err + eo, sizeof(err) - 1 - eo)) > 0)
            eo += rd;
        err[eo] = 0;
        /* drain what does not fit */
        char dump[4096];
        while (read(pe[0], dump, sizeof(dump)) > 0);
        close(pe[0]);
        int status = 0;
        waitpid(pid, &status, 0);
        if (WIFEXITED(status) && WEXITSTATUS(status) == 0)
            break;
        if (WIFEXITED(status) && WEXITSTATUS(status) == 3) {
            fprintf(stderr, "replay_bits: script error\n%s", err);
            return 3;
        }
        report_san(err, status);
        /* go on after the execution that died */
        long i = *cur + 1;
        while (i < nlines && strncmp(lines[i], "exec", 4))
            i++;
        start = i;
    }
    return 0;
}
