/* sched_worker: the real worker pipes (upipe_wlin / upipe_wsink / upipe_wsrc of
 * lib/upipe-modules/upipe_worker.c: [input ->] qsink -> queue -> qsrc -> remote
 * pipe transferred by upipe_xfer -> qsink -> queue -> qsrc [-> output]) between
 * an application thread (A, logical thread 0) and a worker thread (W, logical
 * thread 1), each with its own mock event loop (vloop over the real
 * upump_common.c).  (C06, worker stage)
 *
 * usage: sched_worker <flavour> <inlen> <outlen> <mutex> <mode> ...
 *   flavour  lin | sink | src       (upipe_wlin_alloc / upipe_wsink_alloc / upipe_wsrc_alloc)
 *   inlen, outlen  lengths of the input / output queue (the unused one is ignored)
 *   mutex    1 = the transfer manager is given a umutex (freeze/thaw possible), 0 = NULL
 *   mode     script <s1,s2,...> [srcprog]
 *            sched <progA> <poll 0|1> <srcprog|-> dfs <pb> <max_runs> | random <runs> <seed> <sw> | replay <digits>
 *
 * Application program (thread A), one token per call on the worker pipe:
 *   A B   upipe_set_flow_def(handle, "block.A." / "block.B.")
 *   i     upipe_input(handle, next buffer)
 *   o O   upipe_set_output(handle, recording sink 0 / 1)
 *   z     upipe_bin_freeze(handle)          t   upipe_bin_thaw(handle)
 *   c     upipe_set_option(handle, "k", "v"): a control command the bin does not know:
 *         executed on the remote pipe directly, on A's thread, under freeze
 *   r     upipe_release(handle)
 *   w     one iteration of A's event loop
 * Script mode executes tokens sequentially, each atomically (call-back
 * granularity, the granularity of Worker.tla); besides the tokens above:
 *   x     W: dispatch the transfer manager's pump       v V  A: event pump of the 1st / 2nd xfer pipe
 *   q e   W: data / out-of-band pump of the input queue source
 *   K     W: watcher of the output queue sink           k    A: watcher of the input queue sink
 *   p P   A: data / out-of-band pump of the output queue source
 *   s     W: idler of the remote source (src flavour)
 *   (a pump is dispatched only if a real loop would: active and descriptor readable;
 *    W's tokens do nothing while A holds the mutex)
 * Sched mode: A runs the program then its loop, W attaches the transfer
 * manager, drops its manager reference (as the repository's tests do) and runs
 * its loop under the mutex like upump_mgr_run(mgr, mutex); every yield point of
 * hooks H1-H4 on a location that the other thread has touched before, every
 * event descriptor operation and every API call boundary is a scheduling
 * point.
 * srcprog (src flavour): what the remote source emits from its idler on W, one
 * token per idler call: A B (set_flow_def on its output), i (a buffer), then
 * source_end.
 *
 * The remote pipe is a recording pipe: it logs the logical thread of every
 * entry (input, control, free); as a source it produces once it is attached
 * and has an output.  malloc/free are wrapped: everything allocated during a
 * run comes from an arena that is reset before the next run (same addresses
 * in every run, no reuse within a run = quarantine); hooked accesses falling
 * into a freed block are logged as Touch events (with the kind of object the
 * block was), a second free as DoubleFree, and the blocks allocated by the
 * code under test and never freed are counted at quiescence.  The pthread TLS
 * calls of the real uprobe_pthread_upump_mgr.c are wrapped to be per logical
 * thread.  An execution that does not end within RUN_ALARM seconds (or
 * crashes) is printed with a final Hang (Crash) event and ends the process.
 * Output: NDJSON traces for Worker_Trace.tla.
 */
#include <stdio.h>
#include <stdlib.h>
#include <string.h>
#include <stdint.h>
#include <stdbool.h>
#include <stdarg.h>
#include <assert.h>
#include <malloc.h>
#include <unistd.h>
#include <signal.h>
#include <pthread.h>
#include <execinfo.h>

#include "upipe/ubase.h"
#include "upipe/uverif.h"
#include "upipe/umutex.h"
#include "upipe/uprobe.h"
#include "upipe/uprobe_transfer.h"
#include "upipe/umem.h"
#include "upipe/umem_alloc.h"
#include "upipe/udict.h"
#include "upipe/udict_inline.h"
#include "upipe/uref.h"
#include "upipe/uref_std.h"
#include "upipe/uref_attr.h"
#include "upipe/uref_flow.h"
#include "upipe/upump.h"
#include "upipe/upipe.h"
#include "upipe-modules/upipe_queue_sink.h"
#include "upipe-modules/upipe_queue_source.h"
#include "upipe-modules/upipe_transfer.h"
#include "upipe-modules/upipe_worker_linear.h"
#include "upipe-modules/upipe_worker_sink.h"
#include "upipe-modules/upipe_worker_source.h"
#include "upipe-pthread/uprobe_pthread_upump_mgr.h"
#include "vsched.h"
#include "vloop.h"

UREF_ATTR_UNSIGNED(vx, id, "x.id", verification buffer id)

enum { FL_LIN, FL_SINK, FL_SRC };
static int flavour, INLEN, OUTLEN, use_mutex;
static const char *flavour_s;
#define XFER_QLEN 16
#define RUN_ALARM 3          /* seconds: one execution normally takes milliseconds */

static struct umem_mgr *umem;
static struct udict_mgr *udict;
static struct uref_mgr *urefm;

static struct upump_mgr *loop[2];
static struct upipe_mgr *xfer_mgr;
static void *xfer_mgr_block;
static struct upipe *handle, *remote_p;
static bool sched_mode;
static int cur_thread_script = 0;
static int th(void)
{
    if (!sched_mode) return cur_thread_script;
    int c = vs_current();
    return c < 0 ? 0 : c;       /* set-up / epilogue run on behalf of the application */
}

/* ------------------------------------------------------------------ trace */
#define MAXEV 4096
static char evbuf[MAXEV][112];
static int nev;
static void log_line(const char *fmt, ...)
{
    if (nev >= MAXEV) return;
    va_list a;
    va_start(a, fmt);
    vsnprintf(evbuf[nev++], sizeof(evbuf[0]), fmt, a);
    va_end(a);
}

/* ------------------------------------------- allocation tracking, quarantine */
void *__real_malloc(size_t n);
void *__real_calloc(size_t a, size_t b);
void *__real_realloc(void *p, size_t n);
void __real_free(void *p);
#define TBITS 14
static void *live_tab[1 << TBITS];      /* blocks allocated by the code under test, still allocated */
static int nlive;
static bool track_on;             /* allocations are accounted as made by the code under test */
static bool arena_on;             /* allocations come from the per-run arena (deterministic addresses) */
static unsigned phash(const void *p) { return (unsigned)(((uintptr_t)p >> 4) * 2654435761u) >> (32 - TBITS); }
static void live_add(void *p)
{
    if (!track_on || p == NULL || nlive > (1 << TBITS) / 2) return;
    unsigned i = phash(p);
    while (live_tab[i] != NULL && live_tab[i] != (void *)1) i = (i + 1) & ((1 << TBITS) - 1);
    live_tab[i] = p;
    nlive++;
}
static bool live_del(void *p)
{
    unsigned i = phash(p);
    while (live_tab[i] != NULL) {
        if (live_tab[i] == p) { live_tab[i] = (void *)1; nlive--; return true; }
        i = (i + 1) & ((1 << TBITS) - 1);
    }
    return false;
}
static void live_clear(void) { memset(live_tab, 0, sizeof(live_tab)); nlive = 0; }

#define MAXQ 16384
static struct { char *p; size_t n; int th; } quar[MAXQ];
static int nquar;
#define GBITS 16
static int gran_tab[1 << GBITS];        /* 64-byte granule -> 1 + index in quar (open addressing) */
static uintptr_t gran_key[1 << GBITS];
static void gran_add(uintptr_t g, int idx)
{
    unsigned i = (unsigned)(g * 2654435761u) >> (32 - GBITS);
    while (gran_tab[i] != 0) i = (i + 1) & ((1 << GBITS) - 1);
    gran_tab[i] = idx + 1;
    gran_key[i] = g;
}
static int quar_find(const void *obj)
{
    uintptr_t g = (uintptr_t)obj >> 6;
    unsigned i = (unsigned)(g * 2654435761u) >> (32 - GBITS);
    while (gran_tab[i] != 0) {
        if (gran_key[i] == g) {
            int k = gran_tab[i] - 1;
            if ((const char *)obj >= quar[k].p && (const char *)obj < quar[k].p + quar[k].n) return k;
        }
        i = (i + 1) & ((1 << GBITS) - 1);
    }
    return -1;
}
static int double_frees;
static bool mgr_freed;
/* Blocks allocated by the code under test come from an arena that is reset
 * before every run: the same calls get the same addresses in every run (the
 * scheduling points are chosen by address, see below) and a freed block is
 * never reused within a run (quarantine). */
#include <sys/mman.h>
#define ARENA_SZ (512UL << 20)
static char *arena;
static size_t arena_off;
struct ahdr { size_t n; size_t magic; };
static bool in_arena(const void *p) { return arena != NULL && (const char *)p >= arena && (const char *)p < arena + ARENA_SZ; }
static size_t block_size(void *p) { return in_arena(p) ? ((struct ahdr *)p - 1)->n : malloc_usable_size(p); }
static void *arena_alloc(size_t n)
{
    if (arena == NULL) {
        arena = mmap(NULL, ARENA_SZ, PROT_READ | PROT_WRITE, MAP_PRIVATE | MAP_ANONYMOUS | MAP_NORESERVE, -1, 0);
        if (arena == MAP_FAILED) { perror("mmap"); exit(2); }
    }
    size_t tot = ((n ? n : 1) + 15) & ~(size_t)15;
    if (arena_off + sizeof(struct ahdr) + tot > ARENA_SZ) { fprintf(stderr, "sched_worker: arena exhausted\n"); exit(3); }
    struct ahdr *h = (struct ahdr *)(arena + arena_off);
    h->n = tot;
    h->magic = 0xa11cULL;
    arena_off += sizeof(struct ahdr) + tot;
    return h + 1;
}
static void *recent[8];                  /* last blocks returned by malloc (to find the block of an object) */
static int nrecent;
void *__wrap_malloc(size_t n)
{
    void *p = (track_on || arena_on) ? arena_alloc(n) : __real_malloc(n);
    live_add(p);
    recent[nrecent++ & 7] = p;
    return p;
}
void *__wrap_calloc(size_t a, size_t b)
{
    if (!track_on && !arena_on) return __real_calloc(a, b);
    void *p = __wrap_malloc(a * b);
    memset(p, 0, a * b);
    return p;
}
void __wrap_free(void *p);
void *__wrap_realloc(void *o, size_t n)
{
    if (o == NULL) return __wrap_malloc(n);
    if (!in_arena(o) && !track_on && !arena_on) return __real_realloc(o, n);
    void *p = __wrap_malloc(n);
    size_t on = block_size(o);
    memcpy(p, o, on < n ? on : n);
    __wrap_free(o);
    return p;
}
char *__wrap_strdup(const char *s)
{
    size_t n = strlen(s) + 1;
    char *p = __wrap_malloc(n);
    if (p) memcpy(p, s, n);
    return p;
}
void __wrap_free(void *p)
{
    if (p == NULL) return;
    if (!in_arena(p)) { __real_free(p); return; }
    int k = quar_find(p);
    if (k >= 0 && quar[k].p == (char *)p) {
        if (double_frees++ < 2) log_line("{\"e\":\"DoubleFree\",\"th\":%d}", th());
        return;
    }
    live_del(p);
    if (p == xfer_mgr_block && !mgr_freed) {
        mgr_freed = true;
        log_line("{\"e\":\"MgrFree\",\"th\":%d}", th());
    }
    if (nquar < MAXQ) {
        size_t n = block_size(p);
        quar[nquar].p = p;
        quar[nquar].n = n;
        quar[nquar].th = th();
        for (uintptr_t g = (uintptr_t)p >> 6; g <= ((uintptr_t)p + n - 1) >> 6; g++)
            gran_add(g, nquar);
        nquar++;
    }
    /* kept: a later access must be visible, not reuse the memory */
}
static void quarantine_flush(void)
{
    nquar = 0;
    memset(gran_tab, 0, sizeof(gran_tab));
    arena_off = 0;
}

/* ---------------------------------------- per-logical-thread pthread TLS */
#define MAXKEYS 8
static void *tls_val[VS_MAXT][MAXKEYS];
static void (*tls_destr[MAXKEYS])(void *);
static bool tls_used[MAXKEYS];
static int tls_thread_override = -1;
static int tls_th(void) { return tls_thread_override >= 0 ? tls_thread_override : th(); }
int __wrap_pthread_key_create(pthread_key_t *key, void (*destr)(void *))
{
    for (int k = 0; k < MAXKEYS; k++)
        if (!tls_used[k]) {
            tls_used[k] = true;
            tls_destr[k] = destr;
            for (int t = 0; t < VS_MAXT; t++) tls_val[t][k] = NULL;
            *key = (pthread_key_t)k;
            return 0;
        }
    return 11;
}
int __wrap_pthread_key_delete(pthread_key_t key) { tls_used[(int)key] = false; return 0; }
void *__wrap_pthread_getspecific(pthread_key_t key) { return tls_val[tls_th()][(int)key]; }
int __wrap_pthread_setspecific(pthread_key_t key, const void *v) { tls_val[tls_th()][(int)key] = (void *)v; return 0; }

/* --------------------------------------------------- umutex on the scheduler */
static struct umutex vmutex;
static int mutex_holder = -1;
static bool mutex_free_pred(void *arg) { return mutex_holder < 0; }
static int vmutex_lock(struct umutex *m)
{
    int t = th();
    if (sched_mode && vs_current() >= 0) {
        vs_yield(VS_KIND_USER, &mutex_holder);
        while (mutex_holder >= 0)
            vs_wait(mutex_free_pred, NULL);
    } else if (mutex_holder >= 0) {
        log_line("{\"e\":\"LockBusy\",\"th\":%d}", t);   /* sequential mode: cannot block */
        return UBASE_ERR_BUSY;
    }
    mutex_holder = t;
    log_line("{\"e\":\"Lock\",\"th\":%d}", t);
    return UBASE_ERR_NONE;
}
static int vmutex_unlock(struct umutex *m)
{
    int t = th();
    log_line("{\"e\":\"Unlock\",\"th\":%d}", t);
    if (mutex_holder == t) mutex_holder = -1;
    if (sched_mode && vs_current() >= 0)
        vs_yield(VS_KIND_USER, &mutex_holder);
    return UBASE_ERR_NONE;
}

/* ------------------------------------------------------- scheduling points */
#define ABITS 16
static uintptr_t acc_key[1 << ABITS];
static uint8_t acc_mask[1 << ABITS];
static uint8_t *acc_slot(const void *obj)
{
    uintptr_t a = (uintptr_t)obj;
    unsigned i = (unsigned)((a >> 2) * 2654435761u) >> (32 - ABITS);
    for (int n = 0; n < (1 << ABITS); n++) {
        if (acc_key[i] == a) return &acc_mask[i];
        if (acc_key[i] == 0) { acc_key[i] = a; acc_mask[i] = 0; return &acc_mask[i]; }
        i = (i + 1) & ((1 << ABITS) - 1);
    }
    return &acc_mask[0];
}
/* locations that two threads accessed in one of the pilot runs (addresses are
 * the same in every run: arena) */
#define SBITS 16
static uintptr_t shared_key[1 << SBITS];
static long nshared;
static bool shared_has(const void *obj, bool add)
{
    uintptr_t a = (uintptr_t)obj;
    unsigned i = (unsigned)((a >> 2) * 2654435761u) >> (32 - SBITS);
    while (shared_key[i] != 0) {
        if (shared_key[i] == a) return true;
        i = (i + 1) & ((1 << SBITS) - 1);
    }
    if (add && nshared < (1 << SBITS) / 2) { shared_key[i] = a; nshared++; }
    return false;
}
static void learn_shared(void)
{
    for (int i = 0; i < (1 << ABITS); i++)
        if (acc_key[i] != 0 && (acc_mask[i] & (acc_mask[i] - 1)) != 0)
            shared_has((const void *)acc_key[i], true);
}
static int touches;
/* what was the freed block?  (its content is intact: quarantined) */
static const char *block_kind(int k)
{
    if (quar[k].p == (char *)xfer_mgr_block) return "xfer_mgr";
    uintptr_t qsrc_m = (uintptr_t)upipe_qsrc_mgr_alloc(), qsink_m = (uintptr_t)upipe_qsink_mgr_alloc();
    uintptr_t xfer_m = (uintptr_t)xfer_mgr;
    const char *res = "other";
    for (size_t o = 0; o + sizeof(uintptr_t) <= quar[k].n && o < 1024; o += sizeof(uintptr_t)) {
        uintptr_t v;
        memcpy(&v, quar[k].p + o, sizeof(v));
        if (v == qsrc_m) return "qsrc";
        if (v == qsink_m) return "qsink";
        if (v == xfer_m) res = "xfer";
    }
    /* the queue source keeps its public structure after three queues: look at the tail too */
    if (quar[k].n > 512)
        for (size_t o = (quar[k].n - 512) & ~(sizeof(uintptr_t) - 1); o + sizeof(uintptr_t) <= quar[k].n; o += sizeof(uintptr_t)) {
            uintptr_t v;
            memcpy(&v, quar[k].p + o, sizeof(v));
            if (v == qsrc_m) return "qsrc";
        }
    return res;
}
static void hook(int kind, const void *obj)
{
    vs_yield(kind, obj);
    int c = vs_current();
    if (c >= 0 && obj != NULL) *acc_slot(obj) |= (uint8_t)(1u << c);
    /* the access is performed now: does it fall into a block freed meanwhile? */
    if (nquar && obj != NULL) {
        int k = quar_find(obj);
        if (k >= 0 && touches++ < 4) {
            log_line("{\"e\":\"Touch\",\"what\":\"%s\",\"th\":%d,\"kind\":%d,\"by\":%d}",
                     block_kind(k), th(), kind, quar[k].th);
            if (getenv("SW_DEBUG_TOUCH")) {
                void *bt[24];
                int n = backtrace(bt, 24);
                backtrace_symbols_fd(bt, n, 2);
            }
        }
    }
}
/* is the access thread t is parked before a point where the other thread matters? */
static bool interesting(int t)
{
    int k = vs_pending_kind(t);
    if (k >= VS_KIND_START) return true;
    if (k == UVERIF_EVFD_R || k == UVERIF_EVFD_W || k == UVERIF_EVFD_CLOSE) return true;
    const void *o = vs_pending_obj(t);
    if (o == NULL) return true;
    return (*acc_slot(o) & ~(1u << t)) != 0 || shared_has(o, false);
}
static void hang_exit(void);
static void macro_step(void *ctx, int t)
{
    int guard = 0;
    do {
        vs_step(t);
        if (++guard > 2000000) hang_exit();      /* livelock between two scheduling points */
    } while (vs_runnable(t) && !interesting(t));
}

/* ------------------------------------------------------------ remote pipe */
struct rp {
    struct urefcount urefcount;
    struct upipe upipe;
    struct upipe *output;
    struct upump_mgr *upump_mgr;
    struct upump *idler;
    const char *prog;       /* source flavour: what is left to emit */
    bool done;              /* source flavour: source_end thrown */
};
static int inside[2];       /* nesting depth of entries into the remote pipe, per logical thread */
static int src_next_id;
static void r_enter(const char *k, int id, char f)
{
    int t = th();
    if (id >= 0) log_line("{\"e\":\"REnter\",\"k\":\"%s\",\"th\":%d,\"id\":%d}", k, t, id);
    else if (f) log_line("{\"e\":\"REnter\",\"k\":\"%s\",\"th\":%d,\"f\":\"%c\"}", k, t, f);
    else log_line("{\"e\":\"REnter\",\"k\":\"%s\",\"th\":%d}", k, t);
    if (t >= 0 && t < 2) inside[t]++;
}
static void r_leave(void)
{
    int t = th();
    if (t >= 0 && t < 2) inside[t]--;
    log_line("{\"e\":\"RLeave\",\"th\":%d}", t);
}
static char fd_letter(struct uref *fd)
{
    const char *def = "?";
    uref_flow_get_def(fd, &def);
    return def[0] == 'b' && strlen(def) > 6 ? def[6] : '?';
}
static struct uref *mk_flow_def(char c)
{
    char def[16];
    snprintf(def, sizeof(def), "block.%c.", c);
    struct uref *fd = uref_alloc_control(urefm);
    uref_flow_set_def(fd, def);
    return fd;
}
static void rp_throw(struct upipe *upipe, const char *name, int event)
{
    log_line("{\"e\":\"Throw\",\"ev\":\"%s\",\"th\":%d}", name, th());
    upipe_throw(upipe, event);
}
static void rp_free(struct urefcount *rc)
{
    struct rp *r = container_of(rc, struct rp, urefcount);
    r_enter("free", -1, 0);
    if (r->idler) { upump_stop(r->idler); upump_free(r->idler); }
    upump_mgr_release(r->upump_mgr);
    upipe_release(r->output);
    upipe_throw_dead(&r->upipe);
    urefcount_clean(&r->urefcount);
    upipe_clean(&r->upipe);
    r_leave();
    free(r);
}
static struct upipe *rp_alloc(struct upipe_mgr *mgr, struct uprobe *uprobe, uint32_t sig, va_list args)
{
    struct rp *r = malloc(sizeof(*r));
    memset(r, 0, sizeof(*r));
    upipe_init(&r->upipe, mgr, uprobe);
    urefcount_init(&r->urefcount, rp_free);
    r->upipe.refcount = &r->urefcount;
    upipe_throw_ready(&r->upipe);
    return &r->upipe;
}
static void rp_input(struct upipe *upipe, struct uref *uref, struct upump **upump_p)
{
    struct rp *r = container_of(upipe, struct rp, upipe);
    uint64_t id = 0;
    uref_vx_get_id(uref, &id);
    r_enter("input", (int)id, 0);
    if (id & 1) rp_throw(upipe, "acq", UPROBE_SYNC_ACQUIRED);
    else rp_throw(upipe, "lost", UPROBE_SYNC_LOST);
    if (r->output != NULL) {
        log_line("{\"e\":\"RSend\",\"id\":%d,\"th\":%d}", (int)id, th());
        upipe_input(r->output, uref, upump_p);
    } else
        uref_free(uref);
    r_leave();
}
static void rp_idler(struct upump *upump)
{
    struct upipe *upipe = upump_get_opaque(upump, struct upipe *);
    struct rp *r = container_of(upipe, struct rp, upipe);
    r_enter("idler", -1, 0);
    char c = *r->prog;
    if (c) r->prog++;
    if (c == 'A' || c == 'B') {
        struct uref *fd = mk_flow_def(c);
        log_line("{\"e\":\"RSetFd\",\"f\":\"%c\",\"th\":%d}", c, th());
        if (r->output) upipe_set_flow_def(r->output, fd);
        uref_free(fd);
    } else if (c == 'i') {
        struct uref *u = uref_alloc(urefm);
        int id = src_next_id++;
        uref_vx_set_id(u, id);
        if (id & 1) rp_throw(upipe, "acq", UPROBE_SYNC_ACQUIRED);
        else rp_throw(upipe, "lost", UPROBE_SYNC_LOST);
        if (r->output) {
            log_line("{\"e\":\"RSend\",\"id\":%d,\"th\":%d}", id, th());
            upipe_input(r->output, u, &r->idler);
        } else
            uref_free(u);
    } else {
        upump_stop(upump);
        r->done = true;
        rp_throw(upipe, "end", UPROBE_SOURCE_END);
    }
    r_leave();
}
static int rp_control(struct upipe *upipe, int command, va_list args)
{
    struct rp *r = container_of(upipe, struct rp, upipe);
    switch (command) {
    case UPIPE_ATTACH_UPUMP_MGR: {
        r_enter("attach", -1, 0);
        if (flavour == FL_SRC && r->idler == NULL) {
            struct upump_mgr *m = NULL;
            upipe_throw_need_upump_mgr(upipe, &m);
            if (m != NULL) {
                /* the loop the probe hands out must be the loop of the thread we run on */
                log_line("{\"e\":\"RLoop\",\"loop\":%d,\"th\":%d}", m == loop[0] ? 0 : m == loop[1] ? 1 : 9, th());
                r->upump_mgr = m;
                r->idler = upump_alloc_idler(m, rp_idler, upipe, upipe->refcount);
                /* a source produces once it has an output */
                if (r->output != NULL) upump_start(r->idler);
            }
        }
        r_leave();
        return UBASE_ERR_NONE;
    }
    case UPIPE_GET_OUTPUT: {
        struct upipe **p = va_arg(args, struct upipe **);
        r_enter("getout", -1, 0);
        *p = r->output;
        r_leave();
        return UBASE_ERR_NONE;
    }
    case UPIPE_SET_OUTPUT: {
        struct upipe *o = va_arg(args, struct upipe *);
        r_enter("setout", -1, 0);
        struct upipe *prev = r->output;
        r->output = upipe_use(o);
        upipe_release(prev);
        if (flavour == FL_SRC && r->idler != NULL && r->output != NULL && !r->done) upump_start(r->idler);
        r_leave();
        return UBASE_ERR_NONE;
    }
    case UPIPE_SET_FLOW_DEF: {
        struct uref *fd = va_arg(args, struct uref *);
        r_enter("flowdef", -1, fd_letter(fd));
        int err = UBASE_ERR_NONE;
        if (r->output != NULL) {
            log_line("{\"e\":\"RSetFd\",\"f\":\"%c\",\"th\":%d}", fd_letter(fd), th());
            err = upipe_set_flow_def(r->output, fd);
        }
        r_leave();
        return err;
    }
    case UPIPE_SET_OPTION:
        r_enter("control", -1, 0);
        r_leave();
        return UBASE_ERR_NONE;
    case UPIPE_REGISTER_REQUEST: {
        struct urequest *rq = va_arg(args, struct urequest *);
        r_enter("request", -1, 0);
        int err = r->output ? upipe_register_request(r->output, rq) : upipe_throw_provide_request(upipe, rq);
        r_leave();
        return err;
    }
    case UPIPE_UNREGISTER_REQUEST: {
        struct urequest *rq = va_arg(args, struct urequest *);
        r_enter("request", -1, 0);
        int err = r->output ? upipe_unregister_request(r->output, rq) : UBASE_ERR_NONE;
        r_leave();
        return err;
    }
    }
    return UBASE_ERR_UNHANDLED;
}
#define RP_SIGNATURE UBASE_FOURCC('r','p','c','6')
static struct upipe_mgr rp_mgr_lin = { .signature = RP_SIGNATURE, .upipe_alloc = rp_alloc, .upipe_input = rp_input, .upipe_control = rp_control };
static struct upipe_mgr rp_mgr_src = { .signature = RP_SIGNATURE, .upipe_alloc = rp_alloc, .upipe_control = rp_control };

/* ------------------------------------------ recording sinks on the A side */
struct rs { struct upipe upipe; struct urefcount urefcount; int idx; };
static struct rs rsink[2];
static void rs_free(struct urefcount *rc) { }
static void rs_input(struct upipe *upipe, struct uref *uref, struct upump **upump_p)
{
    struct rs *s = container_of(upipe, struct rs, upipe);
    uint64_t id = 0;
    uref_vx_get_id(uref, &id);
    log_line("{\"e\":\"Out\",\"id\":%d,\"s\":%d,\"th\":%d}", (int)id, s->idx, th());
    uref_free(uref);
}
static int rs_control(struct upipe *upipe, int command, va_list args)
{
    struct rs *s = container_of(upipe, struct rs, upipe);
    switch (command) {
    case UPIPE_SET_FLOW_DEF: {
        struct uref *fd = va_arg(args, struct uref *);
        log_line("{\"e\":\"OutFd\",\"f\":\"%c\",\"s\":%d,\"th\":%d}", fd_letter(fd), s->idx, th());
        return UBASE_ERR_NONE;
    }
    case UPIPE_REGISTER_REQUEST: {
        struct urequest *rq = va_arg(args, struct urequest *);
        return upipe_throw_provide_request(upipe, rq);
    }
    case UPIPE_UNREGISTER_REQUEST:
        return UBASE_ERR_NONE;
    }
    return UBASE_ERR_UNHANDLED;
}
static struct upipe_mgr rs_mgr = { .signature = UBASE_FOURCC('r','s','c','6'), .upipe_input = rs_input, .upipe_control = rs_control };

/* ------------------------------------------------------------------ probes */
static struct uprobe base_probe, app_probe, rem_probe;
static struct uprobe *upm_probe, *xfer_probe;
static struct upipe *handle_ptr;        /* identity of the worker pipe (never dereferenced after release) */
static struct upipe *in_qsrc, *out_qsink;
static int base_catch(struct uprobe *uprobe, struct upipe *upipe, int event, va_list args)
{
    return UBASE_ERR_UNHANDLED;
}
static const char *ev_name(int event)
{
    return event == UPROBE_SYNC_ACQUIRED ? "acq" : event == UPROBE_SYNC_LOST ? "lost" : "end";
}
/* the application's probe on the worker pipe */
static int app_catch(struct uprobe *uprobe, struct upipe *upipe, int event, va_list args)
{
    switch (event) {
    case UPROBE_SYNC_ACQUIRED: case UPROBE_SYNC_LOST: case UPROBE_SOURCE_END:
        log_line("{\"e\":\"Forward\",\"ev\":\"%s\",\"th\":%d}", ev_name(event), th());
        return UBASE_ERR_NONE;
    case UPROBE_DEAD:
        if (upipe != NULL && upipe == handle_ptr)
            log_line("{\"e\":\"Dead\",\"p\":\"handle\",\"th\":%d}", th());
        return UBASE_ERR_NONE;
    case UPROBE_FATAL: case UPROBE_ERROR:
        log_line("{\"e\":\"Fatal\",\"th\":%d,\"side\":\"app\"}", th());
        return UBASE_ERR_NONE;
    case UPROBE_NEED_UPUMP_MGR:
    case UPROBE_FREEZE_UPUMP_MGR:
    case UPROBE_THAW_UPUMP_MGR:
        return uprobe_throw_next(uprobe, upipe, event, args);
    case UPROBE_NEED_OUTPUT:
    case UPROBE_PROVIDE_REQUEST:
        return UBASE_ERR_UNHANDLED;
    }
    return UBASE_ERR_NONE;
}
/* the probe given for the remote side (remote pipe, input queue source, output queue sink) */
static int rem_catch(struct uprobe *uprobe, struct upipe *upipe, int event, va_list args)
{
    switch (event) {
    case UPROBE_READY:
        if (upipe != NULL && upipe->mgr->signature == UPIPE_QSRC_SIGNATURE) in_qsrc = upipe;
        if (upipe != NULL && upipe->mgr->signature == UPIPE_QSINK_SIGNATURE) out_qsink = upipe;
        return UBASE_ERR_NONE;
    case UPROBE_DEAD:
        if (upipe != NULL && upipe == in_qsrc) log_line("{\"e\":\"Dead\",\"p\":\"in_qsrc\",\"th\":%d}", th());
        if (upipe != NULL && upipe == out_qsink) log_line("{\"e\":\"Dead\",\"p\":\"out_qsink\",\"th\":%d}", th());
        return UBASE_ERR_NONE;
    case UPROBE_FATAL: case UPROBE_ERROR:
        log_line("{\"e\":\"Fatal\",\"th\":%d,\"side\":\"remote\"}", th());
        return UBASE_ERR_NONE;
    case UPROBE_SYNC_ACQUIRED: case UPROBE_SYNC_LOST: case UPROBE_SOURCE_END:
        /* not transferred (should not happen: uprobe_xfer sits before us) */
        log_line("{\"e\":\"Untransferred\",\"ev\":\"%s\",\"th\":%d}", ev_name(event), th());
        return UBASE_ERR_NONE;
    case UPROBE_NEED_UPUMP_MGR:
    case UPROBE_FREEZE_UPUMP_MGR:
    case UPROBE_THAW_UPUMP_MGR:
        return uprobe_throw_next(uprobe, upipe, event, args);
    case UPROBE_NEED_OUTPUT:
    case UPROBE_PROVIDE_REQUEST:
        return UBASE_ERR_UNHANDLED;
    }
    return UBASE_ERR_NONE;
}

/* --------------------------------------------------------- set-up / teardown */
static int next_id;
static bool released, crashed, hung;
static const char *srcprog = "";
static void build_env(void)
{
    /* harness objects: not tracked as allocations of the code under test, but from the arena
     * (every run sees the same addresses) */
    track_on = false;
    arena_on = true;
    nev = 0;
    next_id = 1;
    src_next_id = 1;
    touches = 0;
    double_frees = 0;
    mgr_freed = false;
    released = false;
    mutex_holder = -1;
    inside[0] = inside[1] = 0;
    handle = handle_ptr = remote_p = in_qsrc = out_qsink = NULL;
    memset(acc_key, 0, sizeof(acc_key));
    memset(recent, 0, sizeof(recent));
    crashed = hung = false;
    live_clear();
    loop[0] = vloop_mgr_alloc();
    loop[1] = vloop_mgr_alloc();
    uprobe_init(&base_probe, base_catch, NULL);
    upm_probe = uprobe_pthread_upump_mgr_alloc(&base_probe);
    assert(upm_probe);
    tls_thread_override = 0;
    ubase_assert(uprobe_pthread_upump_mgr_set(upm_probe, loop[0]));
    tls_thread_override = 1;
    ubase_assert(uprobe_pthread_upump_mgr_set(upm_probe, loop[1]));
    tls_thread_override = -1;
    uprobe_init(&app_probe, app_catch, uprobe_use(upm_probe));
    uprobe_init(&rem_probe, rem_catch, uprobe_use(upm_probe));
    xfer_probe = uprobe_xfer_alloc(&rem_probe);
    ubase_assert(uprobe_xfer_add(xfer_probe, UPROBE_XFER_VOID, UPROBE_SOURCE_END, 0));
    ubase_assert(uprobe_xfer_add(xfer_probe, UPROBE_XFER_VOID, UPROBE_SYNC_ACQUIRED, 0));
    ubase_assert(uprobe_xfer_add(xfer_probe, UPROBE_XFER_VOID, UPROBE_SYNC_LOST, 0));
    for (int k = 0; k < 2; k++) {
        upipe_init(&rsink[k].upipe, &rs_mgr, NULL);
        urefcount_init(&rsink[k].urefcount, rs_free);
        rsink[k].upipe.refcount = NULL;     /* static: never freed */
        rsink[k].idx = k;
    }
    vmutex.refcount = NULL;
    vmutex.umutex_lock = vmutex_lock;
    vmutex.umutex_unlock = vmutex_unlock;
    track_on = true;                        /* code under test: from the arena, must be freed */
    xfer_mgr = upipe_xfer_mgr_alloc(XFER_QLEN, 0, use_mutex ? &vmutex : NULL);
    track_on = false;
    assert(xfer_mgr);
    /* the public upipe_mgr lies inside the manager's block: find the block */
    xfer_mgr_block = NULL;
    for (int k = 0; k < 8; k++)
        if (recent[k] != NULL && (char *)xfer_mgr >= (char *)recent[k] &&
            (char *)xfer_mgr < (char *)recent[k] + block_size(recent[k]))
            xfer_mgr_block = recent[k];
    assert(xfer_mgr_block);
    upipe_mgr_use(xfer_mgr);                /* W's reference */
}

/* thread A: allocate the remote pipe and the worker pipe (from then on the remote belongs to W) */
static void app_alloc(void)
{
    track_on = true;
    struct upipe *remote = upipe_void_alloc(flavour == FL_SRC ? &rp_mgr_src : &rp_mgr_lin, uprobe_use(xfer_probe));
    assert(remote);
    remote_p = remote;
    if (flavour == FL_SRC)
        container_of(remote, struct rp, upipe)->prog = srcprog;
    struct upipe_mgr *wm = upipe_work_mgr_alloc(xfer_mgr);
    assert(wm);
    upipe_mgr_release(xfer_mgr);            /* the application's reference (as the tests do) */
    log_line("{\"e\":\"Alloc\"}");
    struct upipe *h;
    switch (flavour) {
    case FL_LIN: h = upipe_wlin_alloc(wm, uprobe_use(&app_probe), remote, uprobe_use(xfer_probe), INLEN, OUTLEN); break;
    case FL_SINK: h = upipe_wsink_alloc(wm, uprobe_use(&app_probe), remote, uprobe_use(xfer_probe), INLEN); break;
    default: h = upipe_wsrc_alloc(wm, uprobe_use(&app_probe), remote, uprobe_use(xfer_probe), OUTLEN); break;
    }
    assert(h);
    upipe_mgr_release(wm);
    handle = handle_ptr = h;
    log_line("{\"e\":\"Transferred\"}");
    upipe_attach_upump_mgr(handle);
}

static void op(char c)
{
    switch (c) {
    case 'A': case 'B': {
        struct uref *fd = mk_flow_def(c);
        log_line("{\"e\":\"SetFd\",\"f\":\"%c\"}", c);
        int err = upipe_set_flow_def(handle, fd);
        uref_free(fd);
        if (!ubase_check(err)) log_line("{\"e\":\"SetFdFail\"}");
        break;
    }
    case 'i': {
        struct uref *u = uref_alloc(urefm);
        uref_vx_set_id(u, next_id);
        log_line("{\"e\":\"Send\",\"id\":%d}", next_id);
        next_id++;
        upipe_input(handle, u, NULL);
        break;
    }
    case 'o': case 'O': {
        int s = c == 'O';
        log_line("{\"e\":\"SetOut\",\"s\":%d}", s);
        int err = upipe_set_output(handle, &rsink[s].upipe);
        log_line("{\"e\":\"SetOutRet\",\"ok\":%s}", ubase_check(err) ? "true" : "false");
        break;
    }
    case 'z': {
        log_line("{\"e\":\"Freeze\"}");
        int err = upipe_bin_freeze(handle);
        log_line("{\"e\":\"FreezeRet\",\"ok\":%s}", ubase_check(err) ? "true" : "false");
        break;
    }
    case 't': {
        log_line("{\"e\":\"Thaw\"}");
        int err = upipe_bin_thaw(handle);
        log_line("{\"e\":\"ThawRet\",\"ok\":%s}", ubase_check(err) ? "true" : "false");
        break;
    }
    case 'c': {
        log_line("{\"e\":\"Ctl\"}");
        int err = upipe_set_option(handle, "k", "v");
        log_line("{\"e\":\"CtlRet\",\"ok\":%s}", ubase_check(err) ? "true" : "false");
        break;
    }
    case 'r':
        log_line("{\"e\":\"Release\"}");
        released = true;
        { struct upipe *h = handle; handle = NULL; upipe_release(h); }
        break;
    }
}

static bool any_ready(void *arg)
{
    struct upump_mgr *m = arg;
    struct vloop_pump_info infos[32];
    size_t cnt = vloop_pumps(m, infos, 32);
    for (size_t i = 0; i < cnt && i < 32; i++)
        if (vloop_is_ready(m, infos[i].upump)) return true;
    return false;
}


static long out_id;
static const char *cur_kind = "script", *cur_what = "";
static void emit(const char *sched)
{
    printf("{\"e\":\"Reset\",\"fl\":\"%s\",\"il\":%d,\"ol\":%d,\"mx\":%d,\"ta\":0,\"tw\":1,\"kind\":\"%s\",\"what\":\"%s\",\"src\":\"%s\",\"id\":%ld,\"sched\":\"%s\"}\n",
           flavour_s, INLEN, OUTLEN, use_mutex, cur_kind, cur_what, srcprog, out_id++, sched ? sched : "");
    for (int k = 0; k < nev; k++) printf("%s\n", evbuf[k]);
}
static void log_final(void)
{
    /* the loops' own call logs are harness memory */
    for (int k = 0; k < 2; k++) {
        const struct vloop_log_entry *ent = NULL;
        vloop_log(loop[k], &ent);
        if (ent != NULL) live_del((void *)ent);
    }
    if (getenv("SW_DEBUG_LIVE"))
        for (int i = 0; i < (1 << TBITS); i++)
            if (live_tab[i] != NULL && live_tab[i] != (void *)1)
                fprintf(stderr, "live block %p size %zu\n", live_tab[i], block_size(live_tab[i]));
    if (crashed) log_line("{\"e\":\"Crash\"}");
    else if (hung) log_line("{\"e\":\"Hang\"}");
    else log_line("{\"e\":\"Quiescent\",\"live\":%d,\"inside\":%d,\"holder\":%d}", nlive, inside[0] + inside[1], mutex_holder);
}
static void drop_env(void)
{
    /* abandon what is left of the run: the run may have ended anywhere */
    track_on = false;
    void (*cb)(int, const void *) = upipe_verif_yield_cb;
    upipe_verif_yield_cb = NULL;
    /* the harness's own objects (really freed only if the code under test dropped its references) */
    for (int k = 0; k < MAXKEYS; k++)
        if (tls_used[k] && tls_val[1][k] != NULL && tls_destr[k] != NULL) {
            tls_thread_override = 1;
            tls_destr[k](tls_val[1][k]);
            tls_val[1][k] = NULL;
            tls_thread_override = -1;
        }
    uprobe_release(xfer_probe);
    uprobe_release(upm_probe);      /* app_probe's reference */
    uprobe_release(upm_probe);      /* rem_probe's reference */
    uprobe_release(upm_probe);
    upump_mgr_release(loop[0]);
    upump_mgr_release(loop[1]);
    for (int fd = 3; fd < 256; fd++) close(fd);
    for (int k = 0; k < MAXKEYS; k++) tls_used[k] = false;
    quarantine_flush();
    upipe_verif_yield_cb = cb;
}

/* ---------------------------------------------------------------- script mode */
/* n-th live pump of loop m whose opaque is `opaque` (allocation order) */
static bool dispatch_of(struct upump_mgr *m, void *opaque, int n)
{
    if (opaque == NULL) return false;
    struct vloop_pump_info infos[32];
    size_t cnt = vloop_pumps(m, infos, 32);
    int k = 0;
    for (size_t i = 0; i < cnt && i < 32; i++) {
        if (upump_get_opaque(infos[i].upump, void *) != opaque) continue;
        if (k++ == n) {
            if (!vloop_is_ready(m, infos[i].upump)) return false;
            return vloop_dispatch(m, infos[i].upump);
        }
    }
    return false;
}
/* n-th distinct pipe of manager signature `sig` owning a pump on loop m */
static void *pipe_of_sig(struct upump_mgr *m, uint32_t sig, int n)
{
    struct vloop_pump_info infos[32];
    size_t cnt = vloop_pumps(m, infos, 32);
    void *seen[32];
    int ns = 0;
    for (size_t i = 0; i < cnt && i < 32; i++) {
        void *o = upump_get_opaque(infos[i].upump, void *);
        if (o == NULL || o == (void *)xfer_mgr || o == (void *)remote_p) continue;
        struct upipe *p = o;
        if (p->mgr == NULL || p->mgr->signature != sig) continue;
        bool dup = false;
        for (int j = 0; j < ns; j++) if (seen[j] == o) dup = true;
        if (dup) continue;
        if (ns == n) return o;
        seen[ns++] = o;
    }
    return NULL;
}
static void *xf_pipe[2];        /* the transfer pipes on A's loop, in allocation order (remote pipe, input queue source) */
static void w_token(char c)
{
    if (mutex_holder == 0) { log_line("{\"e\":\"WBlocked\"}"); return; }   /* W cannot get the mutex */
    cur_thread_script = 1;
    bool locked = false;
    if (use_mutex) { vmutex_lock(&vmutex); locked = true; }
    bool d = false;
    switch (c) {
    case 'x': d = dispatch_of(loop[1], mgr_freed ? NULL : (void *)xfer_mgr, 0); break;
    case 'q': d = dispatch_of(loop[1], pipe_of_sig(loop[1], UPIPE_QSRC_SIGNATURE, 0), 0); break;
    case 'e': d = dispatch_of(loop[1], pipe_of_sig(loop[1], UPIPE_QSRC_SIGNATURE, 0), 1); break;
    case 'K': d = dispatch_of(loop[1], pipe_of_sig(loop[1], UPIPE_QSINK_SIGNATURE, 0), 0); break;
    case 's': d = dispatch_of(loop[1], remote_p, 0); break;
    }
    if (locked) vmutex_unlock(&vmutex);
    log_line("{\"e\":\"Disp\",\"tok\":\"%c\",\"done\":%s}", c, d ? "true" : "false");
    cur_thread_script = 0;
}
static void a_token(char c)
{
    cur_thread_script = 0;
    bool d = false;
    switch (c) {
    case 'w': d = vloop_run_once(loop[0]) > 0; break;
    case 'p': d = dispatch_of(loop[0], pipe_of_sig(loop[0], UPIPE_QSRC_SIGNATURE, 0), 0); break;
    case 'P': d = dispatch_of(loop[0], pipe_of_sig(loop[0], UPIPE_QSRC_SIGNATURE, 0), 1); break;
    case 'k': d = dispatch_of(loop[0], pipe_of_sig(loop[0], UPIPE_QSINK_SIGNATURE, 0), 0); break;
    case 'v': d = dispatch_of(loop[0], xf_pipe[0], 0); break;
    case 'V': d = dispatch_of(loop[0], xf_pipe[1], 0); break;
    }
    log_line("{\"e\":\"Disp\",\"tok\":\"%c\",\"done\":%s}", c, d ? "true" : "false");
}
static void quiesce_script(void)
{
    for (int k = 0; k < 400; k++) {
        unsigned a, b = 0;
        cur_thread_script = 0;
        a = vloop_run_once(loop[0]);
        if (mutex_holder != 0) {
            cur_thread_script = 1;
            if (use_mutex) vmutex_lock(&vmutex);
            b = vloop_run_once(loop[1]);
            if (use_mutex) vmutex_unlock(&vmutex);
        }
        cur_thread_script = 0;
        if (!a && !b) break;
    }
}
static void run_script(const char *s)
{
    build_env();
    cur_kind = "script";
    cur_what = s;
    cur_thread_script = 0;
    app_alloc();
    xf_pipe[0] = pipe_of_sig(loop[0], UPIPE_XFER_SIGNATURE, 0);
    xf_pipe[1] = pipe_of_sig(loop[0], UPIPE_XFER_SIGNATURE, 1);
    /* W's start: attach the manager to its loop, drop its reference */
    cur_thread_script = 1;
    ubase_assert(upipe_xfer_mgr_attach(xfer_mgr, loop[1]));
    upipe_mgr_release(xfer_mgr);
    cur_thread_script = 0;
    for (const char *p = s; *p; p++) {
        if (strchr("ABioOztcr", *p)) {
            if (handle == NULL) continue;
            cur_thread_script = 0;
            op(*p);
        } else if (strchr("xqeKs", *p)) w_token(*p);
        else a_token(*p);
    }
    log_line("{\"e\":\"EndScript\"}");
    quiesce_script();
    log_final();
    emit(NULL);
    drop_env();
}

/* ---------------------------------------------------------------- sched mode */
static const char *prog;
static int poll_between;
static void threadA(void *arg)
{
    app_alloc();
    for (const char *p = prog; *p; p++) {
        if (poll_between) vloop_run_once(loop[0]);
        vs_yield(VS_KIND_USER, NULL);
        if (*p == 'w') vloop_run_once(loop[0]);
        else if (handle) op(*p);
    }
    for (;;) {
        vs_wait(any_ready, loop[0]);
        vloop_run_once(loop[0]);
    }
}
static void threadW(void *arg)
{
    track_on = true;
    ubase_assert(upipe_xfer_mgr_attach(xfer_mgr, loop[1]));
    upipe_mgr_release(xfer_mgr);
    for (;;) {
        vs_wait(any_ready, loop[1]);
        /* upump_mgr_run(mgr, mutex): the loop holds the mutex while it invokes watchers */
        if (use_mutex) vmutex_lock(&vmutex);
        vloop_run_once(loop[1]);
        if (use_mutex) vmutex_unlock(&vmutex);
    }
}
static bool built;
static void setup(void *ctx)
{
    bool t = track_on;
    track_on = false;
    vs_reset();
    if (built) drop_env();
    built = true;
    build_env();
    vs_spawn(threadA, NULL);
    vs_spawn(threadW, NULL);
    (void)t;
    alarm(RUN_ALARM);
}
#define HBITS 20
static uint64_t *seen;
static long nunique, nruns;
static struct vs_explore *cur_e;
static bool finish(void *ctx, const uint8_t *sched, int len, bool stuck)
{
    nruns++;
    track_on = false;
    if (cur_e->overrun) hung = true;
    log_final();
    uint64_t h = 1469598103934665603ULL;
    for (int i = 0; i < nev; i++)
        for (const char *p = evbuf[i]; *p; p++) h = (h ^ (uint8_t)*p) * 1099511628211ULL;
    h |= 1;
    uint64_t mask = (1ULL << HBITS) - 1, i = h & mask;
    while (seen[i]) { if (seen[i] == h) return true; i = (i + 1) & mask; }
    seen[i] = h;
    nunique++;
    static char sbuf[VS_MAXSTEPS + 1];
    for (int k = 0; k < len; k++) sbuf[k] = '0' + sched[k];
    sbuf[len] = 0;
    emit(sbuf);
    return nunique < (1L << (HBITS - 1));
}
static void crash_dump(int sig)
{
    int len;
    const uint8_t *s = vs_cur_sched(&len);
    if (sig == SIGALRM) hung = true; else crashed = true;
    track_on = false;
    if (sched_mode) finish(NULL, s, len, false);
    else { log_final(); emit(NULL); }
}
static void alarm_handler(int sig)
{
    crash_dump(SIGALRM);
    fflush(stdout);
    _exit(0);
}
static void hang_exit(void) { alarm_handler(SIGALRM); }

int main(int argc, char **argv)
{
    if (argc < 7) { fprintf(stderr, "usage: sched_worker lin|sink|src inlen outlen mutex script|sched ...\n"); return 2; }
    flavour_s = argv[1];
    flavour = !strcmp(argv[1], "lin") ? FL_LIN : !strcmp(argv[1], "sink") ? FL_SINK : FL_SRC;
    INLEN = atoi(argv[2]);
    OUTLEN = atoi(argv[3]);
    use_mutex = atoi(argv[4]);
    umem = umem_alloc_mgr_alloc();
    udict = udict_inline_mgr_alloc(0, umem, -1, -1);
    urefm = uref_std_mgr_alloc(0, udict, 0);
    vs_install_crash_handler(crash_dump);
    signal(SIGALRM, alarm_handler);
    if (!strcmp(argv[5], "script")) {
        if (argc > 7) srcprog = argv[7];
        char *all = strdup(argv[6]);
        for (char *tok = strtok(all, ","); tok; tok = strtok(NULL, ",")) {
            alarm(RUN_ALARM);
            run_script(!strcmp(tok, "-") ? "" : tok);
        }
        return 0;
    }
    if (argc < 10) { fprintf(stderr, "usage: ... sched prog poll srcprog dfs|random|replay ...\n"); return 2; }
    sched_mode = true;
    cur_kind = "sched";
    prog = argv[6];
    poll_between = atoi(argv[7]);
    srcprog = !strcmp(argv[8], "-") ? "" : argv[8];
    static char what[96];
    snprintf(what, sizeof(what), "%s/%d", prog, poll_between);
    cur_what = what;
    seen = calloc(1ULL << HBITS, sizeof(uint64_t));
    upipe_verif_yield_cb = hook;
    struct vs_explore e = { .setup = setup, .finish = finish, .step = macro_step };
    cur_e = &e;
    const char *mode = argv[9];
    bool complete = false;
    {   /* pilot runs (not recorded): learn which locations are shared between the threads */
        static uint8_t out[VS_MAXSTEPS];
        bool stuck;
        vs_replay(&e, out, 0, out, VS_MAXSTEPS, &stuck);
        learn_shared();
        uint64_t prng = 0x9e3779b97f4a7c15ULL;
        for (int i = 0; i < 24; i++) {
            vs_random(&e, &prng, 2 + i % 5, out, VS_MAXSTEPS, &stuck);
            learn_shared();
        }
    }
    if (!strcmp(mode, "dfs")) {
        e.preemption_bound = atoi(argv[10]);
        e.max_runs = atol(argv[11]);
        vs_explore_run(&e);
        complete = e.complete;
    } else if (!strcmp(mode, "random")) {
        long runs = atol(argv[10]);
        uint64_t rng = strtoull(argv[11], NULL, 10) * 2654435761ULL + 12345;
        int sw = atoi(argv[12]);
        static uint8_t out[VS_MAXSTEPS];
        for (long i = 0; i < runs; i++) {
            bool stuck;
            int len = vs_random(&e, &rng, sw, out, VS_MAXSTEPS, &stuck);
            finish(NULL, out, len, stuck);
        }
    } else {
        static uint8_t pre[VS_MAXSTEPS], out[VS_MAXSTEPS];
        int plen = 0;
        for (const char *p = argv[10]; *p; p++) pre[plen++] = (uint8_t)(*p - '0');
        bool stuck;
        int len = vs_replay(&e, pre, plen, out, VS_MAXSTEPS, &stuck);
        finish(NULL, out, len, stuck);
    }
    fprintf(stderr, "{\"runs\":%ld,\"unique\":%ld,\"complete\":%s,\"max_len\":%d}\n",
            nruns, nunique, complete ? "true" : "false", e.max_len);
    return 0;
}
