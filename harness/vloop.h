/* vloop: deterministic mock event loop (upump_mgr) for the /verif harnesses.
 *
 * The manager is built on the REAL lib/upipe/upump_common.c layer exactly as
 * lib/upump-ev/upump_ev.c is: upump_common owns `started`, `status` and the
 * blocker list and calls the back-end seam real_start / real_stop /
 * real_restart; vloop supplies that seam (plus alloc/free) and replaces libev
 * by a table of watchers.  Nothing fires by itself: a pump's call-back runs
 * only when the harness asks for it (vloop_dispatch / vloop_run_once /
 * vloop_run / vloop_advance), on the calling thread, through
 * upump_common_dispatch() like a real loop.
 *
 * No global state: everything lives in the manager, several managers may
 * coexist in one process (one per modelled thread).  A manager is not
 * thread-safe, like a real event loop it belongs to one thread.
 *
 * Back-end semantic (mirrors upump_ev.c / libev):
 *   real_start(status)   watcher becomes ACTIVE (timer: armed with the time
 *                        left, initially `after`)
 *   real_stop(status)    watcher becomes inactive
 *   real_restart(status) timers only: re-armed with `after` (an active
 *                        repeating timer: with `repeat`, like ev_timer_again)
 *                        and ACTIVE; no effect on other types
 *   dispatch             a one-shot timer (repeat == 0) becomes inactive
 *                        before its call-back runs (libev stops it), a
 *                        repeating timer is re-armed with `repeat`
 * Every call of the seam is appended to a log that harnesses read back.
 */
#ifndef VLOOP_H
#define VLOOP_H
#include <stdbool.h>
#include <stdint.h>
#include <stddef.h>

#include "upipe/ubase.h"
#include "upipe/upump.h"

#define VLOOP_SIGNATURE UBASE_FOURCC('v','l','o','p')

/* kinds of log entries */
enum vloop_call {
    VLOOP_ALLOC,        /* upump_alloc_*() reached the back-end */
    VLOOP_FREE,         /* upump_free() reached the back-end (after its stop + blocker notification) */
    VLOOP_REAL_START,
    VLOOP_REAL_STOP,
    VLOOP_REAL_RESTART,
    VLOOP_DISPATCH      /* call-back about to be invoked by the loop */
};

struct vloop_log_entry {
    enum vloop_call call;
    unsigned id;        /* pump id (unique per manager, allocation order, never reused) */
    bool status;        /* `status` argument of real_start/stop/restart; VLOOP_FREE: the
                         * watcher was still active (a bug of the layers above); else false */
};

/* description of a live pump */
struct vloop_pump_info {
    unsigned id;            /* allocation number, starts at 1 */
    struct upump *upump;
    int type;               /* enum upump_type */
    bool active;            /* back-end watcher currently active */
    bool status;            /* status passed with the call that activated it: true = keeps the loop alive */
    int fd;                 /* FD_READ / FD_WRITE, else -1 */
    int signal;             /* SIGNAL, else -1 */
    uint64_t after, repeat; /* TIMER (27 MHz ticks), else 0 */
    uint64_t deadline;      /* TIMER and active: virtual expiry date */
    uint64_t dispatched;    /* number of call-back invocations so far */
};

/* Optional observer of the objects a manager hands out: called after the allocation (alloc = 1) and before
 * the free (alloc = 0) of every pump ("pump") and blocker ("blocker"). */
extern void (*vloop_obj_cb)(int alloc, const char *kind, const void *p);

/* Allocates a manager (pools of depth 0: every freed pump / blocker really
 * goes back to free(), so that sanitizers see stale uses).  Release it with
 * upump_mgr_release(); it is destroyed when the last pump has been freed. */
struct upump_mgr *vloop_mgr_alloc(void);
/* Same with upool depths as the real managers take. */
struct upump_mgr *vloop_mgr_alloc_depth(uint16_t upump_pool_depth,
                                        uint16_t upump_blocker_pool_depth);

/* Live pumps in allocation order: fills at most `max` entries, returns the
 * number of live pumps. */
size_t vloop_pumps(struct upump_mgr *mgr, struct vloop_pump_info *infos,
                   size_t max);
/* Description of one pump; false if it is not a live pump of this manager. */
bool vloop_pump_info(struct upump_mgr *mgr, struct upump *upump,
                     struct vloop_pump_info *info);
/* Live pump by id, or NULL. */
struct upump *vloop_pump_by_id(struct upump_mgr *mgr, unsigned id);
/* Shorthand: is the back-end watcher of this (live) pump active? */
bool vloop_is_active(struct upump_mgr *mgr, struct upump *upump);

/* Invokes the pump's call-back as a real loop would.  Legal only while the
 * watcher is active: returns false (and does nothing) otherwise. */
bool vloop_dispatch(struct upump_mgr *mgr, struct upump *upump);
/* True if vloop_run_once would dispatch it now: active idler, or active fd
 * pump whose descriptor is readable/writable per poll(fd, 0). */
bool vloop_is_ready(struct upump_mgr *mgr, struct upump *upump);
/* One loop iteration: takes a snapshot of the live pumps and dispatches, in
 * allocation order, first every active fd-read (fd-write) pump whose
 * descriptor is readable (writable) per poll(fd, 0), then every active idler;
 * readiness and activity are re-evaluated just before each dispatch (an
 * earlier call-back may have stopped, blocked or freed a later pump).
 * Timers and signals are never dispatched here.  Returns the number
 * dispatched. */
unsigned vloop_run_once(struct upump_mgr *mgr);
/* Iterates vloop_run_once until nothing is dispatchable or max_iterations
 * iterations have run; returns the total number dispatched. */
unsigned vloop_run(struct upump_mgr *mgr, unsigned max_iterations);

/* Virtual clock for timers (27 MHz ticks, starts at 0, only moves when told). */
uint64_t vloop_now(struct upump_mgr *mgr);
/* Active timer with the earliest deadline (ties: allocation order), or NULL. */
struct upump *vloop_next_timer(struct upump_mgr *mgr);
/* Advances the clock by `ticks`, dispatching in deadline order every timer
 * that expires on the way (at most max_dispatch); returns the number dispatched. */
unsigned vloop_advance(struct upump_mgr *mgr, uint64_t ticks,
                       unsigned max_dispatch);

/* Log of back-end calls since the manager was allocated (or since
 * vloop_log_clear).  The returned array is valid until the next call into
 * the manager. */
size_t vloop_log(struct upump_mgr *mgr, const struct vloop_log_entry **entries_p);
void vloop_log_clear(struct upump_mgr *mgr);
const char *vloop_call_name(enum vloop_call call);

/* Number of pumps that were freed while their back-end watcher was still
 * active (upump_free's own upump_stop did not reach real_stop): a real loop
 * would later invoke their call-back on freed memory.  vloop never does. */
unsigned vloop_leaked_active(struct upump_mgr *mgr);

/* True if a live pump is active with status == true (what makes a real loop
 * keep running: upump_mgr_run() returns UBASE_ERR_BUSY in that case). */
bool vloop_busy(struct upump_mgr *mgr);

#endif
