/* pd_ext_c01t: second extension of harness/pipe_driver.c for property C01:
 * the recording machinery of pd_ext_c01.c (hook H4, interposed managers, pool
 * poisoning, application-level urefs / ubufs) over EVERY buildable pipe type,
 * with picture and sound buffers and with the application keeping its own
 * reference of what it passes by reference.
 *
 * pd_ext_c01.c is compiled INTO this file (textual inclusion, not edited):
 * its command hook is renamed and called from this file's hook (letter k) after
 * the commands defined or overridden here.  A driver is linked with this file
 * only, never with pd_ext_c01.c as well.
 *
 * Commands added (names as in pd_ext_c01.c: pN pipes, sN sinks, uN application urefs)
 *   cnew pN <type> [<def> k=v.. | uM]   as pd_ext_c01.c; a flow-allocated type gets the flow definition
 *                                 built from <def> and the attributes, or the APPLICATION-HELD uref uM
 *                                 (the application keeps it and frees it later)
 *   subf pN pM <def> [k=v..] | uM  flow-allocate a sub-pipe of pM (same two forms)
 *   setfdx pN <def> [k=v..]        upipe_set_flow_def with a built flow definition (freed after the call)
 *   ufdx uN <def> [k=v..]          application-held flow definition with attributes (see build_fd)
 *   mkbuf uN uFD <id> [n]          application-held buffer matching the flow definition held in uFD:
 *                                 block (n octets), picture (hsize x vsize of uFD), sound (n samples)
 *   keep probe|mgr on|off          from now on cnew keeps an application reference of the probe chain /
 *                                 of the pipe manager (released by krel)
 *   krel pN probe|mgr              release the kept reference
 *   attach pN upump|uclock         upipe_attach_upump_mgr / upipe_attach_uclock
 *   freeze pN / thaw pN            UPROBE_FREEZE_UPUMP_MGR / UPROBE_THAW_UPUMP_MGR thrown through the pipe's probes: the
 *                                  probe that hands out the event loop manager stops / resumes answering
 *   answer                         (overridden) as pd_ext_c01.c, but a ubuf_mgr request whose flow
 *                                 definition is a picture or sound format is answered with a fresh
 *                                 ubuf_mem manager built from that flow definition (interposed like the
 *                                 global block manager)
 *   teardown                       (overridden) releases the managers created here, then as pd_ext_c01.c
 * Output lines: those of pipe_driver.c / pd_ext_c01.c; managers created here are announced
 * as `base xmN=oK` and released under `teardown xmN`.
 */
#define pd_ext_c c01_inner_cmd
#include "pd_ext_c01.c"
#undef pd_ext_c

#include "upipe/ubuf_mem.h"
#include "upipe/ubuf_pic.h"
#include "upipe/ubuf_sound.h"
#include "upipe/uref_pic.h"
#include "upipe/uref_pic_flow.h"
#include "upipe/uref_sound.h"
#include "upipe/uref_sound_flow.h"
#include "upipe/uref_clock.h"
#include "upipe/uref_block_flow.h"
#include "upipe-ts/uref_ts_flow.h"

#include "upipe-modules/upipe_aes_decrypt.h"
#include "upipe-modules/upipe_subpic_schedule.h"
#include "upipe-modules/upipe_row_split.h"
#include "upipe-modules/upipe_row_join.h"
#include "upipe-modules/upipe_crop.h"
#include "upipe-modules/upipe_rtp_pcm_pack.h"
#include "upipe-modules/upipe_rtp_pcm_unpack.h"
#include "upipe-modules/upipe_audio_merge.h"
#include "upipe-modules/upipe_dejitter.h"
#include "upipe-modules/upipe_audio_copy.h"
#include "upipe-modules/upipe_video_blank.h"
#include "upipe-modules/upipe_audio_blank.h"
#include "upipe-modules/upipe_file_sink.h"
#include "upipe-modules/upipe_udp_sink.h"
#include "upipe-modules/upipe_grid.h"
#include "upipe-modules/upipe_blit.h"
#include "upipe-modules/upipe_sine_wave_source.h"
#include "upipe-modules/upipe_blank_source.h"
#include "upipe-modules/upipe_graph.h"
#include "upipe-modules/upipe_file_source.h"
#include "upipe-modules/upipe_udp_source.h"
#include "upipe-modules/upipe_multicat_sink.h"
#include "upipe-modules/upipe_multicat_source.h"
#include "upipe-ts/upipe_ts_check.h"
#include "upipe-ts/upipe_ts_sync.h"
#include "upipe-ts/upipe_ts_align.h"
#include "upipe-ts/upipe_ts_decaps.h"
#include "upipe-ts/upipe_ts_encaps.h"
#include "upipe-ts/upipe_ts_psi_merge.h"
#include "upipe-ts/upipe_ts_psi_split.h"
#include "upipe-ts/upipe_ts_psi_join.h"
#include "upipe-ts/upipe_ts_pid_filter.h"
#include "upipe-ts/upipe_ts_split.h"
#include "upipe-ts/upipe_ts_pes_decaps.h"
#include "upipe-ts/upipe_ts_pes_encaps.h"
#include "upipe-ts/upipe_ts_pcr_interpolator.h"
#include "upipe-ts/upipe_ts_tstd.h"
#include "upipe-ts/upipe_ts_metadata_generator.h"
#include "upipe-framers/upipe_opus_framer.h"
#include "upipe-framers/upipe_s302_framer.h"
#include "upipe-framers/upipe_telx_framer.h"

/* upipe_ts_encaps.c prints the names of upipe_ts_mux commands (debug strings only);
 * upipe_ts_mux.c itself cannot be built here (biTStream dvb/si.h) */
const char *upipe_ts_mux_command_str(int cmd) { (void)cmd; return NULL; }
const char *upipe_ts_mux_event_str(int event) { (void)event; return NULL; }

/* ------------------------------------------------------------ pipe types */
static const struct pipe_type c01t_types[] = {
    { "aes_decrypt", upipe_aes_decrypt_mgr_alloc, NULL, NULL },
    { "subpic_schedule", upipe_subpic_schedule_mgr_alloc, NULL, NULL },
    { "row_split", upipe_row_split_mgr_alloc, "pic", NULL },
    { "row_join", upipe_row_join_mgr_alloc, NULL, NULL },
    { "crop", upipe_crop_mgr_alloc, NULL, NULL },
    { "rtp_pcm_pack", upipe_rtp_pcm_pack_mgr_alloc, NULL, NULL },
    { "rtp_pcm_unpack", upipe_rtp_pcm_unpack_mgr_alloc, NULL, NULL },
    { "audio_merge", upipe_audio_merge_mgr_alloc, "sound.s16", NULL },
    { "dejitter", upipe_dejitter_mgr_alloc, NULL, NULL },
    { "audio_copy", upipe_audio_copy_mgr_alloc, "sound.s16", NULL },
    { "vblk", upipe_vblk_mgr_alloc, "pic", NULL },
    { "ablk", upipe_ablk_mgr_alloc, "sound.s16", NULL },
    { "fsink", upipe_fsink_mgr_alloc, NULL, NULL },
    { "udpsink", upipe_udpsink_mgr_alloc, NULL, NULL },
    { "grid", upipe_grid_mgr_alloc, NULL, NULL },
    { "audiocont", upipe_audiocont_mgr_alloc, "sound.f32", NULL },
    { "block_to_sound", upipe_block_to_sound_mgr_alloc, "sound.s32", NULL },
    { "voidsrc", upipe_voidsrc_mgr_alloc, "void", NULL },
    { "blit", upipe_blit_mgr_alloc, NULL, NULL },
    { "sinesrc", upipe_sinesrc_mgr_alloc, NULL, NULL },
    { "blksrc", upipe_blksrc_mgr_alloc, "pic", NULL },
    { "graph", upipe_graph_mgr_alloc, NULL, NULL },
    { "fsrc", upipe_fsrc_mgr_alloc, NULL, NULL },
    { "udpsrc", upipe_udpsrc_mgr_alloc, NULL, NULL },
    { "multicat_sink", upipe_multicat_sink_mgr_alloc, NULL, NULL },
    { "msrc", upipe_msrc_mgr_alloc, NULL, NULL },
    { "ts_check", upipe_ts_check_mgr_alloc, NULL, NULL },
    { "ts_sync", upipe_ts_sync_mgr_alloc, NULL, NULL },
    { "ts_align", upipe_ts_align_mgr_alloc, NULL, NULL },
    { "ts_decaps", upipe_ts_decaps_mgr_alloc, NULL, NULL },
    { "ts_encaps", upipe_ts_encaps_mgr_alloc, NULL, NULL },
    { "ts_psi_merge", upipe_ts_psim_mgr_alloc, NULL, NULL },
    { "ts_psi_split", upipe_ts_psi_split_mgr_alloc, NULL, NULL },
    { "ts_psi_join", upipe_ts_psi_join_mgr_alloc, "block.mpegtspsi", NULL },
    { "ts_pid_filter", upipe_ts_pidf_mgr_alloc, NULL, NULL },
    { "ts_split", upipe_ts_split_mgr_alloc, NULL, NULL },
    { "ts_pes_decaps", upipe_ts_pesd_mgr_alloc, NULL, NULL },
    { "ts_pes_encaps", upipe_ts_pese_mgr_alloc, NULL, NULL },
    { "ts_pcr_interpolator", upipe_ts_pcr_interpolator_mgr_alloc, NULL, NULL },
    { "ts_tstd", upipe_ts_tstd_mgr_alloc, NULL, NULL },
    { "ts_metadata_generator", upipe_ts_mdg_mgr_alloc, NULL, NULL },
    { "opus_framer", upipe_opusf_mgr_alloc, NULL, NULL },
    { "s302_framer", upipe_s302f_mgr_alloc, NULL, NULL },
    { "telx_framer", upipe_telxf_mgr_alloc, NULL, NULL },
    { NULL, NULL, NULL, NULL }
};

const struct pipe_type *pd_types_k(const char *name)
{
    for (int i = 0; c01t_types[i].name; i++)
        if (!strcmp(c01t_types[i].name, name)) return &c01t_types[i];
    return NULL;
}

/* ------------------------------------------------------------ options */
bool pd_option_k(struct upipe *upipe, const struct pipe_type *type, bool set,
                 const char *name, const char *value)
{
    const char *t = type ? type->name : "";
    int err;
    if (!strcmp(t, "fsink") && !strcmp(name, "path")) {
        if (set) err = upipe_fsink_set_path(upipe, !strcmp(value, "none") ? NULL : value, UPIPE_FSINK_OVERWRITE);
        else { const char *p = NULL; err = upipe_fsink_get_path(upipe, &p); if (ubase_check(err)) { printf("ret 0 %s\n", p ? p : "none"); return true; } }
    } else if (!strcmp(t, "fsrc") && !strcmp(name, "uri")) {
        if (set) err = upipe_set_uri(upipe, !strcmp(value, "none") ? NULL : value);
        else { const char *p = NULL; err = upipe_get_uri(upipe, &p); if (ubase_check(err)) { printf("ret 0 %s\n", p ? p : "none"); return true; } }
    } else if (!strcmp(t, "crop") && !strcmp(name, "rect")) {
        if (set) { int l = 0, r = 0, tp = 0, b = 0; sscanf(value, "%d,%d,%d,%d", &l, &r, &tp, &b); err = upipe_crop_set_rect(upipe, l, r, tp, b); }
        else { int64_t l = 0, r = 0, tp = 0, b = 0; err = upipe_crop_get_rect(upipe, &l, &r, &tp, &b);
               if (ubase_check(err)) { printf("ret 0 %" PRId64 ",%" PRId64 ",%" PRId64 ",%" PRId64 "\n", l, r, tp, b); return true; } }
    } else
        return false;
    printf("ret %d\n", err);
    return true;
}

/* ------------------------------------------------------------ flow definitions */
static struct uref *build_fd(int nt, char **tok, int from)
{
    struct uref *fd = uref_alloc_control(g_uref);
    if (fd == NULL) return NULL;
    uref_flow_set_def(fd, tok[from]);
    for (int i = from + 1; i < nt; i++) {
        char *eq = strchr(tok[i], '=');
        if (eq == NULL) continue;
        *eq = 0;
        const char *k = tok[i], *v = eq + 1;
        uint64_t n = strtoull(v, NULL, 10);
        if (!strcmp(k, "rate")) uref_sound_flow_set_rate(fd, n);
        else if (!strcmp(k, "channels")) uref_sound_flow_set_channels(fd, (uint8_t)n);
        else if (!strcmp(k, "sample_size")) uref_sound_flow_set_sample_size(fd, (uint8_t)n);
        else if (!strcmp(k, "samples")) uref_sound_flow_set_samples(fd, n);
        else if (!strcmp(k, "splanes")) {
            uref_sound_flow_set_planes(fd, 0);
            const char *names[4] = { "l", "r", "c", "L" };
            for (unsigned j = 0; j < n && j < 4; j++) uref_sound_flow_add_plane(fd, n == 1 ? "lr" : names[j]);
        }
        else if (!strcmp(k, "hsize")) uref_pic_flow_set_hsize(fd, n);
        else if (!strcmp(k, "vsize")) uref_pic_flow_set_vsize(fd, n);
        else if (!strcmp(k, "vprepend")) uref_pic_flow_set_vprepend(fd, (uint8_t)n);
        else if (!strcmp(k, "vappend")) uref_pic_flow_set_vappend(fd, (uint8_t)n);
        else if (!strcmp(k, "vvisible")) uref_pic_flow_set_vsize_visible(fd, n);
        else if (!strcmp(k, "hpos")) uref_pic_set_hposition(fd, n);
        else if (!strcmp(k, "vpos")) uref_pic_set_vposition(fd, n);
        else if (!strcmp(k, "fps")) { struct urational r = { (int64_t)n, 1 }; uref_pic_flow_set_fps(fd, r); }
        else if (!strcmp(k, "pplanes")) {
            uref_pic_flow_set_macropixel(fd, 1);
            uref_pic_flow_set_planes(fd, 0);
            uref_pic_flow_add_plane(fd, 1, 1, 1, "y8");
            if (n >= 3) { uref_pic_flow_add_plane(fd, 2, 2, 1, "u8"); uref_pic_flow_add_plane(fd, 2, 2, 1, "v8"); }
        }
        else if (!strcmp(k, "pes_id")) uref_ts_flow_set_pes_id(fd, (uint8_t)n);
        else if (!strcmp(k, "pid")) uref_ts_flow_set_pid(fd, n);
        else if (!strcmp(k, "tb_rate")) uref_ts_flow_set_tb_rate(fd, n);
        else if (!strcmp(k, "duration")) uref_clock_set_duration(fd, n);
        else if (!strcmp(k, "latency")) uref_clock_set_latency(fd, n);
        else if (!strcmp(k, "octetrate")) uref_block_flow_set_octetrate(fd, n);
        else if (!strcmp(k, "tag")) uref_attr_set_string(fd, v, UDICT_TYPE_STRING, "x.tag");
        *eq = '=';
    }
    return fd;
}

/* ------------------------------------------------------------ more ubuf managers */
/* managers created here (answers to ubuf_mgr requests, buffers of the
 * application): their function tables are interposed like the global block
 * manager's, their structures share one table (ids xK) */
struct xmgr {
    struct ubuf_mgr *mgr;
    char key[8];                     /* name of the application uref it was built for ("" = an answer) */
    struct ubuf *(*o_alloc)(struct ubuf_mgr *, uint32_t, va_list);
    int (*o_control)(struct ubuf *, int, va_list);
    void (*o_free)(struct ubuf *);
    int (*o_mgr_control)(struct ubuf_mgr *, int, va_list);
};
#define MAXX 48
static struct xmgr xmgrs[MAXX];
static int nxmgrs;
static struct table t_xbuf = { "ubuf", 'x', .psize = sizeof(struct ubuf) };

static struct xmgr *xmgr_of(struct ubuf_mgr *mgr)
{
    for (int i = 0; i < nxmgrs; i++)
        if (xmgrs[i].mgr == mgr) return &xmgrs[i];
    return NULL;
}
static struct ubuf *x_alloc(struct ubuf_mgr *mgr, uint32_t sig, va_list args)
{
    struct xmgr *x = xmgr_of(mgr);
    pool_open(&t_xbuf);
    struct ubuf *b = x->o_alloc(mgr, sig, args);
    pool_close(&t_xbuf, b);
    if (b) tab_add(&t_xbuf, b, true);
    return b;
}
static int x_control(struct ubuf *ubuf, int cmd, va_list args)
{
    struct xmgr *x = xmgr_of(ubuf->mgr);
    struct ubuf **pp = NULL;
    if (cmd == UBUF_DUP || cmd == UBUF_SPLICE_BLOCK) {
        va_list c;
        va_copy(c, args);
        pp = va_arg(c, struct ubuf **);
        va_end(c);
        pool_open(&t_xbuf);
    }
    int err = x->o_control(ubuf, cmd, args);
    if (pp) {
        struct ubuf *n = ubase_check(err) ? *pp : NULL;
        pool_close(&t_xbuf, n);
        if (n) tab_add(&t_xbuf, n, true);
    }
    return err;
}
static void x_free(struct ubuf *b)
{
    struct xmgr *x = xmgr_of(b->mgr);
    tab_del(&t_xbuf, b, true);
    x->o_free(b);
    pool_rest(&t_xbuf, b);
}
static int x_mgr_control(struct ubuf_mgr *mgr, int cmd, va_list args)
{
    struct xmgr *x = xmgr_of(mgr);
    if (cmd == UBUF_MGR_VACUUM) pool_forget(&t_xbuf);
    return x->o_mgr_control(mgr, cmd, args);
}

static struct xmgr *xmgr_new(struct uref *fd, const char *key)
{
    if (nxmgrs >= MAXX) return NULL;
    struct ubuf_mgr *m = ubuf_mem_mgr_alloc_from_flow_def(g_pooldepth, g_pooldepth, g_umem, fd);
    if (m == NULL) return NULL;
    struct xmgr *x = &xmgrs[nxmgrs];
    x->mgr = m;
    snprintf(x->key, sizeof(x->key), "%s", key);
    x->o_alloc = m->ubuf_alloc;
    x->o_control = m->ubuf_control;
    x->o_free = m->ubuf_free;
    x->o_mgr_control = m->ubuf_mgr_control;
    m->ubuf_alloc = x_alloc;
    m->ubuf_control = x_control;
    m->ubuf_free = x_free;
    if (x->o_mgr_control) m->ubuf_mgr_control = x_mgr_control;
    printf("base xm%d=o%d\n", nxmgrs, rc_id(m->refcount));
    nxmgrs++;
    return x;
}

static bool fd_is(struct uref *fd, const char *prefix)
{
    const char *def = NULL;
    return fd != NULL && ubase_check(uref_flow_get_def(fd, &def)) && !strncmp(def, prefix, strlen(prefix));
}

/* registrations at the recording sinks are counted (their manager is static in pipe_driver.c: its
 * control function is wrapped) */
static unsigned nregistered;
static int (*o_sink_control)(struct upipe *, int, va_list);
static int c_sink_control(struct upipe *upipe, int command, va_list args)
{
    if (command == UPIPE_REGISTER_REQUEST) nregistered++;
    return o_sink_control(upipe, command, args);
}
static void count_registrations(void)
{
    for (int i = 0; i < MAXOBJ; i++)
        if (sinks[i].used && !sinks[i].dead && sinks[i].upipe.mgr != NULL &&
            sinks[i].upipe.mgr->upipe_control != c_sink_control) {
            o_sink_control = sinks[i].upipe.mgr->upipe_control;
            sinks[i].upipe.mgr->upipe_control = c_sink_control;
        }
}

/* answer a request registered at a recording sink */
static void answer_one(struct urequest *r, const char *who)
{
    if (r->type == UREQUEST_UBUF_MGR && r->uref != NULL && (fd_is(r->uref, "pic.") || fd_is(r->uref, "sound."))) {
        struct xmgr *x = xmgr_new(r->uref, "");
        if (x != NULL) {
            printf("provide %s %s type=%d xm\n", who, req_name(r), r->type);
            urequest_provide_ubuf_mgr(r, ubuf_mgr_use(x->mgr), uref_dup(r->uref));
            return;
        }
    }
    provide(r, who);
}

/* ------------------------------------------------------------ kept references */
struct kept { char name[8]; struct uprobe *probe; struct upipe_mgr *mgr; };
static struct kept kepts[MAXOBJ];
static bool keep_probe, keep_mgr;
static struct kept *kept_of(const char *n, bool create)
{
    for (int i = 0; i < MAXOBJ; i++) if (kepts[i].name[0] && !strcmp(kepts[i].name, n)) return &kepts[i];
    if (!create) return NULL;
    for (int i = 0; i < MAXOBJ; i++) if (!kepts[i].name[0]) { snprintf(kepts[i].name, 8, "%s", n); return &kepts[i]; }
    return NULL;
}

static struct obj *slot_new(const char *name)
{
    if (find_pipe(name)) return NULL;
    for (int i = 0; i < MAXOBJ; i++)
        if (!pipes[i].name[0]) {
            memset(&pipes[i], 0, sizeof(pipes[i]));
            snprintf(pipes[i].name, sizeof(pipes[i].name), "%s", name);
            return &pipes[i];
        }
    return NULL;
}

/* the flow definition named by the tokens from `from`: an application uref
 * (borrowed: *own = false) or a built one (*own = true) */
static struct uref *fd_arg(int nt, char **tok, int from, bool *own)
{
    *own = false;
    if (nt <= from) return NULL;
    struct aref *a = aref_find(tok[from], false);
    if (a != NULL && a->u != NULL) return a->u;
    if (strchr(tok[from], '.') == NULL) return NULL;
    *own = true;
    return build_fd(nt, tok, from);
}

bool pd_ext_k(int nt, char **tok)
{
    const char *c = tok[0];
    if (!strcmp(c, "cnew") && nt >= 3 && strcmp(tok[2], "qsrc") && strcmp(tok[2], "qsink")) {
        /* this file's table first: it knows which types are flow-allocated */
        const struct pipe_type *pt = pd_types_k(tok[2]);
        if (pt == NULL) pt = registry_find(tok[2]);
        bool own = false;
        struct uref *fd = pt && pt->flow_alloc ? fd_arg(nt, tok, 3, &own) : NULL;
        if (pt == NULL || g_loop == NULL || (fd == NULL && !keep_probe && !keep_mgr))
            return c01_inner_cmd(nt, tok);
        struct obj *o = slot_new(tok[1]);
        struct obj *donor = find_pipe("zz");
        if (o == NULL || donor == NULL || donor->probe.uprobe_throw == NULL) {
            if (o) o->name[0] = 0;
            if (own) uref_free(fd);
            ret(-1);
            return true;
        }
        o->type = pt;
        uprobe_init(&o->probe, donor->probe.uprobe_throw, NULL);
        o->probe.refcount = NULL;
        struct uprobe *p = &o->probe;
        p = uprobe_uref_mgr_alloc(p, g_uref);
        p = uprobe_uclock_alloc(p, &vclock);
        p = uprobe_upump_mgr_alloc(p, g_loop);
        struct kept *k = (keep_probe || keep_mgr) ? kept_of(tok[1], true) : NULL;
        if (k && keep_probe) k->probe = uprobe_use(p);
        struct upipe_mgr *mgr = pt->mgr_alloc();
        if (k && keep_mgr) k->mgr = upipe_mgr_use(mgr);
        struct upipe *up;
        o->ptr = (struct upipe *)-1;
        registry_pending = o->name;
        if (pt->flow_alloc) {
            struct uref *f = fd;
            if (f == NULL) { f = make_fd(pt->flow_alloc); own = true; }
            up = upipe_flow_alloc(mgr, p, f);
            if (own) uref_free(f);
        } else
            up = upipe_void_alloc(mgr, p);
        registry_pending = NULL;
        upipe_mgr_release(mgr);
        o->upipe = up;
        o->ptr = up;
        o->alive = up != NULL;
        if (up == NULL) o->name[0] = 0;
        ret(up ? 0 : -1);
        return true;
    }
    if (!strcmp(c, "subf") && nt >= 4) {
        struct obj *sup = find_pipe(tok[2]);
        bool own = false;
        struct uref *fd = fd_arg(nt, tok, 3, &own);
        struct obj *o = (sup && sup->upipe && fd) ? slot_new(tok[1]) : NULL;
        struct obj *donor = find_pipe("zz");
        if (o == NULL || donor == NULL) { if (own) uref_free(fd); ret(-1); return true; }
        uprobe_init(&o->probe, donor->probe.uprobe_throw, NULL);
        o->probe.refcount = NULL;
        o->ptr = (struct upipe *)-1;
        registry_pending = o->name;
        struct upipe *up = upipe_flow_alloc_sub(sup->upipe, &o->probe, fd);
        registry_pending = NULL;
        if (own) uref_free(fd);
        o->upipe = up;
        o->ptr = up;
        o->alive = up != NULL;
        if (up == NULL) o->name[0] = 0;
        ret(up ? 0 : -1);
        return true;
    }
    if (!strcmp(c, "setfdx") && nt >= 3) {
        struct upipe *up = find_any(tok[1]);
        if (!up) { ret(-1); return true; }
        struct uref *fd = build_fd(nt, tok, 2);
        int err = upipe_set_flow_def(up, fd);
        uref_free(fd);
        ret(err);
        return true;
    }
    if (!strcmp(c, "ufdx") && nt >= 3) {
        struct aref *a = aref_find(tok[1], true);
        if (a == NULL || a->u != NULL) { ret(-1); return true; }
        a->u = build_fd(nt, tok, 2);
        if (a->u == NULL) { ret(-1); return true; }
        printf("app take u%ld\n", uref_uid(a->u));
        ret(0);
        return true;
    }
    if (!strcmp(c, "mkbuf") && nt >= 4) {
        struct aref *a = aref_find(tok[1], true);
        struct aref *f = aref_find(tok[2], false);
        if (a == NULL || a->u != NULL || f == NULL || f->u == NULL) { ret(-1); return true; }
        unsigned id = atoi(tok[3]);
        int n = nt > 4 ? atoi(tok[4]) : 0;
        struct uref *u = NULL;
        if (fd_is(f->u, "pic.") || fd_is(f->u, "sound.")) {
            struct xmgr *x = NULL;
            for (int i = 0; i < nxmgrs; i++)
                if (xmgrs[i].key[0] && !strcmp(xmgrs[i].key, tok[2])) x = &xmgrs[i];
            if (x == NULL) x = xmgr_new(f->u, tok[2]);
            if (x == NULL) { ret(-1); return true; }
            if (fd_is(f->u, "pic.")) {
                uint64_t h = 16, v = 16;
                uref_pic_flow_get_hsize(f->u, &h);
                uref_pic_flow_get_vsize(f->u, &v);
                u = uref_pic_alloc(g_uref, x->mgr, (int)h, (int)v);
                if (u != NULL) {
                    const char *chroma = NULL;
                    while (ubase_check(ubuf_pic_iterate_plane(u->ubuf, &chroma)) && chroma != NULL) {
                        uint8_t *w = NULL;
                        size_t stride = 0;
                        uint8_t hsub = 1, vsub = 1, mps = 1;
                        if (!ubase_check(ubuf_pic_plane_size(u->ubuf, chroma, &stride, &hsub, &vsub, &mps))) continue;
                        if (!ubase_check(ubuf_pic_plane_write(u->ubuf, chroma, 0, 0, -1, -1, &w))) continue;
                        for (uint64_t y = 0; y < v / vsub; y++)
                            memset(w + y * stride, (int)(id * 7 + y), (h / hsub) * mps);
                        ubuf_pic_plane_unmap(u->ubuf, chroma, 0, 0, -1, -1);
                    }
                }
            } else {
                uint64_t samples = 64;
                uref_sound_flow_get_samples(f->u, &samples);
                if (n > 0) samples = n;
                uint8_t ss = 4;
                uref_sound_flow_get_sample_size(f->u, &ss);
                u = uref_sound_alloc(g_uref, x->mgr, (int)samples);
                if (u != NULL) {
                    const char *ch = NULL;
                    while (ubase_check(ubuf_sound_iterate_plane(u->ubuf, &ch)) && ch != NULL) {
                        uint8_t *w = NULL;
                        if (!ubase_check(ubuf_sound_plane_write_uint8_t(u->ubuf, ch, 0, -1, &w))) continue;
                        memset(w, 0, samples * ss);
                        ubuf_sound_plane_unmap(u->ubuf, ch, 0, -1);
                    }
                }
            }
        } else {
            if (n <= 0) n = 188;
            uint8_t *data = malloc(n + 1);
            for (int i = 0; i < n; i++) data[i] = (uint8_t)((id * 7 + i) & 0x7f);
            if (fd_is(f->u, "block.mpegts.") && n >= 4) { data[0] = 0x47; data[1] = 0x00; data[2] = 0x44; data[3] = 0x10 | (id & 15); }
            u = make_block(data, n, 1);
            free(data);
        }
        if (u == NULL) { ret(-1); return true; }
        uref_cx_set_id(u, id);
        uref_clock_set_pts_prog(u, UCLOCK_FREQ + (uint64_t)id * 27000);
        uref_clock_set_pts_sys(u, UCLOCK_FREQ + (uint64_t)id * 27000);
        uref_clock_set_dts_pts_delay(u, 0);
        uref_clock_set_duration(u, 27000);
        a->u = u;
        printf("app take u%ld\n", uref_uid(u));
        ret(0);
        return true;
    }
    if (!strcmp(c, "keep") && nt >= 3) {
        bool on = !strcmp(tok[2], "on");
        if (!strcmp(tok[1], "probe")) keep_probe = on;
        else if (!strcmp(tok[1], "mgr")) keep_mgr = on;
        else { ret(-1); return true; }
        ret(0);
        return true;
    }
    if (!strcmp(c, "krel") && nt >= 3) {
        struct kept *k = kept_of(tok[1], false);
        if (k == NULL) { ret(-1); return true; }
        if (!strcmp(tok[2], "probe") && k->probe) { struct uprobe *p = k->probe; k->probe = NULL; uprobe_release(p); ret(0); }
        else if (!strcmp(tok[2], "mgr") && k->mgr) { struct upipe_mgr *m = k->mgr; k->mgr = NULL; upipe_mgr_release(m); ret(0); }
        else ret(-1);
        return true;
    }
    if (!strcmp(c, "answer")) {
        /* every request registered at a live sink is answered; an answer may make the pipe register
         * again (the SAME urequest structure after an unregister, e.g. for the next flow definition it
         * holds): passes are repeated while registrations keep arriving (at most 8) */
        count_registrations();
        static struct urequest *done[256];
        int total = 0;
        for (int pass = 0; pass < 8; pass++) {
            int n = 0;
            unsigned before = nregistered;
            for (int i = 0; i < MAXOBJ; i++) {
                if (!sinks[i].used || sinks[i].dead) continue;
                for (int k = 0; k < sinks[i].nregs; k++) {
                    struct urequest *r = sinks[i].regs[k];
                    bool seen = false;
                    for (int a = 0; a < n; a++) if (done[a] == r) seen = true;
                    if (seen || n >= 256) continue;
                    done[n++] = r;
                    answer_one(r, sinks[i].name);
                    k = -1;            /* the list may have changed: rescan */
                }
            }
            total += n;
            if (n == 0 || nregistered == before) break;
        }
        printf("ret 0 %d\n", total);
        return true;
    }
    if ((!strcmp(c, "freeze") || !strcmp(c, "thaw")) && nt >= 2) {
        struct obj *o = find_pipe(tok[1]);
        if (o == NULL || o->upipe == NULL) { ret(-1); return true; }
        ret(upipe_throw(o->upipe, c[0] == 'f' ? UPROBE_FREEZE_UPUMP_MGR : UPROBE_THAW_UPUMP_MGR));
        return true;
    }
    if (!strcmp(c, "attach") && nt >= 3) {
        struct obj *o = find_pipe(tok[1]);
        if (!o || !o->upipe) { ret(-1); return true; }
        if (!strcmp(tok[2], "upump")) ret(upipe_attach_upump_mgr(o->upipe));
        else ret(upipe_attach_uclock(o->upipe));
        return true;
    }
    if (!strcmp(c, "teardown")) {
        pool_forget(&t_xbuf);
        for (int i = 0; i < nxmgrs; i++) {
            printf("teardown xm%d\n", i);
            ubuf_mgr_release(xmgrs[i].mgr);
        }
        return c01_inner_cmd(nt, tok);
    }
    if (!strcmp(c, "rcs")) {
        /* live structures of the managers created here are counted with the block ones */
        t_ubuf.count += t_xbuf.count;
        bool r = c01_inner_cmd(nt, tok);
        t_ubuf.count -= t_xbuf.count;
        return r;
    }
    return c01_inner_cmd(nt, tok);
}
