/*
 * replay_block.c - command interpreter over the REAL ubuf_block / uref_block
 * API with the ubuf_block_mem manager (properties C02 / C03).
 *
 *   replay_block [pool=N] [spool=N] [pre=N] [app=N] [align=N] [aoff=N]
 *                [umem=alloc|pool] [api=ubuf|uref] [fill=N]
 *
 * stdin : one command per line          stdout : one result line per command
 *
 *   alloc hD n bXXXX          ok <room>            (room = octets in front of the data)
 *   dup hD hS                 ok | err
 *   splice hD hS off size     ok | err | okfree <probe>
 *   split hD hS off           ok | err | okfree <probe hS> <probe hD>
 *   copy hD hS skip size      ok <room> | err | okfree <probe>
 *   merge h skip size         ok <room> | err | okfree <probe>
 *   append h g                ok | err             (g is consumed when ok)
 *   insert h off g            ok | err | okfree <probe>
 *   delete h off size         ok | err | okfree <probe>
 *   truncate h off            ok | err | okfree <probe>
 *   resize h skip size        ok | err | okfree <probe>
 *   prepend h n               ok | err
 *   wmap h off                ok | busy | err      (write mapping of 1 octet, unmapped at once)
 *   poke h off v              ok | busy | err      (write mapping, store v, unmap)
 *   free h                    ok
 *   size h                    ok <n>
 *   read h off size           ok bXX <chunks>      (ubuf_block_read walked to the end of the range)
 *   rd1 h off size            ok bXX               (one ubuf_block_read call: first chunk)
 *   peek h off size           ok bXX | err
 *   extract h off size        ok bXX | err
 *   iovec h off size          ok bXX <count> | err
 *   slin h off                ok <n> | err
 *   scan h start w            ok <pos> | err <pos>
 *   find h start w1 w2 [w3..] ok <pos> | err <pos>
 *   compare h off g           ok | err
 *   equal h g                 ok | err
 *   match h bFILTER bMASK     ok | err
 *   audit h                   ok <n> bXX | ok <n> err | none
 *   reset                     reset                (frees everything, new managers)
 *
 * <probe> = "<size> bXX" or "<size> err": after a structural call whose
 * arguments are outside the byte-string domain (judged with the block's own
 * ubuf_block_size) and which nevertheless reported success, the harness reads
 * the result back (size + extract of everything) and frees the handle(s): the
 * specification only asks such a result to be self-consistent.
 * A malformed command (bad slot, size < -1, ...) answers "bad".
 *
 * Octets are written one character each: 0-9a-f (values < 16), 'z' otherwise.
 * Every umem buffer is filled with the `fill` octet when allocated, so that
 * the octets uncovered by prepend / copy / merge are deterministic.
 */
#undef NDEBUG
#include "upipe/ubase.h"
#include "upipe/urefcount.h"
#include "upipe/umem.h"
#include "upipe/umem_alloc.h"
#include "upipe/umem_pool.h"
#include "upipe/udict.h"
#include "upipe/udict_inline.h"
#include "upipe/ubuf.h"
#include "upipe/ubuf_block.h"
#include "upipe/ubuf_block_mem.h"
#include "upipe/uref.h"
#include "upipe/uref_std.h"
#include "upipe/uref_block.h"

#include <stdio.h>
#include <stdlib.h>
#include <string.h>
#include <assert.h>
#include <signal.h>

/* fault injection (-Wl,--wrap=malloc): "F<k> <command>" executes the command with the k-th malloc of the
 * LIBRARY refused (the static inline code of the headers above and the library sources call the wrapped
 * malloc; the harness itself uses the real one).  If the command then reports an error it is executed a
 * second time, without fault, and its result line is prefixed by "ferr": an operation that reported an
 * error must have left everything unchanged, so the second attempt and every later call behave as if the
 * first had not happened. */
void *__real_malloc(size_t n);
static int malloc_cd, malloc_refused;
void *__wrap_malloc(size_t n)
{
    if (malloc_cd > 0 && --malloc_cd == 0) {
        malloc_refused++;
        return NULL;
    }
    return __real_malloc(n);
}
#define malloc(n) __real_malloc(n)
#include <unistd.h>

#define NH   32
#define CAP  (1 << 16)
#define MAXTOK 24

/* ---------------------------------------------------------------- filler umem */
/* wraps a real umem manager; every allocated buffer is filled with `fill` */
struct fill_mgr {
    struct urefcount urefcount;
    struct umem_mgr *inner;
    uint8_t fill;
    struct umem_mgr mgr;
};
UBASE_FROM_TO(fill_mgr, umem_mgr, umem_mgr, mgr)
UBASE_FROM_TO(fill_mgr, urefcount, urefcount, urefcount)

static bool fill_alloc(struct umem_mgr *mgr, struct umem *umem, size_t size)
{
    struct fill_mgr *f = fill_mgr_from_umem_mgr(mgr);
    if (!umem_alloc(f->inner, umem, size))
        return false;
    memset(umem_buffer(umem), f->fill, size);
    return true;
}
static void fill_vacuum(struct umem_mgr *mgr)
{
    umem_mgr_vacuum(fill_mgr_from_umem_mgr(mgr)->inner);
}
static void fill_free_mgr(struct urefcount *urefcount)
{
    struct fill_mgr *f = fill_mgr_from_urefcount(urefcount);
    umem_mgr_release(f->inner);
    urefcount_clean(urefcount);
    free(f);
}
static struct umem_mgr *fill_mgr_alloc(struct umem_mgr *inner, uint8_t fill)
{
    struct fill_mgr *f = malloc(sizeof(*f));
    assert(f != NULL);
    f->inner = inner;
    f->fill = fill;
    urefcount_init(&f->urefcount, fill_free_mgr);
    f->mgr.refcount = &f->urefcount;
    f->mgr.umem_alloc = fill_alloc;
    f->mgr.umem_realloc = NULL;     /* never used by ubuf_block_mem */
    f->mgr.umem_free = NULL;        /* umem->mgr is the inner manager */
    f->mgr.umem_mgr_vacuum = fill_vacuum;
    return &f->mgr;
}

/* ---------------------------------------------------------------- state */
static struct ubuf_mgr *mgr;
static struct uref_mgr *uref_mgr;
static bool uref_mode = false;
static struct ubuf *B[NH];
static struct uref *R[NH];
static uint8_t buf1[CAP + 16], buf2[CAP + 16];

static bool live(int i) { return uref_mode ? R[i] != NULL : B[i] != NULL; }
static struct ubuf *UB(int i) { return uref_mode ? R[i]->ubuf : B[i]; }

static void put(int i, struct ubuf *u)
{
    if (uref_mode) {
        /* (the harness's own uref: not an allocation of the operation under test - no refusal here) */
        int cd = malloc_cd;
        malloc_cd = 0;
        struct uref *r = uref_alloc(uref_mgr);
        malloc_cd = cd;
        assert(r != NULL);
        uref_attach_ubuf(r, u);
        R[i] = r;
    } else
        B[i] = u;
}
static void drop(int i)       /* free the handle */
{
    if (uref_mode) { uref_free(R[i]); R[i] = NULL; }
    else { ubuf_free(B[i]); B[i] = NULL; }
}
static void forget(int i)     /* the block was consumed by append / insert */
{
    if (uref_mode) { uref_detach_ubuf(R[i]); uref_free(R[i]); R[i] = NULL; }
    else B[i] = NULL;
}

static char hexc(uint8_t v) { return v < 16 ? "0123456789abcdef"[v] : 'z'; }
static void pbytes(const uint8_t *p, size_t n)
{
    putchar('b');
    for (size_t i = 0; i < n; i++)
        putchar(hexc(p[i]));
}
/* parses bXXXX into out, returns length or -1 */
static int gbytes(const char *t, uint8_t *out)
{
    if (t == NULL || t[0] != 'b')
        return -1;
    int n = 0;
    for (t++; *t; t++, n++) {
        if (*t >= '0' && *t <= '9') out[n] = *t - '0';
        else if (*t >= 'a' && *t <= 'f') out[n] = *t - 'a' + 10;
        else return -1;
        if (n >= CAP) return -1;
    }
    return n;
}
static int ghandle(const char *t)
{
    if (t == NULL || t[0] != 'h' || !t[1])
        return -1;
    char *end;
    long v = strtol(t + 1, &end, 10);
    if (*end || v < 0 || v >= NH)
        return -1;
    return (int)v;
}
static bool gint(const char *t, int *v)
{
    if (t == NULL || !*t)
        return false;
    char *end;
    long x = strtol(t, &end, 10);
    if (*end || x < -CAP || x > CAP)
        return false;
    *v = (int)x;
    return true;
}

static size_t bsize(struct ubuf *u)
{
    size_t n = 0;
    ubuf_block_size(u, &n);
    return n;
}
static size_t room_of(struct ubuf *u)
{
    return ubuf_block_from_ubuf(u)->offset;
}

/* size + everything, read back through the public API */
static void probe(struct ubuf *u)
{
    size_t n = bsize(u);
    if (n > CAP) {
        printf(" big err");
        return;
    }
    printf(" %zu ", n);
    if (ubase_check(ubuf_block_extract(u, 0, -1, buf1)))
        pbytes(buf1, n);
    else
        printf("err");
}

/* byte-string domain of (offset, size) pairs: 0 <= o < n, o + size <= n */
static bool dom_range(size_t n, int off, int size)
{
    long o = off < 0 ? (long)off + (long)n : off;
    if (o < 0 || o >= (long)n)
        return false;
    if (size == -1)
        return true;
    return size >= 0 && o + size <= (long)n;
}
static bool dom_copy(size_t n, int skip, int size)
{
    if (skip > (long)n)
        return false;
    long ns = size == -1 ? (long)n - skip : size;
    long pre = skip < 0 ? -(long)skip : 0;
    return ns >= 0 && ns > pre;
}
static bool dom_resize(size_t n, int skip, int size)
{
    long s = skip < 0 ? (long)skip + (long)n : skip;
    if (s < 0 || s > (long)n)
        return false;
    if (size == -1)
        return true;
    return size >= 0 && s + size <= (long)n;
}

#define BAD do { printf("bad\n"); return; } while (0)
#define NEEDLIVE(i) do { if ((i) < 0 || !live(i)) BAD; } while (0)
#define NEEDFREE(i) do { if ((i) < 0 || live(i)) BAD; } while (0)
#define NEEDINT(t, v) do { if (!gint((t), &(v))) BAD; } while (0)
#define NEEDSIZE(v) do { if ((v) < -1) BAD; } while (0)

static void result_mut(int err, bool dom, int h)
{
    if (!ubase_check(err)) {
        printf("err\n");
        return;
    }
    if (dom) {
        printf("ok\n");
        return;
    }
    printf("okfree");
    probe(UB(h));
    printf("\n");
    drop(h);
}

static void exec_cmd(int nt, char **t)
{
    const char *c = t[0];
    int h, g, d, off, size, v;

    if (!strcmp(c, "alloc")) {
        if (nt != 4) BAD;
        d = ghandle(t[1]); NEEDFREE(d);
        NEEDINT(t[2], size);
        int n = gbytes(t[3], buf1);
        if (size < 0 || n != size) BAD;
        struct ubuf *u;
        if (uref_mode) {
            struct uref *r = uref_block_alloc(uref_mgr, mgr, size);
            if (r == NULL) { printf("err\n"); return; }
            R[d] = r;
            u = r->ubuf;
        } else {
            u = ubuf_block_alloc(mgr, size);
            if (u == NULL) { printf("err\n"); return; }
            B[d] = u;
        }
        if (size > 0) {
            int ws = -1;
            uint8_t *w;
            if (!ubase_check(ubuf_block_write(u, 0, &ws, &w)) || ws != size) {
                printf("err\n");
                drop(d);
                return;
            }
            memcpy(w, buf1, size);
            ubuf_block_unmap(u, 0);
        }
        printf("ok %zu\n", room_of(u));
        return;
    }
    if (!strcmp(c, "dup")) {
        if (nt != 3) BAD;
        d = ghandle(t[1]); h = ghandle(t[2]); NEEDLIVE(h); NEEDFREE(d);
        if (uref_mode) {
            R[d] = uref_dup(R[h]);
            printf(R[d] ? "ok\n" : "err\n");
        } else {
            B[d] = ubuf_dup(B[h]);
            printf(B[d] ? "ok\n" : "err\n");
        }
        return;
    }
    if (!strcmp(c, "splice")) {
        if (nt != 5) BAD;
        d = ghandle(t[1]); h = ghandle(t[2]); NEEDLIVE(h); NEEDFREE(d);
        NEEDINT(t[3], off); NEEDINT(t[4], size); NEEDSIZE(size);
        bool dom = dom_range(bsize(UB(h)), off, size);
        if (uref_mode)
            R[d] = uref_block_splice(R[h], off, size);
        else
            B[d] = ubuf_block_splice(B[h], off, size);
        if (!live(d)) { printf("err\n"); return; }
        if (dom) { printf("ok\n"); return; }
        printf("okfree");
        probe(UB(d));
        printf("\n");
        drop(d);
        return;
    }
    if (!strcmp(c, "split")) {
        if (nt != 4) BAD;
        d = ghandle(t[1]); h = ghandle(t[2]); NEEDLIVE(h); NEEDFREE(d);
        NEEDINT(t[3], off);
        size_t n = bsize(UB(h));
        long o = off < 0 ? (long)off + (long)n : off;
        bool dom = o >= 0 && o < (long)n;
        if (uref_mode)
            R[d] = uref_block_split(R[h], off);
        else
            B[d] = ubuf_block_split(B[h], off);
        if (!live(d)) { printf("err\n"); return; }
        if (dom) { printf("ok\n"); return; }
        printf("okfree");
        probe(UB(h));
        probe(UB(d));
        printf("\n");
        drop(h);
        drop(d);
        return;
    }
    if (!strcmp(c, "copy")) {
        if (nt != 5) BAD;
        d = ghandle(t[1]); h = ghandle(t[2]); NEEDLIVE(h); NEEDFREE(d);
        NEEDINT(t[3], off); NEEDINT(t[4], size); NEEDSIZE(size);
        bool dom = dom_copy(bsize(UB(h)), off, size);
        struct ubuf *u = ubuf_block_copy(mgr, UB(h), off, size);
        if (u == NULL) { printf("err\n"); return; }
        put(d, u);
        if (dom) { printf("ok %zu\n", room_of(u)); return; }
        printf("okfree");
        probe(u);
        printf("\n");
        drop(d);
        return;
    }
    if (!strcmp(c, "merge")) {
        if (nt != 4) BAD;
        h = ghandle(t[1]); NEEDLIVE(h);
        NEEDINT(t[2], off); NEEDINT(t[3], size); NEEDSIZE(size);
        bool dom = dom_copy(bsize(UB(h)), off, size);
        int err = uref_mode ? uref_block_merge(R[h], mgr, off, size)
                            : ubuf_block_merge(mgr, &B[h], off, size);
        if (ubase_check(err) && dom) {
            printf("ok %zu\n", room_of(UB(h)));
            return;
        }
        result_mut(err, dom, h);
        return;
    }
    if (!strcmp(c, "append")) {
        if (nt != 3) BAD;
        h = ghandle(t[1]); g = ghandle(t[2]); NEEDLIVE(h); NEEDLIVE(g);
        if (h == g) BAD;
        int err = uref_mode ? uref_block_append(R[h], UB(g))
                            : ubuf_block_append(B[h], B[g]);
        if (ubase_check(err)) { forget(g); printf("ok\n"); }
        else printf("err\n");
        return;
    }
    if (!strcmp(c, "insert")) {
        if (nt != 4) BAD;
        h = ghandle(t[1]); g = ghandle(t[3]); NEEDLIVE(h); NEEDLIVE(g);
        if (h == g) BAD;
        NEEDINT(t[2], off);
        size_t n = bsize(UB(h));
        long o = off < 0 ? (long)off + (long)n : off;
        bool dom = o >= 0 && o < (long)n;
        int err = uref_mode ? uref_block_insert(R[h], off, UB(g))
                            : ubuf_block_insert(B[h], off, B[g]);
        if (ubase_check(err))
            forget(g);
        result_mut(err, dom, h);
        return;
    }
    if (!strcmp(c, "delete")) {
        if (nt != 4) BAD;
        h = ghandle(t[1]); NEEDLIVE(h);
        NEEDINT(t[2], off); NEEDINT(t[3], size); NEEDSIZE(size);
        bool dom = dom_range(bsize(UB(h)), off, size);
        int err = uref_mode ? uref_block_delete(R[h], off, size)
                            : ubuf_block_delete(B[h], off, size);
        result_mut(err, dom, h);
        return;
    }
    if (!strcmp(c, "truncate")) {
        if (nt != 3) BAD;
        h = ghandle(t[1]); NEEDLIVE(h);
        NEEDINT(t[2], off);
        if (off < 0) BAD;
        bool dom = (size_t)off <= bsize(UB(h));
        int err = uref_mode ? uref_block_truncate(R[h], off)
                            : ubuf_block_truncate(B[h], off);
        result_mut(err, dom, h);
        return;
    }
    if (!strcmp(c, "resize")) {
        if (nt != 4) BAD;
        h = ghandle(t[1]); NEEDLIVE(h);
        NEEDINT(t[2], off); NEEDINT(t[3], size); NEEDSIZE(size);
        bool dom = dom_resize(bsize(UB(h)), off, size);
        int err = uref_mode ? uref_block_resize(R[h], off, size)
                            : ubuf_block_resize(B[h], off, size);
        result_mut(err, dom, h);
        return;
    }
    if (!strcmp(c, "prepend")) {
        if (nt != 3) BAD;
        h = ghandle(t[1]); NEEDLIVE(h);
        NEEDINT(t[2], size);
        if (size < 0) BAD;
        int err = uref_mode ? uref_block_prepend(R[h], size)
                            : ubuf_block_prepend(B[h], size);
        printf(ubase_check(err) ? "ok\n" : "err\n");
        return;
    }
    if (!strcmp(c, "wmap") || !strcmp(c, "poke")) {
        bool poke = c[0] == 'p';
        if (nt != (poke ? 4 : 3)) BAD;
        h = ghandle(t[1]); NEEDLIVE(h);
        NEEDINT(t[2], off);
        v = 0;
        if (poke) { NEEDINT(t[3], v); if (v < 0 || v > 255) BAD; }
        int ws = 1;
        uint8_t *w;
        size_t n = bsize(UB(h));
        long o = off < 0 ? (long)off + (long)n : off;
        bool dom = o >= 0 && o < (long)n;
        int err = uref_mode ? uref_block_write(R[h], off, &ws, &w)
                            : ubuf_block_write(B[h], off, &ws, &w);
        if (err == UBASE_ERR_BUSY) { printf("busy\n"); return; }
        if (!ubase_check(err)) { printf("err\n"); return; }
        if (ws != 1) {
            /* mapped, but not the octet that was asked for */
            if (uref_mode) uref_block_unmap(R[h], off); else ubuf_block_unmap(B[h], off);
            printf("short\n");
            return;
        }
        if (poke)
            *w = (uint8_t)v;
        err = uref_mode ? uref_block_unmap(R[h], off) : ubuf_block_unmap(B[h], off);
        if (!ubase_check(err)) { printf("unmaperr\n"); return; }
        /* an offset outside the block was accepted: read the result back */
        result_mut(err, dom, h);
        return;
    }
    if (!strcmp(c, "free")) {
        if (nt != 2) BAD;
        h = ghandle(t[1]); NEEDLIVE(h);
        drop(h);
        printf("ok\n");
        return;
    }
    if (!strcmp(c, "size")) {
        if (nt != 2) BAD;
        h = ghandle(t[1]); NEEDLIVE(h);
        size_t n;
        int err = uref_mode ? uref_block_size(R[h], &n) : ubuf_block_size(B[h], &n);
        if (ubase_check(err)) printf("ok %zu\n", n); else printf("err\n");
        return;
    }
    if (!strcmp(c, "audit")) {
        if (nt != 2) BAD;
        h = ghandle(t[1]);
        if (h < 0) BAD;
        if (!live(h)) { printf("none\n"); return; }
        printf("ok");
        probe(UB(h));
        printf("\n");
        return;
    }
    if (!strcmp(c, "read") || !strcmp(c, "rd1")) {
        bool one = c[1] == 'd';
        if (nt != 4) BAD;
        h = ghandle(t[1]); NEEDLIVE(h);
        NEEDINT(t[2], off); NEEDINT(t[3], size); NEEDSIZE(size);
        /* the range to walk: like ubuf_block_extract, -1 means "to the end" */
        size_t n = bsize(UB(h));
        long want = size;
        if (size == -1)
            want = off < 0 ? -(long)off : (long)n - off;
        size_t got = 0;
        int chunks = 0;
        int o = off;
        bool first = true;
        for ( ; ; ) {
            int rs = first ? size : (int)(want - (long)got);
            const uint8_t *r;
            int err = uref_mode ? uref_block_read(R[h], o, &rs, &r)
                                : ubuf_block_read(B[h], o, &rs, &r);
            if (!ubase_check(err) || rs < 0 || got + rs > CAP) { printf("err\n"); return; }
            memcpy(buf1 + got, r, rs);
            err = uref_mode ? uref_block_unmap(R[h], o) : ubuf_block_unmap(B[h], o);
            if (!ubase_check(err)) { printf("err\n"); return; }
            got += rs;
            chunks++;
            first = false;
            if (one || (long)got >= want || rs == 0)
                break;
            o += rs;
            if (off < 0 && o >= 0)
                break;          /* ran past the end of a range counted from the end */
        }
        if (!one && (long)got != want) { printf("err\n"); return; }
        printf("ok ");
        pbytes(buf1, got);
        if (!one)
            printf(" %d", chunks);
        printf("\n");
        return;
    }
    if (!strcmp(c, "peek") || !strcmp(c, "extract") || !strcmp(c, "iovec")) {
        if (nt != 4) BAD;
        h = ghandle(t[1]); NEEDLIVE(h);
        NEEDINT(t[2], off); NEEDINT(t[3], size); NEEDSIZE(size);
        size_t n = bsize(UB(h));
        long want = size;
        if (size == -1)
            want = off < 0 ? -(long)off : (long)n - off;
        if (want < 0 || want > CAP) { printf("err\n"); return; }
        if (c[0] == 'p') {
            const uint8_t *r = uref_mode ? uref_block_peek(R[h], off, size, buf2)
                                         : ubuf_block_peek(B[h], off, size, buf2);
            if (r == NULL) { printf("err\n"); return; }
            memcpy(buf1, r, want);
            int err = uref_mode ? uref_block_peek_unmap(R[h], off, buf2, r)
                                : ubuf_block_peek_unmap(B[h], off, buf2, r);
            if (!ubase_check(err)) { printf("err\n"); return; }
            printf("ok ");
            pbytes(buf1, want);
            printf("\n");
        } else if (c[0] == 'e') {
            int err = uref_mode ? uref_block_extract(R[h], off, size, buf1)
                                : ubuf_block_extract(B[h], off, size, buf1);
            if (!ubase_check(err)) { printf("err\n"); return; }
            printf("ok ");
            pbytes(buf1, want);
            printf("\n");
        } else {
            int cnt = uref_mode ? uref_block_iovec_count(R[h], off, size)
                                : ubuf_block_iovec_count(B[h], off, size);
            if (cnt < 0 || cnt > 4096) { printf("err\n"); return; }
            struct iovec iov[cnt + 1];
            int err = uref_mode ? uref_block_iovec_read(R[h], off, size, iov)
                                : ubuf_block_iovec_read(B[h], off, size, iov);
            if (!ubase_check(err)) { printf("err\n"); return; }
            size_t got = 0;
            for (int i = 0; i < cnt; i++) {
                if (got + iov[i].iov_len > CAP) { printf("err\n"); return; }
                memcpy(buf1 + got, iov[i].iov_base, iov[i].iov_len);
                got += iov[i].iov_len;
            }
            err = uref_mode ? uref_block_iovec_unmap(R[h], off, size, iov)
                            : ubuf_block_iovec_unmap(B[h], off, size, iov);
            if (!ubase_check(err) || (long)got != want) { printf("err\n"); return; }
            printf("ok ");
            pbytes(buf1, got);
            printf(" %d\n", cnt);
        }
        return;
    }
    if (!strcmp(c, "slin")) {
        if (nt != 3) BAD;
        h = ghandle(t[1]); NEEDLIVE(h);
        NEEDINT(t[2], off);
        size_t n;
        int err = uref_mode ? uref_block_size_linear(R[h], off, &n)
                            : ubuf_block_size_linear(B[h], off, &n);
        if (ubase_check(err)) printf("ok %zu\n", n); else printf("err\n");
        return;
    }
    if (!strcmp(c, "scan")) {
        if (nt != 4) BAD;
        h = ghandle(t[1]); NEEDLIVE(h);
        NEEDINT(t[2], off); NEEDINT(t[3], v);
        if (off < 0 || v < 0 || v > 255) BAD;
        size_t pos = off;
        int err = uref_mode ? uref_block_scan(R[h], &pos, v)
                            : ubuf_block_scan(B[h], &pos, v);
        printf("%s %zu\n", ubase_check(err) ? "ok" : "err", pos);
        return;
    }
    if (!strcmp(c, "find")) {
        if (nt < 5 || nt > 7) BAD;
        h = ghandle(t[1]); NEEDLIVE(h);
        NEEDINT(t[2], off);
        if (off < 0) BAD;
        int w[4] = {0, 0, 0, 0};
        int nw = nt - 3;
        for (int i = 0; i < nw; i++) {
            NEEDINT(t[3 + i], w[i]);
            if (w[i] < 0 || w[i] > 255) BAD;
        }
        size_t pos = off;
        int err;
        if (uref_mode)
            err = nw == 2 ? uref_block_find(R[h], &pos, 2, w[0], w[1]) :
                  nw == 3 ? uref_block_find(R[h], &pos, 3, w[0], w[1], w[2]) :
                            uref_block_find(R[h], &pos, 4, w[0], w[1], w[2], w[3]);
        else
            err = nw == 2 ? ubuf_block_find(B[h], &pos, 2, w[0], w[1]) :
                  nw == 3 ? ubuf_block_find(B[h], &pos, 3, w[0], w[1], w[2]) :
                            ubuf_block_find(B[h], &pos, 4, w[0], w[1], w[2], w[3]);
        printf("%s %zu\n", ubase_check(err) ? "ok" : "err", pos);
        return;
    }
    if (!strcmp(c, "compare")) {
        if (nt != 4) BAD;
        h = ghandle(t[1]); g = ghandle(t[3]); NEEDLIVE(h); NEEDLIVE(g);
        NEEDINT(t[2], off);
        if (off < 0) BAD;
        int err = uref_mode ? uref_block_compare(R[h], off, R[g])
                            : ubuf_block_compare(B[h], off, B[g]);
        printf(ubase_check(err) ? "ok\n" : "err\n");
        return;
    }
    if (!strcmp(c, "equal")) {
        if (nt != 3) BAD;
        h = ghandle(t[1]); g = ghandle(t[2]); NEEDLIVE(h); NEEDLIVE(g);
        int err = uref_mode ? uref_block_equal(R[h], R[g])
                            : ubuf_block_equal(B[h], B[g]);
        printf(ubase_check(err) ? "ok\n" : "err\n");
        return;
    }
    if (!strcmp(c, "match")) {
        if (nt != 4) BAD;
        h = ghandle(t[1]); NEEDLIVE(h);
        int nf = gbytes(t[2], buf1);
        int nm = gbytes(t[3], buf2);
        if (nf < 0 || nf != nm) BAD;
        int err = uref_mode ? uref_block_match(R[h], buf1, buf2, nf)
                            : ubuf_block_match(B[h], buf1, buf2, nf);
        printf(ubase_check(err) ? "ok\n" : "err\n");
        return;
    }
    BAD;
}

static int argint(int argc, char **argv, const char *key, int def)
{
    size_t l = strlen(key);
    for (int i = 1; i < argc; i++)
        if (!strncmp(argv[i], key, l) && argv[i][l] == '=')
            return atoi(argv[i] + l + 1);
    return def;
}
static const char *argstr(int argc, char **argv, const char *key, const char *def)
{
    size_t l = strlen(key);
    for (int i = 1; i < argc; i++)
        if (!strncmp(argv[i], key, l) && argv[i][l] == '=')
            return argv[i] + l + 1;
    return def;
}

static int g_pool, g_spool, g_pre, g_app, g_align, g_aoff, g_fill;
static const char *g_umem;
static struct umem_mgr *umem_mgr;
static struct udict_mgr *udict_mgr;

static void setup(void)
{
    struct umem_mgr *inner = !strcmp(g_umem, "pool") ? umem_pool_mgr_alloc_simple(2)
                                                     : umem_alloc_mgr_alloc();
    assert(inner != NULL);
    umem_mgr = fill_mgr_alloc(inner, (uint8_t)g_fill);
    mgr = ubuf_block_mem_mgr_alloc(g_pool, g_spool, umem_mgr, g_pre, g_app,
                                   g_align, g_aoff);
    assert(mgr != NULL);
    if (uref_mode) {
        udict_mgr = udict_inline_mgr_alloc(g_pool, inner, -1, -1);
        assert(udict_mgr != NULL);
        uref_mgr = uref_std_mgr_alloc(g_pool, udict_mgr, 0);
        assert(uref_mgr != NULL);
    }
}

static void teardown(void)
{
    for (int i = 0; i < NH; i++)
        if (live(i))
            drop(i);
    if (uref_mode) {
        uref_mgr_release(uref_mgr);
        udict_mgr_release(udict_mgr);
    }
    ubuf_mgr_release(mgr);
    umem_mgr_release(umem_mgr);
}

/* A command of the code under test that does not return (e.g. a segment
 * chain walked for ever) must cost seconds, not the time-out of the whole
 * batch: every command runs under an alarm; on expiry the process exits with
 * status 5 WITHOUT a result line for that command, which the check reads as
 * "this command hung" (the results of earlier commands are already flushed). */
static void on_alarm(int sig)
{
    (void)sig;
    _exit(5);
}

int main(int argc, char **argv)
{
    unsigned alarm_s = 10;
    if (getenv("REPLAY_ALARM_S") != NULL && atoi(getenv("REPLAY_ALARM_S")) > 0)
        alarm_s = atoi(getenv("REPLAY_ALARM_S"));
    signal(SIGALRM, on_alarm);
    g_pool = argint(argc, argv, "pool", 0);
    g_spool = argint(argc, argv, "spool", g_pool);
    g_pre = argint(argc, argv, "pre", 0);
    g_app = argint(argc, argv, "app", 0);
    g_align = argint(argc, argv, "align", 0);
    g_aoff = argint(argc, argv, "aoff", 0);
    g_fill = argint(argc, argv, "fill", 14);
    g_umem = argstr(argc, argv, "umem", "alloc");
    uref_mode = !strcmp(argstr(argc, argv, "api", "ubuf"), "uref");
    setup();

    setvbuf(stdout, NULL, _IOLBF, 0);
    static char line[4 * CAP];
    while (fgets(line, sizeof(line), stdin) != NULL) {
        char *t[MAXTOK];
        int nt = 0;
        for (char *p = strtok(line, " \t\r\n"); p != NULL && nt < MAXTOK;
             p = strtok(NULL, " \t\r\n"))
            t[nt++] = p;
        if (nt == 0 || t[0][0] == '#') {
            printf("skip\n");
            continue;
        }
        alarm(alarm_s);
        if (!strcmp(t[0], "reset")) {   /* next execution: everything anew */
            teardown();
            setup();
            printf("reset\n");
        } else if (t[0][0] == 'F' && t[0][1] >= '1' && t[0][1] <= '9' && nt > 1) {
            char *buf = NULL;
            size_t len = 0;
            FILE *mem = open_memstream(&buf, &len), *save = stdout;
            int before = malloc_refused;
            stdout = mem;
            malloc_cd = atoi(t[0] + 1);
            exec_cmd(nt - 1, t + 1);
            malloc_cd = 0;
            fflush(mem);
            stdout = save;
            fclose(mem);
            if (malloc_refused != before && buf != NULL && !strncmp(buf, "err", 3)) {
                printf("ferr ");
                exec_cmd(nt - 1, t + 1);
            } else
                fputs(buf ? buf : "bad\n", stdout);
            free(buf);
        } else
            exec_cmd(nt, t);
        fflush(stdout);
        alarm(0);
    }

    teardown();
    printf("end\n");
    return 0;
}
