/*
 * C10 - command interpreter over the REAL udict / uref_attr API.
 *
 * usage: replay_udict LEVEL POOL_DEPTH MIN_SIZE EXTRA_SIZE
 *   LEVEL  udict : handles are struct udict (udict_alloc/udict_dup/udict_import/udict_set_*)
 *          uref  : handles are struct uref from uref_alloc (udict == NULL until
 *                  the first set), uref_attr_* / uref_flow_* / uref_pic_* /
 *                  uref_clock_* wrappers, uref_dup, uref_attr_import
 *          urefc : same, handles from uref_alloc_control (udict pre-allocated)
 *   POOL_DEPTH, MIN_SIZE, EXTRA_SIZE: arguments of udict_inline_mgr_alloc
 *   (MIN_SIZE / EXTRA_SIZE <= 0 select the manager's defaults 128 / 64).
 *
 * stdin: one command per line; stdout: exactly one result line per command,
 * flushed at once (a crash - assert, sanitizer report - is attributed to the
 * first command without a result).
 *
 *   reset                    free everything, re-create the managers     -> ok
 *   alloc D                                                              -> ok
 *   set D T N V              set attribute (type T, name N or -) to V    -> ok | err<code>
 *   seta D T N T2 N2         set (T,N) from the pointer returned by the
 *                            getter of (T2,N2) of the SAME dictionary    -> ok | absent
 *   get D T N                                                            -> <value token> | absent
 *   del D T N                                                            -> ok | absent
 *   dup D S                  D := duplicate of S                         -> ok
 *   import D S               udict_import / uref_attr_import             -> ok | err<code>
 *   copy D S T N             uref_attr_copy_<type> (uref_*_copy_*)       -> ok | err<code>
 *   cmp D S                  udict_cmp                                   -> 0 | nz
 *   iter D                   udict_iterate until END: "T:N T:N ..."      -> list | -
 *   free D                                                               -> ok
 *
 * Value tokens (the harness is only a codec: token -> real value for set,
 * real value -> token for get; no expected values live here):
 *   o<len>.<seed>  opaque of len octets, content pattern(seed)  (len <= 65535)
 *   s<len>.<seed>  string of len characters (no NUL), content pattern(seed)
 *   v  void        b0|b1  bool        su<dec> uint8        si<dec> int8
 *   u<dec> uint64  i<dec> int64       f<16 hex> double bits  r<num>/<den>
 * A value read back that matches no pattern is printed as o<len>.?<hash>.
 *
 * exit codes: 0 ok; 3 harness/usage error (tool error, never a verdict);
 * anything else = the real code crashed.
 */
#include <stdio.h>
#include <stdlib.h>
#include <string.h>
#include <stdint.h>
#include <stdbool.h>
#include <inttypes.h>
#include <signal.h>
#include <unistd.h>

#include "upipe/ubase.h"
#include "upipe/umem.h"
#include "upipe/umem_alloc.h"
#include "upipe/udict.h"
#include "upipe/udict_inline.h"
#include "upipe/uref.h"
#include "upipe/uref_std.h"
#include "upipe/uref_attr.h"
#include "upipe/uref_flow.h"
#include "upipe/uref_pic.h"
#include "upipe/uref_clock.h"

#define NH 8
#define NSEEDS 16

static void die(const char *msg, const char *arg)
{
    fflush(stdout);
    fprintf(stderr, "HARNESS: %s %s\n", msg, arg ? arg : "");
    exit(3);
}

/* ------------------------------------------------------------ type table */
struct tdesc { const char *tok; enum udict_type type; enum udict_type base; };
#define B(n, T) { n, UDICT_TYPE_##T, UDICT_TYPE_##T }
#define S(T, BASE) { #T, UDICT_TYPE_##T, UDICT_TYPE_##BASE }
static const struct tdesc types[] = {
    B("opaque", OPAQUE), B("string", STRING), B("void", VOID), B("bool", BOOL),
    B("small_unsigned", SMALL_UNSIGNED), B("small_int", SMALL_INT),
    B("unsigned", UNSIGNED), B("int", INT), B("rational", RATIONAL), B("float", FLOAT),
    S(FLOW_RANDOM, VOID), S(FLOW_ERROR, VOID), S(FLOW_DEF, STRING), S(FLOW_ID, UNSIGNED),
    S(FLOW_RAWDEF, STRING), S(FLOW_LANGUAGES, SMALL_UNSIGNED), S(EVENT_EVENTS, UNSIGNED),
    S(CLOCK_DURATION, UNSIGNED), S(CLOCK_RATE, RATIONAL), S(CLOCK_LATENCY, UNSIGNED),
    S(CLOCK_WRAP, UNSIGNED), S(BLOCK_END, VOID), S(PIC_NUM, UNSIGNED), S(PIC_KEY, VOID),
    S(PIC_HSIZE, UNSIGNED), S(PIC_VSIZE, UNSIGNED), S(PIC_HSIZE_VISIBLE, UNSIGNED),
    S(PIC_VSIZE_VISIBLE, UNSIGNED), S(PIC_VIDEO_FORMAT, STRING), S(PIC_FULL_RANGE, VOID),
    S(PIC_COLOUR_PRIMARIES, STRING), S(PIC_TRANSFER_CHARACTERISTICS, STRING),
    S(PIC_MATRIX_COEFFICIENTS, STRING), S(PIC_HPOSITION, UNSIGNED), S(PIC_VPOSITION, UNSIGNED),
    S(PIC_LPADDING, UNSIGNED), S(PIC_RPADDING, UNSIGNED), S(PIC_TPADDING, UNSIGNED),
    S(PIC_BPADDING, UNSIGNED), S(PIC_SAR, RATIONAL), S(PIC_OVERSCAN, BOOL),
    S(PIC_PROGRESSIVE, VOID), S(PIC_TF, VOID), S(PIC_BF, VOID), S(PIC_TFF, VOID),
    S(PIC_AFD, SMALL_UNSIGNED), S(PIC_CEA_708, OPAQUE), S(PIC_BAR_DATA, OPAQUE),
};
#define NTYPES (sizeof(types) / sizeof(types[0]))

static const struct tdesc *type_by_tok(const char *tok)
{
    for (size_t i = 0; i < NTYPES; i++)
        if (!strcmp(types[i].tok, tok))
            return &types[i];
    die("unknown type", tok);
    return NULL;
}

static const char *tok_by_type(enum udict_type type, char *tmp)
{
    for (size_t i = 0; i < NTYPES; i++)
        if (types[i].type == type)
            return types[i].tok;
    sprintf(tmp, "?%d", (int)type);
    return tmp;
}

/* ---------------------------------------------------------- value codec */
static uint8_t pat(unsigned seed, size_t i, bool str)
{
    uint32_t h = (uint32_t)i * 2654435761u + seed * 40503u + 0x9e37u;
    h ^= h >> 15;
    h *= 0x2c1b3c6du;
    h ^= h >> 12;
    if (i == 0) /* the first octet identifies the seed: the codec is injective */
        return str ? (uint8_t)('a' + seed) : (uint8_t)(seed * 16 + 5);
    return str ? (uint8_t)(33 + h % 94) : (uint8_t)(h & 0xff);
}

/* exact-size heap buffer: a read past the source is a sanitizer report */
static uint8_t *materialise(size_t len, unsigned seed, bool str)
{
    uint8_t *p = malloc(len + (str ? 1 : 0) + (!str && !len ? 1 : 0));
    if (p == NULL)
        die("malloc", NULL);
    for (size_t i = 0; i < len; i++)
        p[i] = pat(seed, i, str);
    if (str)
        p[len] = '\0';
    return p;
}

static void parse_blob(const char *v, char c, size_t *len_p, unsigned *seed_p)
{
    char *end;
    if (v[0] != c)
        die("bad value token", v);
    *len_p = strtoul(v + 1, &end, 10);
    if (*end != '.')
        die("bad value token", v);
    *seed_p = strtoul(end + 1, &end, 10);
    if (*end != '\0' || *seed_p >= NSEEDS || *len_p > 65535 || (!*len_p && *seed_p))
        die("bad value token", v);
}

static void print_blob(char c, const uint8_t *p, size_t len)
{
    if (len == 0) {
        printf("%c0.0\n", c);
        return;
    }
    for (unsigned seed = 0; seed < NSEEDS; seed++) {
        if (p[0] != pat(seed, 0, c == 's'))
            continue;
        size_t i;
        for (i = 1; i < len; i++)
            if (p[i] != pat(seed, i, c == 's'))
                break;
        if (i == len) {
            printf("%c%zu.%u\n", c, len, seed);
            return;
        }
    }
    uint32_t h = 2166136261u;
    for (size_t i = 0; i < len; i++)
        h = (h ^ p[i]) * 16777619u;
    printf("%c%zu.?%08x\n", c, len, h);
}

/* --------------------------------------------------------------- state */
static enum { L_UDICT, L_UREF, L_UREFC } level;
static int pool_depth, min_size, extra_size;
static struct umem_mgr *umem_mgr;
static struct udict_mgr *udict_mgr;
static struct uref_mgr *uref_mgr;
static struct udict *hd[NH];
static struct uref *hu[NH];
static bool hlive[NH];

static void mgrs_alloc(void)
{
    umem_mgr = umem_alloc_mgr_alloc();
    udict_mgr = udict_inline_mgr_alloc(pool_depth, umem_mgr, min_size, extra_size);
    uref_mgr = uref_std_mgr_alloc(pool_depth, udict_mgr, 32);
    if (!umem_mgr || !udict_mgr || !uref_mgr)
        die("manager allocation", NULL);
}

static void mgrs_release(void)
{
    for (int i = 0; i < NH; i++) {
        if (hlive[i]) {
            if (level == L_UDICT)
                udict_free(hd[i]);
            else
                uref_free(hu[i]);
        }
        hlive[i] = false;
        hd[i] = NULL;
        hu[i] = NULL;
    }
    uref_mgr_release(uref_mgr);
    udict_mgr_release(udict_mgr);
    umem_mgr_release(umem_mgr);
}

static int handle(const char *s, bool want_live)
{
    char *end;
    long h = strtol(s, &end, 10);
    if (*end || h < 0 || h >= NH)
        die("bad handle", s);
    if (hlive[h] != want_live)
        die(want_live ? "handle not live" : "handle already live", s);
    return h;
}

static bool is_uref(void) { return level != L_UDICT; }

/* the dictionary behind a handle (NULL for a uref without udict) */
static struct udict *dict_of(int h) { return is_uref() ? hu[h]->udict : hd[h]; }

/* at udict level the single-attribute copy (uref_attr_copy_*) is applied
 * through a transient uref shell around the real udict */
static void shell_init(struct uref *shell, int h)
{
    memset(shell, 0, sizeof(*shell));
    shell->mgr = uref_mgr;
    shell->udict = hd[h];
}

/* dedicated public accessors (uref_flow.h, uref_pic.h, uref_clock.h) used at
 * uref level instead of the generic uref_attr_* when the key has one */
enum route { R_NONE, R_FLOW_DEF, R_FLOW_RAWDEF, R_FLOW_ID, R_FLOW_LANGUAGES, R_FLOW_ERROR,
             R_FLOW_NAME, R_FLOW_HEADERS, R_FLOW_LOWDELAY, R_FLOW_LANG0, R_PIC_NUM,
             R_PIC_CEA708, R_PIC_AFD, R_CLOCK_RATE };

static enum route route_of(const struct tdesc *t, const char *name)
{
    if (!is_uref())
        return R_NONE;
    if (name == NULL) {
        switch (t->type) {
            case UDICT_TYPE_FLOW_DEF: return R_FLOW_DEF;
            case UDICT_TYPE_FLOW_RAWDEF: return R_FLOW_RAWDEF;
            case UDICT_TYPE_FLOW_ID: return R_FLOW_ID;
            case UDICT_TYPE_FLOW_LANGUAGES: return R_FLOW_LANGUAGES;
            case UDICT_TYPE_FLOW_ERROR: return R_FLOW_ERROR;
            case UDICT_TYPE_PIC_NUM: return R_PIC_NUM;
            case UDICT_TYPE_PIC_CEA_708: return R_PIC_CEA708;
            case UDICT_TYPE_PIC_AFD: return R_PIC_AFD;
            case UDICT_TYPE_CLOCK_RATE: return R_CLOCK_RATE;
            default: return R_NONE;
        }
    }
    if (t->type == UDICT_TYPE_STRING && !strcmp(name, "f.name")) return R_FLOW_NAME;
    if (t->type == UDICT_TYPE_OPAQUE && !strcmp(name, "f.headers")) return R_FLOW_HEADERS;
    if (t->type == UDICT_TYPE_VOID && !strcmp(name, "f.lowdelay")) return R_FLOW_LOWDELAY;
    if (t->type == UDICT_TYPE_STRING && !strcmp(name, "f.lang[0]")) return R_FLOW_LANG0;
    return R_NONE;
}

static void print_err(int err)
{
    if (ubase_check(err))
        printf("ok\n");
    else
        printf("err%d\n", err);
}

/* ------------------------------------------------------------------ set */
static int set_opaque(int h, const struct tdesc *t, const char *name, const uint8_t *p, size_t len)
{
    struct udict_opaque o = { p, len };
    if (!is_uref())
        return udict_set_opaque(hd[h], o, t->type, name);
    switch (route_of(t, name)) {
        case R_FLOW_HEADERS: return uref_flow_set_headers(hu[h], p, len);
        case R_PIC_CEA708: return uref_pic_set_cea_708(hu[h], p, len);
        default: return uref_attr_set_opaque(hu[h], o, t->type, name);
    }
}

static int set_string(int h, const struct tdesc *t, const char *name, const char *p)
{
    if (!is_uref())
        return udict_set_string(hd[h], p, t->type, name);
    switch (route_of(t, name)) {
        case R_FLOW_DEF: return uref_flow_set_def(hu[h], p);
        case R_FLOW_RAWDEF: return uref_flow_set_raw_def(hu[h], p);
        case R_FLOW_NAME: return uref_flow_set_name(hu[h], p);
        case R_FLOW_LANG0: return uref_flow_set_language(hu[h], p, 0);
        default: return uref_attr_set_string(hu[h], p, t->type, name);
    }
}

static int do_set(int h, const struct tdesc *t, const char *name, const char *v)
{
    char *end;
    switch (t->base) {
        case UDICT_TYPE_OPAQUE: {
            size_t len; unsigned seed;
            parse_blob(v, 'o', &len, &seed);
            uint8_t *p = materialise(len, seed, false);
            int err = set_opaque(h, t, name, p, len);
            free(p);
            return err;
        }
        case UDICT_TYPE_STRING: {
            size_t len; unsigned seed;
            parse_blob(v, 's', &len, &seed);
            uint8_t *p = materialise(len, seed, true);
            int err = set_string(h, t, name, (const char *)p);
            free(p);
            return err;
        }
        case UDICT_TYPE_VOID:
            if (strcmp(v, "v")) die("bad value token", v);
            if (!is_uref()) return udict_set_void(hd[h], NULL, t->type, name);
            switch (route_of(t, name)) {
                case R_FLOW_ERROR: return uref_flow_set_error(hu[h]);
                case R_FLOW_LOWDELAY: return uref_flow_set_lowdelay(hu[h]);
                default: return uref_attr_set_void(hu[h], NULL, t->type, name);
            }
        case UDICT_TYPE_BOOL: {
            if (v[0] != 'b' || (v[1] != '0' && v[1] != '1') || v[2]) die("bad value token", v);
            bool b = v[1] == '1';
            return is_uref() ? uref_attr_set_bool(hu[h], b, t->type, name)
                             : udict_set_bool(hd[h], b, t->type, name);
        }
        case UDICT_TYPE_SMALL_UNSIGNED: {
            if (strncmp(v, "su", 2)) die("bad value token", v);
            unsigned long x = strtoul(v + 2, &end, 10);
            if (*end || x > 255) die("bad value token", v);
            if (!is_uref()) return udict_set_small_unsigned(hd[h], x, t->type, name);
            switch (route_of(t, name)) {
                case R_FLOW_LANGUAGES: return uref_flow_set_languages(hu[h], x);
                case R_PIC_AFD: return uref_pic_set_afd(hu[h], x);
                default: return uref_attr_set_small_unsigned(hu[h], x, t->type, name);
            }
        }
        case UDICT_TYPE_SMALL_INT: {
            if (strncmp(v, "si", 2)) die("bad value token", v);
            long x = strtol(v + 2, &end, 10);
            if (*end || x < -128 || x > 127) die("bad value token", v);
            return is_uref() ? uref_attr_set_small_int(hu[h], x, t->type, name)
                             : udict_set_small_int(hd[h], x, t->type, name);
        }
        case UDICT_TYPE_UNSIGNED: {
            if (v[0] != 'u') die("bad value token", v);
            uint64_t x = strtoull(v + 1, &end, 10);
            if (*end) die("bad value token", v);
            if (!is_uref()) return udict_set_unsigned(hd[h], x, t->type, name);
            switch (route_of(t, name)) {
                case R_FLOW_ID: return uref_flow_set_id(hu[h], x);
                case R_PIC_NUM: return uref_pic_set_number(hu[h], x);
                default: return uref_attr_set_unsigned(hu[h], x, t->type, name);
            }
        }
        case UDICT_TYPE_INT: {
            if (v[0] != 'i') die("bad value token", v);
            int64_t x = strtoll(v + 1, &end, 10);
            if (*end || x == INT64_MIN) die("bad value token", v);
            return is_uref() ? uref_attr_set_int(hu[h], x, t->type, name)
                             : udict_set_int(hd[h], x, t->type, name);
        }
        case UDICT_TYPE_FLOAT: {
            if (v[0] != 'f' || strlen(v) != 17) die("bad value token", v);
            union { double f; uint64_t i; } u;
            u.i = strtoull(v + 1, &end, 16);
            if (*end) die("bad value token", v);
            return is_uref() ? uref_attr_set_float(hu[h], u.f, t->type, name)
                             : udict_set_float(hd[h], u.f, t->type, name);
        }
        case UDICT_TYPE_RATIONAL: {
            if (v[0] != 'r') die("bad value token", v);
            struct urational r;
            r.num = strtoll(v + 1, &end, 10);
            if (*end != '/' || r.num == INT64_MIN) die("bad value token", v);
            r.den = strtoull(end + 1, &end, 10);
            if (*end) die("bad value token", v);
            if (!is_uref()) return udict_set_rational(hd[h], r, t->type, name);
            switch (route_of(t, name)) {
                case R_CLOCK_RATE: return uref_clock_set_rate(hu[h], r);
                default: return uref_attr_set_rational(hu[h], r, t->type, name);
            }
        }
        default:
            die("bad base type", t->tok);
    }
    return UBASE_ERR_INVALID;
}

/* ------------------------------------------------------------------ get */
static int get_opaque(int h, const struct tdesc *t, const char *name, struct udict_opaque *o)
{
    if (!is_uref())
        return udict_get_opaque(hd[h], o, t->type, name);
    switch (route_of(t, name)) {
        case R_FLOW_HEADERS: return uref_flow_get_headers(hu[h], &o->v, &o->size);
        case R_PIC_CEA708: return uref_pic_get_cea_708(hu[h], &o->v, &o->size);
        default: return uref_attr_get_opaque(hu[h], o, t->type, name);
    }
}

static int get_string(int h, const struct tdesc *t, const char *name, const char **p)
{
    if (!is_uref())
        return udict_get_string(hd[h], p, t->type, name);
    switch (route_of(t, name)) {
        case R_FLOW_DEF: return uref_flow_get_def(hu[h], p);
        case R_FLOW_RAWDEF: return uref_flow_get_raw_def(hu[h], p);
        case R_FLOW_NAME: return uref_flow_get_name(hu[h], p);
        case R_FLOW_LANG0: return uref_flow_get_language(hu[h], p, 0);
        default: return uref_attr_get_string(hu[h], p, t->type, name);
    }
}

static void do_get(int h, const struct tdesc *t, const char *name)
{
    int err;
    switch (t->base) {
        case UDICT_TYPE_OPAQUE: {
            struct udict_opaque o = { NULL, 0 };
            err = get_opaque(h, t, name, &o);
            if (ubase_check(err)) { print_blob('o', o.v, o.size); return; }
            break;
        }
        case UDICT_TYPE_STRING: {
            const char *p = NULL;
            err = get_string(h, t, name, &p);
            if (ubase_check(err)) { print_blob('s', (const uint8_t *)p, strlen(p)); return; }
            break;
        }
        case UDICT_TYPE_VOID:
            if (!is_uref()) err = udict_get_void(hd[h], NULL, t->type, name);
            else switch (route_of(t, name)) {
                case R_FLOW_ERROR: err = uref_flow_get_error(hu[h]); break;
                case R_FLOW_LOWDELAY: err = uref_flow_get_lowdelay(hu[h]); break;
                default: err = uref_attr_get_void(hu[h], NULL, t->type, name);
            }
            if (ubase_check(err)) { printf("v\n"); return; }
            break;
        case UDICT_TYPE_BOOL: {
            bool b = false;
            err = is_uref() ? uref_attr_get_bool(hu[h], &b, t->type, name)
                            : udict_get_bool(hd[h], &b, t->type, name);
            if (ubase_check(err)) { printf("b%d\n", b ? 1 : 0); return; }
            break;
        }
        case UDICT_TYPE_SMALL_UNSIGNED: {
            uint8_t x = 0;
            if (!is_uref()) err = udict_get_small_unsigned(hd[h], &x, t->type, name);
            else switch (route_of(t, name)) {
                case R_FLOW_LANGUAGES: err = uref_flow_get_languages(hu[h], &x); break;
                case R_PIC_AFD: err = uref_pic_get_afd(hu[h], &x); break;
                default: err = uref_attr_get_small_unsigned(hu[h], &x, t->type, name);
            }
            if (ubase_check(err)) { printf("su%u\n", (unsigned)x); return; }
            break;
        }
        case UDICT_TYPE_SMALL_INT: {
            int8_t x = 0;
            err = is_uref() ? uref_attr_get_small_int(hu[h], &x, t->type, name)
                            : udict_get_small_int(hd[h], &x, t->type, name);
            if (ubase_check(err)) { printf("si%d\n", (int)x); return; }
            break;
        }
        case UDICT_TYPE_UNSIGNED: {
            uint64_t x = 0;
            if (!is_uref()) err = udict_get_unsigned(hd[h], &x, t->type, name);
            else switch (route_of(t, name)) {
                case R_FLOW_ID: err = uref_flow_get_id(hu[h], &x); break;
                case R_PIC_NUM: err = uref_pic_get_number(hu[h], &x); break;
                default: err = uref_attr_get_unsigned(hu[h], &x, t->type, name);
            }
            if (ubase_check(err)) { printf("u%" PRIu64 "\n", x); return; }
            break;
        }
        case UDICT_TYPE_INT: {
            int64_t x = 0;
            err = is_uref() ? uref_attr_get_int(hu[h], &x, t->type, name)
                            : udict_get_int(hd[h], &x, t->type, name);
            if (ubase_check(err)) { printf("i%" PRId64 "\n", x); return; }
            break;
        }
        case UDICT_TYPE_FLOAT: {
            union { double f; uint64_t i; } u;
            u.i = 0;
            err = is_uref() ? uref_attr_get_float(hu[h], &u.f, t->type, name)
                            : udict_get_float(hd[h], &u.f, t->type, name);
            if (ubase_check(err)) { printf("f%016" PRIx64 "\n", u.i); return; }
            break;
        }
        case UDICT_TYPE_RATIONAL: {
            struct urational r = { 0, 0 };
            if (!is_uref()) err = udict_get_rational(hd[h], &r, t->type, name);
            else switch (route_of(t, name)) {
                case R_CLOCK_RATE: err = uref_clock_get_rate(hu[h], &r); break;
                default: err = uref_attr_get_rational(hu[h], &r, t->type, name);
            }
            if (ubase_check(err)) { printf("r%" PRId64 "/%" PRIu64 "\n", r.num, r.den); return; }
            break;
        }
        default:
            die("bad base type", t->tok);
            return;
    }
    if (err == UBASE_ERR_INVALID)
        printf("absent\n");
    else
        printf("err%d\n", err);
}

/* --------------------------------------------------------------- delete */
static void do_del(int h, const struct tdesc *t, const char *name)
{
    int err;
    if (!is_uref())
        err = udict_delete(hd[h], t->type, name);
    else switch (route_of(t, name)) {
        case R_FLOW_DEF: err = uref_flow_delete_def(hu[h]); break;
        case R_FLOW_RAWDEF: err = uref_flow_delete_raw_def(hu[h]); break;
        case R_FLOW_ID: err = uref_flow_delete_id(hu[h]); break;
        case R_FLOW_LANGUAGES: err = uref_flow_delete_languages(hu[h]); break;
        case R_FLOW_ERROR: err = uref_flow_delete_error(hu[h]); break;
        case R_FLOW_NAME: err = uref_flow_delete_name(hu[h]); break;
        case R_FLOW_HEADERS: err = uref_flow_delete_headers(hu[h]); break;
        case R_FLOW_LOWDELAY: err = uref_flow_delete_lowdelay(hu[h]); break;
        case R_FLOW_LANG0: err = uref_flow_delete_language(hu[h], 0); break;
        case R_PIC_NUM: err = uref_pic_delete_number(hu[h]); break;
        case R_PIC_CEA708: err = uref_pic_delete_cea_708(hu[h]); break;
        case R_PIC_AFD: err = uref_pic_delete_afd(hu[h]); break;
        case R_CLOCK_RATE: err = uref_clock_delete_rate(hu[h]); break;
        default: err = uref_attr_delete(hu[h], t->type, name);
    }
    if (ubase_check(err))
        printf("ok\n");
    else if (err == UBASE_ERR_INVALID)
        printf("absent\n");
    else
        printf("err%d\n", err);
}

/* ----------------------------------------------------------------- copy */
static int do_copy(struct uref *d, struct uref *s, const struct tdesc *t, const char *name,
                   enum route r)
{
    switch (r) {
        case R_FLOW_DEF: return uref_flow_copy_def(d, s);
        case R_FLOW_RAWDEF: return uref_flow_copy_raw_def(d, s);
        case R_FLOW_ID: return uref_flow_copy_id(d, s);
        case R_FLOW_LANGUAGES: return uref_flow_copy_languages(d, s);
        case R_FLOW_ERROR: return uref_flow_copy_error(d, s);
        case R_FLOW_NAME: return uref_flow_copy_name(d, s);
        case R_FLOW_HEADERS: return uref_flow_copy_headers(d, s);
        case R_FLOW_LOWDELAY: return uref_flow_copy_lowdelay(d, s);
        case R_FLOW_LANG0: return uref_flow_copy_language(d, s, 0);
        case R_PIC_NUM: return uref_pic_copy_number(d, s);
        case R_PIC_CEA708: return uref_pic_copy_cea_708(d, s);
        case R_PIC_AFD: return uref_pic_copy_afd(d, s);
        case R_CLOCK_RATE: return uref_clock_copy_rate(d, s);
        default: break;
    }
    switch (t->base) {
        case UDICT_TYPE_OPAQUE: return uref_attr_copy_opaque(d, s, t->type, name);
        case UDICT_TYPE_STRING: return uref_attr_copy_string(d, s, t->type, name);
        case UDICT_TYPE_VOID: return uref_attr_copy_void(d, s, t->type, name);
        case UDICT_TYPE_BOOL: return uref_attr_copy_bool(d, s, t->type, name);
        case UDICT_TYPE_SMALL_UNSIGNED: return uref_attr_copy_small_unsigned(d, s, t->type, name);
        case UDICT_TYPE_SMALL_INT: return uref_attr_copy_small_int(d, s, t->type, name);
        case UDICT_TYPE_UNSIGNED: return uref_attr_copy_unsigned(d, s, t->type, name);
        case UDICT_TYPE_INT: return uref_attr_copy_int(d, s, t->type, name);
        case UDICT_TYPE_FLOAT: return uref_attr_copy_float(d, s, t->type, name);
        case UDICT_TYPE_RATIONAL: return uref_attr_copy_rational(d, s, t->type, name);
        default: die("bad base type", t->tok);
    }
    return UBASE_ERR_INVALID;
}

/* ----------------------------------------------------------------- main */
static const char *nm(const char *tok) { return strcmp(tok, "-") ? tok : NULL; }

static void check_key(const struct tdesc *t, const char *name)
{
    if ((t->type > UDICT_TYPE_SHORTHAND) != (name == NULL))
        die("key: a shorthand type takes no name, a base type needs one:", t->tok);
}

/* A command of the code under test that does not return (e.g. a corrupted
 * attribute chain walked for ever) must cost seconds, not the time-out of the
 * whole batch: every command runs under an alarm; on expiry the process exits
 * with status 5 WITHOUT a result line for that command, which the check reads
 * as "this command hung" (results of earlier commands are already flushed). */
static void on_alarm(int sig)
{
    (void)sig;
    _exit(5);
}

static unsigned iter_calls;
int main(int argc, char **argv)
{
    unsigned alarm_s = 10;
    if (getenv("REPLAY_ALARM_S") != NULL && atoi(getenv("REPLAY_ALARM_S")) > 0)
        alarm_s = atoi(getenv("REPLAY_ALARM_S"));
    signal(SIGALRM, on_alarm);
    if (argc != 5)
        die("usage: replay_udict udict|uref|urefc POOL MIN_SIZE EXTRA_SIZE", NULL);
    if (!strcmp(argv[1], "udict")) level = L_UDICT;
    else if (!strcmp(argv[1], "uref")) level = L_UREF;
    else if (!strcmp(argv[1], "urefc")) level = L_UREFC;
    else die("bad level", argv[1]);
    pool_depth = atoi(argv[2]);
    min_size = atoi(argv[3]);
    extra_size = atoi(argv[4]);
    mgrs_alloc();

    /* the type table above must agree with the implementation's (udict_name) */
    {
        struct udict *probe = udict_alloc(udict_mgr, 0);
        for (size_t i = 0; i < NTYPES; i++) {
            if (types[i].type <= UDICT_TYPE_SHORTHAND)
                continue;
            const char *n;
            enum udict_type base;
            if (!ubase_check(udict_name(probe, types[i].type, &n, &base)) || base != types[i].base)
                die("type table disagrees with udict_name for", types[i].tok);
        }
        udict_free(probe);
    }

    char *line = NULL;
    size_t cap = 0;
    while (getline(&line, &cap, stdin) > 0) {
        char *a[8];
        int na = 0;
        for (char *p = strtok(line, " \n"); p != NULL && na < 8; p = strtok(NULL, " \n"))
            a[na++] = p;
        if (na == 0)
            continue;
        const char *op = a[0];
        alarm(alarm_s);
        if (!strcmp(op, "reset") && na == 1) {
            iter_calls = 0;
            mgrs_release();
            mgrs_alloc();
            printf("ok\n");
        } else if (!strcmp(op, "alloc") && na == 2) {
            int h = handle(a[1], false);
            if (level == L_UDICT) hd[h] = udict_alloc(udict_mgr, 0);
            else if (level == L_UREF) hu[h] = uref_alloc(uref_mgr);
            else hu[h] = uref_alloc_control(uref_mgr);
            if (hd[h] == NULL && hu[h] == NULL) die("allocation failed", NULL);
            hlive[h] = true;
            printf("ok\n");
        } else if (!strcmp(op, "set") && na == 5) {
            int h = handle(a[1], true);
            const struct tdesc *t = type_by_tok(a[2]);
            check_key(t, nm(a[3]));
            print_err(do_set(h, t, nm(a[3]), a[4]));
        } else if (!strcmp(op, "sethex") && na == 6) {
            /* the value as a hexadecimal string; a[5] >= 0: that pair of digits is replaced by "zz" */
            int h = handle(a[1], true);
            const struct tdesc *t = type_by_tok(a[2]);
            check_key(t, nm(a[3]));
            if (t->base != UDICT_TYPE_OPAQUE) die("sethex: only opaque", a[2]);
            size_t len; unsigned seed;
            parse_blob(a[4], 'o', &len, &seed);
            uint8_t *p = materialise(len, seed, false);
            char *hex = malloc(2 * len + 1);
            for (size_t i = 0; i < len; i++) sprintf(hex + 2 * i, "%02x", p[i]);
            hex[2 * len] = 0;
            long bad = atol(a[5]);
            if (bad >= 0 && (size_t)bad < len) { hex[2 * bad] = 'z'; hex[2 * bad + 1] = 'z'; }
            int err = is_uref() ? uref_attr_set_opaque_from_hex(hu[h], hex, t->type, nm(a[3]))
                                : udict_set_opaque_from_hex(hd[h], hex, t->type, nm(a[3]));
            free(hex);
            free(p);
            if (err == UBASE_ERR_INVALID) printf("invalid\n"); else print_err(err);
        } else if (!strcmp(op, "seta") && na == 6) {
            int h = handle(a[1], true);
            const struct tdesc *t = type_by_tok(a[2]), *t2 = type_by_tok(a[4]);
            check_key(t, nm(a[3]));
            check_key(t2, nm(a[5]));
            if (t->base != t2->base)
                die("seta: base types differ", a[2]);
            /* the pointer handed to the setter points INTO the dictionary */
            if (t->base == UDICT_TYPE_STRING) {
                const char *p = NULL;
                int err = get_string(h, t2, nm(a[5]), &p);
                if (!ubase_check(err)) printf(err == UBASE_ERR_INVALID ? "absent\n" : "err%d\n", err);
                else print_err(set_string(h, t, nm(a[3]), p));
            } else if (t->base == UDICT_TYPE_OPAQUE) {
                struct udict_opaque o = { NULL, 0 };
                int err = get_opaque(h, t2, nm(a[5]), &o);
                if (!ubase_check(err)) printf(err == UBASE_ERR_INVALID ? "absent\n" : "err%d\n", err);
                else print_err(set_opaque(h, t, nm(a[3]), o.v, o.size));
            } else
                die("seta: only string and opaque", a[2]);
        } else if (!strcmp(op, "get") && na == 4) {
            int h = handle(a[1], true);
            const struct tdesc *t = type_by_tok(a[2]);
            check_key(t, nm(a[3]));
            do_get(h, t, nm(a[3]));
        } else if (!strcmp(op, "del") && na == 4) {
            int h = handle(a[1], true);
            const struct tdesc *t = type_by_tok(a[2]);
            check_key(t, nm(a[3]));
            do_del(h, t, nm(a[3]));
        } else if (!strcmp(op, "dup") && na == 3) {
            int h = handle(a[1], false), s = handle(a[2], true);
            if (level == L_UDICT) hd[h] = udict_dup(hd[s]);
            else hu[h] = uref_dup(hu[s]);
            if (hd[h] == NULL && hu[h] == NULL) die("dup failed", NULL);
            hlive[h] = true;
            printf("ok\n");
        } else if (!strcmp(op, "import") && na == 3) {
            int h = handle(a[1], true), s = handle(a[2], true);
            print_err(is_uref() ? uref_attr_import(hu[h], hu[s]) : udict_import(hd[h], hd[s]));
        } else if (!strcmp(op, "copy") && na == 5) {
            int h = handle(a[1], true), s = handle(a[2], true);
            const struct tdesc *t = type_by_tok(a[3]);
            check_key(t, nm(a[4]));
            if (h == s) die("copy onto itself is outside the claim", NULL);
            if (is_uref())
                print_err(do_copy(hu[h], hu[s], t, nm(a[4]), route_of(t, nm(a[4]))));
            else {
                struct uref sd, ss;
                shell_init(&sd, h);
                shell_init(&ss, s);
                print_err(do_copy(&sd, &ss, t, nm(a[4]), R_NONE));
                hd[h] = sd.udict;
            }
        } else if (!strcmp(op, "cmp") && na == 3) {
            int h = handle(a[1], true), s = handle(a[2], true);
            struct udict *d1 = dict_of(h), *d2 = dict_of(s), *tmp1 = NULL, *tmp2 = NULL;
            /* a uref without udict holds no attribute: compare as an empty dictionary */
            if (d1 == NULL) d1 = tmp1 = udict_alloc(udict_mgr, 0);
            if (d2 == NULL) d2 = tmp2 = udict_alloc(udict_mgr, 0);
            printf(udict_cmp(d1, d2) == 0 ? "0\n" : "nz\n");
            udict_free(tmp1);
            udict_free(tmp2);
        } else if (!strcmp(op, "iter") && na == 2) {
            int h = handle(a[1], true);
            struct udict *d = dict_of(h);
            const char *name = NULL;
            enum udict_type type = UDICT_TYPE_END;
            int count = 0;
            char tmp[16];
            /* every other walk hands udict_iterate a name the CALLER owns (a copy of what the previous
             * call returned): the cursor is the (name, type) pair, not the address of the name */
            bool own = (iter_calls++ & 1) != 0;      /* (counted from the last reset: re-running one script gives the same walks) */
            static char own_name[70000];
            while (d != NULL) {
                if (!ubase_check(udict_iterate(d, &name, &type))) { printf("%sERR", count ? " " : ""); count++; break; }
                if (type == UDICT_TYPE_END)
                    break;
                if (own && name != NULL && strlen(name) < sizeof(own_name)) {
                    memset(own_name, 0, 8);
                    strcpy(own_name + 8, name);
                    name = own_name + 8;
                }
                if (++count > 4096) { printf(" LOOP"); break; }
                printf("%s%s:%s", count > 1 ? " " : "", tok_by_type(type, tmp), name ? name : "-");
            }
            printf(count ? "\n" : "-\n");
        } else if (!strcmp(op, "free") && na == 2) {
            int h = handle(a[1], true);
            if (level == L_UDICT) udict_free(hd[h]);
            else uref_free(hu[h]);
            hd[h] = NULL;
            hu[h] = NULL;
            hlive[h] = false;
            printf("ok\n");
        } else
            die("bad command", op);
        fflush(stdout);
        alarm(0);
    }
    free(line);
    mgrs_release();
    return 0;
}
