/* replay_nal: command interpreter over the REAL NAL helpers of upipe-framers
 * (C17; DESIGN.md 4/C17):
 *   upipe_h26xf_convert_frame          lib/upipe-framers/upipe_h26x_common.c
 *   uref_h26x_iterate_nal, h26x.n[k]   include/upipe-framers/uref_h26x.h
 *   upipe_h26xf_stream_get / _fill_bits / _ue / _se   (emulation prevention
 *   aware bit reader over ubuf_block_stream)
 * on urefs holding (possibly segmented) block ubufs.
 *
 * The script is read from stdin, one command per line; every command prints
 * one or more event lines on stdout.  The events are turned into ndjson by
 * checks/c17.py and judged by spec/Nal_Trace.tla; behaviours predicted by
 * spec/Nal.tla / spec/NalBits.tla are compared with them textually.  There
 * is no oracle here.
 *
 * Octet strings are written as runs  b*n,b*n,...  (b hexadecimal first
 * octet, n decimal length, "*1" may be omitted): a run denotes b, b+1, ...
 * modulo 251 after the first octet (see spec/NalOps.tla).  "-" is the empty
 * string.  The printer emits maximal runs.
 *
 *   exec <id>                       start of an execution
 *   frame <runs> <offs> <seg>       new uref: block of the given octets cut
 *                                   into segments of sizes seg = a+b+c ("-":
 *                                   one segment), attributes h26x.n[k] =
 *                                   offs = a,b,c ("-": none)
 *   conv <from> <to>                upipe_h26xf_convert_frame; encapsulations
 *                                   annexb | len1 | len2 | len4 | nalu
 *   prepend <runs>                  uref_h26x_prepend_nal of a one-segment block
 *                                   holding the given octets
 *   bytes                           the octets of the block
 *   iter                            uref_h26x_iterate_nal(.., correction 0)
 *   offs                            the stored attributes h26x.n[0..]
 *   rbsp <hex|->                    octets for the bit reader
 *   sread <seg> <op>...             upipe_h26xf_stream over a segmented block
 *                                   holding the rbsp octets; seg = all (every
 *                                   segmentation) | le2 (no cut, every single
 *                                   and double cut, all 1-octet segments) |
 *                                   a+b+c; op = u<w> (w <= 24) | ue | se
 *   end                             end of the execution
 *
 * Executions run in a forked child: a sanitizer report / assertion failure /
 * signal ends the execution with a "san" event (captured from stderr), and
 * the parent goes on with the next execution.
 */
#undef NDEBUG
#include <stdio.h>
#include <stdlib.h>
#include <string.h>
#include <stdint.h>
#include <stdbool.h>
#include <inttypes.h>
#include <assert.h>
#include <unistd.h>
#include <signal.h>
#include <sys/mman.h>
#include <sys/wait.h>

#include "upipe/ubase.h"
#include "upipe/umem.h"
#include "upipe/umem_alloc.h"
#include "upipe/udict.h"
#include "upipe/udict_inline.h"
#include "upipe/ubuf.h"
#include "upipe/ubuf_block.h"
#include "upipe/ubuf_block_stream.h"
#include "upipe/ubuf_block_mem.h"
#include "upipe/uref.h"
#include "upipe/uref_std.h"
#include "upipe/uref_block.h"
#include "upipe-framers/uref_h26x.h"
#include "upipe-framers/uref_h26x_flow.h"
#include "upipe-framers/upipe_h26x_common.h"

#if defined(__SANITIZE_ADDRESS__)
const char *__asan_default_options(void) { return "detect_leaks=0:abort_on_error=0:symbolize=1"; }
#endif
const char *__ubsan_default_options(void) { return "print_stacktrace=0"; }

#define M 251
#define EXEC_SECONDS 20
#define MAXSEG 64
#define MAXOPS 64

static struct umem_mgr *umem_mgr;
static struct udict_mgr *udict_mgr;
static struct uref_mgr *uref_mgr;
static struct ubuf_mgr *ubuf_mgr;
static struct ubuf *annexb_header;
static struct uref *uref;
static uint8_t *rbsp;
static long rbsp_size = -1;

static void die(const char *msg)
{
    printf("err %s\n", msg);
    fflush(stdout);
    _exit(3);
}

/* ------------------------------------------------------------- run codec */
static uint8_t *parse_runs(const char *s, long *size_p)
{
    long cap = 1024, n = 0;
    uint8_t *buf = malloc(cap);
    if (strcmp(s, "-")) {
        const char *p = s;
        while (*p) {
            char *e;
            unsigned long b = strtoul(p, &e, 16);
            long len = 1;
            if (e == p || b > 255) die("runs");
            p = e;
            if (*p == '*') {
                len = strtol(p + 1, &e, 10);
                if (e == p + 1 || len < 1) die("runs");
                p = e;
            }
            if (n + len > cap) {
                while (n + len > cap) cap *= 2;
                buf = realloc(buf, cap);
            }
            for (long j = 0; j < len; j++)
                buf[n + j] = j == 0 ? b : (b + j) % M;
            n += len;
            if (*p == ',') p++;
            else if (*p) die("runs");
        }
    }
    *size_p = n;
    return buf;
}

static void print_runs(const uint8_t *buf, long n)
{
    if (n == 0) {
        printf("-");
        return;
    }
    long i = 0;
    while (i < n) {
        long len = 1;
        while (i + len < n && buf[i + len] == (buf[i + len - 1] + 1) % M)
            len++;
        printf("%s%x", i ? "," : "", buf[i]);
        if (len > 1)
            printf("*%ld", len);
        i += len;
    }
}

static int parse_list(const char *s, char sep, long *out, int max)
{
    int n = 0;
    if (!strcmp(s, "-"))
        return 0;
    const char *p = s;
    while (*p) {
        char *e;
        if (n == max) die("list too long");
        out[n++] = strtol(p, &e, 10);
        if (e == p) die("list");
        p = e;
        if (*p == sep) p++;
        else if (*p) die("list");
    }
    return n;
}

/* block of the given octets cut into the given segments */
static struct ubuf *build_block(const uint8_t *buf, long size, int nseg, const long *segs)
{
    struct ubuf *head = NULL;
    long pos = 0;
    for (int k = 0; k < nseg; k++) {
        struct ubuf *u = ubuf_block_alloc(ubuf_mgr, segs[k]);
        if (u == NULL) die("alloc");
        if (segs[k] > 0) {
            int sz = -1;
            uint8_t *w;
            if (!ubase_check(ubuf_block_write(u, 0, &sz, &w)) || sz != segs[k])
                die("write");
            memcpy(w, buf + pos, segs[k]);
            ubuf_block_unmap(u, 0);
        }
        pos += segs[k];
        if (head == NULL)
            head = u;
        else if (!ubase_check(ubuf_block_append(head, u)))
            die("append");
    }
    if (pos != size) die("segsum");
    return head;
}

static enum uref_h26x_encaps enc_of(const char *s)
{
    if (!strcmp(s, "annexb")) return UREF_H26X_ENCAPS_ANNEXB;
    if (!strcmp(s, "len1")) return UREF_H26X_ENCAPS_LENGTH1;
    if (!strcmp(s, "len2")) return UREF_H26X_ENCAPS_LENGTH2;
    if (!strcmp(s, "len4")) return UREF_H26X_ENCAPS_LENGTH4;
    if (!strcmp(s, "nalu")) return UREF_H26X_ENCAPS_NALU;
    die("encaps");
    return 0;
}

/* --------------------------------------------------------------- commands */
/* r=<error code> b=<octets of the block as runs> */
static void print_block(void)
{
    size_t size = 0;
    if (!ubase_check(uref_block_size(uref, &size))) {
        printf("r=1 b=-");
        return;
    }
    uint8_t *buf = malloc(size + 1);
    int r = size ? uref_block_extract(uref, 0, size, buf) : UBASE_ERR_NONE;
    printf("r=%d b=", r);
    if (ubase_check(r))
        print_runs(buf, size);
    else
        printf("-");
    free(buf);
}

/* l=<stored attributes h26x.n[0..]> */
static void print_offs(void)
{
    uint64_t o;
    int n = 0;
    printf("l=");
    while (n < 64 && ubase_check(uref_h26x_get_nal_offset(uref, &o, n))) {
        printf("%s%" PRId64, n ? "," : "", (int64_t)o);
        n++;
    }
    if (!n)
        printf("-");
}

static void cmd_frame(const char *runs, const char *offs, const char *seg)
{
    if (uref != NULL)
        uref_free(uref);
    long size;
    uint8_t *buf = parse_runs(runs, &size);
    long segs[MAXSEG];
    int nseg = parse_list(seg, '+', segs, MAXSEG);
    if (nseg == 0) {
        segs[0] = size;
        nseg = 1;
    }
    struct ubuf *ubuf = build_block(buf, size, nseg, segs);
    free(buf);
    uref = uref_alloc(uref_mgr);
    if (uref == NULL) die("uref");
    uref_attach_ubuf(uref, ubuf);
    long o[64];
    int no = parse_list(offs, ',', o, 64);
    for (int k = 0; k < no; k++)
        if (!ubase_check(uref_h26x_set_nal_offset(uref, o[k], k)))
            die("set_nal_offset");
    /* what was built is read back from the uref (the trace specification
     * checks it against Ser) */
    printf("frame size=%ld nseg=%d ", size, nseg);
    print_block();
    printf(" ");
    print_offs();
    printf("\n");
}

static void cmd_conv(const char *from, const char *to)
{
    int r = upipe_h26xf_convert_frame(uref, enc_of(from), enc_of(to), ubuf_mgr,
                                      annexb_header);
    size_t size = 0;
    int rs = uref_block_size(uref, &size);
    printf("conv from=%s to=%s r=%d size=%ld\n", from, to, r,
           ubase_check(rs) ? (long)size : -1L);
}

static void cmd_prepend(const char *runs)
{
    long size;
    uint8_t *buf = parse_runs(runs, &size);
    struct ubuf *ubuf = build_block(buf, size, 1, &size);
    free(buf);
    /* (on failure the ubuf may or may not have been taken: it is leaked) */
    int r = uref_h26x_prepend_nal(uref, ubuf);
    size_t total = 0;
    int rs = uref_block_size(uref, &total);
    printf("prep r=%d size=%ld\n", r, ubase_check(rs) ? (long)total : -1L);
}

static void cmd_bytes(void)
{
    printf("bytes ");
    print_block();
    printf("\n");
}

static void cmd_iter(void)
{
    uint64_t counter = 0, offset = 0, size = 0;
    int n = 0;
    printf("iter l=");
    while (ubase_check(uref_h26x_iterate_nal(uref, &counter, &offset, &size, 0))) {
        printf("%s%" PRId64 ":%" PRId64, n ? "," : "", (int64_t)offset, (int64_t)size);
        if (++n >= 64)
            break;
    }
    if (!n)
        printf("-");
    printf("\n");
}

static void cmd_offs(void)
{
    printf("offs ");
    print_offs();
    printf("\n");
}

static void cmd_rbsp(const char *hex)
{
    free(rbsp);
    size_t n = strcmp(hex, "-") ? strlen(hex) / 2 : 0;
    rbsp = malloc(n + 1);
    for (size_t i = 0; i < n; i++) {
        unsigned v;
        if (sscanf(hex + 2 * i, "%2x", &v) != 1) die("hex");
        rbsp[i] = v;
    }
    rbsp_size = n;
    printf("rbsp n=%ld\n", rbsp_size);
}

#define MAXOUT 64
static char *outs[MAXOUT];
static char outseg[MAXOUT][4 * MAXSEG + 8];
static long outcnt[MAXOUT];
static int nouts;

static void one_segmentation(int nseg, const long *segs, int nops, char **ops)
{
    static char out[16384];
    size_t o = 0;
    struct ubuf *ubuf = build_block(rbsp, rbsp_size, nseg, segs);
    struct upipe_h26xf_stream f;
    upipe_h26xf_stream_init(&f);
    struct ubuf_block_stream *s = &f.s;
    int ok = ubase_check(ubuf_block_stream_init(s, ubuf, 0));
    o += snprintf(out + o, sizeof(out) - o, "ok=%d\n", ok);
    int r = 0;
    if (ok) {
        for (int i = 0; i < nops; i++) {
            if (!strcmp(ops[i], "ue")) {
                uint32_t v = upipe_h26xf_stream_ue(s);
                o += snprintf(out + o, sizeof(out) - o, "ue v=%x ov=%d\n", v, s->overflow ? 1 : 0);
            } else if (!strcmp(ops[i], "se")) {
                int32_t v = upipe_h26xf_stream_se(s);
                o += snprintf(out + o, sizeof(out) - o, "se v=%d ov=%d\n", v, s->overflow ? 1 : 0);
            } else if (ops[i][0] == 'u') {
                int w = atoi(ops[i] + 1);
                if (w < 1 || w > 24) die("width");
                upipe_h26xf_stream_fill_bits(s, w);
                uint32_t v = ubuf_block_stream_show_bits(s, w);
                ubuf_block_stream_skip_bits(s, w);
                o += snprintf(out + o, sizeof(out) - o, "u w=%d v=%x ov=%d\n", w, v, s->overflow ? 1 : 0);
            } else
                die("op");
        }
        r = ubuf_block_stream_clean(s);
    }
    snprintf(out + o, sizeof(out) - o, "rdone r=%d\n", r);
    ubuf_free(ubuf);
    int k;
    for (k = 0; k < nouts; k++)
        if (!strcmp(outs[k], out))
            break;
    if (k == nouts) {
        if (nouts == MAXOUT)
            return;
        outs[k] = strdup(out);
        outcnt[k] = 0;
        size_t so = 0;
        outseg[k][0] = 0;
        for (int i = 0; i < nseg && so + 8 < sizeof(outseg[k]); i++)
            so += snprintf(outseg[k] + so, sizeof(outseg[k]) - so, "%s%ld", i ? "+" : "", segs[i]);
        nouts++;
    }
    outcnt[k]++;
}

static void cmd_sread(const char *seg, int nops, char **ops)
{
    long size = rbsp_size;
    long segs[MAXSEG];
    nouts = 0;
    if (size < 0) die("no rbsp");
    if (!strcmp(seg, "all") || !strcmp(seg, "le2")) {
        bool le2 = !strcmp(seg, "le2");
        if (size <= 1) {
            segs[0] = size;
            one_segmentation(1, segs, nops, ops);
        } else if (le2) {
            if (size <= MAXSEG) {
                for (long i = 0; i < size; i++) segs[i] = 1;
                one_segmentation(size, segs, nops, ops);
            }
            segs[0] = size;
            one_segmentation(1, segs, nops, ops);
            for (long c1 = 1; c1 < size; c1++)
                for (long c2 = c1; c2 < size; c2++) {
                    int n = 0;
                    segs[n++] = c1;
                    if (c2 > c1)
                        segs[n++] = c2 - c1;
                    segs[n++] = size - c2;
                    one_segmentation(n, segs, nops, ops);
                }
        } else {
            if (size - 1 > 16) die("size");
            for (unsigned long m = 0; m < (1UL << (size - 1)); m++) {
                int n = 0;
                long last = 0;
                for (long c = 1; c < size; c++)
                    if (m & (1UL << (c - 1))) { segs[n++] = c - last; last = c; }
                segs[n++] = size - last;
                one_segmentation(n, segs, nops, ops);
            }
        }
    } else {
        int n = parse_list(seg, '+', segs, MAXSEG);
        if (n == 0) {
            segs[0] = size;
            n = 1;
        }
        one_segmentation(n, segs, nops, ops);
    }
    for (int k = 0; k < nouts; k++) {
        int ok = outs[k][3] - '0';
        printf("rinit seg=%s nseg=%ld ok=%d\n", outseg[k], outcnt[k], ok);
        fputs(outs[k] + 5, stdout);
        free(outs[k]);
    }
}

/* ------------------------------------------------------------ interpreter */
static char **lines;
static long nlines;

static void do_line(char *line)
{
    char *tok[MAXOPS + 8];
    int ntok = 0;
    char *sv = NULL;
    for (char *t = strtok_r(line, " \t\r\n", &sv); t != NULL && ntok < MAXOPS + 8;
         t = strtok_r(NULL, " \t\r\n", &sv))
        tok[ntok++] = t;
    if (!ntok)
        return;
    if (!strcmp(tok[0], "exec")) {
        /* a loop that does not end in the code under test ends the execution
         * (SIGALRM: reported as a "san" event of kind signal) */
        alarm(EXEC_SECONDS);
        printf("exec %s\n", ntok > 1 ? tok[1] : "?");
    }
    else if (!strcmp(tok[0], "end"))
        printf("end\n");
    else if (!strcmp(tok[0], "frame") && ntok == 4)
        cmd_frame(tok[1], tok[2], tok[3]);
    else if (!strcmp(tok[0], "rbsp") && ntok == 2)
        cmd_rbsp(tok[1]);
    else if (!strcmp(tok[0], "sread") && ntok >= 2)
        cmd_sread(tok[1], ntok - 2, tok + 2);
    else if (uref == NULL)
        die("no frame");
    else if (!strcmp(tok[0], "conv") && ntok == 3)
        cmd_conv(tok[1], tok[2]);
    else if (!strcmp(tok[0], "prepend") && ntok == 2)
        cmd_prepend(tok[1]);
    else if (!strcmp(tok[0], "bytes"))
        cmd_bytes();
    else if (!strcmp(tok[0], "iter"))
        cmd_iter();
    else if (!strcmp(tok[0], "offs"))
        cmd_offs();
    else
        die("command");
    fflush(stdout);
}

/* keep what is stable in a sanitizer / assert message */
static void report_san(const char *err, int status)
{
    char kind[32] = "signal", where[128] = "?", msg[256] = "";
    const char *p;
    if ((p = strstr(err, "runtime error: ")) != NULL) {
        strcpy(kind, "ubsan");
        const char *b = p;
        while (b > err && b[-1] != '\n') b--;
        const char *slash = b;
        for (const char *q = b; q < p; q++) if (*q == '/') slash = q + 1;
        size_t n = strcspn(slash, ":");
        snprintf(where, sizeof(where), "%.*s", (int)(n < 100 ? n : 100), slash);
        snprintf(msg, sizeof(msg), "%.*s", (int)strcspn(p + 15, "\n"), p + 15);
    } else if ((p = strstr(err, "AddressSanitizer: ")) != NULL) {
        strcpy(kind, "asan");
        size_t n = strcspn(p + 18, " \n");
        const char *rw = strstr(p, "WRITE of size") ? "WRITE" :
                         strstr(p, "READ of size") ? "READ" : "";
        snprintf(msg, sizeof(msg), "%.*s %s", (int)n, p + 18, rw);
        const char *f = strstr(p, "#0 ");
        if (f != NULL && (f = strstr(f, " in ")) != NULL) {
            f += 4;
            snprintf(where, sizeof(where), "%.*s", (int)strcspn(f, " \n"), f);
        }
    } else if ((p = strstr(err, "Assertion")) != NULL) {
        strcpy(kind, "assert");
        snprintf(msg, sizeof(msg), "%.*s", (int)strcspn(p, "\n"), p);
        /* "prog: file.c:123: function: Assertion ..." */
        const char *b = p;
        while (b > err && b[-1] != '\n') b--;
        const char *c1 = strchr(b, ':');
        if (c1 != NULL && c1 < p) {
            const char *f = c1 + 2;
            const char *slash = f;
            for (const char *q = f; q < p && *q != ':'; q++) if (*q == '/') slash = q + 1;
            size_t n = strcspn(slash, ":");
            snprintf(where, sizeof(where), "%.*s", (int)(n < 100 ? n : 100), slash);
        }
    } else if (WIFSIGNALED(status) && WTERMSIG(status) == SIGALRM) {
        strcpy(kind, "hang");       /* the execution did not end in time */
        snprintf(msg, sizeof(msg), "no end after the time allowed for one execution");
    } else
        snprintf(msg, sizeof(msg), "status %d", status);
    for (char *q = msg; *q; q++)
        if (*q == '"' || *q == '\\' || *q == '\'' || *q == '`' || (unsigned char)*q < 32 || (unsigned char)*q > 126)
            *q = ' ';
    for (char *q = where; *q; q++)
        if (*q == '"' || *q == '\\' || (unsigned char)*q < 32 || (unsigned char)*q > 126)
            *q = ' ';
    printf("san {\"kind\":\"%s\",\"where\":\"%s\",\"msg\":\"%s\"}\n", kind, where, msg);
    printf("end\n");
    fflush(stdout);
}

int main(int argc, char **argv)
{
    size_t capl = 1024;
    lines = malloc(capl * sizeof(char *));
    char *l = NULL;
    size_t ln = 0;
    while (getline(&l, &ln, stdin) > 0) {
        if ((size_t)nlines == capl)
            lines = realloc(lines, (capl *= 2) * sizeof(char *));
        lines[nlines++] = strdup(l);
    }
    free(l);

    long *cur = mmap(NULL, sizeof(long), PROT_READ | PROT_WRITE,
                     MAP_SHARED | MAP_ANONYMOUS, -1, 0);
    assert(cur != MAP_FAILED);
    long start = 0;
    while (start < nlines) {
        int pe[2];
        if (pipe(pe) != 0) return 2;
        fflush(stdout);
        *cur = start;
        pid_t pid = fork();
        if (pid < 0) return 2;
        if (pid == 0) {
            close(pe[0]);
            dup2(pe[1], 2);
            close(pe[1]);
            umem_mgr = umem_alloc_mgr_alloc();
            assert(umem_mgr != NULL);
            udict_mgr = udict_inline_mgr_alloc(0, umem_mgr, -1, -1);
            assert(udict_mgr != NULL);
            uref_mgr = uref_std_mgr_alloc(0, udict_mgr, 0);
            assert(uref_mgr != NULL);
            /* tight buffers: no prepend/append room, alignment 1 */
            ubuf_mgr = ubuf_block_mem_mgr_alloc(0, 0, umem_mgr, 0, 0, 1, 0);
            assert(ubuf_mgr != NULL);
            annexb_header = upipe_h26xf_alloc_annexb(ubuf_mgr);
            assert(annexb_header != NULL);
            for (long i = start; i < nlines; i++) {
                if (!strncmp(lines[i], "exec", 4))
                    *cur = i;
                do_line(lines[i]);
            }
            fflush(stdout);
            _exit(0);
        }
        close(pe[1]);
        static char err[65536];
        size_t eo = 0;
        ssize_t rd;
        while (eo < sizeof(err) - 1 &&
               (rd = read(pe[0], err + eo, sizeof(err) - 1 - eo)) > 0)
            eo += rd;
        err[eo] = 0;
        char dump[4096];
        while (read(pe[0], dump, sizeof(dump)) > 0);
        close(pe[0]);
        int status = 0;
        waitpid(pid, &status, 0);
        if (WIFEXITED(status) && WEXITSTATUS(status) == 0)
            break;
        if (WIFEXITED(status) && WEXITSTATUS(status) == 3) {
            fprintf(stderr, "replay_nal: script error\n%s", err);
            return 3;
        }
        report_san(err, status);
        long i = *cur + 1;
        while (i < nlines && strncmp(lines[i], "exec", 4))
            i++;
        start = i;
    }
    return 0;
}
