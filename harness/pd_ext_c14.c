/* pd_ext_c14.c - extension of harness/pipe_driver.c for property C14
 * (stream re-chunking pipes).  Weak hooks with letter f.
 *
 * Pipe types (new pN <type>)
 *   ts_sync ts_check ts_align     lib/upipe-ts, compiled with the clean-room biTStream shim
 *   usink                         unit-recording sink: prints EVERY octet of every unit
 *                                 (the built-in sink stops at 512 octets)
 * Options (opt pN set|get <name> [value])
 *   sync                          upipe_ts_sync_set_sync / get_sync (ts_sync, ts_align)
 *   (output_size and chunk_stream's mtu are handled by pipe_registry.c)
 * Commands
 *   xfd pN <suffix|-> [size]      upipe_set_flow_def "block.<suffix>" (+ block size attribute)
 *   xin pN <hex|-> [seg=a+b+..] [disc] [budget=N]
 *                                 upipe_input of a block uref made of the given segments
 *                                 (sizes may be 0; default one segment), optionally flagged
 *                                 as a discontinuity; runs under the guard
 *   xrel pN [budget=N]            upipe_release under the guard
 *   xflush pN [budget=N]          upipe_flush under the guard
 *   xbudget <units> <seconds>     default guard limits (20000 units per command, 5 s)
 *   xreset                        forget the objects whose handle was released (or that
 *                                 were abandoned), so that their names can be reused
 * Output lines
 *   unit <sink> size=<n> hex=<octets|->      one per unit received by a usink
 *   timeout budget                the guarded call output more units than its budget: it
 *                                 is abandoned in the middle (longjmp out of the sink; the
 *                                 pipe is never touched again), "ret -7 abandoned" follows
 *   timeout alarm                 the guarded call burnt its CPU-time allowance (seconds of
 *                                 xbudget; wall-clock backstop 24 times that) and outputs
 *                                 nothing: the process exits at once (status 0), no "ret"
 *                                 line follows
 */
#include <stdio.h>
#include <stdlib.h>
#include <string.h>
#include <stdint.h>
#include <stdbool.h>
#include <signal.h>
#include <setjmp.h>
#include <unistd.h>
#include <sys/time.h>

#include "upipe/ubase.h"
#include "upipe/uref.h"
#include "upipe/uref_flow.h"
#include "upipe/uref_block.h"
#include "upipe/uref_block_flow.h"
#include "upipe/ubuf.h"
#include "upipe/ubuf_block.h"
#include "upipe/upipe.h"
#include "upipe/upipe_helper_upipe.h"
#include "upipe/upipe_helper_urefcount.h"
#include "upipe/upipe_helper_void.h"
#include "upipe-ts/upipe_ts_sync.h"
#include "upipe-ts/upipe_ts_check.h"
#include "upipe-ts/upipe_ts_align.h"

#include "pipe_driver.h"

/* ------------------------------------------------------------------ guard */
static volatile sig_atomic_t g_guard;
static long g_units, g_budget = 20000, g_limit;
static unsigned g_secs = 5;
static jmp_buf g_jmp;

static void on_alarm(int sig)
{
    (void)sig;
    /* the guarded call is spinning without producing output (a producing
     * loop is stopped by the unit budget first), so stdio is not active */
    fflush(stdout);
    static const char m[] = "timeout alarm\n";
    if (write(1, m, sizeof(m) - 1) < 0) { }
    _exit(0);
}

static void guard_on(int nt, char **tok)
{
    g_limit = g_budget;
    for (int k = 2; k < nt; k++)
        if (!strncmp(tok[k], "budget=", 7)) g_limit = atol(tok[k] + 7);
    g_units = 0;
    g_guard = 1;
    /* the alarm counts the CPU time of this process (a spinning call burns
     * it; a loaded machine that leaves the process waiting does not), with a
     * distant wall-clock alarm as a backstop */
    struct itimerval it = { { 0, 0 }, { (time_t)g_secs, 0 } };
    signal(SIGPROF, on_alarm);
    setitimer(ITIMER_PROF, &it, NULL);
    signal(SIGALRM, on_alarm);
    alarm(g_secs * 24);
}

static void guard_off(void)
{
    struct itimerval off = { { 0, 0 }, { 0, 0 } };
    setitimer(ITIMER_PROF, &off, NULL);
    alarm(0);
    g_guard = 0;
}

/* ------------------------------------------------------------------ usink */
#define USINK_SIGNATURE UBASE_FOURCC('u','s','n','k')
struct usink {
    struct urefcount urefcount;
    struct upipe upipe;
};
UPIPE_HELPER_UPIPE(usink, upipe, USINK_SIGNATURE)
UPIPE_HELPER_UREFCOUNT(usink, urefcount, usink_free)
UPIPE_HELPER_VOID(usink)

static struct upipe *usink_alloc(struct upipe_mgr *mgr, struct uprobe *uprobe,
                                 uint32_t signature, va_list args)
{
    struct upipe *upipe = usink_alloc_void(mgr, uprobe, signature, args);
    if (upipe == NULL) return NULL;
    usink_init_urefcount(upipe);
    upipe_throw_ready(upipe);
    return upipe;
}

static void usink_input(struct upipe *upipe, struct uref *uref, struct upump **upump_p)
{
    (void)upump_p;
    size_t size = 0;
    if (uref->ubuf == NULL || !ubase_check(uref_block_size(uref, &size))) {
        printf("unit %s size=-1 hex=-\n", pipe_name(upipe));
        uref_free(uref);
        return;
    }
    printf("unit %s size=%zu hex=", pipe_name(upipe), size);
    if (size == 0) printf("-");
    size_t off = 0;
    while (off < size) {
        int sz = -1;
        const uint8_t *buf;
        if (!ubase_check(uref_block_read(uref, off, &sz, &buf)) || sz <= 0) {
            printf("!unreadable@%zu", off);
            break;
        }
        for (int i = 0; i < sz; i++) printf("%02x", buf[i]);
        uref_block_unmap(uref, off);
        off += sz;
    }
    printf("\n");
    uref_free(uref);
    if (g_guard && ++g_units > g_limit) {
        printf("timeout budget\n");
        longjmp(g_jmp, 1);
    }
}

static int usink_control(struct upipe *upipe, int command, va_list args)
{
    switch (command) {
    case UPIPE_SET_FLOW_DEF:
        return UBASE_ERR_NONE;
    case UPIPE_REGISTER_REQUEST: {
        struct urequest *r = va_arg(args, struct urequest *);
        return upipe_throw_provide_request(upipe, r);
    }
    case UPIPE_UNREGISTER_REQUEST:
        return UBASE_ERR_NONE;
    default:
        return UBASE_ERR_UNHANDLED;
    }
}

static void usink_free(struct upipe *upipe)
{
    upipe_throw_dead(upipe);
    usink_clean_urefcount(upipe);
    usink_free_void(upipe);
}

static struct upipe_mgr usink_mgr = {
    .refcount = NULL,
    .signature = USINK_SIGNATURE,
    .upipe_alloc = usink_alloc,
    .upipe_input = usink_input,
    .upipe_control = usink_control,
};
static struct upipe_mgr *usink_mgr_alloc(void) { return &usink_mgr; }

/* ------------------------------------------------------------------ types */
static const struct pipe_type c14_types[] = {
    { "ts_sync", upipe_ts_sync_mgr_alloc, NULL, NULL },
    { "ts_check", upipe_ts_check_mgr_alloc, NULL, NULL },
    { "ts_align", upipe_ts_align_mgr_alloc, NULL, NULL },
    { "usink", usink_mgr_alloc, NULL, NULL },
    { NULL, NULL, NULL, NULL }
};

const struct pipe_type *pd_types_f(const char *name)
{
    for (int i = 0; c14_types[i].name; i++)
        if (!strcmp(c14_types[i].name, name)) return &c14_types[i];
    return NULL;
}

bool pd_option_f(struct upipe *upipe, const struct pipe_type *type, bool set,
                 const char *name, const char *value)
{
    const char *t = type ? type->name : "";
    if (strcmp(name, "sync") || (strcmp(t, "ts_sync") && strcmp(t, "ts_align")))
        return false;
    if (set) {
        printf("ret %d\n", upipe_ts_sync_set_sync(upipe, value ? atoi(value) : 0));
    } else {
        int v = 777777;
        int err = upipe_ts_sync_get_sync(upipe, &v);
        if (ubase_check(err)) printf("ret 0 %d\n", v);
        else printf("ret %d\n", err);
    }
    return true;
}

/* --------------------------------------------------------------- commands */
static struct uref *block_of_segments(const uint8_t *data, size_t size, const char *seg)
{
    /* seg: "a+b+c" sizes of the segments (sum = size); NULL: one segment */
    size_t sizes[64];
    int n = 0;
    if (seg == NULL) sizes[n++] = size;
    else {
        const char *p = seg;
        size_t sum = 0;
        while (*p && n < 64) {
            char *end;
            sizes[n] = strtoul(p, &end, 10);
            sum += sizes[n++];
            p = *end == '+' ? end + 1 : end;
            if (end == p && *p) return NULL;
        }
        if (sum != size || n == 0) return NULL;
    }
    struct uref *u = NULL;
    size_t done = 0;
    for (int i = 0; i < n; i++) {
        struct ubuf *b = ubuf_block_alloc(g_block, sizes[i]);
        if (b == NULL) { if (u) uref_free(u); return NULL; }
        if (sizes[i]) {
            int sz = -1;
            uint8_t *w;
            if (!ubase_check(ubuf_block_write(b, 0, &sz, &w)) || (size_t)sz != sizes[i]) {
                ubuf_free(b);
                if (u) uref_free(u);
                return NULL;
            }
            memcpy(w, data + done, sizes[i]);
            ubuf_block_unmap(b, 0);
        }
        done += sizes[i];
        if (u == NULL) {
            u = uref_alloc(g_uref);
            if (u == NULL) { ubuf_free(b); return NULL; }
            uref_attach_ubuf(u, b);
        } else if (!ubase_check(ubuf_block_append(u->ubuf, b))) {
            ubuf_free(b);
            uref_free(u);
            return NULL;
        }
    }
    return u;
}

/* the guarded call was left in the middle: the pipe is in an unknown state and
 * is never called again (it is leaked together with what it references) */
static void abandon(const char *name)
{
    guard_off();
    struct obj *o = find_pipe(name);
    if (o) o->upipe = NULL;
    printf("ret -7 abandoned\n");
}

bool pd_ext_f(int nt, char **tok)
{
    const char *c = tok[0];
    if (!strcmp(c, "xbudget") && nt >= 3) {
        g_budget = atol(tok[1]);
        g_secs = atoi(tok[2]);
        ret(0);
        return true;
    }
    if (!strcmp(c, "xreset")) {
        int n = 0;
        for (int i = 0; i < MAXOBJ; i++)
            if (pipes[i].name[0] && pipes[i].upipe == NULL) {
                memset(&pipes[i], 0, sizeof(pipes[i]));
                n++;
            }
        printf("ret 0 %d\n", n);
        return true;
    }
    if (!strcmp(c, "xfd") && nt >= 3) {
        struct upipe *up = find_any(tok[1]);
        if (!up) { ret(-1); return true; }
        char suffix[64];
        snprintf(suffix, sizeof(suffix), "%s", !strcmp(tok[2], "-") ? "" : tok[2]);
        struct uref *fd = uref_block_flow_alloc_def(g_uref, suffix);
        if (fd == NULL) { ret(-1); return true; }
        if (nt > 3) uref_block_flow_set_size(fd, strtoull(tok[3], NULL, 10));
        int err = upipe_set_flow_def(up, fd);
        uref_free(fd);
        ret(err);
        return true;
    }
    if (!strcmp(c, "xin") && nt >= 3) {
        struct upipe *up = find_any(tok[1]);
        if (!up) { ret(-1); return true; }
        const char *hex = tok[2];
        size_t size = !strcmp(hex, "-") ? 0 : strlen(hex) / 2;
        uint8_t *data = malloc(size + 1);
        for (size_t i = 0; i < size; i++) {
            unsigned b = 0;
            sscanf(hex + 2 * i, "%2x", &b);
            data[i] = (uint8_t)b;
        }
        const char *seg = NULL;
        bool disc = false;
        for (int k = 3; k < nt; k++) {
            if (!strncmp(tok[k], "seg=", 4)) seg = tok[k] + 4;
            else if (!strcmp(tok[k], "disc")) disc = true;
        }
        struct uref *u = block_of_segments(data, size, seg);
        free(data);
        if (u == NULL) { ret(-1); return true; }
        if (disc) uref_flow_set_discontinuity(u);
        if (setjmp(g_jmp) == 0) {
            guard_on(nt, tok);
            upipe_input(up, u, NULL);
            guard_off();
            ret(0);
        } else
            abandon(tok[1]);
        return true;
    }
    if (!strcmp(c, "xrel") && nt >= 2) {
        struct obj *o = find_pipe(tok[1]);
        if (!o || !o->upipe) { ret(-1); return true; }
        struct upipe *u = o->upipe;
        o->upipe = NULL;
        if (setjmp(g_jmp) == 0) {
            guard_on(nt, tok);
            upipe_release(u);
            guard_off();
            ret(0);
        } else
            abandon(tok[1]);
        return true;
    }
    if (!strcmp(c, "xflush") && nt >= 2) {
        struct upipe *up = find_any(tok[1]);
        if (!up) { ret(-1); return true; }
        if (setjmp(g_jmp) == 0) {
            guard_on(nt, tok);
            int err = upipe_flush(up);
            guard_off();
            ret(err);
        } else
            abandon(tok[1]);
        return true;
    }
    return false;
}
