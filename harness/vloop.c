/* vloop: deterministic mock upump_mgr on the real upump_common.c (see vloop.h).
 * Structure mirrors lib/upump-ev/upump_ev.c with libev replaced by a table. */
#include "vloop.h"

#include "upipe/urefcount.h"
#include "upipe/ulist.h"
#include "upipe/upump_common.h"

#include <stdlib.h>
#include <string.h>
#include <poll.h>

/* iteration cap of UPUMP_MGR_RUN (a mock must never hang) */
#define VLOOP_RUN_CAP 1000000u

struct vloop_mgr {
    struct urefcount urefcount;
    /* live pumps in allocation order */
    struct uchain pumps;
    unsigned next_id;
    /* pumps freed while their watcher was still active */
    unsigned leaked_active;
    /* virtual clock */
    uint64_t now;
    /* log of back-end calls */
    struct vloop_log_entry *log;
    size_t log_len, log_cap;

    struct upump_common_mgr common_mgr;
    uint8_t upool_extra[];
};

UBASE_FROM_TO(vloop_mgr, upump_mgr, upump_mgr, common_mgr.mgr)
UBASE_FROM_TO(vloop_mgr, urefcount, urefcount, urefcount)

struct vloop_pump {
    struct uchain link;     /* in vloop_mgr.pumps */
    unsigned id;
    int type;
    bool active;
    bool status;
    int fd;
    int signal;
    uint64_t after, repeat;
    uint64_t deadline;      /* valid while active */
    uint64_t remaining;     /* time left, valid while inactive */
    uint64_t dispatched;

    struct upump_common common;
};

UBASE_FROM_TO(vloop_pump, upump, upump, common.upump)
UBASE_FROM_TO(vloop_pump, uchain, link, link)

static void vloop_log_add(struct vloop_mgr *m, enum vloop_call call,
                          unsigned id, bool status)
{
    if (m->log_len == m->log_cap) {
        size_t cap = m->log_cap ? m->log_cap * 2 : 64;
        struct vloop_log_entry *l = realloc(m->log, cap * sizeof(*l));
        if (l == NULL)
            abort();
        m->log = l;
        m->log_cap = cap;
    }
    m->log[m->log_len].call = call;
    m->log[m->log_len].id = id;
    m->log[m->log_len].status = status;
    m->log_len++;
}

/* live pump of this manager, or NULL (never dereferences `upump`) */
static struct vloop_pump *vloop_find(struct vloop_mgr *m, struct upump *upump)
{
    struct uchain *uchain;
    ulist_foreach (&m->pumps, uchain) {
        struct vloop_pump *p = vloop_pump_from_link(uchain);
        if (vloop_pump_to_upump(p) == upump)
            return p;
    }
    return NULL;
}

static struct vloop_pump *vloop_find_id(struct vloop_mgr *m, unsigned id)
{
    struct uchain *uchain;
    ulist_foreach (&m->pumps, uchain) {
        struct vloop_pump *p = vloop_pump_from_link(uchain);
        if (p->id == id)
            return p;
    }
    return NULL;
}

void (*vloop_obj_cb)(int alloc, const char *kind, const void *p) = NULL;

/* --- back-end seam --------------------------------------------------------- */

static struct upump *vloop_alloc(struct upump_mgr *mgr, int event, va_list args)
{
    struct vloop_mgr *m = vloop_mgr_from_upump_mgr(mgr);
    struct vloop_pump *p = upool_alloc(&m->common_mgr.upump_pool,
                                       struct vloop_pump *);
    if (unlikely(p == NULL))
        return NULL;
    struct upump *upump = vloop_pump_to_upump(p);

    p->fd = -1;
    p->signal = -1;
    p->after = p->repeat = p->deadline = p->remaining = 0;
    switch (event) {
        case UPUMP_TYPE_IDLER:
            break;
        case UPUMP_TYPE_TIMER:
            p->after = va_arg(args, uint64_t);
            p->repeat = va_arg(args, uint64_t);
            p->remaining = p->after;
            break;
        case UPUMP_TYPE_FD_READ:
        case UPUMP_TYPE_FD_WRITE:
            p->fd = va_arg(args, int);
            break;
        case UPUMP_TYPE_SIGNAL:
            p->signal = va_arg(args, int);
            break;
        default:
            upool_free(&m->common_mgr.upump_pool, p);
            return NULL;
    }
    p->type = event;
    p->active = false;
    p->status = true;
    p->dispatched = 0;
    p->id = ++m->next_id;
    uchain_init(&p->link);
    ulist_add(&m->pumps, &p->link);

    upump_common_init(upump);
    vloop_log_add(m, VLOOP_ALLOC, p->id, false);
    if (vloop_obj_cb != NULL)
        vloop_obj_cb(1, "pump", upump);
    return upump;
}

static void vloop_real_start(struct upump *upump, bool status)
{
    struct vloop_pump *p = vloop_pump_from_upump(upump);
    struct vloop_mgr *m = vloop_mgr_from_upump_mgr(upump->mgr);
    vloop_log_add(m, VLOOP_REAL_START, p->id, status);
    if (!p->active) {
        p->active = true;
        p->deadline = m->now + p->remaining;
    }
    p->status = status;
}

static void vloop_real_stop(struct upump *upump, bool status)
{
    struct vloop_pump *p = vloop_pump_from_upump(upump);
    struct vloop_mgr *m = vloop_mgr_from_upump_mgr(upump->mgr);
    vloop_log_add(m, VLOOP_REAL_STOP, p->id, status);
    if (p->active) {
        p->active = false;
        p->remaining = p->deadline > m->now ? p->deadline - m->now : 0;
    }
}

static void vloop_real_restart(struct upump *upump, bool status)
{
    struct vloop_pump *p = vloop_pump_from_upump(upump);
    struct vloop_mgr *m = vloop_mgr_from_upump_mgr(upump->mgr);
    vloop_log_add(m, VLOOP_REAL_RESTART, p->id, status);
    if (p->type != UPUMP_TYPE_TIMER)
        return;
    if (p->active && p->repeat) {
        p->deadline = m->now + p->repeat;       /* ev_timer_again */
        return;
    }
    p->active = true;
    p->status = status;
    p->deadline = m->now + p->after;
}

static void vloop_free(struct upump *upump)
{
    if (vloop_obj_cb != NULL)
        vloop_obj_cb(0, "pump", upump);
    struct vloop_mgr *m = vloop_mgr_from_upump_mgr(upump->mgr);
    struct vloop_pump *p = vloop_pump_from_upump(upump);
    upump_stop(upump);
    upump_common_clean(upump);
    ulist_delete(&p->link);
    /* a real loop would go on invoking a watcher that upump_stop() left
     * active, on freed memory: never dispatched here, but reported */
    if (p->active)
        m->leaked_active++;
    vloop_log_add(m, VLOOP_FREE, p->id, p->active);
    p->active = false;
    /* may drop the last reference on the manager */
    upool_free(&m->common_mgr.upump_pool, p);
}

static void *vloop_alloc_inner(struct upool *upool)
{
    struct upump_common_mgr *common_mgr =
        upump_common_mgr_from_upump_pool(upool);
    struct vloop_pump *p = malloc(sizeof(struct vloop_pump));
    if (unlikely(p == NULL))
        return NULL;
    vloop_pump_to_upump(p)->mgr = upump_common_mgr_to_upump_mgr(common_mgr);
    return p;
}

static void vloop_free_inner(struct upool *upool, void *p)
{
    free(p);
}

static int vloop_control(struct upump *upump, int command, va_list args)
{
    switch (command) {
        case UPUMP_START:
            upump_common_start(upump);
            return UBASE_ERR_NONE;
        case UPUMP_RESTART:
            upump_common_restart(upump);
            return UBASE_ERR_NONE;
        case UPUMP_STOP:
            upump_common_stop(upump);
            return UBASE_ERR_NONE;
        case UPUMP_FREE:
            vloop_free(upump);
            return UBASE_ERR_NONE;
        case UPUMP_GET_STATUS: {
            int *status_p = va_arg(args, int *);
            upump_common_get_status(upump, status_p);
            return UBASE_ERR_NONE;
        }
        case UPUMP_SET_STATUS: {
            int status = va_arg(args, int);
            upump_common_set_status(upump, status);
            return UBASE_ERR_NONE;
        }
        case UPUMP_ALLOC_BLOCKER: {
            struct upump_blocker **p = va_arg(args, struct upump_blocker **);
            *p = upump_common_blocker_alloc(upump);
            if (vloop_obj_cb != NULL && *p != NULL)
                vloop_obj_cb(1, "blocker", *p);
            return UBASE_ERR_NONE;
        }
        case UPUMP_FREE_BLOCKER: {
            struct upump_blocker *blocker =
                va_arg(args, struct upump_blocker *);
            if (vloop_obj_cb != NULL)
                vloop_obj_cb(0, "blocker", blocker);
            upump_common_blocker_free(blocker);
            return UBASE_ERR_NONE;
        }
        default:
            return UBASE_ERR_UNHANDLED;
    }
}

/* --- the loop -------------------------------------------------------------- */

static bool vloop_dispatch_pump(struct vloop_mgr *m, struct vloop_pump *p)
{
    if (!p->active)
        return false;
    if (p->type == UPUMP_TYPE_TIMER) {
        if (p->deadline > m->now)
            m->now = p->deadline;
        if (p->repeat == 0) {
            p->active = false;          /* libev stops a one-shot timer */
            p->remaining = 0;
        } else {
            p->deadline += p->repeat;
            if (p->deadline < m->now)
                p->deadline = m->now;
        }
    }
    p->dispatched++;
    vloop_log_add(m, VLOOP_DISPATCH, p->id, false);
    /* p may be freed by its own call-back: do not touch it afterwards */
    upump_common_dispatch(vloop_pump_to_upump(p));
    return true;
}

bool vloop_dispatch(struct upump_mgr *mgr, struct upump *upump)
{
    struct vloop_mgr *m = vloop_mgr_from_upump_mgr(mgr);
    struct vloop_pump *p = vloop_find(m, upump);
    if (p == NULL)
        return false;
    return vloop_dispatch_pump(m, p);
}

static bool vloop_pump_ready(struct vloop_pump *p)
{
    if (!p->active)
        return false;
    switch (p->type) {
        case UPUMP_TYPE_IDLER:
            return true;
        case UPUMP_TYPE_FD_READ:
        case UPUMP_TYPE_FD_WRITE: {
            struct pollfd pfd;
            pfd.fd = p->fd;
            pfd.events = p->type == UPUMP_TYPE_FD_READ ? POLLIN : POLLOUT;
            pfd.revents = 0;
            if (poll(&pfd, 1, 0) <= 0)
                return false;
            /* errors and hang-ups wake a real watcher up as well */
            return (pfd.revents & (pfd.events | POLLERR | POLLHUP)) != 0;
        }
        default:
            return false;
    }
}

bool vloop_is_ready(struct upump_mgr *mgr, struct upump *upump)
{
    struct vloop_pump *p = vloop_find(vloop_mgr_from_upump_mgr(mgr), upump);
    return p != NULL && vloop_pump_ready(p);
}

unsigned vloop_run_once(struct upump_mgr *mgr)
{
    struct vloop_mgr *m = vloop_mgr_from_upump_mgr(mgr);
    /* the manager must survive the call-backs */
    upump_mgr_use(mgr);
    /* snapshot of the ids: call-backs may allocate and free pumps */
    size_t n = 0;
    struct uchain *uchain;
    ulist_foreach (&m->pumps, uchain)
        n++;
    unsigned *ids = malloc((n ? n : 1) * sizeof(unsigned));
    if (ids == NULL)
        abort();
    n = 0;
    ulist_foreach (&m->pumps, uchain)
        ids[n++] = vloop_pump_from_link(uchain)->id;

    unsigned dispatched = 0;
    for (int pass = 0; pass < 2; pass++) {
        for (size_t i = 0; i < n; i++) {
            struct vloop_pump *p = vloop_find_id(m, ids[i]);
            if (p == NULL)
                continue;
            bool idler = p->type == UPUMP_TYPE_IDLER;
            if ((pass == 0) == idler)
                continue;
            if (!vloop_pump_ready(p))
                continue;
            if (vloop_dispatch_pump(m, p))
                dispatched++;
        }
    }
    free(ids);
    upump_mgr_release(mgr);
    return dispatched;
}

unsigned vloop_run(struct upump_mgr *mgr, unsigned max_iterations)
{
    unsigned total = 0;
    upump_mgr_use(mgr);
    for (unsigned i = 0; i < max_iterations; i++) {
        unsigned n = vloop_run_once(mgr);
        if (n == 0)
            break;
        total += n;
    }
    upump_mgr_release(mgr);
    return total;
}

uint64_t vloop_now(struct upump_mgr *mgr)
{
    return vloop_mgr_from_upump_mgr(mgr)->now;
}

static struct vloop_pump *vloop_next_timer_pump(struct vloop_mgr *m)
{
    struct vloop_pump *best = NULL;
    struct uchain *uchain;
    ulist_foreach (&m->pumps, uchain) {
        struct vloop_pump *p = vloop_pump_from_link(uchain);
        if (p->type != UPUMP_TYPE_TIMER || !p->active)
            continue;
        if (best == NULL || p->deadline < best->deadline)
            best = p;
    }
    return best;
}

struct upump *vloop_next_timer(struct upump_mgr *mgr)
{
    struct vloop_pump *p =
        vloop_next_timer_pump(vloop_mgr_from_upump_mgr(mgr));
    return p != NULL ? vloop_pump_to_upump(p) : NULL;
}

unsigned vloop_advance(struct upump_mgr *mgr, uint64_t ticks,
                       unsigned max_dispatch)
{
    struct vloop_mgr *m = vloop_mgr_from_upump_mgr(mgr);
    uint64_t until = m->now + ticks;
    unsigned dispatched = 0;
    upump_mgr_use(mgr);
    while (dispatched < max_dispatch) {
        struct vloop_pump *p = vloop_next_timer_pump(m);
        if (p == NULL || p->deadline > until)
            break;
        vloop_dispatch_pump(m, p);
        dispatched++;
    }
    if (m->now < until)
        m->now = until;
    upump_mgr_release(mgr);
    return dispatched;
}

bool vloop_busy(struct upump_mgr *mgr)
{
    struct vloop_mgr *m = vloop_mgr_from_upump_mgr(mgr);
    struct uchain *uchain;
    ulist_foreach (&m->pumps, uchain) {
        struct vloop_pump *p = vloop_pump_from_link(uchain);
        if (p->active && p->status)
            return true;
    }
    return false;
}

/* UPUMP_MGR_RUN: like a real loop in virtual time - iterate while something
 * is dispatchable; when only timers are left and the loop is kept alive, jump
 * to the next deadline.  Bounded by VLOOP_RUN_CAP dispatch rounds. */
static int vloop_mgr_run(struct upump_mgr *mgr)
{
    struct vloop_mgr *m = vloop_mgr_from_upump_mgr(mgr);
    upump_mgr_use(mgr);
    for (unsigned i = 0; i < VLOOP_RUN_CAP && vloop_busy(mgr); i++) {
        if (vloop_run_once(mgr))
            continue;
        struct vloop_pump *p = vloop_next_timer_pump(m);
        if (p == NULL)
            break;              /* would sleep for ever */
        vloop_dispatch_pump(m, p);
    }
    bool busy = vloop_busy(mgr);
    upump_mgr_release(mgr);
    return busy ? UBASE_ERR_BUSY : UBASE_ERR_NONE;
}

static int vloop_mgr_control(struct upump_mgr *mgr, int command, va_list args)
{
    switch (command) {
        case UPUMP_MGR_RUN:
            return vloop_mgr_run(mgr);
        case UPUMP_MGR_VACUUM:
            upump_common_mgr_vacuum(mgr);
            return UBASE_ERR_NONE;
        default:
            return UBASE_ERR_UNHANDLED;
    }
}

/* --- introspection --------------------------------------------------------- */

static void vloop_fill(struct vloop_pump *p, struct vloop_pump_info *info)
{
    info->id = p->id;
    info->upump = vloop_pump_to_upump(p);
    info->type = p->type;
    info->active = p->active;
    info->status = p->status;
    info->fd = p->fd;
    info->signal = p->signal;
    info->after = p->after;
    info->repeat = p->repeat;
    info->deadline = p->active ? p->deadline : 0;
    info->dispatched = p->dispatched;
}

size_t vloop_pumps(struct upump_mgr *mgr, struct vloop_pump_info *infos,
                   size_t max)
{
    struct vloop_mgr *m = vloop_mgr_from_upump_mgr(mgr);
    size_t n = 0;
    struct uchain *uchain;
    ulist_foreach (&m->pumps, uchain) {
        if (infos != NULL && n < max)
            vloop_fill(vloop_pump_from_link(uchain), &infos[n]);
        n++;
    }
    return n;
}

bool vloop_pump_info(struct upump_mgr *mgr, struct upump *upump,
                     struct vloop_pump_info *info)
{
    struct vloop_pump *p = vloop_find(vloop_mgr_from_upump_mgr(mgr), upump);
    if (p == NULL)
        return false;
    if (info != NULL)
        vloop_fill(p, info);
    return true;
}

struct upump *vloop_pump_by_id(struct upump_mgr *mgr, unsigned id)
{
    struct vloop_pump *p = vloop_find_id(vloop_mgr_from_upump_mgr(mgr), id);
    return p != NULL ? vloop_pump_to_upump(p) : NULL;
}

bool vloop_is_active(struct upump_mgr *mgr, struct upump *upump)
{
    struct vloop_pump *p = vloop_find(vloop_mgr_from_upump_mgr(mgr), upump);
    return p != NULL && p->active;
}

size_t vloop_log(struct upump_mgr *mgr, const struct vloop_log_entry **entries_p)
{
    struct vloop_mgr *m = vloop_mgr_from_upump_mgr(mgr);
    if (entries_p != NULL)
        *entries_p = m->log;
    return m->log_len;
}

void vloop_log_clear(struct upump_mgr *mgr)
{
    vloop_mgr_from_upump_mgr(mgr)->log_len = 0;
}

unsigned vloop_leaked_active(struct upump_mgr *mgr)
{
    return vloop_mgr_from_upump_mgr(mgr)->leaked_active;
}

const char *vloop_call_name(enum vloop_call call)
{
    switch (call) {
        case VLOOP_ALLOC: return "alloc";
        case VLOOP_FREE: return "free";
        case VLOOP_REAL_START: return "start";
        case VLOOP_REAL_STOP: return "stop";
        case VLOOP_REAL_RESTART: return "restart";
        case VLOOP_DISPATCH: return "dispatch";
    }
    return "?";
}

/* --- manager --------------------------------------------------------------- */

static void vloop_mgr_free(struct urefcount *urefcount)
{
    struct vloop_mgr *m = vloop_mgr_from_urefcount(urefcount);
    upump_common_mgr_clean(vloop_mgr_to_upump_mgr(m));
    urefcount_clean(urefcount);
    free(m->log);
    free(m);
}

struct upump_mgr *vloop_mgr_alloc_depth(uint16_t upump_pool_depth,
                                        uint16_t upump_blocker_pool_depth)
{
    struct vloop_mgr *m =
        malloc(sizeof(struct vloop_mgr) +
               upump_common_mgr_sizeof(upump_pool_depth,
                                       upump_blocker_pool_depth));
    if (unlikely(m == NULL))
        return NULL;
    struct upump_mgr *mgr = vloop_mgr_to_upump_mgr(m);
    mgr->signature = VLOOP_SIGNATURE;
    urefcount_init(vloop_mgr_to_urefcount(m), vloop_mgr_free);
    mgr->refcount = vloop_mgr_to_urefcount(m);
    mgr->upump_alloc = vloop_alloc;
    mgr->upump_control = vloop_control;
    mgr->upump_mgr_control = vloop_mgr_control;
    upump_common_mgr_init(mgr, upump_pool_depth, upump_blocker_pool_depth,
                          m->upool_extra,
                          vloop_real_start, vloop_real_stop,
                          vloop_real_restart,
                          vloop_alloc_inner, vloop_free_inner);
    ulist_init(&m->pumps);
    m->next_id = 0;
    m->leaked_active = 0;
    m->now = 0;
    m->log = NULL;
    m->log_len = m->log_cap = 0;
    return mgr;
}

struct upump_mgr *vloop_mgr_alloc(void)
{
    return vloop_mgr_alloc_depth(0, 0);
}
