/* vsched: see vsched.h */
#include "vsched.h"
#include <ucontext.h>
#include <stdlib.h>
#include <stdio.h>
#include <string.h>
#include <unistd.h>

#ifdef UPIPE_VERIF
#include "upipe/uverif.h"
#endif

#define VS_STACK (256 * 1024)

struct vs_thread {
    ucontext_t ctx;
    void *stack;
    vs_fn fn;
    void *arg;
    bool started, finished;
    int kind;
    const void *obj;
    vs_pred pred;
    void *pred_arg;
};

static struct vs_thread thr[VS_MAXT];
static int nthr = 0;
static int cur = -1;
static ucontext_t sched_ctx;
void (*vs_on_sched_yield)(void);

uint64_t vs_rand(uint64_t *s)
{
    uint64_t x = *s ? *s : 88172645463325252ULL;
    x ^= x >> 12; x ^= x << 25; x ^= x >> 27;
    *s = x;
    return x * 2685821657736338717ULL;
}

void vs_reset(void)
{
    for (int i = 0; i < nthr; i++) {
        free(thr[i].stack);
        thr[i].stack = NULL;
    }
    nthr = 0;
    cur = -1;
}

static void trampoline(void)
{
    int t = cur;
    thr[t].fn(thr[t].arg);
    thr[t].finished = true;
    thr[t].kind = 0;
    cur = -1;
    swapcontext(&thr[t].ctx, &sched_ctx);
    abort();
}

int vs_spawn(vs_fn fn, void *arg)
{
    if (nthr >= VS_MAXT) { fprintf(stderr, "vsched: too many threads\n"); exit(2); }
    int t = nthr++;
    memset(&thr[t], 0, sizeof(thr[t]));
    thr[t].fn = fn;
    thr[t].arg = arg;
    thr[t].stack = malloc(VS_STACK);
    thr[t].kind = VS_KIND_START;
    getcontext(&thr[t].ctx);
    thr[t].ctx.uc_stack.ss_sp = thr[t].stack;
    thr[t].ctx.uc_stack.ss_size = VS_STACK;
    thr[t].ctx.uc_link = NULL;
    makecontext(&thr[t].ctx, trampoline, 0);
    return t;
}

int vs_nthreads(void) { return nthr; }
bool vs_finished(int t) { return thr[t].finished; }
int vs_pending_kind(int t) { return thr[t].finished ? 0 : thr[t].kind; }
const void *vs_pending_obj(int t) { return thr[t].obj; }
int vs_current(void) { return cur; }

bool vs_waiting(int t)
{
    return !thr[t].finished && thr[t].kind == VS_KIND_WAIT &&
           !thr[t].pred(thr[t].pred_arg);
}

bool vs_runnable(int t)
{
    if (thr[t].finished) return false;
    if (thr[t].kind == VS_KIND_WAIT) return thr[t].pred(thr[t].pred_arg);
    return true;
}

void vs_step(int t)
{
    if (t < 0 || t >= nthr || thr[t].finished) {
        fprintf(stderr, "vsched: step of finished/unknown thread %d\n", t);
        exit(2);
    }
    cur = t;
    swapcontext(&sched_ctx, &thr[t].ctx);
    cur = -1;
}

void vs_yield(int kind, const void *obj)
{
    int t = cur;
    if (t < 0) { /* scheduler context (setup / epilogue): no yield */
        if (vs_on_sched_yield) vs_on_sched_yield();
        return;
    }
    thr[t].kind = kind;
    thr[t].obj = obj;
    cur = -1;
    swapcontext(&thr[t].ctx, &sched_ctx);
    /* resumed: cur == t again */
}

void vs_wait(vs_pred pred, void *arg)
{
    int t = cur;
    if (t < 0) { fprintf(stderr, "vsched: vs_wait outside thread\n"); exit(2); }
    thr[t].pred = pred;
    thr[t].pred_arg = arg;
    vs_yield(VS_KIND_WAIT, arg);
}

void vs_run_until_kind(int t, int kind)
{
    int guard = 0;
    while (vs_runnable(t)) {
        if (guard > 0 && vs_pending_kind(t) == kind) return;
        if (guard == 0 && vs_pending_kind(t) == kind && kind != VS_KIND_START) {
            /* already parked before such an op: perform it and go to the next one */
        }
        vs_step(t);
        guard++;
        if (guard > 1000000) { fprintf(stderr, "vsched: step budget\n"); exit(3); }
    }
}

void vs_run_to_end(int t)
{
    int guard = 0;
    while (vs_runnable(t)) {
        vs_step(t);
        if (++guard > 1000000) { fprintf(stderr, "vsched: step budget\n"); exit(3); }
    }
}

static void hook(int kind, const void *obj) { vs_yield(kind, obj); }

void vs_install_hooks(void)
{
#ifdef UPIPE_VERIF
    upipe_verif_yield_cb = hook;
#endif
}

void vs_uninstall_hooks(void)
{
#ifdef UPIPE_VERIF
    upipe_verif_yield_cb = NULL;
#endif
}

/* ------------------------------------------------------------------ explore */

static unsigned runnable_mask(void)
{
    unsigned m = 0;
    for (int i = 0; i < nthr; i++)
        if (vs_runnable(i)) m |= 1u << i;
    return m;
}

static bool any_unfinished(void)
{
    for (int i = 0; i < nthr; i++)
        if (!thr[i].finished) return true;
    return false;
}

static int lowest(unsigned m)
{
    for (int i = 0; i < VS_MAXT; i++)
        if (m & (1u << i)) return i;
    return -1;
}

static const uint8_t *cur_sched;
static int cur_len;
const uint8_t *vs_cur_sched(int *len) { *len = cur_len; return cur_sched; }

#include <signal.h>
static void (*crash_dump)(int);
static void crash_handler(int sig)
{
    static int once;
    if (once++) _exit(5);
    if (crash_dump) crash_dump(sig);
    fflush(stdout);
    _exit(0);
}
void vs_install_crash_handler(void (*dump)(int sig))
{
    static char altstack[65536];
    stack_t ss = { .ss_sp = altstack, .ss_size = sizeof(altstack), .ss_flags = 0 };
    sigaltstack(&ss, NULL);
    struct sigaction sa;
    memset(&sa, 0, sizeof(sa));
    sa.sa_handler = crash_handler;
    sa.sa_flags = SA_ONSTACK | SA_NODEFER;
    crash_dump = dump;
    sigaction(SIGSEGV, &sa, NULL);
    sigaction(SIGBUS, &sa, NULL);
    sigaction(SIGABRT, &sa, NULL);
    sigaction(SIGFPE, &sa, NULL);
    sigaction(SIGILL, &sa, NULL);
}

static int run_once(struct vs_explore *e, const uint8_t *prefix, int plen,
                    uint8_t *sched, uint8_t *masks, int max, bool *stuck)
{
    cur_sched = sched; cur_len = 0;
    e->setup(e->ctx);
    e->overrun = false;
    int last = -1, len = 0;
    for (;;) {
        unsigned mask = runnable_mask();
        if (!mask) break;
        int t;
        if (len < plen) {
            t = prefix[len];
            if (!(mask & (1u << t))) {
                fprintf(stderr, "vsched: schedule diverged at step %d (thread %d not runnable, mask %x)\n", len, t, mask);
                exit(4);
            }
        } else
            t = (last >= 0 && (mask & (1u << last))) ? last : lowest(mask);
        if (len >= max) { e->overrun = true; break; }
        masks[len] = (uint8_t)mask;
        sched[len] = (uint8_t)t;
        len++;
        cur_len = len;
        if (e->step) e->step(e->ctx, t); else vs_step(t);
        if (e->after_step) e->after_step(e->ctx, t);
        last = t;
    }
    *stuck = any_unfinished();
    return len;
}

static int preemptions(const uint8_t *sched, const uint8_t *masks, int len)
{
    int p = 0;
    for (int i = 1; i < len; i++)
        if (sched[i] != sched[i - 1] && (masks[i] & (1u << sched[i - 1]))) p++;
    return p;
}

void vs_explore_run(struct vs_explore *e)
{
    static uint8_t sched[VS_MAXSTEPS], masks[VS_MAXSTEPS], tried[VS_MAXSTEPS], prefix[VS_MAXSTEPS];
    int plen = 0;
    e->runs = 0;
    e->complete = false;
    e->max_len = 0;
    for (;;) {
        bool stuck;
        int len = run_once(e, prefix, plen, sched, masks, VS_MAXSTEPS, &stuck);
        e->runs++;
        if (len > e->max_len) e->max_len = len;
        for (int d = plen; d < len; d++) tried[d] = (uint8_t)(1u << sched[d]);
        if (!e->finish(e->ctx, sched, len, stuck)) return;
        if (e->max_runs && e->runs >= e->max_runs) return;
        /* backtrack */
        int d;
        for (d = len - 1; d >= 0; d--) {
            unsigned alts = masks[d] & ~tried[d];
            int found = -1;
            while (alts) {
                int a = lowest(alts);
                alts &= ~(1u << a);
                uint8_t save = sched[d];
                sched[d] = (uint8_t)a;
                int p = preemptions(sched, masks, d + 1);
                sched[d] = save;
                if (e->preemption_bound < 0 || p <= e->preemption_bound) { found = a; break; }
                tried[d] |= (uint8_t)(1u << a); /* over budget: never viable at this prefix */
            }
            if (found >= 0) {
                memcpy(prefix, sched, d);
                prefix[d] = (uint8_t)found;
                tried[d] |= (uint8_t)(1u << found);
                plen = d + 1;
                break;
            }
        }
        if (d < 0) { e->complete = true; return; }
    }
}

int vs_replay(struct vs_explore *e, const uint8_t *prefix, int plen, uint8_t *out, int outmax, bool *stuck)
{
    static uint8_t masks[VS_MAXSTEPS];
    if (outmax > VS_MAXSTEPS) outmax = VS_MAXSTEPS;
    return run_once(e, prefix, plen, out, masks, outmax, stuck);
}

int vs_random(struct vs_explore *e, uint64_t *rng, int sw, uint8_t *out, int outmax, bool *stuck)
{
    cur_sched = out; cur_len = 0;
    e->setup(e->ctx);
    e->overrun = false;
    int last = -1, len = 0;
    for (;;) {
        unsigned mask = runnable_mask();
        if (!mask) break;
        int t;
        if (last >= 0 && (mask & (1u << last)) && (vs_rand(rng) % (unsigned)sw) != 0)
            t = last;
        else {
            int n = __builtin_popcount(mask), k = (int)(vs_rand(rng) % (unsigned)n);
            t = -1;
            for (int i = 0; i < VS_MAXT; i++)
                if (mask & (1u << i)) { if (k-- == 0) { t = i; break; } }
        }
        if (len >= outmax) { e->overrun = true; break; }
        out[len++] = (uint8_t)t;
        cur_len = len;
        if (e->step) e->step(e->ctx, t); else vs_step(t);
        if (e->after_step) e->after_step(e->ctx, t);
        last = t;
    }
    *stuck = any_unfinished();
    return len;
}
