/* replay_nal_h264f: command interpreter over the REAL H.264 framer
 * (lib/upipe-framers/upipe_h264_framer.c, compiled with the clean-room shim
 * harness/shim/bitstream/mpeg/h264.h) for C17 stage 2 (DESIGN.md 4/C17):
 * an Annex B elementary stream is fed in arbitrary pieces (segmented ubufs),
 * every buffer the framer outputs is printed with its octets and its stored
 * NAL offsets.  The events are turned into ndjson by checks/c17.py and
 * judged by spec/NalFramer_Trace.tla.  There is no oracle here.
 *
 *   exec <id>                 start of an execution
 *   new <out_enc>             framer + recording sink; input flow definition
 *                             "block.h264." Annex B; the sink answers the
 *                             flow format request with encapsulation out_enc
 *                             (annexb | len1 | len2 | len4 | nalu)
 *   defer <n>                 (before new) the sink answers the flow format request later: once n more
 *                             inputs have returned after the one during which it was asked (-1: at once)
 *   complete                  (before new) the input flow definition is flagged flow.complete: every buffer
 *                             holds whole access units (or parameter sets travelling alone)
 *   feed <hex> <seg>          upipe_input of a block uref holding the octets,
 *                             cut into segments seg = a+b+c ("-": one)
 *   release                   upipe_release of the framer (flushes the last
 *                             access unit)
 *   mscan <ctx> <hex>         one call of upipe_framers_mpeg_scan over a tight
 *                             buffer with the given 32-bit context: prints the
 *                             octets consumed and the new context
 *   end
 *
 * Output lines
 *   new enc=<out_enc>         (before anything the framer does)
 *   newr r=<0|1>              set_output / set_flow_def accepted
 *   feed n=<octets>
 *   out size=<n> key=<0|1> b=<hex> l=<stored NAL offsets>
 *   fd def=<flow definition> hsize=<n> vsize=<n> enc=<n>
 *   ev <event> [code]         ready dead sync_acquired sync_lost new_flow_def
 *                             error fatal (log events are not printed)
 *   release
 *   san {...}                 sanitizer report / assert / signal (the
 *                             execution ends)
 */
#undef NDEBUG
#include <stdio.h>
#include <stdlib.h>
#include <string.h>
#include <stdint.h>
#include <stdbool.h>
#include <inttypes.h>
#include <stdarg.h>
#include <assert.h>
#include <unistd.h>
#include <signal.h>
#include <sys/mman.h>
#include <sys/wait.h>

#include "upipe/ubase.h"
#include "upipe/uprobe.h"
#include "upipe/umem.h"
#include "upipe/umem_alloc.h"
#include "upipe/udict.h"
#include "upipe/udict_inline.h"
#include "upipe/ubuf.h"
#include "upipe/ubuf_block.h"
#include "upipe/ubuf_block_mem.h"
#include "upipe/uref.h"
#include "upipe/uref_std.h"
#include "upipe/uref_flow.h"
#include "upipe/uref_block.h"
#include "upipe/uref_block_flow.h"
#include "upipe/uref_pic.h"
#include "upipe/uref_pic_flow.h"
#include "upipe/urequest.h"
#include "upipe/upipe.h"
#include "upipe-framers/upipe_h264_framer.h"
#include "upipe-framers/upipe_framers_common.h"
#include "upipe-framers/uref_h26x.h"
#include "upipe-framers/uref_h26x_flow.h"

#if defined(__SANITIZE_ADDRESS__)
const char *__asan_default_options(void) { return "detect_leaks=0:abort_on_error=0:symbolize=1"; }
#endif
const char *__ubsan_default_options(void) { return "print_stacktrace=0"; }

#define MAXSEG 64

static struct umem_mgr *umem_mgr;
static struct udict_mgr *udict_mgr;
static struct uref_mgr *uref_mgr;
static struct ubuf_mgr *ubuf_mgr;
static struct uprobe probe;
static struct upipe *framer, *sink;
static int out_enc = UREF_H26X_ENCAPS_ANNEXB;

static void die(const char *msg)
{
    printf("err %s\n", msg);
    fflush(stdout);
    _exit(3);
}

/* ------------------------------------------------------------------ probe */
static int catch(struct uprobe *uprobe, struct upipe *upipe, int event, va_list args)
{
    const char *who = upipe == sink ? "sink" : "h264f";
    switch (event) {
    case UPROBE_LOG:
        return UBASE_ERR_NONE;
    case UPROBE_READY:
        if (upipe != sink) printf("ev ready\n");
        return UBASE_ERR_NONE;
    case UPROBE_DEAD:
        if (upipe != sink) printf("ev dead\n");
        return UBASE_ERR_NONE;
    case UPROBE_SYNC_ACQUIRED: printf("ev sync_acquired\n"); return UBASE_ERR_NONE;
    case UPROBE_SYNC_LOST: printf("ev sync_lost\n"); return UBASE_ERR_NONE;
    case UPROBE_NEW_FLOW_DEF: printf("ev new_flow_def\n"); return UBASE_ERR_NONE;
    case UPROBE_ERROR:
    case UPROBE_FATAL: {
        va_list c;
        va_copy(c, args);
        int code = va_arg(c, int);
        va_end(c);
        printf("ev %s %d %s\n", event == UPROBE_ERROR ? "error" : "fatal", code, who);
        return UBASE_ERR_NONE;
    }
    case UPROBE_PROVIDE_REQUEST: {
        va_list c;
        va_copy(c, args);
        struct urequest *r = va_arg(c, struct urequest *);
        va_end(c);
        switch (r->type) {
        case UREQUEST_UREF_MGR:
            return urequest_provide_uref_mgr(r, uref_mgr_use(uref_mgr));
        case UREQUEST_UBUF_MGR:
            return urequest_provide_ubuf_mgr(r, ubuf_mgr_use(ubuf_mgr),
                                             r->uref ? uref_dup(r->uref) : NULL);
        case UREQUEST_FLOW_FORMAT:
            return urequest_provide_flow_format(r, r->uref ? uref_dup(r->uref) : NULL);
        default:
            return UBASE_ERR_UNHANDLED;
        }
    }
    default:
        printf("ev %d\n", event);
        return UBASE_ERR_UNHANDLED;
    }
}

/* ------------------------------------------------------------------- sink */
static struct upipe *sink_alloc(struct upipe_mgr *mgr, struct uprobe *uprobe,
                                uint32_t signature, va_list args)
{
    struct upipe *upipe = malloc(sizeof(struct upipe));
    assert(upipe != NULL);
    upipe_init(upipe, mgr, uprobe);
    return upipe;
}

static void sink_input(struct upipe *upipe, struct uref *uref, struct upump **upump_p)
{
    size_t size = 0;
    uref_block_size(uref, &size);
    uint8_t *buf = malloc(size + 1);
    int r = size ? uref_block_extract(uref, 0, size, buf) : UBASE_ERR_NONE;
    printf("out size=%zu key=%d r=%d b=", size, ubase_check(uref_pic_get_key(uref)) ? 1 : 0, r);
    if (!size)
        printf("-");
    for (size_t i = 0; i < size; i++)
        printf("%02x", buf[i]);
    printf(" l=");
    uint64_t o;
    int n = 0;
    while (n < 64 && ubase_check(uref_h26x_get_nal_offset(uref, &o, n))) {
        printf("%s%" PRIu64, n ? "," : "", o);
        n++;
    }
    if (!n)
        printf("-");
    printf("\n");
    free(buf);
    uref_free(uref);
}

/* deferred flow format answers ("new <enc> defer=<n>") */
static int defer_answer = -1, pending_left;
static bool flow_complete;      /* command complete: the input flow is flagged flow.complete (whole access units per buffer) */
static struct urequest *pending_ff;
static uint8_t out_enc_fwd(void);
static int answer_ff(struct urequest *urequest)
{
    struct uref *uref = uref_dup(urequest->uref);
    assert(uref != NULL);
    uref_flow_delete_global(uref);
    ubase_assert(uref_h26x_flow_set_encaps(uref, out_enc_fwd()));
    return urequest_provide_flow_format(urequest, uref);
}
static void after_input(void)
{
    if (pending_ff == NULL) return;
    if (pending_left > 0) { pending_left--; return; }
    struct urequest *r = pending_ff;
    pending_ff = NULL;
    answer_ff(r);
}

static int sink_control(struct upipe *upipe, int command, va_list args)
{
    switch (command) {
    case UPIPE_SET_FLOW_DEF: {
        struct uref *flow_def = va_arg(args, struct uref *);
        const char *def = "?";
        uint64_t h = 0, v = 0;
        uint8_t enc = 255;
        uref_flow_get_def(flow_def, &def);
        uref_pic_flow_get_hsize(flow_def, &h);
        uref_pic_flow_get_vsize(flow_def, &v);
        uref_h26x_flow_get_encaps(flow_def, &enc);
        printf("fd def=%s hsize=%" PRIu64 " vsize=%" PRIu64 " enc=%d\n", def, h, v, enc);
        return UBASE_ERR_NONE;
    }
    case UPIPE_REGISTER_REQUEST: {
        struct urequest *urequest = va_arg(args, struct urequest *);
        if (urequest->type == UREQUEST_FLOW_FORMAT) {
            if (defer_answer >= 0) {
                /* a sink behind a queue: the answer comes later, after defer_answer more inputs */
                pending_ff = urequest;
                pending_left = defer_answer;
                return UBASE_ERR_NONE;
            }
            return answer_ff(urequest);
        }
        return upipe_throw_provide_request(upipe, urequest);
    }
    case UPIPE_UNREGISTER_REQUEST: {
        struct urequest *urequest = va_arg(args, struct urequest *);
        if (urequest == pending_ff) pending_ff = NULL;
        return UBASE_ERR_NONE;
    }
    default:
        return UBASE_ERR_UNHANDLED;
    }
}

static struct upipe_mgr sink_mgr = {
    .refcount = NULL,
    .upipe_alloc = sink_alloc,
    .upipe_input = sink_input,
    .upipe_control = sink_control
};

/* --------------------------------------------------------------- commands */
static int enc_of(const char *s)
{
    if (!strcmp(s, "annexb")) return UREF_H26X_ENCAPS_ANNEXB;
    if (!strcmp(s, "len1")) return UREF_H26X_ENCAPS_LENGTH1;
    if (!strcmp(s, "len2")) return UREF_H26X_ENCAPS_LENGTH2;
    if (!strcmp(s, "len4")) return UREF_H26X_ENCAPS_LENGTH4;
    if (!strcmp(s, "nalu")) return UREF_H26X_ENCAPS_NALU;
    die("encaps");
    return 0;
}

static uint8_t out_enc_fwd(void) { return out_enc; }
static void cmd_new(const char *enc)
{
    if (framer != NULL) die("framer exists");
    pending_ff = NULL;
    out_enc = enc_of(enc);
    printf("new enc=%s\n", enc);
    sink = upipe_void_alloc(&sink_mgr, uprobe_use(&probe));
    assert(sink != NULL);
    framer = upipe_void_alloc(upipe_h264f_mgr_alloc(), uprobe_use(&probe));
    assert(framer != NULL);
    struct uref *flow_def = uref_block_flow_alloc_def(uref_mgr, "h264.");
    assert(flow_def != NULL);
    ubase_assert(uref_h26x_flow_set_encaps(flow_def, UREF_H26X_ENCAPS_ANNEXB));
    if (flow_complete)
        ubase_assert(uref_flow_set_complete(flow_def));
    int r1 = upipe_set_output(framer, sink);
    int r2 = upipe_set_flow_def(framer, flow_def);
    uref_free(flow_def);
    printf("newr r=%d\n", ubase_check(r1) && ubase_check(r2) ? 0 : 1);
}

static int parse_segs(const char *s, long *out, int max)
{
    int n = 0;
    if (!strcmp(s, "-"))
        return 0;
    const char *p = s;
    while (*p) {
        char *e;
        if (n == max) die("too many segments");
        out[n++] = strtol(p, &e, 10);
        if (e == p) die("segments");
        p = e;
        if (*p == '+') p++;
        else if (*p) die("segments");
    }
    return n;
}

static void cmd_feed(const char *hex, const char *seg)
{
    if (framer == NULL) die("no framer");
    size_t n = strcmp(hex, "-") ? strlen(hex) / 2 : 0;
    uint8_t *buf = malloc(n + 1);
    for (size_t i = 0; i < n; i++) {
        unsigned v;
        if (sscanf(hex + 2 * i, "%2x", &v) != 1) die("hex");
        buf[i] = v;
    }
    long segs[MAXSEG];
    int nseg = parse_segs(seg, segs, MAXSEG);
    if (nseg == 0) {
        segs[0] = n;
        nseg = 1;
    }
    struct ubuf *head = NULL;
    long pos = 0;
    for (int k = 0; k < nseg; k++) {
        struct ubuf *u = ubuf_block_alloc(ubuf_mgr, segs[k]);
        if (u == NULL) die("alloc");
        if (segs[k] > 0) {
            int sz = -1;
            uint8_t *w;
            if (!ubase_check(ubuf_block_write(u, 0, &sz, &w)) || sz != segs[k])
                die("write");
            memcpy(w, buf + pos, segs[k]);
            ubuf_block_unmap(u, 0);
        }
        pos += segs[k];
        if (head == NULL)
            head = u;
        else if (!ubase_check(ubuf_block_append(head, u)))
            die("append");
    }
    if (pos != (long)n) die("segsum");
    free(buf);
    struct uref *uref = uref_alloc(uref_mgr);
    assert(uref != NULL);
    uref_attach_ubuf(uref, head);
    printf("feed n=%zu\n", n);
    upipe_input(framer, uref, NULL);
    after_input();
}

/* one call of the start code scanner over a tight buffer */
static void cmd_mscan(const char *ctxhex, const char *hex)
{
    uint32_t state = strtoul(ctxhex, NULL, 16);
    size_t n = strlen(hex) / 2;
    if (n == 0) die("mscan: empty buffer");
    uint8_t *buf = malloc(n);
    for (size_t i = 0; i < n; i++) {
        unsigned v;
        if (sscanf(hex + 2 * i, "%2x", &v) != 1) die("hex");
        buf[i] = v;
    }
    const uint8_t *p = upipe_framers_mpeg_scan(buf, buf + n, &state);
    printf("mscan p=%ld c=%08x\n", (long)(p - buf), state);
    free(buf);
}

static void cmd_release(void)
{
    if (framer == NULL) die("no framer");
    /* an answer still on its way arrives before the application lets go */
    pending_left = 0;
    after_input();
    printf("release\n");
    upipe_release(framer);
    framer = NULL;
    upipe_release(sink);
    sink = NULL;
}

/* ------------------------------------------------------------ interpreter */
static char **lines;
static long nlines;

static void do_line(char *line)
{
    char *tok[8];
    int ntok = 0;
    char *sv = NULL;
    for (char *t = strtok_r(line, " \t\r\n", &sv); t != NULL && ntok < 8;
         t = strtok_r(NULL, " \t\r\n", &sv))
        tok[ntok++] = t;
    if (!ntok)
        return;
    if (!strcmp(tok[0], "exec")) {
        if (framer != NULL)
            cmd_release();
        defer_answer = -1;
        flow_complete = false;
        /* a loop that does not end in the code under test ends the execution
         * (SIGALRM: reported as a "san" event of kind signal) */
        alarm(25);
        printf("exec %s\n", ntok > 1 ? tok[1] : "?");
    } else if (!strcmp(tok[0], "end")) {
        if (framer != NULL)
            cmd_release();
        printf("end\n");
    } else if (!strcmp(tok[0], "new") && ntok == 2)
        cmd_new(tok[1]);
    else if (!strcmp(tok[0], "defer") && ntok == 2)
        defer_answer = atoi(tok[1]);     /* -1: the sink answers from inside register_request */
    else if (!strcmp(tok[0], "complete"))
        flow_complete = true;            /* (before new) */
    else if (!strcmp(tok[0], "feed") && ntok == 3)
        cmd_feed(tok[1], tok[2]);
    else if (!strcmp(tok[0], "release"))
        cmd_release();
    else if (!strcmp(tok[0], "mscan") && ntok == 3)
        cmd_mscan(tok[1], tok[2]);
    else
        die("command");
    fflush(stdout);
}

/* keep what is stable in a sanitizer / assert message */
static void report_san(const char *err, int status)
{
    char kind[32] = "signal", where[128] = "?", msg[256] = "";
    const char *p;
    if ((p = strstr(err, "runtime error: ")) != NULL) {
        strcpy(kind, "ubsan");
        const char *b = p;
        while (b > err && b[-1] != '\n') b--;
        const char *slash = b;
        for (const char *q = b; q < p; q++) if (*q == '/') slash = q + 1;
        size_t n = strcspn(slash, ":");
        snprintf(where, sizeof(where), "%.*s", (int)(n < 100 ? n : 100), slash);
        snprintf(msg, sizeof(msg), "%.*s", (int)strcspn(p + 15, "\n"), p + 15);
    } else if ((p = strstr(err, "AddressSanitizer: ")) != NULL) {
        strcpy(kind, "asan");
        size_t n = strcspn(p + 18, " \n");
        const char *rw = strstr(p, "WRITE of size") ? "WRITE" :
                         strstr(p, "READ of size") ? "READ" : "";
        snprintf(msg, sizeof(msg), "%.*s %s", (int)n, p + 18, rw);
        const char *f = strstr(p, "#0 ");
        if (f != NULL && (f = strstr(f, " in ")) != NULL) {
            f += 4;
            snprintf(where, sizeof(where), "%.*s", (int)strcspn(f, " \n"), f);
        }
    } else if ((p = strstr(err, "Assertion")) != NULL) {
        strcpy(kind, "assert");
        snprintf(msg, sizeof(msg), "%.*s", (int)strcspn(p, "\n"), p);
        const char *b = p;
        while (b > err && b[-1] != '\n') b--;
        const char *c1 = strchr(b, ':');
        if (c1 != NULL && c1 < p) {
            const char *f = c1 + 2;
            const char *slash = f;
            for (const char *q = f; q < p && *q != ':'; q++) if (*q == '/') slash = q + 1;
            size_t n = strcspn(slash, ":");
            snprintf(where, sizeof(where), "%.*s", (int)(n < 100 ? n : 100), slash);
        }
    } else if (WIFSIGNALED(status) && WTERMSIG(status) == SIGALRM) {
        strcpy(kind, "hang");       /* the execution did not end in time */
        snprintf(msg, sizeof(msg), "no end after the time allowed for one execution");
    } else
        snprintf(msg, sizeof(msg), "status %d", status);
    for (char *q = msg; *q; q++)
        if (*q == '"' || *q == '\\' || *q == '\'' || *q == '`' || (unsigned char)*q < 32 || (unsigned char)*q > 126)
            *q = ' ';
    for (char *q = where; *q; q++)
        if (*q == '"' || *q == '\\' || (unsigned char)*q < 32 || (unsigned char)*q > 126)
            *q = ' ';
    printf("san {\"kind\":\"%s\",\"where\":\"%s\",\"msg\":\"%s\"}\n", kind, where, msg);
    printf("end\n");
    fflush(stdout);
}

int main(int argc, char **argv)
{
    size_t capl = 1024;
    lines = malloc(capl * sizeof(char *));
    char *l = NULL;
    size_t ln = 0;
    while (getline(&l, &ln, stdin) > 0) {
        if ((size_t)nlines == capl)
            lines = realloc(lines, (capl *= 2) * sizeof(char *));
        lines[nlines++] = strdup(l);
    }
    free(l);

    long *cur = mmap(NULL, sizeof(long), PROT_READ | PROT_WRITE,
                     MAP_SHARED | MAP_ANONYMOUS, -1, 0);
    assert(cur != MAP_FAILED);
    long start = 0;
    while (start < nlines) {
        int pe[2];
        if (pipe(pe) != 0) return 2;
        fflush(stdout);
        *cur = start;
        pid_t pid = fork();
        if (pid < 0) return 2;
        if (pid == 0) {
            close(pe[0]);
            dup2(pe[1], 2);
            close(pe[1]);
            alarm(120);
            umem_mgr = umem_alloc_mgr_alloc();
            assert(umem_mgr != NULL);
            udict_mgr = udict_inline_mgr_alloc(0, umem_mgr, -1, -1);
            assert(udict_mgr != NULL);
            uref_mgr = uref_std_mgr_alloc(0, udict_mgr, 0);
            assert(uref_mgr != NULL);
            /* tight buffers: no prepend/append room, alignment 1 */
            ubuf_mgr = ubuf_block_mem_mgr_alloc(0, 0, umem_mgr, 0, 0, 1, 0);
            assert(ubuf_mgr != NULL);
            uprobe_init(&probe, catch, NULL);
            for (long i = start; i < nlines; i++) {
                if (!strncmp(lines[i], "exec", 4))
                    *cur = i;
                do_line(lines[i]);
            }
            fflush(stdout);
            _exit(0);
        }
        close(pe[1]);
        static char err[65536];
        size_t eo = 0;
        ssize_t rd;
        while (eo < sizeof(err) - 1 &&
               (rd = read(pe[0], err + eo, sizeof(err) - 1 - eo)) > 0)
            eo += rd;
        err[eo] = 0;
        char dump[4096];
        while (read(pe[0], dump, sizeof(dump)) > 0);
        close(pe[0]);
        int status = 0;
        waitpid(pid, &status, 0);
        if (WIFEXITED(status) && WEXITSTATUS(status) == 0)
            break;
        if (WIFEXITED(status) && WEXITSTATUS(status) == 3) {
            fprintf(stderr, "replay_nal_h264f: script error\n%s", err);
            return 3;
        }
        report_san(err, status);
        long i = *cur + 1;
        while (i < nlines && strncmp(lines[i], "exec", 4))
            i++;
        start = i;
    }
    return 0;
}
