/* registry of pipe types and their options (see pipe_registry.h) */
#include <stdio.h>
#include <stdlib.h>
#include <string.h>
#include <inttypes.h>
#include "pipe_registry.h"
#include "upipe/uref_std.h"
#include "upipe/uref_attr.h"
#include "upipe/uref_flow.h"
#include "upipe/uclock_std.h"
#include "upipe-modules/upipe_idem.h"
#include "upipe-modules/upipe_dup.h"
#include "upipe-modules/upipe_setattr.h"
#include "upipe-modules/upipe_setflowdef.h"
#include "upipe-modules/upipe_probe_uref.h"
#include "upipe-modules/upipe_skip.h"
#include "upipe-modules/upipe_htons.h"
#include "upipe-modules/upipe_delay.h"
#include "upipe-modules/upipe_match_attr.h"
#include "upipe-modules/upipe_null.h"
#include "upipe-modules/upipe_aggregate.h"
#include "upipe-modules/upipe_chunk_stream.h"
#include "upipe-modules/upipe_setrap.h"
#include "upipe-modules/upipe_noclock.h"
#include "upipe-modules/upipe_nodemux.h"
#include "upipe-modules/upipe_genaux.h"
#include "upipe-modules/upipe_convert_to_block.h"

const char *registry_pending;

static const struct pipe_type types[] = {
    { "idem", upipe_idem_mgr_alloc, NULL, NULL },
    { "dup", upipe_dup_mgr_alloc, NULL, NULL },
    { "setattr", upipe_setattr_mgr_alloc, NULL, NULL },
    { "setflowdef", upipe_setflowdef_mgr_alloc, NULL, NULL },
    { "probe_uref", upipe_probe_uref_mgr_alloc, NULL, NULL },
    { "skip", upipe_skip_mgr_alloc, NULL, NULL },
    { "htons", upipe_htons_mgr_alloc, NULL, NULL },
    { "delay", upipe_delay_mgr_alloc, NULL, NULL },
    { "match_attr", upipe_match_attr_mgr_alloc, NULL, NULL },
    { "null", upipe_null_mgr_alloc, NULL, NULL },
    { "agg", upipe_agg_mgr_alloc, NULL, NULL },
    { "chunk_stream", upipe_chunk_stream_mgr_alloc, NULL, NULL },
    { "setrap", upipe_setrap_mgr_alloc, NULL, NULL },
    { "noclock", upipe_noclock_mgr_alloc, NULL, NULL },
    { "nodemux", upipe_nodemux_mgr_alloc, NULL, NULL },
    { "genaux", upipe_genaux_mgr_alloc, NULL, NULL },
    { "tblk", upipe_tblk_mgr_alloc, NULL, NULL },
    { NULL, NULL, NULL, NULL }
};

void registry_init(void) { }
struct uclock *registry_uclock(void) { return uclock_std_alloc(0); }

/* extension files (pd_ext_*.c) may define their own pipe types and options
 * through these weak hooks instead of editing this file */
__attribute__((weak)) const struct pipe_type *pd_types_a(const char *name);
__attribute__((weak)) const struct pipe_type *pd_types_b(const char *name);
__attribute__((weak)) const struct pipe_type *pd_types_c(const char *name);
__attribute__((weak)) const struct pipe_type *pd_types_d(const char *name);
__attribute__((weak)) const struct pipe_type *pd_types_e(const char *name);
__attribute__((weak)) const struct pipe_type *pd_types_f(const char *name);
__attribute__((weak)) const struct pipe_type *pd_types_g(const char *name);
__attribute__((weak)) const struct pipe_type *pd_types_h(const char *name);
__attribute__((weak)) const struct pipe_type *pd_types_i(const char *name);
__attribute__((weak)) const struct pipe_type *pd_types_j(const char *name);
__attribute__((weak)) const struct pipe_type *pd_types_k(const char *name);
__attribute__((weak)) const struct pipe_type *pd_types_l(const char *name);
/* return true if the option was handled (and the "ret" line printed) */
__attribute__((weak)) bool pd_option_a(struct upipe *, const struct pipe_type *, bool set, const char *name, const char *value);
__attribute__((weak)) bool pd_option_b(struct upipe *, const struct pipe_type *, bool set, const char *name, const char *value);
__attribute__((weak)) bool pd_option_c(struct upipe *, const struct pipe_type *, bool set, const char *name, const char *value);
__attribute__((weak)) bool pd_option_d(struct upipe *, const struct pipe_type *, bool set, const char *name, const char *value);
__attribute__((weak)) bool pd_option_e(struct upipe *, const struct pipe_type *, bool set, const char *name, const char *value);
__attribute__((weak)) bool pd_option_f(struct upipe *, const struct pipe_type *, bool set, const char *name, const char *value);
__attribute__((weak)) bool pd_option_g(struct upipe *, const struct pipe_type *, bool set, const char *name, const char *value);
__attribute__((weak)) bool pd_option_h(struct upipe *, const struct pipe_type *, bool set, const char *name, const char *value);
__attribute__((weak)) bool pd_option_i(struct upipe *, const struct pipe_type *, bool set, const char *name, const char *value);
__attribute__((weak)) bool pd_option_j(struct upipe *, const struct pipe_type *, bool set, const char *name, const char *value);
__attribute__((weak)) bool pd_option_k(struct upipe *, const struct pipe_type *, bool set, const char *name, const char *value);
__attribute__((weak)) bool pd_option_l(struct upipe *, const struct pipe_type *, bool set, const char *name, const char *value);

const struct pipe_type *registry_find(const char *name)
{
    for (int i = 0; types[i].name; i++)
        if (!strcmp(types[i].name, name)) return &types[i];
    const struct pipe_type *t;
    if (pd_types_a && (t = pd_types_a(name))) return t;
    if (pd_types_b && (t = pd_types_b(name))) return t;
    if (pd_types_c && (t = pd_types_c(name))) return t;
    if (pd_types_d && (t = pd_types_d(name))) return t;
    if (pd_types_e && (t = pd_types_e(name))) return t;
    if (pd_types_f && (t = pd_types_f(name))) return t;
    if (pd_types_g && (t = pd_types_g(name))) return t;
    if (pd_types_h && (t = pd_types_h(name))) return t;
    if (pd_types_i && (t = pd_types_i(name))) return t;
    if (pd_types_j && (t = pd_types_j(name))) return t;
    if (pd_types_k && (t = pd_types_k(name))) return t;
    if (pd_types_l && (t = pd_types_l(name))) return t;
    return NULL;
}

static struct uref *dict_from_value(const char *value)
{
    /* value: "k=v" sets string attribute x.<k> = v ; "none" -> NULL dict */
    if (value == NULL || !strcmp(value, "none")) return NULL;
    struct uref *d = uref_alloc_control(g_uref);
    char name[64];
    const char *eq = strchr(value, '=');
    if (eq) {
        snprintf(name, sizeof(name), "x.%.*s", (int)(eq - value), value);
        uref_attr_set_string(d, eq + 1, UDICT_TYPE_STRING, name);
    } else
        uref_attr_set_string(d, value, UDICT_TYPE_STRING, "x.tag");
    return d;
}

static void print_dict(struct uref *d)
{
    if (d == NULL || d->udict == NULL) { printf("ret 0 none\n"); return; }
    const char *v = NULL;
    if (ubase_check(uref_attr_get_string(d, &v, UDICT_TYPE_STRING, "x.tag"))) printf("ret 0 %s\n", v);
    else printf("ret 0 dict\n");
}

void registry_option(struct upipe *upipe, const struct pipe_type *type, bool set,
                     const char *name, const char *value)
{
    if (pd_option_a && pd_option_a(upipe, type, set, name, value)) return;
    if (pd_option_b && pd_option_b(upipe, type, set, name, value)) return;
    if (pd_option_c && pd_option_c(upipe, type, set, name, value)) return;
    if (pd_option_d && pd_option_d(upipe, type, set, name, value)) return;
    if (pd_option_e && pd_option_e(upipe, type, set, name, value)) return;
    if (pd_option_f && pd_option_f(upipe, type, set, name, value)) return;
    if (pd_option_g && pd_option_g(upipe, type, set, name, value)) return;
    if (pd_option_h && pd_option_h(upipe, type, set, name, value)) return;
    if (pd_option_i && pd_option_i(upipe, type, set, name, value)) return;
    if (pd_option_j && pd_option_j(upipe, type, set, name, value)) return;
    if (pd_option_k && pd_option_k(upipe, type, set, name, value)) return;
    if (pd_option_l && pd_option_l(upipe, type, set, name, value)) return;
    const char *t = type ? type->name : "";
    int err = UBASE_ERR_UNHANDLED;
    if (!strcmp(t, "skip") && !strcmp(name, "offset")) {
        if (set) err = upipe_skip_set_offset(upipe, strtoull(value, NULL, 10));
        else { size_t v = 777777; err = upipe_skip_get_offset(upipe, &v); if (ubase_check(err)) { printf("ret 0 %zu\n", v); return; } }
    } else if (!strcmp(t, "delay") && !strcmp(name, "delay")) {
        if (set) err = upipe_delay_set_delay(upipe, strtoll(value, NULL, 10));
        else { int64_t v = 777777; err = upipe_delay_get_delay(upipe, &v); if (ubase_check(err)) { printf("ret 0 %" PRId64 "\n", v); return; } }
    } else if (!strcmp(t, "chunk_stream") && !strcmp(name, "mtu")) {
        /* value: mtu,align */
        if (set) { unsigned m = 0, a = 1; sscanf(value, "%u,%u", &m, &a); err = upipe_chunk_stream_set_mtu(upipe, m, a); }
        else { unsigned m = 777777, a = 777777; err = upipe_chunk_stream_get_mtu(upipe, &m, &a); if (ubase_check(err)) { printf("ret 0 %u,%u\n", m, a); return; } }
    } else if (!strcmp(name, "output_size")) {
        if (set) err = upipe_set_output_size(upipe, atoi(value));
        else { unsigned v = 777777; err = upipe_get_output_size(upipe, &v); if (ubase_check(err)) { printf("ret 0 %u\n", v); return; } }
    } else if (!strcmp(t, "setattr") && !strcmp(name, "dict")) {
        if (set) { struct uref *d = dict_from_value(value); err = upipe_setattr_set_dict(upipe, d); uref_free(d); }
        else { struct uref *d = NULL; err = upipe_setattr_get_dict(upipe, &d); if (ubase_check(err)) { print_dict(d); return; } }
    } else if (!strcmp(t, "setflowdef") && !strcmp(name, "dict")) {
        if (set) { struct uref *d = dict_from_value(value); err = upipe_setflowdef_set_dict(upipe, d); uref_free(d); }
        else { struct uref *d = NULL; err = upipe_setflowdef_get_dict(upipe, &d); if (ubase_check(err)) { print_dict(d); return; } }
    } else if (!strcmp(t, "match_attr") && !strcmp(name, "uint64")) {
        /* not a getter/setter pair; used to configure the filter: value = min,max on x.id */
        err = UBASE_ERR_UNHANDLED;
    } else if (!strcmp(name, "max_length")) {
        if (set) err = upipe_set_max_length(upipe, atoi(value));
        else { unsigned v = 777777; err = upipe_get_max_length(upipe, &v); if (ubase_check(err)) { printf("ret 0 %u\n", v); return; } }
    }
    printf("ret %d\n", err);
}

/* extension commands live in optional files harness/pd_ext_<x>.c which define
 * one of these (weak) functions; each returns true if it handled the command
 * (and printed the "ret" line) */
__attribute__((weak)) bool pd_ext_a(int nt, char **tok);
__attribute__((weak)) bool pd_ext_b(int nt, char **tok);
__attribute__((weak)) bool pd_ext_c(int nt, char **tok);
__attribute__((weak)) bool pd_ext_d(int nt, char **tok);
__attribute__((weak)) bool pd_ext_e(int nt, char **tok);
__attribute__((weak)) bool pd_ext_f(int nt, char **tok);
__attribute__((weak)) bool pd_ext_g(int nt, char **tok);
__attribute__((weak)) bool pd_ext_h(int nt, char **tok);
__attribute__((weak)) bool pd_ext_i(int nt, char **tok);
__attribute__((weak)) bool pd_ext_j(int nt, char **tok);
__attribute__((weak)) bool pd_ext_k(int nt, char **tok);
__attribute__((weak)) bool pd_ext_l(int nt, char **tok);

bool registry_command(int nt, char **tok)
{
    if (pd_ext_a && pd_ext_a(nt, tok)) return true;
    if (pd_ext_b && pd_ext_b(nt, tok)) return true;
    if (pd_ext_c && pd_ext_c(nt, tok)) return true;
    if (pd_ext_d && pd_ext_d(nt, tok)) return true;
    if (pd_ext_e && pd_ext_e(nt, tok)) return true;
    if (pd_ext_f && pd_ext_f(nt, tok)) return true;
    if (pd_ext_g && pd_ext_g(nt, tok)) return true;
    if (pd_ext_h && pd_ext_h(nt, tok)) return true;
    if (pd_ext_i && pd_ext_i(nt, tok)) return true;
    if (pd_ext_j && pd_ext_j(nt, tok)) return true;
    if (pd_ext_k && pd_ext_k(nt, tok)) return true;
    if (pd_ext_l && pd_ext_l(nt, tok)) return true;
    return false;
}
