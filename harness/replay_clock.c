/*
 * C11 - replays operation scripts on REAL urefs (uref_std manager) through the
 * uref_clock_* API of include/upipe/uref_clock.h and prints what the code
 * returns.  No oracle here: the expected results come from TLC
 * (spec/UrefClock.tla) and are compared / validated by checks/c11.py.
 *
 * stdin, one command per line (values in hexadecimal, 64 bits):
 *   reset                      free the uref, uref_alloc a fresh one
 *   audit 0|1                  print all getters after each command (default 1)
 *   setdate <dom> <ty> <v>     uref_clock_set_{cr,dts,pts}_<dom>   ty 1=cr 2=dts 3=pts
 *   rebase <dom> <ty>          uref_clock_rebase_{cr,dts,pts}_<dom>
 *   delete <dom>               uref_clock_delete_date_<dom>
 *   add <dom> <v>              uref_clock_add_date_<dom>((int64_t)v)
 *   setdelay <which> <v>       uref_clock_set_{dts_pts,cr_dts,rap_cr}_delay
 *   deldelay <which>           uref_clock_delete_..._delay
 *   setrap <dom> <v>           uref_clock_set_rap_<dom>
 *   dup copy|orig              uref_dup; go on with the copy / with the original
 *   flag <which>               set / delete / copy of a void attribute kept in uref->flags (set_disc del_disc
 *                              del_end set_random del_random set_start del_start del_ref copy_end copy_ref)
 *   get <dom> <ty>             uref_clock_get_{cr,dts,pts,rap}_<dom>   ty 4=rap
 *   getdelay <which>           uref_clock_get_..._delay
 * dom = sys|prog|orig, which = dtsPts|crDts|rapCr.
 *
 * stdout, one line per command:  <ret> <value> | g1 ... g15
 *   ret = ok | err | - (void function), value = hex | -,
 *   g = cr dts pts rap of sys, of prog, of orig, then dtsPts crDts rapCr
 *   (hex, or - when the getter returns an error; "| *" when audit is off).
 */
#include <stdio.h>
#include <stdlib.h>
#include <string.h>
#include <inttypes.h>
#include <signal.h>
#include <unistd.h>
#include <sys/time.h>

#include "upipe/ubase.h"
#include "upipe/umem.h"
#include "upipe/umem_alloc.h"
#include "upipe/udict.h"
#include "upipe/udict_inline.h"
#include "upipe/uref.h"
#include "upipe/uref_std.h"
#include "upipe/uref_clock.h"
#include "upipe/uref_flow.h"
#include "upipe/uref_block.h"

typedef void (*set_f)(struct uref *, uint64_t);
typedef int (*get_f)(struct uref *, uint64_t *);
typedef int (*rebase_f)(struct uref *);
typedef void (*del_f)(struct uref *);
typedef void (*add_f)(struct uref *, int64_t);
typedef int (*setrap_f)(struct uref *, uint64_t);

/* [dom][type - 1] */
static const set_f set_tab[3][3] = {
    { uref_clock_set_cr_sys, uref_clock_set_dts_sys, uref_clock_set_pts_sys },
    { uref_clock_set_cr_prog, uref_clock_set_dts_prog, uref_clock_set_pts_prog },
    { uref_clock_set_cr_orig, uref_clock_set_dts_orig, uref_clock_set_pts_orig },
};
static const get_f get_tab[3][4] = {
    { uref_clock_get_cr_sys, uref_clock_get_dts_sys, uref_clock_get_pts_sys,
      uref_clock_get_rap_sys },
    { uref_clock_get_cr_prog, uref_clock_get_dts_prog, uref_clock_get_pts_prog,
      uref_clock_get_rap_prog },
    { uref_clock_get_cr_orig, uref_clock_get_dts_orig, uref_clock_get_pts_orig,
      uref_clock_get_rap_orig },
};
static const rebase_f rebase_tab[3][3] = {
    { uref_clock_rebase_cr_sys, uref_clock_rebase_dts_sys, uref_clock_rebase_pts_sys },
    { uref_clock_rebase_cr_prog, uref_clock_rebase_dts_prog, uref_clock_rebase_pts_prog },
    { uref_clock_rebase_cr_orig, uref_clock_rebase_dts_orig, uref_clock_rebase_pts_orig },
};
static const del_f del_tab[3] = {
    uref_clock_delete_date_sys, uref_clock_delete_date_prog, uref_clock_delete_date_orig
};
static const add_f add_tab[3] = {
    uref_clock_add_date_sys, uref_clock_add_date_prog, uref_clock_add_date_orig
};
static const setrap_f setrap_tab[3] = {
    uref_clock_set_rap_sys, uref_clock_set_rap_prog, uref_clock_set_rap_orig
};
/* delays: dtsPts crDts rapCr */
static const set_f dset_tab[3] = {
    uref_clock_set_dts_pts_delay, uref_clock_set_cr_dts_delay, uref_clock_set_rap_cr_delay
};
static const get_f dget_tab[3] = {
    uref_clock_get_dts_pts_delay, uref_clock_get_cr_dts_delay, uref_clock_get_rap_cr_delay
};
static const del_f ddel_tab[3] = {
    uref_clock_delete_dts_pts_delay, uref_clock_delete_cr_dts_delay,
    uref_clock_delete_rap_cr_delay
};

static int dom_of(const char *s)
{
    if (!strcmp(s, "sys")) return 0;
    if (!strcmp(s, "prog")) return 1;
    if (!strcmp(s, "orig")) return 2;
    return -1;
}

static int delay_of(const char *s)
{
    if (!strcmp(s, "dtsPts")) return 0;
    if (!strcmp(s, "crDts")) return 1;
    if (!strcmp(s, "rapCr")) return 2;
    return -1;
}

static void fail(const char *why, const char *line)
{
    fprintf(stderr, "replay_clock: %s: %s\n", why, line);
    exit(3);
}

static void print_get(int err, uint64_t v)
{
    if (ubase_check(err))
        printf(" %" PRIx64, v);
    else
        printf(" -");
}

static void audit(struct uref *uref)
{
    for (int d = 0; d < 3; d++)
        for (int t = 0; t < 4; t++) {
            uint64_t v = 0x5a5a5a5a5a5a5a5aULL;
            int err = get_tab[d][t](uref, &v);
            print_get(err, v);
        }
    for (int w = 0; w < 3; w++) {
        uint64_t v = 0x5a5a5a5a5a5a5a5aULL;
        int err = dget_tab[w](uref, &v);
        print_get(err, v);
    }
}

/* a command of the code under test that does not return must cost seconds and
 * be attributable: every command runs under a CPU-time timer (ITIMER_PROF: the
 * accessors never block, a command that does not return is a busy loop, and CPU
 * time is immune to the load of the machine) with a long wall-clock alarm as a
 * backstop; on expiry: exit status 5 and no result line for that command.
 * Results are flushed command by command. */
static void on_alarm(int sig)
{
    (void)sig;
    _exit(5);
}

static void arm(unsigned cpu_s, unsigned wall_s)
{
    struct itimerval it = { { 0, 0 }, { cpu_s, 0 } };
    setitimer(ITIMER_PROF, &it, NULL);
    alarm(wall_s);
}

int main(void)
{
    unsigned alarm_s = 2;           /* CPU seconds per command */
    if (getenv("REPLAY_ALARM_S") != NULL && atoi(getenv("REPLAY_ALARM_S")) > 0)
        alarm_s = atoi(getenv("REPLAY_ALARM_S"));
    signal(SIGALRM, on_alarm);
    signal(SIGPROF, on_alarm);
    struct umem_mgr *umem_mgr = umem_alloc_mgr_alloc();
    struct udict_mgr *udict_mgr = udict_inline_mgr_alloc(2, umem_mgr, -1, -1);
    /* pool depth 2: urefs are recycled, so a dup that forgets a field shows
     * the stale content of an earlier uref */
    struct uref_mgr *mgr = uref_std_mgr_alloc(2, udict_mgr, 0);
    if (umem_mgr == NULL || udict_mgr == NULL || mgr == NULL)
        fail("manager allocation", "");
    struct uref *uref = uref_alloc(mgr);
    if (uref == NULL)
        fail("uref_alloc", "");
    int do_audit = 1;

    char line[256];
    while (fgets(line, sizeof(line), stdin) != NULL) {
        char cmd[32] = "", a1[32] = "", a2[32] = "", a3[32] = "";
        int n = sscanf(line, "%31s %31s %31s %31s", cmd, a1, a2, a3);
        if (n < 1 || cmd[0] == '#')
            continue;
        const char *ret = "-";
        int has_val = 0;
        uint64_t val = 0;
        arm(alarm_s, 60);

        if (!strcmp(cmd, "reset")) {
            uref_free(uref);
            uref = uref_alloc(mgr);
            if (uref == NULL)
                fail("uref_alloc", line);
        } else if (!strcmp(cmd, "audit")) {
            do_audit = atoi(a1);
            continue;
        } else if (!strcmp(cmd, "setdate")) {
            int d = dom_of(a1), t = atoi(a2);
            if (n != 4 || d < 0 || t < 1 || t > 3) fail("bad command", line);
            set_tab[d][t - 1](uref, strtoull(a3, NULL, 16));
        } else if (!strcmp(cmd, "rebase")) {
            int d = dom_of(a1), t = atoi(a2);
            if (n != 3 || d < 0 || t < 1 || t > 3) fail("bad command", line);
            ret = ubase_check(rebase_tab[d][t - 1](uref)) ? "ok" : "err";
        } else if (!strcmp(cmd, "delete")) {
            int d = dom_of(a1);
            if (n != 2 || d < 0) fail("bad command", line);
            del_tab[d](uref);
        } else if (!strcmp(cmd, "add")) {
            int d = dom_of(a1);
            if (n != 3 || d < 0) fail("bad command", line);
            add_tab[d](uref, (int64_t)strtoull(a2, NULL, 16));
        } else if (!strcmp(cmd, "setdelay")) {
            int w = delay_of(a1);
            if (n != 3 || w < 0) fail("bad command", line);
            dset_tab[w](uref, strtoull(a2, NULL, 16));
        } else if (!strcmp(cmd, "deldelay")) {
            int w = delay_of(a1);
            if (n != 2 || w < 0) fail("bad command", line);
            ddel_tab[w](uref);
        } else if (!strcmp(cmd, "setrap")) {
            int d = dom_of(a1);
            if (n != 3 || d < 0) fail("bad command", line);
            ret = ubase_check(setrap_tab[d](uref, strtoull(a2, NULL, 16))) ?
                  "ok" : "err";
        } else if (!strcmp(cmd, "flag")) {
            /* the void attributes that live in uref->flags, next to the date types */
            if (n != 2) fail("bad command", line);
            if (!strcmp(a1, "set_disc")) uref_flow_set_discontinuity(uref);
            else if (!strcmp(a1, "del_disc")) uref_flow_delete_discontinuity(uref);
            else if (!strcmp(a1, "del_end")) uref_flow_delete_end(uref);
            else if (!strcmp(a1, "set_random")) uref_flow_set_random(uref);
            else if (!strcmp(a1, "del_random")) uref_flow_delete_random(uref);
            else if (!strcmp(a1, "set_start")) uref_block_set_start(uref);
            else if (!strcmp(a1, "del_start")) uref_block_delete_start(uref);
            else if (!strcmp(a1, "del_ref")) uref_clock_delete_ref(uref);
            else if (!strcmp(a1, "copy_end") || !strcmp(a1, "copy_ref")) {
                struct uref *other = uref_alloc(uref->mgr);
                if (other == NULL) fail("uref_alloc", line);
                if (!strcmp(a1, "copy_end")) uref_block_copy_end(uref, other);
                else uref_clock_copy_ref(uref, other);
                uref_free(other);
            } else
                fail("bad command", line);
        } else if (!strcmp(cmd, "dup")) {
            struct uref *copy = uref_dup(uref);
            if (copy == NULL) fail("uref_dup", line);
            if (!strcmp(a1, "copy")) {
                uref_free(uref);
                uref = copy;
            } else if (!strcmp(a1, "orig")) {
                uref_free(copy);
            } else
                fail("bad command", line);
        } else if (!strcmp(cmd, "get")) {
            int d = dom_of(a1), t = atoi(a2);
            if (n != 3 || d < 0 || t < 1 || t > 4) fail("bad command", line);
            uint64_t v = 0x5a5a5a5a5a5a5a5aULL;
            int err = get_tab[d][t - 1](uref, &v);
            ret = ubase_check(err) ? "ok" : "err";
            if (ubase_check(err)) {
                has_val = 1;
                val = v;
            }
        } else if (!strcmp(cmd, "getdelay")) {
            int w = delay_of(a1);
            if (n != 2 || w < 0) fail("bad command", line);
            uint64_t v = 0x5a5a5a5a5a5a5a5aULL;
            int err = dget_tab[w](uref, &v);
            ret = ubase_check(err) ? "ok" : "err";
            if (ubase_check(err)) {
                has_val = 1;
                val = v;
            }
        } else
            fail("unknown command", line);

        printf("%s", ret);
        if (has_val)
            printf(" %" PRIx64, val);
        else
            printf(" -");
        printf(" |");
        if (do_audit)
            audit(uref);
        else
            printf(" *");
        printf("\n");
        fflush(stdout);
        arm(0, 0);
    }
    fflush(stdout);

    uref_free(uref);
    uref_mgr_release(mgr);
    udict_mgr_release(udict_mgr);
    umem_mgr_release(umem_mgr);
    return 0;
}
