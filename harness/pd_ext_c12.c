/* pd_ext_c12: extension of harness/pipe_driver.c for C12 (requests travel
 * downstream, answers travel back).  Everything here is reached through the
 * weak hooks with letter e (pd_types_e, pd_option_e, pd_ext_e).
 *
 * Pipe types (command "new <name> <type>")
 *   qsrc       upipe_queue_source (length 8) living on mock event loop B
 *   qsink      upipe_queue_sink pushing into the most recent qsrc, on loop A
 *   idem_um    upipe_idem whose probe chain starts with the REAL uprobe_uref_mgr
 *   idem_ub    ... with the REAL uprobe_ubuf_mem
 *   idem_uc    ... with the REAL uprobe_uclock
 *   vreq       a pipe made only of the repository's helper macros
 *              UPIPE_HELPER_OUTPUT + UPIPE_HELPER_UREF_MGR / UBUF_MGR / UCLOCK /
 *              FLOW_FORMAT: it forwards upstream requests (proxies) and holds
 *              up to four requests OF ITS OWN, registered through the helpers
 *   vreqi      same, and its control function starts with the helper's
 *              control_ubuf_mgr (ubuf_mgr / flow_format requests from upstream
 *              are thrown to its probe instead of being forwarded)
 *   ts_align   the repository's bin pipe upipe_ts_align (bin_input/bin_output
 *              helpers; with flow def block.mpegts. its inner pipe is an idem)
 *   rsink      recording sink like the driver's "sink", but living in the pipe
 *              table and naming requests THROUGH a queue (a queue request
 *              counts as one proxy level); option reqmode hold|throw|refuse
 *
 * Commands
 *   ownreq rM <type> pN     name the own request of type <type> of vreq pipe pN
 *   require pN <type>       pN (vreq) calls the helper's require_<type>()
 *   xprovide sN rM          rsink sN answers request rM (must be held there)
 *   loop A|B                one iteration of mock event loop A / B  -> ret <dispatched>
 *   xreset                  checks that every pipe is dead, wipes the object tables
 *                           (so that one process can run many scripts)
 *
 * Extra output lines
 *   reqcb rM provided <what>   also printed when the call-back of an own request
 *                              of a vreq pipe is invoked (a trampoline installed
 *                              at registration; the helper's function runs next)
 */
#include <stdio.h>
#include <stdlib.h>
#include <string.h>
#include <inttypes.h>
#include <assert.h>

#include "upipe/ubase.h"
#include "upipe/ulist.h"
#include "upipe/uprobe.h"
#include "upipe/uprobe_upump_mgr.h"
#include "upipe/uprobe_uref_mgr.h"
#include "upipe/uprobe_ubuf_mem.h"
#include "upipe/uprobe_uclock.h"
#include "upipe/uref.h"
#include "upipe/uref_flow.h"
#include "upipe/ubuf.h"
#include "upipe/uclock.h"
#include "upipe/upump.h"
#include "upipe/urequest.h"
#include "upipe/upipe.h"
#include "upipe/upipe_helper_upipe.h"
#include "upipe/upipe_helper_urefcount.h"
#include "upipe/upipe_helper_void.h"
#include "upipe/upipe_helper_output.h"
#include "upipe/upipe_helper_uref_mgr.h"
#include "upipe/upipe_helper_ubuf_mgr.h"
#include "upipe/upipe_helper_uclock.h"
#include "upipe/upipe_helper_flow_format.h"
#include "upipe-modules/upipe_idem.h"
#include "upipe-modules/upipe_queue_sink.h"
#include "upipe-modules/upipe_queue_source.h"
#include "upipe-ts/upipe_ts_align.h"
#include "lib/upipe-modules/upipe_queue.h"

#include "pipe_driver.h"
#include "vloop.h"

/* ------------------------------------------------------------ event loops */
static struct upump_mgr *loops[2];
static struct upump_mgr *loop_get(int k)
{
    if (loops[k] == NULL) loops[k] = vloop_mgr_alloc();
    return loops[k];
}

static struct upipe *last_qsrc;

/* ------------------------------------------------------------ wrapper managers
 * "new" only knows void / flow allocation: these managers translate a void
 * allocation into the real allocation call (the pipe returned belongs to the
 * real manager). */
static struct upipe *w_qsrc_alloc(struct upipe_mgr *mgr, struct uprobe *uprobe, uint32_t sig, va_list args)
{
    struct upipe *u = upipe_qsrc_alloc(upipe_qsrc_mgr_alloc(),
                                       uprobe_upump_mgr_alloc(uprobe, loop_get(1)), 8);
    last_qsrc = u;
    return u;
}
static struct upipe *w_qsink_alloc(struct upipe_mgr *mgr, struct uprobe *uprobe, uint32_t sig, va_list args)
{
    if (last_qsrc == NULL) return NULL;
    return upipe_qsink_alloc(upipe_qsink_mgr_alloc(),
                             uprobe_upump_mgr_alloc(uprobe, loop_get(0)), last_qsrc);
}
static struct upipe *w_idem_um_alloc(struct upipe_mgr *mgr, struct uprobe *uprobe, uint32_t sig, va_list args)
{
    return upipe_void_alloc(upipe_idem_mgr_alloc(), uprobe_uref_mgr_alloc(uprobe, g_uref));
}
static struct upipe *w_idem_ub_alloc(struct upipe_mgr *mgr, struct uprobe *uprobe, uint32_t sig, va_list args)
{
    return upipe_void_alloc(upipe_idem_mgr_alloc(), uprobe_ubuf_mem_alloc(uprobe, g_umem, 0, 0));
}
static struct upipe *w_idem_uc_alloc(struct upipe_mgr *mgr, struct uprobe *uprobe, uint32_t sig, va_list args)
{
    return upipe_void_alloc(upipe_idem_mgr_alloc(), uprobe_uclock_alloc(uprobe, g_uclock));
}
static struct upipe_mgr w_qsrc = { .upipe_alloc = w_qsrc_alloc };
static struct upipe_mgr w_qsink = { .upipe_alloc = w_qsink_alloc };
static struct upipe_mgr w_idem_um = { .upipe_alloc = w_idem_um_alloc };
static struct upipe_mgr w_idem_ub = { .upipe_alloc = w_idem_ub_alloc };
static struct upipe_mgr w_idem_uc = { .upipe_alloc = w_idem_uc_alloc };
static struct upipe_mgr *m_qsrc(void) { return &w_qsrc; }
static struct upipe_mgr *m_qsink(void) { return &w_qsink; }
static struct upipe_mgr *m_idem_um(void) { return &w_idem_um; }
static struct upipe_mgr *m_idem_ub(void) { return &w_idem_ub; }
static struct upipe_mgr *m_idem_uc(void) { return &w_idem_uc; }

/* ------------------------------------------------------------ request names
 * like the driver's req_name() but a queue request (lib/upipe-modules/
 * upipe_queue.h) is followed to the request registered on the queue sink */
static bool is_qsrc_pipe(void *p)
{
    if (p == NULL) return false;
    for (int i = 0; i < MAXOBJ; i++)
        if (pipes[i].name[0] && pipes[i].ptr == (struct upipe *)p && pipes[i].type &&
            !strcmp(pipes[i].type->name, "qsrc"))
            return true;
    return false;
}
/* The consumer side of a queue must never dereference the request registered
 * on the queue sink (it may be gone): queue requests are named when they are
 * allocated, on the producer side, through the linker (--wrap). */
struct qname { struct upipe_queue_request *q; struct vreq *root; int depth; };
#define MAXQ 512
static struct qname qtab[MAXQ];
static int nqtab;
static struct vreq *root_of(struct urequest *r, int *depth_p);
struct upipe_queue_request *__real_upipe_queue_request_alloc(struct urequest *upstream);
struct upipe_queue_request *__wrap_upipe_queue_request_alloc(struct urequest *upstream)
{
    struct upipe_queue_request *q = __real_upipe_queue_request_alloc(upstream);
    if (q == NULL) return NULL;
    int d = 0;
    struct vreq *root = root_of(upstream, &d);
    int k = -1;
    for (int i = 0; i < nqtab; i++)
        if (qtab[i].q == q) k = i;
    if (k < 0) k = nqtab < MAXQ ? nqtab++ : 0;
    qtab[k].q = q;
    qtab[k].root = root;
    qtab[k].depth = d;
    return q;
}
static struct vreq *root_of(struct urequest *r, int *depth_p)
{
    int depth = 0;
    struct urequest *cur = r;
    while (cur != NULL && depth < 12) {
        for (int i = 0; i < MAXOBJ; i++)
            if (reqs[i].used && &reqs[i].req == cur) { if (depth_p) *depth_p = depth; return &reqs[i]; }
        void *op = urequest_get_opaque(cur, void *);
        if (is_qsrc_pipe(op)) {
            struct upipe_queue_request *q = upipe_queue_request_from_urequest(cur);
            for (int i = 0; i < nqtab; i++)
                if (qtab[i].q == q) {
                    if (depth_p) *depth_p = depth + 1 + qtab[i].depth;
                    return qtab[i].root;
                }
            return NULL;
        }
        cur = (struct urequest *)op;
        depth++;
    }
    return NULL;
}
static const char *xreq_name(struct urequest *r)
{
    static char buf[48];
    int depth = 0;
    struct vreq *v = root_of(r, &depth);
    if (v == NULL) { snprintf(buf, sizeof(buf), "inner(type%d)", r ? r->type : -1); return buf; }
    if (depth == 0) return v->name;
    snprintf(buf, sizeof(buf), "proxy%d(%s)", depth, v->name);
    return buf;
}

/* ------------------------------------------------------------ rsink */
struct rsk {
    struct upipe upipe;
    struct urefcount urefcount;
    int reqmode;
    struct urequest *regs[16];
    int nregs;
};
UPIPE_HELPER_UPIPE(rsk, upipe, 0x72736b20)
UPIPE_HELPER_UREFCOUNT(rsk, urefcount, rsk_free)
UPIPE_HELPER_VOID(rsk)

static struct upipe *rsk_alloc(struct upipe_mgr *mgr, struct uprobe *uprobe, uint32_t sig, va_list args)
{
    struct upipe *upipe = rsk_alloc_void(mgr, uprobe, sig, args);
    if (upipe == NULL) return NULL;
    struct rsk *s = rsk_from_upipe(upipe);
    rsk_init_urefcount(upipe);
    s->reqmode = 0;
    s->nregs = 0;
    upipe_throw_ready(upipe);
    return upipe;
}
static const char *rsk_name(struct upipe *upipe)
{
    const char *n = pipe_name(upipe);
    return !strcmp(n, "other") && registry_pending ? registry_pending : n;
}
static int rsk_control(struct upipe *upipe, int command, va_list args)
{
    struct rsk *s = rsk_from_upipe(upipe);
    switch (command) {
    case UPIPE_SET_FLOW_DEF:
        return UBASE_ERR_NONE;
    case UPIPE_REGISTER_REQUEST: {
        struct urequest *r = va_arg(args, struct urequest *);
        printf("sink %s register %s type=%d\n", rsk_name(upipe), xreq_name(r), r->type);
        if (s->reqmode == 2) return UBASE_ERR_UNHANDLED;
        if (s->reqmode == 1) return upipe_throw_provide_request(upipe, r);
        if (s->nregs < 16) s->regs[s->nregs++] = r;
        return UBASE_ERR_NONE;
    }
    case UPIPE_UNREGISTER_REQUEST: {
        struct urequest *r = va_arg(args, struct urequest *);
        printf("sink %s unregister %s type=%d\n", rsk_name(upipe), xreq_name(r), r->type);
        for (int i = 0; i < s->nregs; i++)
            if (s->regs[i] == r) { s->regs[i] = s->regs[--s->nregs]; break; }
        return UBASE_ERR_NONE;
    }
    default:
        return UBASE_ERR_UNHANDLED;
    }
}
static void rsk_input(struct upipe *upipe, struct uref *uref, struct upump **upump_p)
{
    uref_free(uref);
}
static void rsk_free(struct upipe *upipe)
{
    struct rsk *s = rsk_from_upipe(upipe);
    printf("sink %s freed regs=%d\n", rsk_name(upipe), s->nregs);
    upipe_throw_dead(upipe);
    rsk_clean_urefcount(upipe);
    rsk_free_void(upipe);
}
static struct upipe_mgr rsk_mgr = { .signature = 0x72736b20, .upipe_alloc = rsk_alloc,
                                    .upipe_input = rsk_input, .upipe_control = rsk_control };
static struct upipe_mgr *m_rsink(void) { return &rsk_mgr; }

/* ------------------------------------------------------------ vreq / vreqi */
struct vrq {
    struct urefcount urefcount;
    struct upipe *output;
    struct uref *flow_def;
    enum upipe_helper_output_state output_state;
    struct uchain request_list;

    struct uref_mgr *uref_mgr;
    struct ubuf_mgr *ubuf_mgr;
    struct uref *flow_format;
    struct uclock *uclock;
    /* the helpers' request structures live in the driver's request table so
     * that they have names: q_xx->req is the helper's REQUEST member */
    struct vreq *q_um, *q_bm, *q_uc, *q_ff;
    bool intercept;
    bool rereq;      /* vreqr: an answer makes the pipe require again its own requests that are not registered */

    struct upipe upipe;
};

static int vrq_check(struct upipe *upipe, struct uref *flow_format);
static int vrq_reg(struct upipe *upipe, struct urequest *urequest);
static int vrq_unreg(struct upipe *upipe, struct urequest *urequest);

UPIPE_HELPER_UPIPE(vrq, upipe, 0x76727120)
UPIPE_HELPER_UREFCOUNT(vrq, urefcount, vrq_free)
UPIPE_HELPER_VOID(vrq)
UPIPE_HELPER_OUTPUT(vrq, output, flow_def, output_state, request_list)
UPIPE_HELPER_UREF_MGR(vrq, uref_mgr, q_um->req, vrq_check, vrq_reg, vrq_unreg)
UPIPE_HELPER_UBUF_MGR(vrq, ubuf_mgr, flow_format, q_bm->req, vrq_check, vrq_reg, vrq_unreg)
UPIPE_HELPER_UCLOCK(vrq, uclock, q_uc->req, vrq_check, vrq_reg, vrq_unreg)
UPIPE_HELPER_FLOW_FORMAT(vrq, q_ff->req, vrq_check, vrq_reg, vrq_unreg)

/* the check call-back of the helpers.  vreqr does what the check functions of many pipes do (a flow format
 * answer makes them require their buffer manager again, ...): it requires again those of its own requests
 * that sit in its list without being registered on its output - which is only the case while set_output
 * re-issues the list one by one */
static int vrq_check(struct upipe *upipe, struct uref *flow_format)
{
    uref_free(flow_format);
    struct vrq *s = vrq_from_upipe(upipe);
    while (s->rereq && s->output != NULL) {
        struct urequest *found = NULL;
        struct uchain *uchain;
        ulist_foreach (&s->request_list, uchain) {
            struct urequest *r = urequest_from_uchain(uchain);
            if (!r->registered && (r == &s->q_um->req || r == &s->q_bm->req ||
                                   r == &s->q_uc->req || r == &s->q_ff->req)) {
                found = r;
                break;
            }
        }
        if (found == NULL)
            break;
        if (found == &s->q_um->req) vrq_require_uref_mgr(upipe);
        else if (found == &s->q_bm->req) vrq_require_ubuf_mgr(upipe, make_fd("bA"));
        else if (found == &s->q_uc->req) vrq_require_uclock(upipe);
        else vrq_require_flow_format(upipe, make_fd("bA"));
    }
    return UBASE_ERR_NONE;
}

/* the helper's call-back of each own request, and a trampoline that records
 * the invocation before running it */
static urequest_func own_orig[MAXOBJ];
static int own_tramp(struct urequest *r, va_list args)
{
    struct vreq *v = (struct vreq *)r;
    int idx = (int)(v - reqs);
    va_list c;
    va_copy(c, args);
    switch (r->type) {
    case UREQUEST_UREF_MGR: {
        struct uref_mgr *m = va_arg(c, struct uref_mgr *);
        printf("reqcb %s provided uref_mgr %s\n", v->name, m == g_uref ? "g" : "other");
        break;
    }
    case UREQUEST_UBUF_MGR: {
        struct ubuf_mgr *m = va_arg(c, struct ubuf_mgr *);
        printf("reqcb %s provided ubuf_mgr %s\n", v->name, m == g_block ? "g" : "other");
        break;
    }
    case UREQUEST_UCLOCK: {
        struct uclock *k = va_arg(c, struct uclock *);
        printf("reqcb %s provided uclock %s\n", v->name, k == g_uclock ? "g" : "other");
        break;
    }
    case UREQUEST_FLOW_FORMAT: {
        struct uref *fd = va_arg(c, struct uref *);
        printf("reqcb %s provided flow_format %s\n", v->name, fd_name(fd));
        break;
    }
    default:
        printf("reqcb %s provided type%d\n", v->name, r->type);
    }
    va_end(c);
    return own_orig[idx](r, args);
}
static int vrq_reg(struct upipe *upipe, struct urequest *urequest)
{
    struct vreq *v = (struct vreq *)urequest;
    int idx = (int)(v - reqs);
    assert(idx >= 0 && idx < MAXOBJ);
    own_orig[idx] = urequest->urequest_provide;
    urequest->urequest_provide = own_tramp;
    return vrq_register_output_request(upipe, urequest);
}
static int vrq_unreg(struct upipe *upipe, struct urequest *urequest)
{
    return vrq_unregister_output_request(upipe, urequest);
}

static struct vreq *own_slot(const char *tag, int k)
{
    for (int i = 0; i < MAXOBJ; i++)
        if (!reqs[i].used) {
            memset(&reqs[i], 0, sizeof(reqs[i]));
            reqs[i].used = true;
            reqs[i].type = -1;          /* own request of a pipe: never cleaned by xreset */
            snprintf(reqs[i].name, sizeof(reqs[i].name), "%s%d", tag, k);
            return &reqs[i];
        }
    return NULL;
}

static struct upipe *vrq_alloc_common(struct upipe_mgr *mgr, struct uprobe *uprobe, uint32_t sig,
                                      va_list args, bool intercept)
{
    static int serial;
    struct upipe *upipe = vrq_alloc_void(mgr, uprobe, sig, args);
    if (upipe == NULL) return NULL;
    struct vrq *s = vrq_from_upipe(upipe);
    serial++;
    s->q_um = own_slot("oa", serial % 100);
    s->q_bm = own_slot("ob", serial % 100);
    s->q_uc = own_slot("oc", serial % 100);
    s->q_ff = own_slot("od", serial % 100);
    assert(s->q_um && s->q_bm && s->q_uc && s->q_ff);
    s->intercept = intercept;
    s->rereq = false;
    vrq_init_urefcount(upipe);
    vrq_init_output(upipe);
    vrq_init_uref_mgr(upipe);
    vrq_init_ubuf_mgr(upipe);
    vrq_init_uclock(upipe);
    vrq_init_flow_format(upipe);
    upipe_throw_ready(upipe);
    return upipe;
}
static struct upipe *vrq_alloc(struct upipe_mgr *mgr, struct uprobe *uprobe, uint32_t sig, va_list args)
{
    return vrq_alloc_common(mgr, uprobe, sig, args, false);
}
static struct upipe *vrqi_alloc(struct upipe_mgr *mgr, struct uprobe *uprobe, uint32_t sig, va_list args)
{
    return vrq_alloc_common(mgr, uprobe, sig, args, true);
}
static struct upipe *vrqr_alloc(struct upipe_mgr *mgr, struct uprobe *uprobe, uint32_t sig, va_list args)
{
    struct upipe *upipe = vrq_alloc_common(mgr, uprobe, sig, args, false);
    if (upipe != NULL) vrq_from_upipe(upipe)->rereq = true;
    return upipe;
}
static int vrq_control(struct upipe *upipe, int command, va_list args)
{
    struct vrq *s = vrq_from_upipe(upipe);
    if (s->intercept)
        UBASE_HANDLED_RETURN(vrq_control_ubuf_mgr(upipe, command, args));
    UBASE_HANDLED_RETURN(vrq_control_output(upipe, command, args));
    if (command == UPIPE_SET_FLOW_DEF) return UBASE_ERR_NONE;
    return UBASE_ERR_UNHANDLED;
}
static void vrq_input(struct upipe *upipe, struct uref *uref, struct upump **upump_p)
{
    vrq_output(upipe, uref, upump_p);
}
static void vrq_free(struct upipe *upipe)
{
    upipe_throw_dead(upipe);
    vrq_clean_flow_format(upipe);
    vrq_clean_uclock(upipe);
    vrq_clean_ubuf_mgr(upipe);
    vrq_clean_uref_mgr(upipe);
    vrq_clean_output(upipe);
    vrq_clean_urefcount(upipe);
    vrq_free_void(upipe);
}
static struct upipe_mgr vrq_mgr = { .signature = 0x76727120, .upipe_alloc = vrq_alloc,
                                    .upipe_input = vrq_input, .upipe_control = vrq_control };
static struct upipe_mgr vrqr_mgr = { .signature = 0x76727120, .upipe_alloc = vrqr_alloc,
                                     .upipe_input = vrq_input, .upipe_control = vrq_control };
static struct upipe_mgr vrqi_mgr = { .signature = 0x76727120, .upipe_alloc = vrqi_alloc,
                                     .upipe_input = vrq_input, .upipe_control = vrq_control };
static struct upipe_mgr *m_vreq(void) { return &vrq_mgr; }
static struct upipe_mgr *m_vreqi(void) { return &vrqi_mgr; }
static struct upipe_mgr *m_vreqr(void) { return &vrqr_mgr; }

/* ------------------------------------------------------------ types */
static const struct pipe_type c12_types[] = {
    { "qsrc", m_qsrc, NULL, NULL },
    { "qsink", m_qsink, NULL, NULL },
    { "idem_um", m_idem_um, NULL, NULL },
    { "idem_ub", m_idem_ub, NULL, NULL },
    { "idem_uc", m_idem_uc, NULL, NULL },
    { "vreq", m_vreq, NULL, NULL },
    { "vreqi", m_vreqi, NULL, NULL },
    { "vreqr", m_vreqr, NULL, NULL },
    { "rsink", m_rsink, NULL, NULL },
    { "ts_align", upipe_ts_align_mgr_alloc, NULL, NULL },
    { NULL, NULL, NULL, NULL }
};

const struct pipe_type *pd_types_e(const char *name)
{
    for (int i = 0; c12_types[i].name; i++)
        if (!strcmp(c12_types[i].name, name)) return &c12_types[i];
    return NULL;
}

bool pd_option_e(struct upipe *upipe, const struct pipe_type *type, bool set, const char *name, const char *value)
{
    if (type == NULL || strcmp(type->name, "rsink") || strcmp(name, "reqmode")) return false;
    struct rsk *s = rsk_from_upipe(upipe);
    if (set && value) {
        s->reqmode = !strcmp(value, "throw") ? 1 : !strcmp(value, "refuse") ? 2 : 0;
        ret(0);
    } else
        printf("ret 0 %s\n", s->reqmode == 1 ? "throw" : s->reqmode == 2 ? "refuse" : "hold");
    return true;
}

/* ------------------------------------------------------------ commands */
static int type_of(const char *t)
{
    return !strcmp(t, "uref_mgr") ? UREQUEST_UREF_MGR : !strcmp(t, "ubuf_mgr") ? UREQUEST_UBUF_MGR :
           !strcmp(t, "uclock") ? UREQUEST_UCLOCK : !strcmp(t, "flow_format") ? UREQUEST_FLOW_FORMAT :
           !strcmp(t, "sink_latency") ? UREQUEST_SINK_LATENCY : -1;
}
static bool is_vrq(struct obj *o)
{
    return o && o->upipe && o->type && (!strcmp(o->type->name, "vreq") || !strcmp(o->type->name, "vreqi") || !strcmp(o->type->name, "vreqr"));
}

/* one-shot requests of the application: the call-back unregisters the request from the pipe it was
 * registered on (from inside the provider's call when the answer is given at once).  reg / unreg of the
 * core are tracked here; an unreg of a request its call-back already unregistered (or a reg of one that is
 * registered) does nothing and answers -3. */
static struct upipe *reg_pipe[MAXOBJ];
static bool oneshot[MAXOBJ];
static int vreq_index(struct vreq *v) { return (int)(v - reqs); }
void pd_reqcb_ext(struct vreq *v)
{
    int i = vreq_index(v);
    if (i < 0 || i >= MAXOBJ || !oneshot[i] || reg_pipe[i] == NULL) return;
    struct upipe *p = reg_pipe[i];
    reg_pipe[i] = NULL;
    printf("ucb %s\n", v->name);
    upipe_unregister_request(p, &v->req);
}

bool pd_ext_e(int nt, char **tok)
{
    const char *c = tok[0];
    if (!strcmp(c, "oneshot") && nt >= 3) {
        struct vreq *v = find_req(tok[1]);
        if (v == NULL) { ret(-1); return true; }
        oneshot[vreq_index(v)] = atoi(tok[2]) != 0;
        ret(0);
        return true;
    }
    if ((!strcmp(c, "xreg") || !strcmp(c, "xunreg")) && nt >= 3) {
        /* reg / unreg of the core, with the book-keeping the one-shot requests need */
        struct upipe *up = find_any(tok[1]);
        struct vreq *v = find_req(tok[2]);
        if (up == NULL || v == NULL) { ret(-1); return true; }
        int i = vreq_index(v);
        if (c[1] == 'r') {
            if (reg_pipe[i] != NULL || v->req.registered) { printf("ret -3 registered\n"); return true; }
            reg_pipe[i] = up;           /* before the call: the answer may come from inside it */
            int err = upipe_register_request(up, &v->req);
            ret(err);
        } else {
            if (reg_pipe[i] == NULL) { printf("ret -3 notregistered\n"); return true; }
            reg_pipe[i] = NULL;
            ret(upipe_unregister_request(up, &v->req));
        }
        return true;
    }
    if (!strcmp(c, "ownreq") && nt >= 4) {
        struct obj *o = find_pipe(tok[3]);
        int t = type_of(tok[2]);
        if (!is_vrq(o) || find_req(tok[1])) { ret(-1); return true; }
        struct vrq *s = vrq_from_upipe(o->upipe);
        struct vreq *v = t == UREQUEST_UREF_MGR ? s->q_um : t == UREQUEST_UBUF_MGR ? s->q_bm :
                         t == UREQUEST_UCLOCK ? s->q_uc : t == UREQUEST_FLOW_FORMAT ? s->q_ff : NULL;
        if (v == NULL) { ret(-1); return true; }
        snprintf(v->name, sizeof(v->name), "%s", tok[1]);
        ret(0);
        return true;
    }
    if (!strcmp(c, "require") && nt >= 3) {
        struct obj *o = find_pipe(tok[1]);
        if (!is_vrq(o)) { ret(-1); return true; }
        switch (type_of(tok[2])) {
        case UREQUEST_UREF_MGR: vrq_require_uref_mgr(o->upipe); break;
        case UREQUEST_UBUF_MGR: vrq_require_ubuf_mgr(o->upipe, make_fd("bA")); break;
        case UREQUEST_UCLOCK: vrq_require_uclock(o->upipe); break;
        case UREQUEST_FLOW_FORMAT: vrq_require_flow_format(o->upipe, make_fd("bA")); break;
        default: ret(-1); return true;
        }
        ret(0);
        return true;
    }
    if (!strcmp(c, "xprovide") && nt >= 3) {
        struct obj *o = find_pipe(tok[1]);
        struct vreq *v = find_req(tok[2]);
        if (!o || !o->ptr || !v || !o->type || strcmp(o->type->name, "rsink")) { ret(-1); return true; }
        struct rsk *s = rsk_from_upipe(o->ptr);
        struct urequest *found = NULL;
        for (int i = 0; i < s->nregs && !found; i++)
            if (root_of(s->regs[i], NULL) == v) found = s->regs[i];
        if (!found) { printf("ret -2 notregistered\n"); return true; }
        printf("provide %s %s type=%d\n", o->name, xreq_name(found), found->type);
        /* same answers as the driver's provide() */
        int err;
        switch (found->type) {
        case UREQUEST_UREF_MGR: err = urequest_provide_uref_mgr(found, uref_mgr_use(g_uref)); break;
        case UREQUEST_UBUF_MGR:
            err = urequest_provide_ubuf_mgr(found, ubuf_mgr_use(g_block), found->uref ? uref_dup(found->uref) : NULL);
            break;
        case UREQUEST_UCLOCK: err = urequest_provide_uclock(found, uclock_use(g_uclock)); break;
        case UREQUEST_FLOW_FORMAT:
            err = urequest_provide_flow_format(found, found->uref ? uref_dup(found->uref) : NULL);
            break;
        case UREQUEST_SINK_LATENCY: err = urequest_provide_sink_latency(found, 1000); break;
        default: err = UBASE_ERR_UNHANDLED;
        }
        ret(err);
        return true;
    }
    if (!strcmp(c, "xattach") && nt >= 2) {
        struct obj *o = find_pipe(tok[1]);
        if (o == NULL || o->upipe == NULL) { ret(-1); return true; }
        ret(upipe_attach_upump_mgr(o->upipe));
        return true;
    }
    if (!strcmp(c, "loop") && nt >= 2) {
        int k = tok[1][0] == 'B' ? 1 : 0;
        unsigned n = vloop_run_once(loop_get(k));
        printf("ret %u\n", n);
        return true;
    }
    if (!strcmp(c, "xreset")) {
        memset(reg_pipe, 0, sizeof(reg_pipe));
        memset(oneshot, 0, sizeof(oneshot));
        /* let pending out-of-band messages (source end, last reference) through */
        for (int it = 0; it < 8192; it++) {
            unsigned a = loops[0] ? vloop_run_once(loops[0]) : 0;
            unsigned b = loops[1] ? vloop_run_once(loops[1]) : 0;
            if (!a && !b) break;
        }
        for (int i = 0; i < MAXOBJ; i++)
            if (pipes[i].name[0] && (pipes[i].upipe != NULL || pipes[i].ptr != NULL)) {
                printf("ret -1 live %s\n", pipes[i].name);
                return true;
            }
        for (int i = 0; i < MAXOBJ; i++)
            if (sinks[i].used && !sinks[i].dead) {
                printf("ret -1 live %s\n", sinks[i].name);
                return true;
            }
        for (int i = 0; i < MAXOBJ; i++)
            if (reqs[i].used && reqs[i].type != -1 && reqs[i].req.registered) {
                printf("ret -1 registered %s\n", reqs[i].name);
                return true;
            }
        size_t pa = loops[0] ? vloop_pumps(loops[0], NULL, 0) : 0;
        size_t pb = loops[1] ? vloop_pumps(loops[1], NULL, 0) : 0;
        for (int i = 0; i < MAXOBJ; i++) {
            if (reqs[i].used && reqs[i].type != -1) urequest_clean(&reqs[i].req);
            if (sinks[i].used) free(sinks[i].upipe.uprobe);     /* malloc'ed by the "sink" command */
        }
        memset(pipes, 0, sizeof(pipes));
        memset(sinks, 0, sizeof(sinks));
        memset(reqs, 0, sizeof(reqs));
        last_qsrc = NULL;
        nqtab = 0;
        for (int k = 0; k < 2; k++)
            if (loops[k]) vloop_log_clear(loops[k]);
        printf("ret 0 pumpsA=%zu pumpsB=%zu\n", pa, pb);
        return true;
    }
    return false;
}
