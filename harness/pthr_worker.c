/* pthr_worker: the real worker pipes (upipe_wlin / upipe_wsink / upipe_wsrc) between two REAL threads:
 * the application thread (main, logical thread 0) with the default libev loop and a worker thread
 * (logical thread 1) created by the real upipe_pthread_xfer_mgr_alloc()
 * (lib/upipe-pthread/upipe_pthread_transfer.c), which creates its own libev loop, attaches the transfer
 * manager and runs upump_mgr_run(loop, mutex) (lib/upump-ev/upump_ev.c: the loop releases the mutex
 * while it sleeps).  The mutex is the real umutex_pthread behind a recording wrapper.  (C06, pthread stage)
 *
 * usage: pthr_worker <flavour> <inlen> <outlen> <mutex> <prog> <srcprog|-> <seed> <jitter> <runs>
 *   flavour, inlen, outlen, mutex, prog, srcprog: as harness/sched_worker.c (tokens A B i o O z t c r w)
 *   seed     seed of the pacing (pauses between the application's calls, jitter at the hooks)
 *   jitter   per-mille probability of a sched_yield() / short sleep at every hooked atomic operation,
 *            event descriptor operation and entry of the remote pipe
 *   runs     number of executions (seed, seed+1, ...), each printed as one trace
 *
 * Two builds:
 *   default      every observation is appended to one log under a lock (the log order is consistent with
 *                real time: an observation logged before another one started happened before it): NDJSON
 *                traces for Worker_Trace.tla, same vocabulary as sched_worker.c
 *   -DPW_NOLOG   no log, no lock (nothing of the harness orders the two threads): for ThreadSanitizer,
 *                whose reports are the output
 */
#define _GNU_SOURCE
#include <stdio.h>
#include <stdlib.h>
#include <string.h>
#include <stdint.h>
#include <stdbool.h>
#include <stdarg.h>
#include <assert.h>
#include <unistd.h>
#include <signal.h>
#include <sched.h>
#include <pthread.h>
#include <ev.h>

#include "upipe/ubase.h"
#include "upipe/uverif.h"
#include "upipe/umutex.h"
#include "upipe/uprobe.h"
#include "upipe/uprobe_transfer.h"
#include "upipe/umem.h"
#include "upipe/umem_alloc.h"
#include "upipe/udict.h"
#include "upipe/udict_inline.h"
#include "upipe/uref.h"
#include "upipe/uref_std.h"
#include "upipe/uref_attr.h"
#include "upipe/uref_flow.h"
#include "upipe/upump.h"
#include "upipe/upipe.h"
#include "upump-ev/upump_ev.h"
#include "upipe-modules/upipe_queue_sink.h"
#include "upipe-modules/upipe_queue_source.h"
#include "upipe-modules/upipe_transfer.h"
#include "upipe-modules/upipe_worker_linear.h"
#include "upipe-modules/upipe_worker_sink.h"
#include "upipe-modules/upipe_worker_source.h"
#include "upipe-pthread/uprobe_pthread_upump_mgr.h"
#include "upipe-pthread/upipe_pthread_transfer.h"
#include "upipe-pthread/umutex_pthread.h"

UREF_ATTR_UNSIGNED(vx, id, "x.id", verification buffer id)

enum { FL_LIN, FL_SINK, FL_SRC };
static int flavour, INLEN, OUTLEN, use_mutex;
static const char *flavour_s;
#define XFER_QLEN 16
#define RUN_ALARM 10

static struct umem_mgr *umem;
static struct udict_mgr *udict;
static struct uref_mgr *urefm;

static pthread_t main_tid;
static struct upump_mgr *app_loop, *worker_loop;
static struct upipe_mgr *xfer_mgr;
static const void *xfer_mgr_refcount;
static struct upipe *handle, *remote_p;
static int th(void) { return pthread_equal(pthread_self(), main_tid) ? 0 : 1; }

/* ------------------------------------------------------------------ trace */
#ifndef PW_NOLOG
#define MAXEV 8192
static char evbuf[MAXEV][112];
static int nev;
static pthread_mutex_t log_mx = PTHREAD_MUTEX_INITIALIZER;
static void log_line(const char *fmt, ...)
{
    pthread_mutex_lock(&log_mx);
    if (nev < MAXEV) {
        va_list a;
        va_start(a, fmt);
        vsnprintf(evbuf[nev++], sizeof(evbuf[0]), fmt, a);
        va_end(a);
    }
    pthread_mutex_unlock(&log_mx);
}
#else
static int nev;
static inline void log_line(const char *fmt, ...) { (void)fmt; }
#endif

/* ------------------------------------------------------------------ pacing */
static unsigned jitter_pm;
static __thread uint64_t prng;
static uint64_t run_seed;
static uint64_t rnd(void)
{
    if (prng == 0) prng = (run_seed * 2 + th() + 1) * 0x9e3779b97f4a7c15ULL | 1;
    prng ^= prng << 13; prng ^= prng >> 7; prng ^= prng << 17;
    return prng;
}
static void pace(void)
{
    if (!jitter_pm) return;
    uint64_t r = rnd() % 1000;
    if (r < jitter_pm / 8) usleep(1 + rnd() % 60);
    else if (r < jitter_pm) sched_yield();
}
static void hook(int kind, const void *obj) { (void)kind; (void)obj; pace(); }

/* --------------------------------------------------- recording umutex */
struct recmutex { struct umutex umutex; struct umutex *real; };
static struct recmutex rmutex;
static int rec_lock(struct umutex *m)
{
    int err = umutex_lock(rmutex.real);
    if (ubase_check(err)) log_line("{\"e\":\"Lock\",\"th\":%d}", th());
    else log_line("{\"e\":\"LockBusy\",\"th\":%d}", th());
    return err;
}
static int rec_unlock(struct umutex *m)
{
    log_line("{\"e\":\"Unlock\",\"th\":%d}", th());
    return umutex_unlock(rmutex.real);
}

/* ------------------------------------------------------------ remote pipe */
struct rp {
    struct urefcount urefcount;
    struct upipe upipe;
    struct upipe *output;
    struct upump_mgr *upump_mgr;
    struct upump *idler;
    const char *prog;
    bool done;
};
static int inside[2];
static int src_next_id;
static void r_enter(const char *k, int id, char f)
{
    int t = th();
    pace();
    if (id >= 0) log_line("{\"e\":\"REnter\",\"k\":\"%s\",\"th\":%d,\"id\":%d}", k, t, id);
    else if (f) log_line("{\"e\":\"REnter\",\"k\":\"%s\",\"th\":%d,\"f\":\"%c\"}", k, t, f);
    else log_line("{\"e\":\"REnter\",\"k\":\"%s\",\"th\":%d}", k, t);
    inside[t]++;
}
static void r_leave(void)
{
    int t = th();
    inside[t]--;
    log_line("{\"e\":\"RLeave\",\"th\":%d}", t);
}
static char fd_letter(struct uref *fd)
{
    const char *def = "?";
    uref_flow_get_def(fd, &def);
    return def[0] == 'b' && strlen(def) > 6 ? def[6] : '?';
}
static struct uref *mk_flow_def(char c)
{
    char def[16];
    snprintf(def, sizeof(def), "block.%c.", c);
    struct uref *fd = uref_alloc_control(urefm);
    uref_flow_set_def(fd, def);
    return fd;
}
static void rp_throw(struct upipe *upipe, const char *name, int event)
{
    log_line("{\"e\":\"Throw\",\"ev\":\"%s\",\"th\":%d}", name, th());
    upipe_throw(upipe, event);
}
static void rp_free(struct urefcount *rc)
{
    struct rp *r = container_of(rc, struct rp, urefcount);
    r_enter("free", -1, 0);
    if (r->idler) { upump_stop(r->idler); upump_free(r->idler); }
    upump_mgr_release(r->upump_mgr);
    upipe_release(r->output);
    upipe_throw_dead(&r->upipe);
    urefcount_clean(&r->urefcount);
    upipe_clean(&r->upipe);
    r_leave();
    free(r);
}
static struct upipe *rp_alloc(struct upipe_mgr *mgr, struct uprobe *uprobe, uint32_t sig, va_list args)
{
    struct rp *r = malloc(sizeof(*r));
    memset(r, 0, sizeof(*r));
    upipe_init(&r->upipe, mgr, uprobe);
    urefcount_init(&r->urefcount, rp_free);
    r->upipe.refcount = &r->urefcount;
    upipe_throw_ready(&r->upipe);
    return &r->upipe;
}
static void rp_input(struct upipe *upipe, struct uref *uref, struct upump **upump_p)
{
    struct rp *r = container_of(upipe, struct rp, upipe);
    uint64_t id = 0;
    uref_vx_get_id(uref, &id);
    r_enter("input", (int)id, 0);
    if (id & 1) rp_throw(upipe, "acq", UPROBE_SYNC_ACQUIRED);
    else rp_throw(upipe, "lost", UPROBE_SYNC_LOST);
    if (r->output != NULL) {
        log_line("{\"e\":\"RSend\",\"id\":%d,\"th\":%d}", (int)id, th());
        upipe_input(r->output, uref, upump_p);
    } else
        uref_free(uref);
    r_leave();
}
static void rp_idler(struct upump *upump)
{
    struct upipe *upipe = upump_get_opaque(upump, struct upipe *);
    struct rp *r = container_of(upipe, struct rp, upipe);
    r_enter("idler", -1, 0);
    char c = *r->prog;
    if (c) r->prog++;
    if (c == 'A' || c == 'B') {
        struct uref *fd = mk_flow_def(c);
        log_line("{\"e\":\"RSetFd\",\"f\":\"%c\",\"th\":%d}", c, th());
        if (r->output) upipe_set_flow_def(r->output, fd);
        uref_free(fd);
    } else if (c == 'i') {
        struct uref *u = uref_alloc(urefm);
        int id = src_next_id++;
        uref_vx_set_id(u, id);
        if (id & 1) rp_throw(upipe, "acq", UPROBE_SYNC_ACQUIRED);
        else rp_throw(upipe, "lost", UPROBE_SYNC_LOST);
        if (r->output) {
            log_line("{\"e\":\"RSend\",\"id\":%d,\"th\":%d}", id, th());
            upipe_input(r->output, u, &r->idler);
        } else
            uref_free(u);
    } else {
        upump_stop(upump);
        r->done = true;
        rp_throw(upipe, "end", UPROBE_SOURCE_END);
    }
    r_leave();
}
static int rp_control(struct upipe *upipe, int command, va_list args)
{
    struct rp *r = container_of(upipe, struct rp, upipe);
    switch (command) {
    case UPIPE_ATTACH_UPUMP_MGR: {
        r_enter("attach", -1, 0);
        if (flavour == FL_SRC && r->idler == NULL) {
            struct upump_mgr *m = NULL;
            upipe_throw_need_upump_mgr(upipe, &m);
            if (m != NULL) {
                log_line("{\"e\":\"RLoop\",\"loop\":%d,\"th\":%d}", m == app_loop ? 0 : m == worker_loop ? 1 : 9, th());
                r->upump_mgr = m;
                r->idler = upump_alloc_idler(m, rp_idler, upipe, upipe->refcount);
                if (r->output != NULL) upump_start(r->idler);
            }
        }
        r_leave();
        return UBASE_ERR_NONE;
    }
    case UPIPE_GET_OUTPUT: {
        struct upipe **p = va_arg(args, struct upipe **);
        r_enter("getout", -1, 0);
        *p = r->output;
        r_leave();
        return UBASE_ERR_NONE;
    }
    case UPIPE_SET_OUTPUT: {
        struct upipe *o = va_arg(args, struct upipe *);
        r_enter("setout", -1, 0);
        struct upipe *prev = r->output;
        r->output = upipe_use(o);
        upipe_release(prev);
        if (flavour == FL_SRC && r->idler != NULL && r->output != NULL && !r->done) upump_start(r->idler);
        r_leave();
        return UBASE_ERR_NONE;
    }
    case UPIPE_SET_FLOW_DEF: {
        struct uref *fd = va_arg(args, struct uref *);
        r_enter("flowdef", -1, fd_letter(fd));
        int err = UBASE_ERR_NONE;
        if (r->output != NULL) {
            log_line("{\"e\":\"RSetFd\",\"f\":\"%c\",\"th\":%d}", fd_letter(fd), th());
            err = upipe_set_flow_def(r->output, fd);
        }
        r_leave();
        return err;
    }
    case UPIPE_SET_OPTION:
        r_enter("control", -1, 0);
        r_leave();
        return UBASE_ERR_NONE;
    case UPIPE_REGISTER_REQUEST: {
        struct urequest *rq = va_arg(args, struct urequest *);
        r_enter("request", -1, 0);
        int err = r->output ? upipe_register_request(r->output, rq) : upipe_throw_provide_request(upipe, rq);
        r_leave();
        return err;
    }
    case UPIPE_UNREGISTER_REQUEST: {
        struct urequest *rq = va_arg(args, struct urequest *);
        r_enter("request", -1, 0);
        int err = r->output ? upipe_unregister_request(r->output, rq) : UBASE_ERR_NONE;
        r_leave();
        return err;
    }
    }
    return UBASE_ERR_UNHANDLED;
}
#define RP_SIGNATURE UBASE_FOURCC('r','p','c','6')
static struct upipe_mgr rp_mgr_lin = { .signature = RP_SIGNATURE, .upipe_alloc = rp_alloc, .upipe_input = rp_input, .upipe_control = rp_control };
static struct upipe_mgr rp_mgr_src = { .signature = RP_SIGNATURE, .upipe_alloc = rp_alloc, .upipe_control = rp_control };

/* ------------------------------------------ recording sinks on the A side */
struct rs { struct upipe upipe; int idx; };
static struct rs rsink[2];
static void rs_input(struct upipe *upipe, struct uref *uref, struct upump **upump_p)
{
    struct rs *s = container_of(upipe, struct rs, upipe);
    uint64_t id = 0;
    uref_vx_get_id(uref, &id);
    log_line("{\"e\":\"Out\",\"id\":%d,\"s\":%d,\"th\":%d}", (int)id, s->idx, th());
    uref_free(uref);
}
static int rs_control(struct upipe *upipe, int command, va_list args)
{
    struct rs *s = container_of(upipe, struct rs, upipe);
    switch (command) {
    case UPIPE_SET_FLOW_DEF: {
        struct uref *fd = va_arg(args, struct uref *);
        log_line("{\"e\":\"OutFd\",\"f\":\"%c\",\"s\":%d,\"th\":%d}", fd_letter(fd), s->idx, th());
        return UBASE_ERR_NONE;
    }
    case UPIPE_REGISTER_REQUEST: {
        struct urequest *rq = va_arg(args, struct urequest *);
        return upipe_throw_provide_request(upipe, rq);
    }
    case UPIPE_UNREGISTER_REQUEST:
        return UBASE_ERR_NONE;
    }
    return UBASE_ERR_UNHANDLED;
}
static struct upipe_mgr rs_mgr = { .signature = UBASE_FOURCC('r','s','c','6'), .upipe_input = rs_input, .upipe_control = rs_control };

/* ------------------------------------------------------------------ probes */
static struct uprobe base_probe, app_probe, rem_probe;
static struct uprobe *upm_probe, *xfer_probe;
static struct upipe *handle_ptr;
static struct upipe *in_qsrc, *out_qsink;
static int base_catch(struct uprobe *uprobe, struct upipe *upipe, int event, va_list args)
{
    return UBASE_ERR_UNHANDLED;
}
static const char *ev_name(int event)
{
    return event == UPROBE_SYNC_ACQUIRED ? "acq" : event == UPROBE_SYNC_LOST ? "lost" : "end";
}
static int app_catch(struct uprobe *uprobe, struct upipe *upipe, int event, va_list args)
{
    switch (event) {
    case UPROBE_SYNC_ACQUIRED: case UPROBE_SYNC_LOST: case UPROBE_SOURCE_END:
        log_line("{\"e\":\"Forward\",\"ev\":\"%s\",\"th\":%d}", ev_name(event), th());
        return UBASE_ERR_NONE;
    case UPROBE_DEAD:
        if (upipe != NULL && upipe == handle_ptr)
            log_line("{\"e\":\"Dead\",\"p\":\"handle\",\"th\":%d}", th());
        return UBASE_ERR_NONE;
    case UPROBE_FATAL: case UPROBE_ERROR:
        log_line("{\"e\":\"Fatal\",\"th\":%d,\"side\":\"app\"}", th());
        return UBASE_ERR_NONE;
    case UPROBE_NEED_UPUMP_MGR:
    case UPROBE_FREEZE_UPUMP_MGR:
    case UPROBE_THAW_UPUMP_MGR:
        return uprobe_throw_next(uprobe, upipe, event, args);
    case UPROBE_NEED_OUTPUT:
    case UPROBE_PROVIDE_REQUEST:
        return UBASE_ERR_UNHANDLED;
    }
    return UBASE_ERR_NONE;
}
static int rem_catch(struct uprobe *uprobe, struct upipe *upipe, int event, va_list args)
{
    switch (event) {
    case UPROBE_READY:
        if (upipe != NULL && upipe->mgr->signature == UPIPE_QSRC_SIGNATURE) in_qsrc = upipe;
        if (upipe != NULL && upipe->mgr->signature == UPIPE_QSINK_SIGNATURE) out_qsink = upipe;
        return UBASE_ERR_NONE;
    case UPROBE_DEAD:
        if (upipe != NULL && upipe == in_qsrc) log_line("{\"e\":\"Dead\",\"p\":\"in_qsrc\",\"th\":%d}", th());
        if (upipe != NULL && upipe == out_qsink) log_line("{\"e\":\"Dead\",\"p\":\"out_qsink\",\"th\":%d}", th());
        return UBASE_ERR_NONE;
    case UPROBE_FATAL: case UPROBE_ERROR:
        log_line("{\"e\":\"Fatal\",\"th\":%d,\"side\":\"remote\"}", th());
        return UBASE_ERR_NONE;
    case UPROBE_SYNC_ACQUIRED: case UPROBE_SYNC_LOST: case UPROBE_SOURCE_END:
        log_line("{\"e\":\"Untransferred\",\"ev\":\"%s\",\"th\":%d}", ev_name(event), th());
        return UBASE_ERR_NONE;
    case UPROBE_NEED_UPUMP_MGR:
    case UPROBE_FREEZE_UPUMP_MGR:
    case UPROBE_THAW_UPUMP_MGR:
        return uprobe_throw_next(uprobe, upipe, event, args);
    case UPROBE_NEED_OUTPUT:
    case UPROBE_PROVIDE_REQUEST:
        return UBASE_ERR_UNHANDLED;
    }
    return UBASE_ERR_NONE;
}

/* free() is wrapped (-Wl,--wrap=free) only to see the transfer manager's block go: struct upipe_xfer_mgr
 * begins with its urefcount, so the block is what mgr->refcount points to */
void __real_free(void *p);
void __wrap_free(void *p)
{
    if (p != NULL && p == __atomic_load_n(&xfer_mgr_refcount, __ATOMIC_RELAXED)) {
        __atomic_store_n(&xfer_mgr_refcount, NULL, __ATOMIC_RELAXED);
        log_line("{\"e\":\"MgrFree\",\"th\":%d}", th());
    }
    __real_free(p);
}
/* pthread_join is wrapped (-Wl,--wrap=pthread_join) to see the end of the worker thread */
int __real_pthread_join(pthread_t t, void **ret);
int __wrap_pthread_join(pthread_t t, void **ret)
{
    int err = __real_pthread_join(t, ret);
    log_line("{\"e\":\"Join\",\"th\":%d,\"err\":%d}", th(), err);
    return err;
}

/* the event loop of the worker thread (called by upipe_pthread_start in the new thread) */
static struct upump_mgr *worker_loop_alloc(uint16_t upump_pool_depth, uint16_t upump_blocker_pool_depth)
{
    worker_loop = upump_ev_mgr_alloc_loop(upump_pool_depth, upump_blocker_pool_depth);
    return worker_loop;
}

/* --------------------------------------------------------- set-up / teardown */
static int next_id;
static bool released;
static const char *srcprog = "";
static const char *prog = "";
static long out_id;

static void build_env(void)
{
    nev = 0;
    next_id = 1;
    src_next_id = 1;
    released = false;
    inside[0] = inside[1] = 0;
    handle = handle_ptr = remote_p = in_qsrc = out_qsink = NULL;
    worker_loop = NULL;
    app_loop = upump_ev_mgr_alloc_default(0, 0);
    assert(app_loop);
    uprobe_init(&base_probe, base_catch, NULL);
    upm_probe = uprobe_pthread_upump_mgr_alloc(&base_probe);
    assert(upm_probe);
    ubase_assert(uprobe_pthread_upump_mgr_set(upm_probe, app_loop));
    uprobe_init(&app_probe, app_catch, uprobe_use(upm_probe));
    uprobe_init(&rem_probe, rem_catch, uprobe_use(upm_probe));
    xfer_probe = uprobe_xfer_alloc(&rem_probe);
    ubase_assert(uprobe_xfer_add(xfer_probe, UPROBE_XFER_VOID, UPROBE_SOURCE_END, 0));
    ubase_assert(uprobe_xfer_add(xfer_probe, UPROBE_XFER_VOID, UPROBE_SYNC_ACQUIRED, 0));
    ubase_assert(uprobe_xfer_add(xfer_probe, UPROBE_XFER_VOID, UPROBE_SYNC_LOST, 0));
    for (int k = 0; k < 2; k++) {
        upipe_init(&rsink[k].upipe, &rs_mgr, NULL);
        rsink[k].upipe.refcount = NULL;
        rsink[k].idx = k;
    }
    rmutex.umutex.refcount = NULL;
    rmutex.umutex.umutex_lock = rec_lock;
    rmutex.umutex.umutex_unlock = rec_unlock;
    rmutex.real = use_mutex ? umutex_pthread_alloc(NULL) : NULL;
    /* the real thread start-up of upipe-pthread: new thread, its own loop, attach, run under the mutex */
    xfer_mgr = upipe_pthread_xfer_mgr_alloc(XFER_QLEN, 0, uprobe_use(upm_probe), worker_loop_alloc, 0, 0,
                                            use_mutex ? &rmutex.umutex : NULL, NULL, NULL);
    assert(xfer_mgr);
    __atomic_store_n(&xfer_mgr_refcount, (const void *)xfer_mgr->refcount, __ATOMIC_RELAXED);
}

static void app_alloc(void)
{
    struct upipe *remote = upipe_void_alloc(flavour == FL_SRC ? &rp_mgr_src : &rp_mgr_lin, uprobe_use(xfer_probe));
    assert(remote);
    remote_p = remote;
    if (flavour == FL_SRC)
        container_of(remote, struct rp, upipe)->prog = srcprog;
    struct upipe_mgr *wm = upipe_work_mgr_alloc(xfer_mgr);
    assert(wm);
    upipe_mgr_release(xfer_mgr);
    log_line("{\"e\":\"Alloc\"}");
    struct upipe *h;
    switch (flavour) {
    case FL_LIN: h = upipe_wlin_alloc(wm, uprobe_use(&app_probe), remote, uprobe_use(xfer_probe), INLEN, OUTLEN); break;
    case FL_SINK: h = upipe_wsink_alloc(wm, uprobe_use(&app_probe), remote, uprobe_use(xfer_probe), INLEN); break;
    default: h = upipe_wsrc_alloc(wm, uprobe_use(&app_probe), remote, uprobe_use(xfer_probe), OUTLEN); break;
    }
    assert(h);
    upipe_mgr_release(wm);
    handle = handle_ptr = h;
    log_line("{\"e\":\"Transferred\"}");
    upipe_attach_upump_mgr(handle);
}

static void op(char c)
{
    switch (c) {
    case 'A': case 'B': {
        struct uref *fd = mk_flow_def(c);
        log_line("{\"e\":\"SetFd\",\"f\":\"%c\"}", c);
        int err = upipe_set_flow_def(handle, fd);
        uref_free(fd);
        if (!ubase_check(err)) log_line("{\"e\":\"SetFdFail\"}");
        break;
    }
    case 'i': {
        struct uref *u = uref_alloc(urefm);
        uref_vx_set_id(u, next_id);
        log_line("{\"e\":\"Send\",\"id\":%d}", next_id);
        next_id++;
        upipe_input(handle, u, NULL);
        break;
    }
    case 'o': case 'O': {
        int s = c == 'O';
        log_line("{\"e\":\"SetOut\",\"s\":%d}", s);
        int err = upipe_set_output(handle, &rsink[s].upipe);
        log_line("{\"e\":\"SetOutRet\",\"ok\":%s}", ubase_check(err) ? "true" : "false");
        break;
    }
    case 'z': {
        log_line("{\"e\":\"Freeze\"}");
        int err = upipe_bin_freeze(handle);
        log_line("{\"e\":\"FreezeRet\",\"ok\":%s}", ubase_check(err) ? "true" : "false");
        break;
    }
    case 't': {
        log_line("{\"e\":\"Thaw\"}");
        int err = upipe_bin_thaw(handle);
        log_line("{\"e\":\"ThawRet\",\"ok\":%s}", ubase_check(err) ? "true" : "false");
        break;
    }
    case 'c': {
        log_line("{\"e\":\"Ctl\"}");
        int err = upipe_set_option(handle, "k", "v");
        log_line("{\"e\":\"CtlRet\",\"ok\":%s}", ubase_check(err) ? "true" : "false");
        break;
    }
    case 'r':
        log_line("{\"e\":\"Release\"}");
        released = true;
        { struct upipe *h = handle; handle = NULL; upipe_release(h); }
        break;
    }
}

static void emit(const char *last)
{
#ifndef PW_NOLOG
    printf("{\"e\":\"Reset\",\"fl\":\"%s\",\"il\":%d,\"ol\":%d,\"mx\":%d,\"ta\":0,\"tw\":1,\"kind\":\"pthread\",\"what\":\"%s\",\"src\":\"%s\",\"id\":%ld,\"sched\":\"%llu/%u\"}\n",
           flavour_s, INLEN, OUTLEN, use_mutex, prog, srcprog, out_id++, (unsigned long long)run_seed, jitter_pm);
    for (int k = 0; k < nev && k < MAXEV; k++) printf("%s\n", evbuf[k]);
    if (last) printf("%s\n", last);
    fflush(stdout);
#endif
}
static void fatal_signal(int sig)
{
    emit(sig == SIGALRM ? "{\"e\":\"Hang\"}" : "{\"e\":\"Crash\"}");
    _exit(0);
}

static void run_once(void)
{
    prng = 0;
    alarm(RUN_ALARM);
    build_env();
    app_alloc();
    struct ev_loop *evl = ev_default_loop(0);
    for (const char *p = prog; *p; p++) {
        /* pause between the application's calls: none, a yield, a short sleep, or one loop iteration */
        unsigned r = rnd() % 8;
        if (r == 0) usleep(1 + rnd() % 300);
        else if (r < 3) sched_yield();
        if (*p == 'w') ev_run(evl, EVRUN_NOWAIT);
        else if (handle) op(*p);
    }
    upump_mgr_run(app_loop, NULL);
    alarm(0);
    /* the worker thread has been joined by upipe_pthread_stop (or never ended: alarm) */
    char last[96];
    snprintf(last, sizeof(last), "{\"e\":\"Quiescent\",\"live\":0,\"inside\":%d,\"holder\":-1,\"thread\":1}", inside[0] + inside[1]);
    emit(last);
    uprobe_release(xfer_probe);
    uprobe_clean(&app_probe);
    uprobe_clean(&rem_probe);
    uprobe_release(upm_probe);
    upump_mgr_release(app_loop);
    umutex_release(rmutex.real);
    uprobe_clean(&base_probe);
}

int main(int argc, char **argv)
{
    if (argc < 10) { fprintf(stderr, "usage: pthr_worker lin|sink|src inlen outlen mutex prog srcprog|- seed jitter runs\n"); return 2; }
    flavour_s = argv[1];
    flavour = !strcmp(argv[1], "lin") ? FL_LIN : !strcmp(argv[1], "sink") ? FL_SINK : FL_SRC;
    INLEN = atoi(argv[2]);
    OUTLEN = atoi(argv[3]);
    use_mutex = atoi(argv[4]);
    prog = argv[5];
    srcprog = !strcmp(argv[6], "-") ? "" : argv[6];
    uint64_t seed = strtoull(argv[7], NULL, 10);
    jitter_pm = (unsigned)atoi(argv[8]);
    long runs = atol(argv[9]);
    main_tid = pthread_self();
    umem = umem_alloc_mgr_alloc();
    udict = udict_inline_mgr_alloc(0, umem, -1, -1);
    urefm = uref_std_mgr_alloc(0, udict, 0);
    signal(SIGALRM, fatal_signal);
    signal(SIGSEGV, fatal_signal);
    signal(SIGABRT, fatal_signal);
    signal(SIGBUS, fatal_signal);
    if (jitter_pm) upipe_verif_yield_cb = hook;
    for (long i = 0; i < runs; i++) {
        run_seed = seed + (uint64_t)i;
        run_once();
    }
    return 0;
}
