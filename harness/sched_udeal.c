/* sched_udeal: contenders on one real udeal (real eventfd, mock pumps/event
 * loops) under the deterministic scheduler.  Emits traces for
 * Udeal_Trace.tla.  (C08)
 * usage: sched_udeal <nthreads> <rounds>[a<t>] <mode> [args]
 *   a<t>: contender t gives up (udeal_abort) in a round in which it finds itself waiting before its
 *   watcher has had a chance to run (it was not the first to register)
 */
#include <stdio.h>
#include <stdlib.h>
#include <string.h>
#include <stdint.h>
#include <stdbool.h>
#include <stdarg.h>
#include <assert.h>
#include <poll.h>

#include "upipe/ubase.h"
#include "upipe/uatomic.h"
#include "upipe/urefcount.h"
#include "upipe/upump.h"
#include "upipe/udeal.h"
#include "vsched.h"

static int NT, ROUNDS, ABORTER = -1;
static struct udeal deal;
static bool inited;

/* fake pump manager: only start/stop are used by udeal */
static bool started[VS_MAXT];
static struct upump pumps[VS_MAXT];
static struct upump_mgr fmgr;
static int fake_control(struct upump *p, int cmd, va_list args)
{
    int t = (int)(p - pumps);
    if (cmd == UPUMP_START) started[t] = true;
    else if (cmd == UPUMP_STOP) started[t] = false;
    return UBASE_ERR_NONE;
}

#define MAXEV 512
struct ev { char e; uint8_t t; };
static struct ev evs[MAXEV];
static int nev;
static void log_ev(char e, int t) { if (nev < MAXEV) evs[nev++] = (struct ev){ e, (uint8_t)t }; }
static bool round_done[VS_MAXT];

static bool can_run(void *a)
{
    int t = (int)(intptr_t)a;
    struct pollfd p = { .fd = deal.event.event_fd, .events = POLLIN };
    return started[t] && poll(&p, 1, 0) == 1 && (p.revents & POLLIN);
}

static bool tried[VS_MAXT];
static void grab_cb(struct upump *p)
{
    int t = (int)(p - pumps);
    tried[t] = true;
    if (!udeal_grab(&deal)) { log_ev('F', t); return; }
    log_ev('E', t);
    vs_yield(VS_KIND_USER, NULL);      /* the critical section */
    log_ev('L', t);
    udeal_yield(&deal, p);
    round_done[t] = true;
}

static void contender(void *arg)
{
    int t = (int)(intptr_t)arg;
    for (int r = 0; r < ROUNDS; r++) {
        round_done[t] = false;
        log_ev('S', t);
        tried[t] = false;
        udeal_start(&deal, &pumps[t]);
        if (t == ABORTER && !round_done[t] && !tried[t]) {
            /* not the first to register: the watcher has not run yet - give up */
            log_ev('A', t);
            udeal_abort(&deal, &pumps[t]);
            continue;
        }
        while (!round_done[t]) {
            log_ev('Z', t);
            vs_wait(can_run, (void *)(intptr_t)t);
            log_ev('W', t);
            grab_cb(&pumps[t]);
        }
    }
}

static void setup(void *ctx)
{
    vs_reset();
    if (inited) udeal_clean(&deal);
    nev = 0;
    bool ok = udeal_init(&deal);
    assert(ok);
    inited = true;
    fmgr.upump_control = fake_control;
    for (int t = 0; t < NT; t++) {
        started[t] = false;
        pumps[t].mgr = &fmgr;
        pumps[t].cb = grab_cb;
        pumps[t].opaque = NULL;
        pumps[t].refcount = NULL;
        vs_spawn(contender, (void *)(intptr_t)t);
    }
}

#define HBITS 21
static uint64_t *seen;
static long nunique, nruns, out_id;
static struct vs_explore *cur_e;
static bool crashed;

static bool finish(void *ctx, const uint8_t *sched, int len, bool stuck)
{
    nruns++;
    uint64_t h = 1469598103934665603ULL;
    for (int i = 0; i < nev; i++) { h = (h ^ (((uint64_t)(uint8_t)evs[i].e << 8) | evs[i].t)) * 1099511628211ULL; h ^= h >> 29; }
    h |= 1;
    uint64_t mask = (1ULL << HBITS) - 1, i = h & mask;
    while (seen[i]) { if (seen[i] == h) return true; i = (i + 1) & mask; }
    seen[i] = h;
    nunique++;
    printf("{\"e\":\"Reset\",\"nt\":%d,\"rounds\":%d,\"aborter\":%d,\"id\":%ld,\"sched\":\"", NT, ROUNDS, ABORTER, out_id++);
    for (int k = 0; k < len; k++) putchar('0' + sched[k]);
    printf("\"}\n");
    for (int k = 0; k < nev; k++) {
        const char *n = evs[k].e == 'S' ? "Start" : evs[k].e == 'E' ? "Enter" : evs[k].e == 'L' ? "Leave" :
                        evs[k].e == 'Z' ? "Sleep" : evs[k].e == 'W' ? "Wake" : evs[k].e == 'A' ? "Abort" : "GrabFail";
        printf("{\"e\":\"%s\",\"t\":%d}\n", n, evs[k].t);
    }
    if (crashed) printf("{\"e\":\"Crash\"}\n");
    else if (cur_e->overrun) printf("{\"e\":\"Hang\"}\n");
    else printf("{\"e\":\"Quiescent\"}\n");
    return nunique < (1L << (HBITS - 1));
}

static void crash_dump(int sig)
{
    int len;
    const uint8_t *s = vs_cur_sched(&len);
    crashed = true;
    finish(NULL, s, len, false);
}

int main(int argc, char **argv)
{
    if (argc < 5) { fprintf(stderr, "usage\n"); return 2; }
    NT = atoi(argv[1]);
    ROUNDS = atoi(argv[2]);
    if (strchr(argv[2], 'a')) ABORTER = atoi(strchr(argv[2], 'a') + 1);
    seen = calloc(1ULL << HBITS, sizeof(uint64_t));
    vs_install_hooks();
    vs_install_crash_handler(crash_dump);
    struct vs_explore e = { .setup = setup, .finish = finish };
    cur_e = &e;
    const char *mode = argv[3];
    bool complete = false;
    if (!strcmp(mode, "dfs")) {
        e.preemption_bound = atoi(argv[4]);
        e.max_runs = atol(argv[5]);
        vs_explore_run(&e);
        complete = e.complete;
    } else if (!strcmp(mode, "random")) {
        long runs = atol(argv[4]);
        uint64_t rng = strtoull(argv[5], NULL, 10) * 2654435761ULL + 12345;
        int sw = atoi(argv[6]);
        static uint8_t out[VS_MAXSTEPS];
        for (long i = 0; i < runs; i++) {
            bool stuck;
            int len = vs_random(&e, &rng, sw, out, VS_MAXSTEPS, &stuck);
            finish(NULL, out, len, stuck);
        }
    } else {
        static uint8_t pre[VS_MAXSTEPS], out[VS_MAXSTEPS];
        int plen = 0;
        for (const char *p = argv[4]; *p; p++) pre[plen++] = (uint8_t)(*p - '0');
        bool stuck;
        int len = vs_replay(&e, pre, plen, out, VS_MAXSTEPS, &stuck);
        finish(NULL, out, len, stuck);
        fprintf(stderr, "{\"replay_len\":%d,\"given_len\":%d}\n", len, plen);
    }
    fprintf(stderr, "{\"runs\":%ld,\"unique\":%ld,\"complete\":%s,\"max_len\":%d}\n",
            nruns, nunique, complete ? "true" : "false", e.max_len);
    return 0;
}
