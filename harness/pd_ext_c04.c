/* pd_ext_c04: extension of harness/pipe_driver.c for check C04 (PipeLife).
 *
 * - more pipe types (hook pd_types_a), with a wrapper around the recording
 *   probe that can answer need_upump_mgr (mock loop harness/vloop.c over the
 *   real upump_common.c) and uclock requests (deterministic virtual clock);
 * - commands (hook pd_ext_a):
 *     reset                    release every handle still held, forget all
 *                              objects (names can be reused): one process runs
 *                              thousands of scripts
 *     env upump|uclock on|off  the probe of pipes allocated from now on answers
 *                              need_upump_mgr / uclock requests
 *     env logmsg on|off        print the text of log messages ("logmsg ...",
 *                              a debugging aid, ignored by the check)
 *     attach pN upump|uclock   upipe_attach_upump_mgr / upipe_attach_uclock
 *     loop [n]                 run at most n iterations of the mock loop
 *                              (idlers and ready fd pumps) -> ret <dispatched>
 *     tick <ticks>             advance the virtual clock, firing timers
 *     subf pN pM <fd>          flow-allocate a sub pipe of pM
 *     subin pN pM              void-allocate a sub pipe (same as base "sub";
 *                              with the answering probe)
 *     newf pN <type> <def> [k=v..]  flow-allocate a pipe with a built flow definition
 *     setfdx pN <def> [k=v..]  upipe_set_flow_def with a built flow definition; keys: rate
 *                              channels sample_size samples splanes (sound), hsize vsize fps
 *                              pplanes (pic), pes_id, duration, latency, tag
 *     newqsrc pN <length>      allocate a queue source
 *     newqsink pN pM           allocate a queue sink pushing into queue source pM
 *     env fltag on|off         flow tags (see pipe_driver.c): buffers fed from now on carry the
 *                              identity of their flow, the sinks print it
 *     inpic pN <id> [k=v..]    upipe_input of a picture (planar y8/u8/v8 4:2:0, of the size of the
 *                              flow definition last accepted by pN, 16x16 by default, filled from
 *                              id); keys: pts_sys pts_prog dts_prog duration
 *     insound pN <id> <samples> [k=v..]  upipe_input of a sound buffer (one plane "lr", 4 octets
 *                              per sample)
 *     intick pN <id> [k=v..]   upipe_input of a buffer-less uref (reference "clock" inputs)
 *     provall sN               sink sN answers every request registered with it
 *     subfx pN pM <def> [k=v..]  flow-allocate a sub pipe with a built flow definition (keys as setfdx,
 *                              plus pid, psi_filter=<filter hex>:<mask hex>)
 *     contin pN                upipe_videocont_sub_set_input / upipe_audiocont_sub_set_input
 *     arm pN sM|off            the probe of pN answers the next need_output by
 *                              upipe_set_output(pN, sM) (once); prints
 *                              "probe out pN sM" when it does
 * Output format: as pipe_driver.c ("ev ...", "ret ...").
 */
#include <stdio.h>
#include <stdlib.h>
#include <string.h>
#include <stdint.h>
#include <stdbool.h>
#include <stdarg.h>
#include <inttypes.h>

#include "upipe/ubase.h"
#include "upipe/urefcount.h"
#include "upipe/uprobe.h"
#include "upipe/ulog.h"
#include "upipe/uclock.h"
#include "upipe/upump.h"
#include "upipe/upipe.h"
#include "upipe/uref_flow.h"
#include "upipe/uref_clock.h"
#include "upipe/uref_attr.h"
#include "upipe/uref_sound_flow.h"
#include "upipe/uref_pic_flow.h"
#include "upipe-ts/uref_ts_flow.h"
#include "upipe/ubuf.h"
#include "upipe/ubuf_pic.h"
#include "upipe/ubuf_pic_mem.h"
#include "upipe/ubuf_sound.h"
#include "upipe/ubuf_sound_mem.h"
#include "upipe/ubuf_mem.h"
#include "upipe/uref_pic.h"
#include "upipe/uref_sound.h"
#include "upipe/uref_attr.h"

#include "pipe_driver.h"
#include "vloop.h"

#include "upipe-modules/upipe_buffer.h"
#include "upipe-modules/upipe_discard_blocking.h"
#include "upipe-modules/upipe_time_limit.h"
#include "upipe-modules/upipe_rate_limit.h"
#include "upipe-modules/upipe_burst.h"
#include "upipe-modules/upipe_even.h"
#include "upipe-modules/upipe_trickplay.h"
#include "upipe-modules/upipe_stream_switcher.h"
#include "upipe-modules/upipe_multicat_probe.h"
#include "upipe-modules/upipe_dump.h"
#include "upipe-modules/upipe_dtsdi.h"
#include "upipe-modules/upipe_rtp_h264.h"
#include "upipe-modules/upipe_rtp_mpeg4.h"
#include "upipe-modules/upipe_m3u_reader.h"
#include "upipe-modules/upipe_aes_decrypt.h"
#include "upipe-modules/upipe_subpic_schedule.h"
#include "upipe-modules/upipe_row_split.h"
#include "upipe-modules/upipe_ntsc_prepend.h"
#include "upipe-modules/upipe_separate_fields.h"
#include "upipe-modules/upipe_crop.h"
#include "upipe-modules/upipe_rtp_pcm_pack.h"
#include "upipe-modules/upipe_rtp_pcm_unpack.h"
#include "upipe-modules/upipe_audio_merge.h"
#include "upipe-modules/upipe_audio_split.h"
#include "upipe-modules/upipe_audiocont.h"
#include "upipe-modules/upipe_videocont.h"
#include "upipe-modules/upipe_play.h"
#include "upipe-modules/upipe_dejitter.h"
#include "upipe-modules/upipe_sync.h"
#include "upipe-modules/upipe_block_to_sound.h"
#include "upipe-modules/upipe_audio_copy.h"
#include "upipe-modules/upipe_video_blank.h"
#include "upipe-modules/upipe_audio_blank.h"
#include "upipe-modules/upipe_void_source.h"
#include "upipe-modules/upipe_queue_sink.h"
#include "upipe-modules/upipe_queue_source.h"
#include "upipe-modules/upipe_file_sink.h"
#include "upipe-modules/upipe_udp_sink.h"
#include "upipe-modules/upipe_grid.h"
#ifdef C04_WITH_TS
#include "upipe-ts/upipe_ts_check.h"
#include "upipe-ts/upipe_ts_sync.h"
#include "upipe-ts/upipe_ts_align.h"
#include "upipe-ts/upipe_ts_decaps.h"
#include "upipe-ts/upipe_ts_psi_merge.h"
#include "upipe-ts/upipe_ts_psi_split.h"
#include "upipe-ts/upipe_ts_psi_join.h"
#include "upipe-ts/upipe_ts_pid_filter.h"
#include "upipe-ts/upipe_ts_split.h"
#include "upipe-ts/upipe_ts_pes_decaps.h"
#include "upipe-ts/upipe_ts_pes_encaps.h"
#include "upipe-ts/upipe_ts_pcr_interpolator.h"
#include "upipe-ts/upipe_ts_tstd.h"
#include "upipe-framers/upipe_opus_framer.h"
#include "upipe-framers/upipe_s302_framer.h"
#include "upipe-framers/upipe_telx_framer.h"
#endif

/* ------------------------------------------------------------ environment */
static struct upump_mgr *g_loop;
static bool env_upump, env_uclock, env_logmsg;

static struct upump_mgr *loop(void)
{
    if (g_loop == NULL)
        g_loop = vloop_mgr_alloc();
    return g_loop;
}

/* deterministic clock: follows the virtual time of the mock loop */
static struct uclock vclock;
static struct urefcount vclock_rc;
static void vclock_dead(struct urefcount *rc) { }
static uint64_t vclock_now(struct uclock *c)
{
    return 1000000 + vloop_now(loop());
}
static struct uclock *vclock_get(void)
{
    if (vclock.refcount == NULL) {
        urefcount_init(&vclock_rc, vclock_dead);
        vclock.refcount = &vclock_rc;
        vclock.uclock_now = vclock_now;
        vclock.uclock_to_real = NULL;
        vclock.uclock_from_real = NULL;
    }
    return &vclock;
}

/* ------------------------------------------------------------ probe wrapper */
/* same recording (and the same output lines) as probe_catch of pipe_driver.c,
 * for the pipes this file allocates itself */
static const char *ev_name(int ev)
{
    switch (ev) {
    case UPROBE_LOG: return "log";
    case UPROBE_FATAL: return "fatal";
    case UPROBE_ERROR: return "error";
    case UPROBE_READY: return "ready";
    case UPROBE_DEAD: return "dead";
    case UPROBE_STALLED: return "stalled";
    case UPROBE_SOURCE_END: return "source_end";
    case UPROBE_SINK_END: return "sink_end";
    case UPROBE_NEED_OUTPUT: return "need_output";
    case UPROBE_PROVIDE_REQUEST: return "provide_request";
    case UPROBE_NEED_UPUMP_MGR: return "need_upump_mgr";
    case UPROBE_FREEZE_UPUMP_MGR: return "freeze_upump_mgr";
    case UPROBE_THAW_UPUMP_MGR: return "thaw_upump_mgr";
    case UPROBE_NEED_SOURCE_MGR: return "need_source_mgr";
    case UPROBE_NEW_FLOW_DEF: return "new_flow_def";
    case UPROBE_NEW_RAP: return "new_rap";
    case UPROBE_SPLIT_UPDATE: return "split_update";
    case UPROBE_SYNC_ACQUIRED: return "sync_acquired";
    case UPROBE_SYNC_LOST: return "sync_lost";
    case UPROBE_CLOCK_REF: return "clock_ref";
    case UPROBE_CLOCK_TS: return "clock_ts";
    case UPROBE_CLOCK_UTC: return "clock_utc";
    case UPROBE_PREROLL_END: return "preroll_end";
    default: return "local";
    }
}

static int rec_catch(struct uprobe *uprobe, struct upipe *upipe, int event, va_list args)
{
    struct obj *self = (struct obj *)((char *)uprobe - offsetof(struct obj, probe));
    char nbuf[48];
    const char *n;
    if (upipe == self->ptr || self->ptr == (struct upipe *)-1) n = self->name;
    else if (self->ptr == NULL && !self->alive && self->last == upipe) n = self->name;
    else { snprintf(nbuf, sizeof(nbuf), "inner:%s", self->name); n = nbuf; }
    va_list c;
    if (event == UPROBE_LOG) {
        va_copy(c, args);
        struct ulog *ulog = va_arg(c, struct ulog *);
        va_end(c);
        printf("ev %s log %d\n", n, ulog ? (int)ulog->level : -1);
        return UBASE_ERR_NONE;
    }
    if (event == UPROBE_PROVIDE_REQUEST) {
        va_copy(c, args);
        struct urequest *r = va_arg(c, struct urequest *);
        va_end(c);
        printf("ev %s provide_request %s type=%d\n", n, req_name(r), r->type);
        if (r->type >= 0 && r->type < 6 && self->prov[r->type])
            return provide(r, n);
        return UBASE_ERR_UNHANDLED;
    }
    if (event == UPROBE_NEW_FLOW_DEF) {
        va_copy(c, args);
        struct uref *fd = va_arg(c, struct uref *);
        va_end(c);
        printf("ev %s new_flow_def %s\n", n, fd_name(fd));
        return UBASE_ERR_NONE;
    }
    printf("ev %s %s\n", n, ev_name(event));
    if (event == UPROBE_DEAD) {
        if (upipe == self->ptr) { self->alive = false; self->last = upipe; self->ptr = NULL; }
        return UBASE_ERR_NONE;
    }
    if (event == UPROBE_NEED_UPUMP_MGR || event == UPROBE_NEED_SOURCE_MGR || event == UPROBE_NEED_OUTPUT)
        return UBASE_ERR_UNHANDLED;
    return UBASE_ERR_NONE;
}

static uprobe_throw_func orig_catch;
static struct vsink *armed[MAXOBJ];

static int c04_catch(struct uprobe *uprobe, struct upipe *upipe, int event, va_list args)
{
    struct obj *self = (struct obj *)((char *)uprobe - offsetof(struct obj, probe));
    va_list c;
    va_copy(c, args);
    int r = orig_catch(uprobe, upipe, event, c);
    va_end(c);
    int idx = (int)(self - pipes);
    if (event == UPROBE_LOG && env_logmsg) {
        va_copy(c, args);
        struct ulog *ulog = va_arg(c, struct ulog *);
        va_end(c);
        if (ulog != NULL && ulog->format != NULL) {
            va_list la;
            va_copy(la, *ulog->args);
            printf("logmsg ");
            vprintf(ulog->format, la);
            printf("\n");
            va_end(la);
        }
    }
    if (event == UPROBE_NEED_OUTPUT && idx >= 0 && idx < MAXOBJ && armed[idx] != NULL &&
        upipe == self->ptr) {
        struct vsink *s = armed[idx];
        armed[idx] = NULL;
        printf("probe out %s %s\n", self->name, s->name);
        upipe_set_output(upipe, &s->upipe);
        return UBASE_ERR_NONE;
    }
    if (event == UPROBE_NEED_UPUMP_MGR && self->prov[7]) {
        va_copy(c, args);
        struct upump_mgr **p = va_arg(c, struct upump_mgr **);
        va_end(c);
        if (p != NULL) {
            *p = upump_mgr_use(loop());
            return UBASE_ERR_NONE;
        }
    }
    if (event == UPROBE_PROVIDE_REQUEST && !ubase_check(r) && self->prov[6]) {
        va_copy(c, args);
        struct urequest *req = va_arg(c, struct urequest *);
        va_end(c);
        if (req->type == UREQUEST_UCLOCK)
            return urequest_provide_uclock(req, uclock_use(vclock_get()));
    }
    return r;
}

/* install the wrapper on the object that "new" is allocating right now: it
 * is the only slot with a name, an initialised probe and no pipe yet */
static void wrap(struct obj *o)
{
    if (o->probe.uprobe_throw != c04_catch) {
        if (orig_catch == NULL)
            orig_catch = o->probe.uprobe_throw;
        o->probe.uprobe_throw = c04_catch;
    }
}

static void install_wrapper(struct obj *o)
{
    wrap(o);
    /* prov[6], prov[7] are unused by the base driver (request types < 6) */
    o->prov[6] = env_uclock;
    o->prov[7] = env_upump;
}

static struct obj *fresh_obj(void)
{
    for (int i = 0; i < MAXOBJ; i++) {
        struct obj *o = &pipes[i];
        if (o->name[0] && o->upipe == NULL && o->ptr == NULL && o->last == NULL &&
            !o->alive && o->probe.uprobe_throw != NULL && o->probe.uprobe_throw != c04_catch)
            return o;
    }
    return NULL;
}

/* ------------------------------------------------------------ types */
struct c04_type {
    struct pipe_type pt;
    struct upipe_mgr *(*real)(void);
};

static struct upipe_mgr *tramp(void);
#define T(name, fn, flow) { { name, tramp, flow, NULL }, fn }
static struct upipe_mgr *qsrc_none(void) { return NULL; }
static struct c04_type c04_types[] = {
    T("buffer", upipe_buffer_mgr_alloc, NULL),
    T("disblo", upipe_disblo_mgr_alloc, NULL),
    T("time_limit", upipe_time_limit_mgr_alloc, NULL),
    T("rate_limit", upipe_rate_limit_mgr_alloc, NULL),
    T("burst", upipe_burst_mgr_alloc, NULL),
    T("even", upipe_even_mgr_alloc, NULL),
    T("trickp", upipe_trickp_mgr_alloc, NULL),
    T("stream_switcher", upipe_stream_switcher_mgr_alloc, NULL),
    T("multicat_probe", upipe_multicat_probe_mgr_alloc, NULL),
    T("dump", upipe_dump_mgr_alloc, NULL),
    T("dtsdi", upipe_dtsdi_mgr_alloc, NULL),
    T("rtp_h264", upipe_rtp_h264_mgr_alloc, NULL),
    T("rtp_mpeg4", upipe_rtp_mpeg4_mgr_alloc, NULL),
    T("m3u_reader", upipe_m3u_reader_mgr_alloc, NULL),
    T("aes_decrypt", upipe_aes_decrypt_mgr_alloc, NULL),
    T("subpic_schedule", upipe_subpic_schedule_mgr_alloc, NULL),
    T("row_split", upipe_row_split_mgr_alloc, NULL),
    T("ntsc_prepend", upipe_ntsc_prepend_mgr_alloc, NULL),
    T("separate_fields", upipe_separate_fields_mgr_alloc, NULL),
    T("crop", upipe_crop_mgr_alloc, NULL),
    T("rtp_pcm_pack", upipe_rtp_pcm_pack_mgr_alloc, NULL),
    T("rtp_pcm_unpack", upipe_rtp_pcm_unpack_mgr_alloc, NULL),
    T("audio_merge", upipe_audio_merge_mgr_alloc, "sound.s16"),
    T("audio_split", upipe_audio_split_mgr_alloc, NULL),
    T("audiocont", upipe_audiocont_mgr_alloc, "sound.s16"),
    T("videocont", upipe_videocont_mgr_alloc, NULL),
    T("play", upipe_play_mgr_alloc, NULL),
    T("dejitter", upipe_dejitter_mgr_alloc, NULL),
    T("sync", upipe_sync_mgr_alloc, NULL),
    T("block_to_sound", upipe_block_to_sound_mgr_alloc, "sound.s16"),
    T("audio_copy", upipe_audio_copy_mgr_alloc, "sound.s16"),
    T("vblk", upipe_vblk_mgr_alloc, "pic"),
    T("ablk", upipe_ablk_mgr_alloc, "sound.s16"),
    T("voidsrc", upipe_voidsrc_mgr_alloc, "void"),
    T("qsink", upipe_qsink_mgr_alloc, NULL),
    T("fsink", upipe_fsink_mgr_alloc, NULL),
    T("udpsink", upipe_udpsink_mgr_alloc, NULL),
    T("grid", upipe_grid_mgr_alloc, NULL),
#ifdef C04_WITH_TS
    T("ts_check", upipe_ts_check_mgr_alloc, NULL),
    T("ts_sync", upipe_ts_sync_mgr_alloc, NULL),
    T("ts_align", upipe_ts_align_mgr_alloc, NULL),
    T("ts_decaps", upipe_ts_decaps_mgr_alloc, NULL),
    T("ts_psi_merge", upipe_ts_psim_mgr_alloc, NULL),
    T("ts_psi_split", upipe_ts_psi_split_mgr_alloc, NULL),
    T("ts_psi_join", upipe_ts_psi_join_mgr_alloc, NULL),
    T("ts_pid_filter", upipe_ts_pidf_mgr_alloc, NULL),
    T("ts_split", upipe_ts_split_mgr_alloc, NULL),
    T("ts_pes_decaps", upipe_ts_pesd_mgr_alloc, NULL),
    T("ts_pes_encaps", upipe_ts_pese_mgr_alloc, NULL),
    T("ts_pcr_interpolator", upipe_ts_pcr_interpolator_mgr_alloc, NULL),
    T("ts_tstd", upipe_ts_tstd_mgr_alloc, NULL),
    T("opus_framer", upipe_opusf_mgr_alloc, NULL),
    T("s302_framer", upipe_s302f_mgr_alloc, NULL),
    T("telx_framer", upipe_telxf_mgr_alloc, NULL),
#endif
    { { NULL, NULL, NULL, NULL }, NULL }
};

static struct c04_type *cur_type;

static struct upipe_mgr *tramp(void)
{
    struct obj *o = fresh_obj();
    if (o != NULL)
        install_wrapper(o);
    return cur_type->real();
}

const struct pipe_type *pd_types_a(const char *name)
{
    for (int i = 0; c04_types[i].pt.name; i++)
        if (!strcmp(c04_types[i].pt.name, name)) {
            cur_type = &c04_types[i];
            return &c04_types[i].pt;
        }
    return NULL;
}

/* ------------------------------------------------------------ options */
bool pd_option_a(struct upipe *upipe, const struct pipe_type *type, bool set,
                 const char *name, const char *value)
{
    const char *t = type ? type->name : "";
    int err;
#ifdef C04_WITH_TS
    if (!strcmp(t, "ts_pid_filter") && (!strcmp(name, "add_pid") || !strcmp(name, "del_pid"))) {
        err = !set ? UBASE_ERR_UNHANDLED : !strcmp(name, "add_pid") ? upipe_ts_pidf_add_pid(upipe, atoi(value))
                                                                    : upipe_ts_pidf_del_pid(upipe, atoi(value));
        printf("ret %d\n", err);
        return true;
    }
#endif
    if (!strcmp(t, "buffer") && !strcmp(name, "max_size")) {
        if (set) err = upipe_buffer_set_max_size(upipe, strtoull(value, NULL, 10));
        else { uint64_t v = 777777; err = upipe_buffer_get_max_size(upipe, &v); if (ubase_check(err)) { printf("ret 0 %" PRIu64 "\n", v); return true; } }
        printf("ret %d\n", err);
        return true;
    }
    if (!strcmp(t, "time_limit") && !strcmp(name, "limit")) {
        if (set) err = upipe_time_limit_set_limit(upipe, strtoull(value, NULL, 10));
        else { uint64_t v = 777777; err = upipe_time_limit_get_limit(upipe, &v); if (ubase_check(err)) { printf("ret 0 %" PRIu64 "\n", v); return true; } }
        printf("ret %d\n", err);
        return true;
    }
    if (!strcmp(t, "rate_limit") && !strcmp(name, "limit")) {
        if (set) err = upipe_rate_limit_set_limit(upipe, strtoull(value, NULL, 10));
        else { uint64_t v = 777777; err = upipe_rate_limit_get_limit(upipe, &v); if (ubase_check(err)) { printf("ret 0 %" PRIu64 "\n", v); return true; } }
        printf("ret %d\n", err);
        return true;
    }
    return false;
}

/* ------------------------------------------------------------ commands */
static void do_reset(void)
{
    /* release what the script left behind: pipes first (they may hold the
     * sinks), then the sinks */
    for (int i = MAXOBJ - 1; i >= 0; i--)
        if (pipes[i].name[0] && pipes[i].upipe != NULL) {
            struct upipe *u = pipes[i].upipe;
            pipes[i].upipe = NULL;
            upipe_release(u);
        }
    if (g_loop != NULL)
        vloop_run(g_loop, 8);
    for (int i = 0; i < MAXOBJ; i++)
        if (sinks[i].used && sinks[i].handle != NULL) {
            struct upipe *u = sinks[i].handle;
            sinks[i].handle = NULL;
            upipe_release(u);
        }
    int alive = 0;
    for (int i = 0; i < MAXOBJ; i++)
        if (pipes[i].name[0] && pipes[i].alive)
            alive++;
    int sinks_alive = 0;
    for (int i = 0; i < MAXOBJ; i++)
        if (sinks[i].used) {
            if (!sinks[i].dead)
                sinks_alive++;
            else
                free(sinks[i].upipe.uprobe);
        }
    for (int i = 0; i < MAXOBJ; i++)
        if (reqs[i].used)
            urequest_clean(&reqs[i].req);
    printf("reset pipes_alive=%d sinks_alive=%d\n", alive, sinks_alive);
    /* objects that are still alive are leaked on purpose (they may still
     * reference their probe): keep their slots untouched */
    for (int i = 0; i < MAXOBJ; i++) {
        if (pipes[i].name[0] && !pipes[i].alive)
            memset(&pipes[i], 0, sizeof(pipes[i]));
        else if (pipes[i].name[0])
            snprintf(pipes[i].name, sizeof(pipes[i].name), "~%d", i);
        if (sinks[i].used && sinks[i].dead)
            memset(&sinks[i], 0, sizeof(sinks[i]));
        else if (sinks[i].used)
            snprintf(sinks[i].name, sizeof(sinks[i].name), "~%d", i);
        if (reqs[i].used)
            memset(&reqs[i], 0, sizeof(reqs[i]));
    }
    env_upump = env_uclock = false;
    memset(armed, 0, sizeof(armed));
    pd_fl_reset();
}

static struct obj *new_slot(const char *name)
{
    for (int i = 0; i < MAXOBJ; i++)
        if (!pipes[i].name[0]) {
            struct obj *o = &pipes[i];
            memset(o, 0, sizeof(*o));
            snprintf(o->name, sizeof(o->name), "%s", name);
            return o;
        }
    return NULL;
}

static struct uref *build_fd(int nt, char **tok, int from)
{
    struct uref *fd = uref_alloc_control(g_uref);
    if (fd == NULL) return NULL;
    uref_flow_set_def(fd, tok[from]);
    for (int i = from + 1; i < nt; i++) {
        char *eq = strchr(tok[i], '=');
        if (eq == NULL) continue;
        *eq = 0;
        const char *k = tok[i], *v = eq + 1;
        uint64_t n = strtoull(v, NULL, 10);
        if (!strcmp(k, "rate")) uref_sound_flow_set_rate(fd, n);
        else if (!strcmp(k, "channels")) uref_sound_flow_set_channels(fd, (uint8_t)n);
        else if (!strcmp(k, "sample_size")) uref_sound_flow_set_sample_size(fd, (uint8_t)n);
        else if (!strcmp(k, "samples")) uref_sound_flow_set_samples(fd, n);
        else if (!strcmp(k, "splanes")) {
            uref_sound_flow_set_planes(fd, 0);
            const char *names[4] = { "l", "r", "c", "L" };
            for (unsigned j = 0; j < n && j < 4; j++) uref_sound_flow_add_plane(fd, n == 1 ? "lr" : names[j]);
        }
        else if (!strcmp(k, "hsize")) uref_pic_flow_set_hsize(fd, n);
        else if (!strcmp(k, "vsize")) uref_pic_flow_set_vsize(fd, n);
        else if (!strcmp(k, "fps")) { struct urational r = { (int64_t)n, 1 }; uref_pic_flow_set_fps(fd, r); }
        else if (!strcmp(k, "pplanes")) {
            uref_pic_flow_set_macropixel(fd, 1);
            uref_pic_flow_set_planes(fd, 0);
            uref_pic_flow_add_plane(fd, 1, 1, 1, "y8");
            if (n >= 3) { uref_pic_flow_add_plane(fd, 2, 2, 1, "u8"); uref_pic_flow_add_plane(fd, 2, 2, 1, "v8"); }
        }
        else if (!strcmp(k, "pes_id")) uref_ts_flow_set_pes_id(fd, (uint8_t)n);
        else if (!strcmp(k, "pid")) uref_ts_flow_set_pid(fd, n);
        else if (!strcmp(k, "psi_filter")) {
            /* <filter hex>:<mask hex> */
            uint8_t f[16], m[16];
            size_t sz = 0;
            const char *col = strchr(v, ':');
            for (; col != NULL && sz < 16 && v + 2 * sz < col; sz++) {
                unsigned a = 0, b = 0;
                sscanf(v + 2 * sz, "%2x", &a);
                sscanf(col + 1 + 2 * sz, "%2x", &b);
                f[sz] = (uint8_t)a; m[sz] = (uint8_t)b;
            }
            uref_ts_flow_set_psi_filter(fd, f, m, sz);
        }
        else if (!strcmp(k, "duration")) uref_clock_set_duration(fd, n);
        else if (!strcmp(k, "latency")) uref_clock_set_latency(fd, n);
        else if (!strcmp(k, "tag")) uref_attr_set_string(fd, v, UDICT_TYPE_STRING, "x.tag");
        *eq = '=';
    }
    return fd;
}

/* slot + recording probe for a pipe allocated by this file */
static struct obj *own_slot(const char *name, const struct pipe_type *pt)
{
    struct obj *o = new_slot(name);
    if (o == NULL) return NULL;
    o->type = pt;
    uprobe_init(&o->probe, orig_catch ? orig_catch : rec_catch, NULL);
    o->probe.refcount = NULL;
    install_wrapper(o);
    o->ptr = (struct upipe *)-1;
    registry_pending = o->name;
    return o;
}

static void own_done(struct obj *o, struct upipe *up)
{
    registry_pending = NULL;
    o->upipe = up;
    o->ptr = up;
    o->alive = up != NULL;
    ret(up ? 0 : -1);
}

static struct pipe_type pt_qsrc = { "qsrc", NULL, NULL, NULL };
static struct pipe_type pt_qsink = { "qsink", NULL, NULL, NULL };

/* ---- pictures, sound, reference ticks ------------------------------------- */
static struct ubuf_mgr *av_pic_mgr, *av_sound_mgr[17];
UREF_ATTR_UNSIGNED(avx, id, "x.id", packet id)

static void av_attrs(struct uref *u, int nt, char **tok, int from)
{
    for (int k = from; k < nt; k++) {
        if (!strncmp(tok[k], "pts_sys=", 8)) uref_clock_set_pts_sys(u, strtoull(tok[k] + 8, NULL, 10));
        else if (!strncmp(tok[k], "pts_prog=", 9)) uref_clock_set_pts_prog(u, strtoull(tok[k] + 9, NULL, 10));
        else if (!strncmp(tok[k], "dts_prog=", 9)) uref_clock_set_dts_prog(u, strtoull(tok[k] + 9, NULL, 10));
        else if (!strncmp(tok[k], "duration=", 9)) uref_clock_set_duration(u, strtoull(tok[k] + 9, NULL, 10));
    }
}

/* buffer managers are built from the flow format of the request (block, picture or sound) */
struct ubuf_mgr *pd_ubuf_mgr_for(struct uref *flow_format)
{
    return ubuf_mem_mgr_alloc_from_flow_def(0, 0, g_umem, flow_format);
}

static bool av_cmd(int nt, char **tok)
{
    const char *c = tok[0];
    if (!strcmp(c, "inpic") && nt >= 3) {
        struct upipe *up = find_any(tok[1]);
        if (!up) { ret(-1); return true; }
        if (av_pic_mgr == NULL) {
            av_pic_mgr = ubuf_pic_mem_mgr_alloc(0, 0, g_umem, 1, 0, 0, 0, 0, 0, 0);
            ubuf_pic_mem_mgr_add_plane(av_pic_mgr, "y8", 1, 1, 1);
            ubuf_pic_mem_mgr_add_plane(av_pic_mgr, "u8", 2, 2, 1);
            ubuf_pic_mem_mgr_add_plane(av_pic_mgr, "v8", 2, 2, 1);
        }
        unsigned id = atoi(tok[2]), h = 16, v = 16;
        pd_fl_size(tok[1], &h, &v);
        struct uref *u = uref_pic_alloc(g_uref, av_pic_mgr, h, v);
        if (u == NULL) { ret(-1); return true; }
        const char *chroma[3] = { "y8", "u8", "v8" };
        for (int pl = 0; pl < 3; pl++) {
            uint8_t *buf; size_t stride; uint8_t hs, vs;
            if (!ubase_check(uref_pic_plane_size(u, chroma[pl], &stride, &hs, &vs, NULL)) ||
                !ubase_check(uref_pic_plane_write(u, chroma[pl], 0, 0, -1, -1, &buf))) continue;
            for (unsigned y = 0; y < v / vs; y++)
                for (unsigned x = 0; x < h / hs; x++)
                    buf[y * stride + x] = (uint8_t)(id * 7 + pl * 31 + y * 5 + x);
            uref_pic_plane_unmap(u, chroma[pl], 0, 0, -1, -1);
        }
        uref_avx_set_id(u, id);
        av_attrs(u, nt, tok, 3);
        pd_fl_tag(tok[1], u);
        printf("input u%ld id=%u\n", uref_uid(u), id);
        upipe_input(up, u, NULL);
        ret(0);
        return true;
    }
    if (!strcmp(c, "insound") && nt >= 4) {
        struct upipe *up = find_any(tok[1]);
        if (!up) { ret(-1); return true; }
        /* one packed plane "lr"; the sample size is that of the flow definition last accepted (4 by default) */
        unsigned ssz = pd_fl_sample_size(tok[1]);
        if (ssz == 0 || ssz > 16) ssz = 4;
        if (av_sound_mgr[ssz] == NULL) {
            av_sound_mgr[ssz] = ubuf_sound_mem_mgr_alloc(0, 0, g_umem, ssz, 0);
            ubuf_sound_mem_mgr_add_plane(av_sound_mgr[ssz], "lr");
        }
        unsigned id = atoi(tok[2]);
        int samples = atoi(tok[3]);
        struct uref *u = uref_sound_alloc(g_uref, av_sound_mgr[ssz], samples);
        if (u == NULL) { ret(-1); return true; }
        uint8_t *buf;
        if (ubase_check(uref_sound_plane_write_uint8_t(u, "lr", 0, -1, &buf))) {
            for (int i = 0; i < samples * (int)ssz; i++) buf[i] = (uint8_t)(id * 7 + i);
            uref_sound_plane_unmap(u, "lr", 0, -1);
        }
        uref_avx_set_id(u, id);
        av_attrs(u, nt, tok, 4);
        pd_fl_tag(tok[1], u);
        printf("input u%ld id=%u\n", uref_uid(u), id);
        upipe_input(up, u, NULL);
        ret(0);
        return true;
    }
    if (!strcmp(c, "intick") && nt >= 3) {
        struct upipe *up = find_any(tok[1]);
        if (!up) { ret(-1); return true; }
        struct uref *u = uref_alloc(g_uref);
        if (u == NULL) { ret(-1); return true; }
        uref_avx_set_id(u, atoi(tok[2]));
        av_attrs(u, nt, tok, 3);
        pd_fl_tag(tok[1], u);
        printf("input u%ld id=%s\n", uref_uid(u), tok[2]);
        upipe_input(up, u, NULL);
        ret(0);
        return true;
    }
    if (!strcmp(c, "provall") && nt >= 2) {
        /* the sink answers every request registered with it, in registration order (buffer managers
         * are built from the flow format of the request: block, picture or sound) */
        struct vsink *sk = find_sink(tok[1]);
        if (sk == NULL) { ret(-1); return true; }
        struct urequest *snap[16];
        int n = sk->nregs, done = 0;
        memcpy(snap, sk->regs, sizeof(snap));
        for (int i = 0; i < n && i < 16; i++) {
            bool still = false;
            for (int j = 0; j < sk->nregs; j++) if (sk->regs[j] == snap[i]) still = true;
            if (!still) continue;
            struct urequest *r = snap[i];
            printf("provide %s %s type=%d\n", sk->name, req_name(r), r->type);
            provide(r, sk->name);
            done++;
        }
        printf("ret 0 %d\n", done);
        return true;
    }
    if (!strcmp(c, "contin") && nt >= 2) {
        struct upipe *up = find_any(tok[1]);
        if (!up) { ret(-1); return true; }
        int err = upipe_videocont_sub_set_input(up);
        if (!ubase_check(err)) err = upipe_audiocont_sub_set_input(up);
        ret(err);
        return true;
    }
    return false;
}

bool pd_ext_a(int nt, char **tok)
{
    const char *c = tok[0];
    /* one clock in the environment: whoever answers a clock request (probe or sink) gives the virtual one */
    if (g_uclock != vclock_get()) { if (g_uclock) uclock_release(g_uclock); g_uclock = vclock_get(); }
    if (av_cmd(nt, tok)) return true;
    if (!strcmp(c, "newf") && nt >= 4) {
        const struct pipe_type *pt = registry_find(tok[2]);
        if (pt == NULL) { ret(-1); return true; }
        struct upipe_mgr *(*real)(void) = pt->mgr_alloc == tramp ? cur_type->real : pt->mgr_alloc;
        struct obj *o = own_slot(tok[1], pt);
        if (o == NULL) { ret(-1); return true; }
        struct upipe_mgr *mgr = real();
        struct uref *fd = build_fd(nt, tok, 3);
        struct upipe *up = upipe_flow_alloc(mgr, &o->probe, fd);
        uref_free(fd);
        upipe_mgr_release(mgr);
        own_done(o, up);
        return true;
    }
    if (!strcmp(c, "setfdx") && nt >= 3) {
        struct upipe *up = find_any(tok[1]);
        if (!up) { ret(-1); return true; }
        struct uref *fd = build_fd(nt, tok, 2);
        int err = upipe_set_flow_def(up, fd);
        if (ubase_check(err)) pd_fl_note(tok[1], fd);
        uref_free(fd);
        ret(err);
        return true;
    }
    if (!strcmp(c, "newqsrc") && nt >= 3) {
        struct obj *o = own_slot(tok[1], &pt_qsrc);
        if (o == NULL) { ret(-1); return true; }
        struct upipe_mgr *mgr = upipe_qsrc_mgr_alloc();
        struct upipe *up = upipe_qsrc_alloc(mgr, &o->probe, atoi(tok[2]));
        upipe_mgr_release(mgr);
        own_done(o, up);
        return true;
    }
    if (!strcmp(c, "newqsink") && nt >= 3) {
        struct obj *q = find_pipe(tok[2]);
        if (q == NULL || q->upipe == NULL) { ret(-1); return true; }
        struct obj *o = own_slot(tok[1], &pt_qsink);
        if (o == NULL) { ret(-1); return true; }
        struct upipe_mgr *mgr = upipe_qsink_mgr_alloc();
        struct upipe *up = upipe_qsink_alloc(mgr, &o->probe, q->upipe);
        upipe_mgr_release(mgr);
        own_done(o, up);
        return true;
    }
    if (!strcmp(c, "reset")) {
        do_reset();
        ret(0);
        return true;
    }
    if (!strcmp(c, "env") && nt >= 3) {
        bool on = !strcmp(tok[2], "on");
        if (!strcmp(tok[1], "upump")) env_upump = on;
        else if (!strcmp(tok[1], "uclock")) env_uclock = on;
        else if (!strcmp(tok[1], "logmsg")) env_logmsg = on;
        else if (!strcmp(tok[1], "fltag")) pd_fltag = on;
        else { ret(-1); return true; }
        ret(0);
        return true;
    }
    if (!strcmp(c, "arm") && nt >= 3) {
        struct obj *o = find_pipe(tok[1]);
        struct vsink *s = find_sink(tok[2]);
        if (!o || !o->upipe || (!s && strcmp(tok[2], "off"))) { ret(-1); return true; }
        wrap(o);
        armed[o - pipes] = s;
        ret(0);
        return true;
    }
    if (!strcmp(c, "attach") && nt >= 3) {
        struct obj *o = find_pipe(tok[1]);
        if (!o || !o->upipe) { ret(-1); return true; }
        if (!strcmp(tok[2], "upump")) ret(upipe_attach_upump_mgr(o->upipe));
        else ret(upipe_attach_uclock(o->upipe));
        return true;
    }
    if (!strcmp(c, "loop")) {
        unsigned n = nt > 1 ? atoi(tok[1]) : 4;
        printf("ret %u\n", vloop_run(loop(), n));
        return true;
    }
    if (!strcmp(c, "tick") && nt >= 2) {
        printf("ret %u\n", vloop_advance(loop(), strtoull(tok[1], NULL, 10), 64));
        return true;
    }
    if ((!strcmp(c, "subf") && nt >= 4) || (!strcmp(c, "subfx") && nt >= 4) || (!strcmp(c, "subin") && nt >= 3)) {
        struct obj *sup = find_pipe(tok[2]);
        if (!sup || !sup->upipe) { ret(-1); return true; }
        struct obj *o = new_slot(tok[1]);
        if (!o) { ret(-1); return true; }
        uprobe_init(&o->probe, sup->probe.uprobe_throw == c04_catch ? orig_catch : sup->probe.uprobe_throw, NULL);
        o->probe.refcount = NULL;
        install_wrapper(o);
        o->ptr = (struct upipe *)-1;
        registry_pending = o->name;
        struct upipe *up;
        if (!strcmp(c, "subf") || !strcmp(c, "subfx")) {
            struct uref *fd = !strcmp(c, "subfx") ? build_fd(nt, tok, 3) : make_fd(tok[3]);
            up = upipe_flow_alloc_sub(sup->upipe, &o->probe, fd);
            uref_free(fd);
        } else
            up = upipe_void_alloc_sub(sup->upipe, &o->probe);
        registry_pending = NULL;
        o->upipe = up;
        o->ptr = up;
        o->alive = up != NULL;
        ret(up ? 0 : -1);
        return true;
    }
    return false;
}
