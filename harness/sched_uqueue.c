/* sched_uqueue: producers and consumers living in (mock) event loops on one
 * real uqueue with real eventfds, under the deterministic scheduler (hooks
 * H1-H3).  Emits NDJSON traces for Uqueue_Trace.tla.  (C08)
 *
 * usage: sched_uqueue <L> <npush0>[,<npush1>..] <ncons> <drain 0|1> <gran macro|fine> <mode> [args]
 *   mode: dfs <pb> <max_runs> | random <runs> <seed> <sw> | replay <digits>
 * Granularity "macro": a ufifo_push/ufifo_pop attempt is one scheduling step
 * (the atomic FIFO established by C07), every descriptor read/write and every
 * counter operation is a step: this is the granularity of spec/Uqueue.tla.
 * "fine": every yield point is a step.
 */
#include <stdio.h>
#include <stdlib.h>
#include <string.h>
#include <stdint.h>
#include <stdbool.h>
#include <assert.h>
#include <poll.h>

#include "upipe/ubase.h"
#include "upipe/uatomic.h"
#include "upipe/urefcount.h"
#include "upipe/uqueue.h"
#include "vsched.h"

static int L, nprod, ncons, drain;
static int npush[VS_MAXT];
static bool macro;
static const char *npush_arg;

static struct uqueue q;
static void *extra;
static bool q_inited;

#define MAXEV 2048
struct ev { char e; uint8_t t; int v; };
static struct ev evs[MAXEV];
static int nev;
static void log_ev(char e, int t, int v) { if (nev < MAXEV) evs[nev++] = (struct ev){ e, (uint8_t)t, v }; }

static bool readable(int fd)
{
    struct pollfd p = { .fd = fd, .events = POLLIN };
    return poll(&p, 1, 0) == 1 && (p.revents & POLLIN);
}
static bool can_push(void *a) { return readable(q.event_push.event_fd); }
static bool can_pop(void *a) { return readable(q.event_pop.event_fd); }

static void producer(void *arg)
{
    int t = (int)(intptr_t)arg;
    for (int k = 0; k < npush[t]; k++) {
        int v = (t + 1) * 16 + k;
        for (;;) {
            log_ev('I', t, v);
            bool ok = uqueue_push(&q, (void *)(uintptr_t)v);
            log_ev('R', t, ok);
            if (ok) break;
            log_ev('S', t, 0);
            vs_wait(can_push, NULL);
            log_ev('W', t, 0);
        }
    }
}

static void consumer(void *arg)
{
    int t = (int)(intptr_t)arg;
    for (;;) {
        log_ev('S', t, 0);
        vs_wait(can_pop, NULL);
        log_ev('W', t, 0);
        void *el;
        do {
            log_ev('i', t, 0);
            el = uqueue_pop(&q, void *);
            log_ev('r', t, (int)(uintptr_t)el);
        } while (drain && el != NULL);
    }
}

static void setup(void *ctx)
{
    vs_reset();
    if (q_inited) { uqueue_clean(&q); free(extra); }
    nev = 0;
    extra = malloc(uqueue_sizeof(L) + 16);
    bool ok = uqueue_init(&q, L, extra);
    assert(ok);
    q_inited = true;
    for (int t = 0; t < nprod; t++) vs_spawn(producer, (void *)(intptr_t)t);
    for (int t = 0; t < ncons; t++) {
        int id = vs_spawn(consumer, (void *)(intptr_t)(nprod + t));
        vs_step(id);   /* consumers start in their event loop */
    }
}

static bool internal_kind(int k) { return k == 1 || k == 2 || k == 3 || k == 10 || k == 11; }
/* macro granularity: the kind of every scheduling step is recorded (Step events), so that a rejected
 * execution can be compared with the detailed model spec/Uqueue.tla step by step */
static const char *const step_names[] = { "other", "start", "wake", "fifo", "rdpush", "rdpop", "wrpush", "wrpop",
                                          "fadd", "fsub", "ldcnt" };
static int step_code(int k, const void *o)
{
    if (k == VS_KIND_START) return 1;
    if (k == VS_KIND_WAIT) return 2;
    if (k == 20) return o == (const void *)&q.event_push ? 4 : o == (const void *)&q.event_pop ? 5 : 0;
    if (k == 21) return o == (const void *)&q.event_push ? 6 : o == (const void *)&q.event_pop ? 7 : 0;
    if (o == (const void *)&q.counter) return k == 4 ? 8 : k == 5 ? 9 : k == 2 ? 10 : 0;
    if (k == 2) return 3;
    return 0;
}
static void macro_step(void *ctx, int t)
{
    int k = vs_pending_kind(t);
    log_ev('K', t, step_code(k, vs_pending_obj(t)));
    if (k == 2 && vs_pending_obj(t) == (const void *)&q.counter) {
        vs_step(t);             /* a load of the counter is a step of its own, not a FIFO operation */
        return;
    }
    vs_step(t);
    if (k == 2 /* LOAD: first access of a ufifo operation */)
        while (vs_runnable(t) && internal_kind(vs_pending_kind(t)))
            vs_step(t);
    else if (k == VS_KIND_START || k == VS_KIND_WAIT) {
        /* ran up to the first access of a fifo op: nothing more */
    }
}

#define HBITS 21
static uint64_t *seen;
static long nunique, nruns, out_id;
static struct vs_explore *cur_e;
static bool crashed;

static bool finish(void *ctx, const uint8_t *sched, int len, bool stuck)
{
    nruns++;
    uint64_t h = 1469598103934665603ULL;
    for (int i = 0; i < nev; i++) { if (evs[i].e == 'K') continue; h = (h ^ (((uint64_t)(uint8_t)evs[i].e << 40) ^ ((uint64_t)evs[i].t << 32) ^ (uint32_t)evs[i].v)) * 1099511628211ULL; h ^= h >> 29; }
    h |= 1;
    uint64_t mask = (1ULL << HBITS) - 1, i = h & mask;
    while (seen[i]) { if (seen[i] == h) return true; i = (i + 1) & mask; }
    seen[i] = h;
    nunique++;
    printf("{\"e\":\"Reset\",\"L\":%d,\"npush\":[%s],\"ncons\":%d,\"drain\":%d,\"gran\":\"%s\",\"id\":%ld,\"sched\":\"",
           L, npush_arg, ncons, drain, macro ? "macro" : "fine", out_id++);
    for (int k = 0; k < len; k++) putchar('0' + sched[k]);
    printf("\"}\n");
    for (int k = 0; k < nev; k++) {
        struct ev *e = &evs[k];
        switch (e->e) {
        case 'I': printf("{\"e\":\"PushInv\",\"t\":%d,\"v\":%d}\n", e->t, e->v); break;
        case 'R': printf("{\"e\":\"PushRet\",\"t\":%d,\"ok\":%s}\n", e->t, e->v ? "true" : "false"); break;
        case 'i': printf("{\"e\":\"PopInv\",\"t\":%d}\n", e->t); break;
        case 'r': printf("{\"e\":\"PopRet\",\"t\":%d,\"v\":%d}\n", e->t, e->v); break;
        case 'S': printf("{\"e\":\"Sleep\",\"t\":%d}\n", e->t); break;
        case 'W': printf("{\"e\":\"Wake\",\"t\":%d}\n", e->t); break;
        case 'K': printf("{\"e\":\"Step\",\"t\":%d,\"k\":\"%s\"}\n", e->t, step_names[e->v]); break;
        }
    }
    if (crashed) printf("{\"e\":\"Crash\"}\n");
    else if (cur_e->overrun) printf("{\"e\":\"Hang\"}\n");
    else printf("{\"e\":\"Quiescent\",\"evPush\":%s,\"evPop\":%s,\"counter\":%d}\n",
                can_push(NULL) ? "true" : "false", can_pop(NULL) ? "true" : "false",
                (int)(uqueue_length(&q) & 0xffff));
    return nunique < (1L << (HBITS - 1));
}

static void crash_dump(int sig)
{
    int len;
    const uint8_t *s = vs_cur_sched(&len);
    crashed = true;
    finish(NULL, s, len, false);
    fprintf(stderr, "{\"crash_signal\":%d}\n", sig);
}

int main(int argc, char **argv)
{
    if (argc < 8) { fprintf(stderr, "usage\n"); return 2; }
    L = atoi(argv[1]);
    npush_arg = argv[2];
    char *ps = strdup(argv[2]);
    for (char *tok = strtok(ps, ","); tok; tok = strtok(NULL, ",")) npush[nprod++] = atoi(tok);
    ncons = atoi(argv[3]);
    drain = atoi(argv[4]);
    macro = !strcmp(argv[5], "macro");
    seen = calloc(1ULL << HBITS, sizeof(uint64_t));
    vs_install_hooks();
    vs_install_crash_handler(crash_dump);
    struct vs_explore e = { .setup = setup, .finish = finish, .step = macro ? macro_step : NULL };
    cur_e = &e;
    const char *mode = argv[6];
    bool complete = false;
    if (!strcmp(mode, "dfs")) {
        e.preemption_bound = atoi(argv[7]);
        e.max_runs = atol(argv[8]);
        vs_explore_run(&e);
        complete = e.complete;
    } else if (!strcmp(mode, "random")) {
        long runs = atol(argv[7]);
        uint64_t rng = strtoull(argv[8], NULL, 10) * 2654435761ULL + 12345;
        int sw = atoi(argv[9]);
        static uint8_t out[VS_MAXSTEPS];
        for (long i = 0; i < runs; i++) {
            bool stuck;
            int len = vs_random(&e, &rng, sw, out, VS_MAXSTEPS, &stuck);
            finish(NULL, out, len, stuck);
        }
    } else {
        static uint8_t pre[VS_MAXSTEPS], out[VS_MAXSTEPS];
        int plen = 0;
        for (const char *p = argv[7]; *p; p++) pre[plen++] = (uint8_t)(*p - '0');
        bool stuck;
        int len = vs_replay(&e, pre, plen, out, VS_MAXSTEPS, &stuck);
        finish(NULL, out, len, stuck);
        fprintf(stderr, "{\"replay_len\":%d,\"given_len\":%d}\n", len, plen);
    }
    fprintf(stderr, "{\"runs\":%ld,\"unique\":%ld,\"complete\":%s,\"max_len\":%d}\n",
            nruns, nunique, complete ? "true" : "false", e.max_len);
    return 0;
}
