/* sched_xfer: the real upipe_xfer manager / transferred pipe between an
 * application thread (A, thread 0) and a worker thread (W, thread 1), each
 * with its own mock event loop (vloop), under the deterministic scheduler
 * (hooks H1-H3).  Emits NDJSON traces for Xfer_Trace.tla.  (C06)
 *
 * usage: sched_xfer <queue_len> <progA> <wrel> <mode> [args]
 *   progA: string over  a (attach_upump_mgr on the handle)  u (set_uri: the
 *          remote pipe throws source_end)  o (set_output)  r (release the
 *          handle)  m (release the application's manager reference)
 *   wrel:  0 = W releases its manager reference as soon as it runs (as the
 *          repository's test does), 9 = never
 *   mode:  dfs <pb> <max_runs> | random <runs> <seed> <sw> | replay <digits>
 *
 * free() is wrapped (-Wl,--wrap=free): freed blocks are quarantined and every
 * hooked access (atomic operation, ring element, event descriptor) that falls
 * into a freed block is logged as a Touch event (use after free).
 */
#include <stdio.h>
#include <stdlib.h>
#include <string.h>
#include <stdint.h>
#include <stdbool.h>
#include <stdarg.h>
#include <assert.h>
#include <malloc.h>
#include <unistd.h>

#include "upipe/ubase.h"
#include "upipe/uverif.h"
#include "upipe/uprobe.h"
#include "upipe/uprobe_transfer.h"
#include "upipe/upump.h"
#include "upipe/upipe.h"
#include "upipe-modules/upipe_transfer.h"
#include "vsched.h"
#include "vloop.h"

static int QLEN, wrel;
static const char *progA;
static struct upump_mgr *loop[2];
static struct upipe_mgr *xfer_mgr;
static struct upipe *handle;

/* ---- trace ---- */
#define MAXEV 1024
static char evbuf[MAXEV][96];
static int nev;
static void log_line(const char *fmt, ...)
{
    if (nev >= MAXEV) return;
    va_list a;
    va_start(a, fmt);
    vsnprintf(evbuf[nev++], sizeof(evbuf[0]), fmt, a);
    va_end(a);
}
static int th(void) { int c = vs_current(); return c < 0 ? 9 : c; }

/* ---- quarantine of freed blocks ---- */
void __real_free(void *p);
#define MAXQ 4096
static struct { char *p; size_t n; } quar[MAXQ];
static int nquar;
static bool quarantine_on;
void __wrap_free(void *p)
{
    if (p == NULL) return;
    if (quarantine_on && nquar < MAXQ) {
        quar[nquar].p = p;
        quar[nquar].n = malloc_usable_size(p);
        nquar++;
        return;             /* kept: a later access must be visible, not reuse the memory */
    }
    __real_free(p);
}
static void quarantine_flush(void)
{
    quarantine_on = false;
    for (int i = 0; i < nquar; i++) __real_free(quar[i].p);
    nquar = 0;
}
static int touches;
static void hook(int kind, const void *obj)
{
    vs_yield(kind, obj);
    /* the access is performed now (after the scheduler resumed this thread):
     * does it fall into a block that was freed meanwhile? */
    const char *o = obj;
    for (int i = 0; i < nquar; i++)
        if (o >= quar[i].p && o < quar[i].p + quar[i].n) {
            if (touches++ < 4)
                log_line("{\"e\":\"Touch\",\"th\":%d,\"kind\":%d}", th(), kind);
            break;
        }
}

/* ---- mock remote pipe ---- */
struct rp { struct urefcount urefcount; struct upipe upipe; };
static void rp_free(struct urefcount *rc)
{
    struct rp *r = container_of(rc, struct rp, urefcount);
    log_line("{\"e\":\"Exec\",\"name\":\"free\",\"th\":%d}", th());
    upipe_throw_dead(&r->upipe);
    urefcount_clean(&r->urefcount);
    upipe_clean(&r->upipe);
    free(r);
}
static struct upipe *rp_alloc(struct upipe_mgr *mgr, struct uprobe *uprobe, uint32_t sig, va_list args)
{
    struct rp *r = malloc(sizeof(*r));
    upipe_init(&r->upipe, mgr, uprobe);
    urefcount_init(&r->urefcount, rp_free);
    r->upipe.refcount = &r->urefcount;
    return &r->upipe;
}
static int rp_control(struct upipe *upipe, int command, va_list args)
{
    switch (command) {
    case UPIPE_ATTACH_UPUMP_MGR:
        log_line("{\"e\":\"Exec\",\"name\":\"attach\",\"th\":%d}", th());
        return UBASE_ERR_NONE;
    case UPIPE_SET_URI:
        log_line("{\"e\":\"Exec\",\"name\":\"uri\",\"th\":%d}", th());
        log_line("{\"e\":\"Throw\",\"th\":%d}", th());
        upipe_throw_source_end(upipe);
        return UBASE_ERR_NONE;
    case UPIPE_SET_OUTPUT:
        log_line("{\"e\":\"Exec\",\"name\":\"output\",\"th\":%d}", th());
        return UBASE_ERR_NONE;
    }
    return UBASE_ERR_UNHANDLED;
}
static struct upipe_mgr rp_mgr = { .upipe_alloc = rp_alloc, .upipe_control = rp_control };

/* ---- application probe (on the handle) ---- */
static struct uprobe app_probe, root_probe;
static int app_catch(struct uprobe *uprobe, struct upipe *upipe, int event, va_list args)
{
    switch (event) {
    case UPROBE_NEED_UPUMP_MGR: {
        struct upump_mgr **p = va_arg(args, struct upump_mgr **);
        *p = upump_mgr_use(loop[0]);
        return UBASE_ERR_NONE;
    }
    case UPROBE_SOURCE_END:
        log_line("{\"e\":\"Forward\",\"th\":%d}", th());
        return UBASE_ERR_NONE;
    case UPROBE_DEAD:
        log_line("{\"e\":\"HandleDead\",\"th\":%d}", th());
        return UBASE_ERR_NONE;
    case UPROBE_FATAL:
        log_line("{\"e\":\"Fatal\",\"th\":%d}", th());
        return UBASE_ERR_NONE;
    }
    return UBASE_ERR_NONE;
}
static int root_catch(struct uprobe *uprobe, struct upipe *upipe, int event, va_list args)
{
    return UBASE_ERR_NONE;
}

static bool any_ready(void *arg)
{
    struct upump_mgr *m = arg;
    struct vloop_pump_info infos[16];
    size_t cnt = vloop_pumps(m, infos, 16);
    for (size_t i = 0; i < cnt && i < 16; i++)
        if (vloop_is_ready(m, infos[i].upump)) return true;
    return false;
}

static int cmdno;
static void threadA(void *arg)
{
    for (const char *p = progA; *p; p++) {
        vs_yield(VS_KIND_USER, NULL);
        int err = 0;
        switch (*p) {
        case 'a': log_line("{\"e\":\"Cmd\",\"name\":\"attach\"}"); err = upipe_attach_upump_mgr(handle); break;
        case 'u': log_line("{\"e\":\"Cmd\",\"name\":\"uri\"}"); err = upipe_set_uri(handle, "x"); break;
        case 'o': log_line("{\"e\":\"Cmd\",\"name\":\"output\"}"); err = upipe_set_output(handle, NULL); break;
        case 'r': log_line("{\"e\":\"Cmd\",\"name\":\"free\"}");
                  { struct upipe *h = handle; handle = NULL; upipe_release(h); } break;
        case 'm': log_line("{\"e\":\"MgrRelease\",\"th\":0}"); upipe_mgr_release(xfer_mgr); break;
        }
        if (*p != 'r' && *p != 'm')
            log_line("{\"e\":\"CmdRet\",\"ok\":%s}", ubase_check(err) ? "true" : "false");
        cmdno++;
    }
    for (;;) {
        vs_wait(any_ready, loop[0]);
        vloop_run_once(loop[0]);
    }
}
static void threadW(void *arg)
{
    if (wrel == 0) {
        log_line("{\"e\":\"MgrRelease\",\"th\":1}");
        upipe_mgr_release(xfer_mgr);
    }
    for (;;) {
        vs_wait(any_ready, loop[1]);
        vloop_run_once(loop[1]);
    }
}

static bool built;
static struct uprobe *xfer_probe;
static void setup(void *ctx)
{
    vs_reset();
    if (built) {
        /* abandon the previous run's objects (the run may have ended anywhere):
         * give back the quarantined memory and the descriptors they held */
        quarantine_flush();
        for (int fd = 3; fd < 1024; fd++) close(fd);
    }
    built = true;
    nev = 0;
    touches = 0;
    cmdno = 0;
    loop[0] = vloop_mgr_alloc();
    loop[1] = vloop_mgr_alloc();
    uprobe_init(&root_probe, root_catch, NULL);
    uprobe_init(&app_probe, app_catch, NULL);
    xfer_probe = uprobe_xfer_alloc(uprobe_use(&root_probe));
    ubase_assert(uprobe_xfer_add(xfer_probe, UPROBE_XFER_VOID, UPROBE_SOURCE_END, 0));
    struct upipe *remote = upipe_void_alloc(&rp_mgr, xfer_probe);
    xfer_mgr = upipe_xfer_mgr_alloc(QLEN, 0, NULL);
    assert(xfer_mgr);
    upipe_mgr_use(xfer_mgr);                        /* W's reference */
    ubase_assert(upipe_xfer_mgr_attach(xfer_mgr, loop[1]));
    handle = upipe_xfer_alloc(xfer_mgr, &app_probe, remote);
    assert(handle);
    quarantine_on = true;
    vs_spawn(threadA, NULL);
    vs_spawn(threadW, NULL);
}

#define HBITS 20
static uint64_t *seen;
static long nunique, nruns, out_id;
static struct vs_explore *cur_e;
static bool crashed;
static bool finish(void *ctx, const uint8_t *sched, int len, bool stuck)
{
    nruns++;
    if (crashed) log_line("{\"e\":\"Crash\"}");
    else if (cur_e->overrun) log_line("{\"e\":\"Hang\"}");
    else log_line("{\"e\":\"Quiescent\"}");
    uint64_t h = 1469598103934665603ULL;
    for (int i = 0; i < nev; i++)
        for (const char *p = evbuf[i]; *p; p++) h = (h ^ (uint8_t)*p) * 1099511628211ULL;
    h |= 1;
    uint64_t mask = (1ULL << HBITS) - 1, i = h & mask;
    while (seen[i]) { if (seen[i] == h) return true; i = (i + 1) & mask; }
    seen[i] = h;
    nunique++;
    printf("{\"e\":\"Reset\",\"ta\":0,\"tw\":1,\"qlen\":%d,\"prog\":\"%s\",\"wrel\":%d,\"id\":%ld,\"sched\":\"", QLEN, progA, wrel, out_id++);
    for (int k = 0; k < len; k++) putchar('0' + sched[k]);
    printf("\"}\n");
    for (int k = 0; k < nev; k++) printf("%s\n", evbuf[k]);
    return nunique < (1L << (HBITS - 1));
}
static void crash_dump(int sig)
{
    int len;
    const uint8_t *s = vs_cur_sched(&len);
    crashed = true;
    finish(NULL, s, len, false);
}

int main(int argc, char **argv)
{
    if (argc < 5) { fprintf(stderr, "usage\n"); return 2; }
    QLEN = atoi(argv[1]);
    progA = argv[2];
    wrel = atoi(argv[3]);
    seen = calloc(1ULL << HBITS, sizeof(uint64_t));
    upipe_verif_yield_cb = hook;
    vs_install_crash_handler(crash_dump);
    struct vs_explore e = { .setup = setup, .finish = finish };
    cur_e = &e;
    const char *mode = argv[4];
    bool complete = false;
    if (!strcmp(mode, "dfs")) {
        e.preemption_bound = atoi(argv[5]);
        e.max_runs = atol(argv[6]);
        vs_explore_run(&e);
        complete = e.complete;
    } else if (!strcmp(mode, "random")) {
        long runs = atol(argv[5]);
        uint64_t rng = strtoull(argv[6], NULL, 10) * 2654435761ULL + 12345;
        int sw = atoi(argv[7]);
        static uint8_t out[VS_MAXSTEPS];
        for (long i = 0; i < runs; i++) {
            bool stuck;
            int len = vs_random(&e, &rng, sw, out, VS_MAXSTEPS, &stuck);
            finish(NULL, out, len, stuck);
        }
    } else {
        static uint8_t pre[VS_MAXSTEPS], out[VS_MAXSTEPS];
        int plen = 0;
        for (const char *p = argv[5]; *p; p++) pre[plen++] = (uint8_t)(*p - '0');
        bool stuck;
        int len = vs_replay(&e, pre, plen, out, VS_MAXSTEPS, &stuck);
        finish(NULL, out, len, stuck);
    }
    fprintf(stderr, "{\"runs\":%ld,\"unique\":%ld,\"complete\":%s,\"max_len\":%d}\n",
            nruns, nunique, complete ? "true" : "false", e.max_len);
    return 0;
}
