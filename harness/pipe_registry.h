/* registry of pipe types for harness/pipe_driver.c */
#ifndef PIPE_REGISTRY_H
#define PIPE_REGISTRY_H
#include "upipe/upipe.h"
#include "upipe/uclock.h"
#include "upipe/uref.h"

struct pipe_type {
    const char *name;
    struct upipe_mgr *(*mgr_alloc)(void);
    const char *flow_alloc;              /* NULL: void alloc; else default flow def name for flow alloc */
    void (*post_alloc)(struct upipe *);  /* optional */
};

extern const char *registry_pending;
extern struct umem_mgr *g_umem;
extern struct udict_mgr *g_udict;
extern struct uref_mgr *g_uref;
extern struct ubuf_mgr *g_block;
extern struct uclock *g_uclock;

void registry_init(void);
struct uclock *registry_uclock(void);
const struct pipe_type *registry_find(const char *name);
/* option getter/setter: prints the "ret ..." line itself */
void registry_option(struct upipe *upipe, const struct pipe_type *type, bool set,
                     const char *name, const char *value);
/* extension commands: return true if handled (and a ret line printed) */
bool registry_command(int nt, char **tok);
#endif
