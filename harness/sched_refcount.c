/* sched_refcount: concurrent use/release of one real urefcount, and
 * concurrent dup/free of real ubuf_block_mem buffers sharing one memory
 * area, under the deterministic scheduler (hooks H1, H4).  Emits NDJSON
 * traces for Ref_Trace.tla.  (C09)
 *
 * usage: sched_refcount <rc|shared|areas> <pool_depth> <prog0>[,<prog1>..] <mode> [args]
 *   prog: string over U (use / dup) and R (release / free); mode areas also A (ubuf_block_alloc of a new
 *   buffer: a new memory area) and F (ubuf_block_alloc while the umem manager refuses: must return NULL)
 * Mode areas: SEVERAL memory areas; every thread starts with a duplicate of one buffer; after the threads
 * a sequential epilogue (thread 7) allocates a buffer, duplicates it, frees both, then frees whatever the
 * threads left; events Alloc(t,h,a) Refused(t) Dup(t,h,from) Free(t,h) Return(a,t) End for Areas_Trace.tla.
 * Mode xareas: ONE area shared across TWO managers with two allocators: a picture of manager P (over its own
 * umem manager, which only P holds) and a block of manager B built on the picture's plane
 * (ubuf_block_mem_alloc_from_pic); thread 0 holds the picture and a handle on P, thread 1 the block and a
 * handle on B; prog letters R (free my buffer), M (release my manager handle), U (dup my buffer).  Events as
 * in mode areas plus AllocDead(u): the allocator u ran its destructor.
 *   mode: dfs <pb> <max_runs> | random <runs> <seed> <sw> | replay <digits>
 */
#include <stdio.h>
#include <stdlib.h>
#include <string.h>
#include <stdint.h>
#include <stdbool.h>
#include <assert.h>

#include "upipe/ubase.h"
#include "upipe/uatomic.h"
#include "upipe/urefcount.h"
#include "upipe/umem.h"
#include "upipe/umem_alloc.h"
#include "upipe/ubuf.h"
#include "upipe/ubuf_block.h"
#include "upipe/ubuf_block_mem.h"
#include "upipe/ubuf_block_common.h"
#include "upipe/ubuf_pic.h"
#include "upipe/ubuf_pic_mem.h"
#include "vsched.h"

static bool shared_mode, areas_mode, xareas_mode;
static int pool_depth, nprog;
static const char *prog[VS_MAXT];
static const char *progs_arg;

struct ev { char e; uint8_t t; int h, a; };
#define MAXEV 256
static struct ev evs[MAXEV];
static int nev;
static void log_ev(char e, int t) { if (nev < MAXEV) evs[nev++] = (struct ev){ e, (uint8_t)t, 0, 0 }; }
static void log_ev2(char e, int t, int h, int a) { if (nev < MAXEV) evs[nev++] = (struct ev){ e, (uint8_t)t, h, a }; }
static int tid(void) { int c = vs_current(); return c < 0 ? 7 : c; }

/* ---- rc mode ---- */
static struct urefcount rc;
static void rc_dead(struct urefcount *r) { log_ev('D', tid()); }

/* ---- shared mode: counting umem manager wrapping malloc ---- */
static struct umem_mgr cmem;
static struct urefcount cmem_rc;
static int area_allocs, area_frees;
static void cmem_rc_dead(struct urefcount *r) { }
/* areas mode: identity of an area = number of the allocation that made it */
#define MAXAREA 64
static struct { uint8_t *p; size_t n; int u; } area_tab[MAXAREA];
static bool refuse_next[VS_MAXT + 8];
static int area_of_ptr(const uint8_t *p)
{
    for (int i = 0; i < area_allocs && i < MAXAREA; i++)
        if (area_tab[i].p != NULL && p >= area_tab[i].p && p < area_tab[i].p + (area_tab[i].n ? area_tab[i].n : 1))
            return i;
    return -1;
}
static int area_of_ubuf(struct ubuf *b)
{
    const uint8_t *p = NULL;
    int size = -1;
    if (!ubase_check(ubuf_block_read(b, 0, &size, &p))) return -1;
    int a = area_of_ptr(p);
    ubuf_block_unmap(b, 0);
    return a;
}
static struct umem_mgr cmemP;
static bool cmem_alloc(struct umem_mgr *m, struct umem *u, size_t size)
{
    if (areas_mode && refuse_next[tid()]) {
        refuse_next[tid()] = false;
        return false;
    }
    u->buffer = malloc(size ? size : 1);
    if (areas_mode && area_allocs < MAXAREA) { area_tab[area_allocs].p = u->buffer; area_tab[area_allocs].n = size; area_tab[area_allocs].u = m == &cmemP; }
    u->size = size;
    u->real_size = size;
    u->mgr = m;
    area_allocs++;
    return u->buffer != NULL;
}
static bool cmem_realloc(struct umem *u, size_t s)
{
    uint8_t *n = realloc(u->buffer, s ? s : 1);
    if (!n) return false;
    u->buffer = n; u->size = s; u->real_size = s;
    return true;
}
static void cmem_free(struct umem *u)
{
    area_frees++;
    if (areas_mode) { log_ev2('r', tid(), 0, area_of_ptr(u->buffer)); return; }
    log_ev('D', tid());
    /* the memory is deliberately not returned to malloc: a second "free" of
     * the same area must show up in the trace, not crash the harness */
}
/* xareas: the picture manager's own allocator (same functions, its own refcount) */
static struct umem_mgr cmemP;
static struct urefcount cmemP_rc;
static void cmemP_rc_dead(struct urefcount *r) { log_ev2('k', tid(), 0, 1); }
static struct ubuf_mgr *pmgr;
static struct ubuf_mgr *mgrh[VS_MAXT + 8];
static struct ubuf_mgr *bmgr;
static struct ubuf *bufs[VS_MAXT + 8][16];
static int bufh[VS_MAXT + 8][16];
static int nbufs[VS_MAXT + 8];
static int next_h;
/* a block manager over caller-owned memory whose buffers cannot be duplicated (UBUF_DUP unhandled): appended
 * to a block it makes ubuf_dup of the whole block fail AFTER the segments before it were duplicated */
static uint8_t ext_octets[4];
static int ext_control(struct ubuf *ubuf, int command, va_list args) { return UBASE_ERR_UNHANDLED; }
static void ext_free(struct ubuf *ubuf)
{
    struct ubuf_block *block = ubuf_block_from_ubuf(ubuf);
    ubuf_block_common_clean(ubuf);
    free(block);
}
static struct ubuf_mgr ext_mgr = { .refcount = NULL, .signature = UBUF_ALLOC_BLOCK, .ubuf_alloc = NULL,
                                   .ubuf_control = ext_control, .ubuf_free = ext_free, .ubuf_mgr_control = NULL };
static struct ubuf *ext_wrap(void)
{
    struct ubuf_block *block = malloc(sizeof(struct ubuf_block));
    assert(block != NULL);
    struct ubuf *ubuf = ubuf_block_to_ubuf(block);
    ubuf->mgr = &ext_mgr;
    ubuf_block_common_init(ubuf, false);
    ubuf_block_common_set(ubuf, 0, sizeof(ext_octets));
    ubuf_block_common_set_buffer(ubuf, ext_octets);
    return ubuf;
}

static void areas_op(int t, char op)
{
    if (op == 'P' || op == 'X') {
        /* P: a new buffer (a new area) is appended to my first buffer; X: a foreign segment is */
        if (nbufs[t] == 0) return;
        struct ubuf *b = op == 'P' ? ubuf_block_alloc(bmgr, 8) : ext_wrap();
        if (b == NULL) { log_ev2('f', t, 0, 0); return; }
        int a = op == 'P' ? area_of_ubuf(b) : -1;
        if (!ubase_check(ubuf_block_append(bufs[t][0], b))) { ubuf_free(b); return; }
        log_ev2(op == 'P' ? 'p' : 'q', t, bufh[t][0], a);
        return;
    }
    if (op == 'M') {
        if (mgrh[t] == NULL) return;
        struct ubuf_mgr *m = mgrh[t];
        mgrh[t] = NULL;
        log_ev2('m', t, m == pmgr ? 1 : 0, 0);
        ubuf_mgr_release(m);
        return;
    }
    if (op == 'A' || op == 'F') {
        if (op == 'F') refuse_next[t] = true;
        struct ubuf *b = ubuf_block_alloc(bmgr, 8);
        refuse_next[t] = false;
        if (b == NULL) { log_ev2('f', t, 0, 0); return; }
        int h = next_h++;
        log_ev2('a', t, h, area_of_ubuf(b));
        bufh[t][nbufs[t]] = h;
        bufs[t][nbufs[t]++] = b;
    } else if (op == 'U') {
        if (nbufs[t] == 0) return;
        int from = bufh[t][0];
        struct ubuf *d = ubuf_dup(bufs[t][0]);
        if (d == NULL) { log_ev2('e', t, from, 0); return; }
        int h = next_h++;
        log_ev2('d', t, h, from);
        bufh[t][nbufs[t]] = h;
        bufs[t][nbufs[t]++] = d;
    } else {
        if (nbufs[t] == 0) return;
        nbufs[t]--;
        log_ev2('x', t, bufh[t][nbufs[t]], 0);
        ubuf_free(bufs[t][nbufs[t]]);
    }
}

static void thread_fn(void *arg)
{
    int t = (int)(intptr_t)arg;
    for (const char *p = prog[t]; *p; p++) {
        if (areas_mode) areas_op(t, *p);
        else if (!shared_mode) {
            if (*p == 'U') { log_ev('U', t); urefcount_use(&rc); }
            else { log_ev('R', t); urefcount_release(&rc); }
        } else {
            if (*p == 'U') {
                log_ev('U', t);
                struct ubuf *d = ubuf_dup(bufs[t][0]);
                assert(d != NULL);
                bufs[t][nbufs[t]++] = d;
            } else {
                log_ev('R', t);
                struct ubuf *b = bufs[t][--nbufs[t]];
                ubuf_free(b);
            }
        }
    }
}

static void teardown(void)
{
    if ((shared_mode || areas_mode) && bmgr) {
        ubuf_mgr_release(bmgr);
        bmgr = NULL;
    }
    pmgr = NULL;        /* (the handles on it were released by the programs or the epilogue) */
}

static void setup(void *ctx)
{
    vs_reset();
    teardown();
    nev = 0;
    if (areas_mode) {
        area_allocs = area_frees = 0;
        memset(area_tab, 0, sizeof(area_tab));
        memset(refuse_next, 0, sizeof(refuse_next));
        urefcount_init(&cmem_rc, cmem_rc_dead);
        cmem.refcount = &cmem_rc;
        cmem.umem_alloc = cmem_alloc;
        cmem.umem_realloc = cmem_realloc;
        cmem.umem_free = cmem_free;
        cmem.umem_mgr_vacuum = NULL;
        bmgr = ubuf_block_mem_mgr_alloc(pool_depth, pool_depth, &cmem, 0, 0, 0, 0);
        assert(bmgr != NULL);
        memset(nbufs, 0, sizeof(nbufs));
        memset(mgrh, 0, sizeof(mgrh));
        next_h = 0;
        if (xareas_mode) {
            urefcount_init(&cmemP_rc, cmemP_rc_dead);
            cmemP = cmem;
            cmemP.refcount = &cmemP_rc;
            pmgr = ubuf_pic_mem_mgr_alloc(pool_depth, pool_depth, &cmemP, 1, 0, 0, 0, 0, 0, 0);
            assert(pmgr != NULL);
            ubase_assert(ubuf_pic_mem_mgr_add_plane(pmgr, "y8", 1, 1, 1));
            urefcount_release(&cmemP_rc);       /* only the picture manager holds its allocator */
            struct ubuf *pic = ubuf_pic_alloc(pmgr, 8, 8);
            assert(pic != NULL);
            int hp = next_h++;
            log_ev2('a', 7, hp, area_allocs - 1);
            struct ubuf *blk = ubuf_block_mem_alloc_from_pic(bmgr, pic, "y8");
            assert(blk != NULL);
            int hb = next_h++;
            log_ev2('d', 7, hb, hp);
            bufs[0][0] = pic; bufh[0][0] = hp; nbufs[0] = 1; mgrh[0] = pmgr;
            bufs[1][0] = blk; bufh[1][0] = hb; nbufs[1] = 1; mgrh[1] = ubuf_mgr_use(bmgr);
            for (int t = 2; t < nprog; t++) {
                struct ubuf *d = ubuf_dup(t % 2 ? blk : pic);
                assert(d != NULL);
                int h = next_h++;
                log_ev2('d', 7, h, t % 2 ? hb : hp);
                bufh[t][0] = h; bufs[t][0] = d; nbufs[t] = 1;
            }
            for (int t = 0; t < nprog; t++)
                vs_spawn(thread_fn, (void *)(intptr_t)t);
            return;
        }
        areas_op(7, 'A');                       /* the buffer every thread gets a duplicate of */
        for (int t = 0; t < nprog; t++) {
            struct ubuf *d = ubuf_dup(bufs[7][0]);
            assert(d != NULL);
            int h = next_h++;
            log_ev2('d', 7, h, bufh[7][0]);
            bufh[t][0] = h;
            bufs[t][0] = d;
            nbufs[t] = 1;
        }
        areas_op(7, 'R');
    } else if (!shared_mode) {
        urefcount_init(&rc, rc_dead);
        for (int t = 1; t < nprog; t++) urefcount_use(&rc);
    } else {
        area_allocs = area_frees = 0;
        urefcount_init(&cmem_rc, cmem_rc_dead);
        cmem.refcount = &cmem_rc;
        cmem.umem_alloc = cmem_alloc;
        cmem.umem_realloc = cmem_realloc;
        cmem.umem_free = cmem_free;
        cmem.umem_mgr_vacuum = NULL;
        bmgr = ubuf_block_mem_mgr_alloc(pool_depth, pool_depth, &cmem, 0, 0, 0, 0);
        assert(bmgr != NULL);
        memset(nbufs, 0, sizeof(nbufs));
        struct ubuf *b0 = ubuf_block_alloc(bmgr, 8);
        assert(b0 != NULL);
        bufs[0][nbufs[0]++] = b0;
        for (int t = 1; t < nprog; t++) {
            bufs[t][nbufs[t]++] = ubuf_dup(b0);
            assert(bufs[t][0] != NULL);
        }
    }
    for (int t = 0; t < nprog; t++)
        vs_spawn(thread_fn, (void *)(intptr_t)t);
}

#define HBITS 20
static uint64_t *seen;
static long nunique, nruns, out_id;
static struct vs_explore *cur_e;

static bool crashed;
static const uint8_t *fin_sched;        /* schedule of the execution whose epilogue is running */
static int fin_len;
static bool finish(void *ctx, const uint8_t *sched, int len, bool stuck);
static void crash_dump(int sig)
{
    int len;
    const uint8_t *s = vs_cur_sched(&len);
    if (fin_sched != NULL) { s = fin_sched; len = fin_len; }
    crashed = true;
    finish(NULL, s, len, false);
    fprintf(stderr, "{\"crash_signal\":%d,\"runs\":%ld,\"unique\":%ld,\"complete\":false}\n", sig, nruns, nunique);
}

static bool finish(void *ctx, const uint8_t *sched, int len, bool stuck)
{
    nruns++;
    if (areas_mode && !crashed && !stuck && !cur_e->overrun) {
        fin_sched = sched;
        fin_len = len;
        /* sequential epilogue: structures recycled from the pools must behave like new ones */
        areas_op(7, 'A'); areas_op(7, 'U'); areas_op(7, 'R'); areas_op(7, 'R');
        /* what the threads left: the block side first, then the picture side (the last holder of the area
         * is then the picture, as in ordinary use), the manager handles after the buffers */
        for (int t = nprog - 1; t >= 0; t--)
            while (nbufs[t] > 0) areas_op(t, 'R');
        for (int t = nprog - 1; t >= 0; t--)
            areas_op(t, 'M');
        teardown();             /* the manager goes with its execution: a crash in its clean-up belongs here */
        fin_sched = NULL;
    }
    if (crashed) log_ev('C', tid());
    uint64_t h = 1469598103934665603ULL;
    for (int i = 0; i < nev; i++) { h = (h ^ (((uint64_t)(uint8_t)evs[i].e << 8) | evs[i].t | ((uint64_t)(evs[i].h & 0xff) << 16) | ((uint64_t)(evs[i].a & 0xff) << 24))) * 1099511628211ULL; h ^= h >> 29; }
    h |= 1;
    uint64_t mask = (1ULL << HBITS) - 1, i = h & mask;
    while (seen[i]) { if (seen[i] == h) return true; i = (i + 1) & mask; }
    seen[i] = h;
    nunique++;
    printf("{\"e\":\"Reset\",\"n\":%d,\"mode\":\"%s\",\"pool\":%d,\"id\":%ld,\"prog\":\"%s\",\"sched\":\"",
           nprog, xareas_mode ? "xareas" : areas_mode ? "areas" : shared_mode ? "shared" : "rc", pool_depth, out_id++, progs_arg);
    for (int k = 0; k < len; k++) putchar('0' + sched[k]);
    printf("\"}\n");
    for (int k = 0; k < nev; k++) {
        struct ev *e = &evs[k];
        switch (e->e) {
        case 'a': printf("{\"e\":\"Alloc\",\"t\":%d,\"h\":%d,\"a\":%d,\"u\":%d}\n", e->t, e->h, e->a,
                         e->a >= 0 && e->a < MAXAREA ? area_tab[e->a].u : 0); break;
        case 'f': printf("{\"e\":\"Refused\",\"t\":%d}\n", e->t); break;
        case 'd': printf("{\"e\":\"Dup\",\"t\":%d,\"h\":%d,\"from\":%d}\n", e->t, e->h, e->a); break;
        case 'p': printf("{\"e\":\"Append\",\"t\":%d,\"h\":%d,\"a\":%d,\"u\":0}\n", e->t, e->h, e->a); break;
        case 'q': printf("{\"e\":\"Foreign\",\"t\":%d,\"h\":%d}\n", e->t, e->h); break;
        case 'e': printf("{\"e\":\"DupFailed\",\"t\":%d,\"from\":%d}\n", e->t, e->h); break;
        case 'x': printf("{\"e\":\"Free\",\"t\":%d,\"h\":%d}\n", e->t, e->h); break;
        case 'r': printf("{\"e\":\"Return\",\"t\":%d,\"a\":%d}\n", e->t, e->a); break;
        case 'k': printf("{\"e\":\"AllocDead\",\"t\":%d,\"u\":%d}\n", e->t, e->a); break;
        case 'm': printf("{\"e\":\"MgrRelease\",\"t\":%d,\"m\":%d}\n", e->t, e->h); break;
        default:
            printf("{\"e\":\"%s\",\"t\":%d}\n", e->e == 'U' ? "Use" : e->e == 'R' ? "Release" : e->e == 'C' ? "Crash" : "Destroy", e->t);
        }
    }
    if (cur_e->overrun || stuck) printf("{\"e\":\"Hang\"}\n");
    printf("{\"e\":\"End\"}\n");
    return nunique < (1L << (HBITS - 1));
}

int main(int argc, char **argv)
{
    if (argc < 6) { fprintf(stderr, "usage\n"); return 2; }
    shared_mode = !strcmp(argv[1], "shared");
    xareas_mode = !strcmp(argv[1], "xareas");
    areas_mode = !strcmp(argv[1], "areas") || xareas_mode;
    pool_depth = atoi(argv[2]);
    progs_arg = argv[3];
    char *ps = strdup(argv[3]);
    for (char *tok = strtok(ps, ","); tok; tok = strtok(NULL, ",")) prog[nprog++] = tok;
    seen = calloc(1ULL << HBITS, sizeof(uint64_t));
    vs_install_hooks();
    vs_install_crash_handler(crash_dump);
    struct vs_explore e = { .setup = setup, .finish = finish };
    cur_e = &e;
    const char *mode = argv[4];
    bool complete = false;
    if (!strcmp(mode, "dfs")) {
        e.preemption_bound = atoi(argv[5]);
        e.max_runs = atol(argv[6]);
        vs_explore_run(&e);
        complete = e.complete;
    } else if (!strcmp(mode, "random")) {
        long runs = atol(argv[5]);
        uint64_t rng = strtoull(argv[6], NULL, 10) * 2654435761ULL + 12345;
        int sw = atoi(argv[7]);
        static uint8_t out[VS_MAXSTEPS];
        for (long i = 0; i < runs; i++) {
            bool stuck;
            int len = vs_random(&e, &rng, sw, out, VS_MAXSTEPS, &stuck);
            finish(NULL, out, len, stuck);
        }
    } else {
        static uint8_t pre[VS_MAXSTEPS], out[VS_MAXSTEPS];
        int plen = 0;
        for (const char *p = argv[5]; *p; p++) pre[plen++] = (uint8_t)(*p - '0');
        bool stuck;
        int len = vs_replay(&e, pre, plen, out, VS_MAXSTEPS, &stuck);
        finish(NULL, out, len, stuck);
        fprintf(stderr, "{\"replay_len\":%d,\"given_len\":%d}\n", len, plen);
    }
    fprintf(stderr, "{\"runs\":%ld,\"unique\":%ld,\"complete\":%s,\"max_len\":%d}\n",
            nruns, nunique, complete ? "true" : "false", e.max_len);
    return 0;
}
