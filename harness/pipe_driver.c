/* pipe_driver: command interpreter over REAL Upipe pipes with a recording
 * probe, recording sink pipes, a tracking uref manager and recording
 * requests.  One command per line on stdin; every observable occurrence is
 * printed in order on stdout (one line each), each command ends with a
 * "ret ..." line.  Used by the pipe-level checks (C01 C04 C05 C12 C14 C20).
 *
 *   argv: <pool_depth>
 *
 * Commands (names: pN pipes under test, sN recording sinks, rN requests)
 *   new pN <type> [flowdef]        allocate a registry pipe (void or flow alloc)
 *   sub pN pM                      void-allocate a sub pipe of pM (e.g. dup output)
 *   sink sN [accept|reject]        allocate a recording sink
 *   policy sN accept|reject        flow definition policy of a sink
 *   reqmode sN hold|throw|refuse   what a sink does with register_request
 *   setfd pN <fd>                  upipe_set_flow_def; fd = <family><letter>[2]: bA bB bA2 ("block.A.", ...)
 *   getfd pN                       upipe_get_flow_def -> def string or error
 *   out pN sM|pM|null              upipe_set_output
 *   getout pN                      upipe_get_output -> name
 *   in pN <id> <size> [nseg]       upipe_input of a block uref (payload byte i = (id*7+i)&255, attr x.id=id)
 *   ins pN <hex bytes> [nseg]      upipe_input of a block uref with explicit payload (C14 streams); empty: "-"
 *   flush pN                       upipe_flush
 *   rel pN|sN                      upipe_release of the application's handle
 *   opt pN get <name>              option getter
 *   opt pN set <name> <value>      option setter
 *   req rN <type>                  create a request: uref_mgr | ubuf_mgr | uclock | flow_format | sink_latency
 *   reg pN rM / unreg pN rM        upipe_register_request / upipe_unregister_request
 *   provide sN rM                  sink sN answers request rM (must be registered there)
 *   probeprov pN <type> on|off     the probe of pN answers provide_request events of that type
 *   mgrs                           print manager refcounts and live object counts
 *   quit
 *
 * Output lines
 *   ev <pipe> <event> [detail]     an event caught by the recording probe (log events: "ev p0 log <level>")
 *   sink sN set_flow_def <fd> accept|reject
 *   sink sN input id=<id> size=<n> sum=<payload digest> fd=<last accepted fd> [attrs]
 *   sink sN register rM|proxy(rM) / sink sN unregister rM / sink sN control <cmd>
 *   reqcb rM provided <what>       request call-back invoked
 *   uref alloc uK / uref free uK [id=<id>]
 *   ret <error code or value>
 */
#include <stdio.h>
#include <stdlib.h>
#include <string.h>
#include <stdint.h>
#include <stdbool.h>
#include <stdarg.h>
#include <inttypes.h>
#include <assert.h>
#include <stddef.h>

#include "upipe/ubase.h"
#include "upipe/ulist.h"
#include "upipe/uprobe.h"
#include "upipe/umem.h"
#include "upipe/umem_alloc.h"
#include "upipe/udict.h"
#include "upipe/udict_inline.h"
#include "upipe/uref.h"
#include "upipe/uref_std.h"
#include "upipe/uref_attr.h"
#include "upipe/uref_flow.h"
#include "upipe/uref_block.h"
#include "upipe/uref_block_flow.h"
#include "upipe/uref_clock.h"
#include "upipe/uref_pic_flow.h"
#include "upipe/uref_sound_flow.h"
#include "upipe/uref_pic.h"
#include "upipe/uref_sound.h"
#include "upipe/ubuf.h"
#include "upipe/ubuf_block.h"
#include "upipe/ubuf_block_mem.h"
#include "upipe/uclock.h"
#include "upipe/urequest.h"
#include "upipe/upipe.h"
#include "upipe/upipe_helper_upipe.h"
#include "upipe/upipe_helper_urefcount.h"

#include "pipe_registry.h"

UREF_ATTR_UNSIGNED(vx, id, "x.id", verification buffer id)


/* ------------------------------------------------------------ managers */
struct umem_mgr *g_umem;
struct udict_mgr *g_udict;
struct uref_mgr *g_uref_inner, *g_uref;   /* g_uref = tracking wrapper */
struct ubuf_mgr *g_block;
struct uclock *g_uclock;
static int g_pool;

/* tracking uref manager */
static struct uref_mgr track_mgr;
static struct urefcount track_rc;
static long uref_next_id, uref_live;
#define MAXU 4096
static struct uref *uref_ptr[MAXU];
static long uref_ids[MAXU];
static void track_rc_dead(struct urefcount *rc) { }
static struct uref *track_alloc(struct uref_mgr *mgr)
{
    struct uref *u = g_uref_inner->uref_alloc(g_uref_inner);
    if (u == NULL) return NULL;
    u->mgr = &track_mgr;
    long id = uref_next_id++;
    for (int i = 0; i < MAXU; i++)
        if (uref_ptr[i] == NULL) { uref_ptr[i] = u; uref_ids[i] = id; break; }
    uref_live++;
    printf("uref alloc u%ld\n", id);
    return u;
}
static void track_free(struct uref *u)
{
    long id = -1;
    for (int i = 0; i < MAXU; i++)
        if (uref_ptr[i] == u) { id = uref_ids[i]; uref_ptr[i] = NULL; break; }
    /* (ubuf and udict are already gone when the manager is called) */
    if (id < 0) printf("uref free UNKNOWN\n");
    else printf("uref free u%ld\n", id);
    uref_live--;
    u->mgr = g_uref_inner;
    g_uref_inner->uref_free(u);
}
long uref_uid(struct uref *u)
{
    for (int i = 0; i < MAXU; i++)
        if (uref_ptr[i] == u) return uref_ids[i];
    return -1;
}
static int track_control(struct uref_mgr *mgr, int cmd, va_list args)
{
    return uref_mgr_control_va(g_uref_inner, cmd, args);
}

#include "pipe_driver.h"

/* ------------------------------------------------------------ flow tags
 * (C04) With "env fltag on" every buffer fed by the application carries, in
 * the attribute x.fl, the identity of the flow it belongs to: the flow
 * definition that its input pipe last ACCEPTED (definition string, plus the
 * picture size when there is one).  The sinks print the same identity for
 * every flow definition they receive and the tag of every buffer, followed by
 * "flnow" when that flow is still the one set on the input the buffer was fed to. */
bool pd_fltag;
static struct { char name[8]; char fl[80]; unsigned hsize, vsize, ssize; } fltab[MAXOBJ];

const char *pd_fl_of(struct uref *fd)
{
    static char buf[80];
    uint64_t h = 0;
    uint8_t ch = 0;
    if (fd != NULL && ubase_check(uref_pic_flow_get_hsize(fd, &h)))
        snprintf(buf, sizeof(buf), "%s/h%" PRIu64, fd_name(fd), h);
    else if (fd != NULL && ubase_check(uref_sound_flow_get_channels(fd, &ch)))
        snprintf(buf, sizeof(buf), "%s/c%u", fd_name(fd), ch);
    else
        snprintf(buf, sizeof(buf), "%s", fd_name(fd));
    return buf;
}

void pd_fl_note(const char *name, struct uref *fd)
{
    int k = -1;
    for (int i = 0; i < MAXOBJ; i++) {
        if (!strcmp(fltab[i].name, name)) { k = i; break; }
        if (k < 0 && !fltab[i].name[0]) k = i;
    }
    if (k < 0) return;
    snprintf(fltab[k].name, sizeof(fltab[k].name), "%s", name);
    snprintf(fltab[k].fl, sizeof(fltab[k].fl), "%s", pd_fl_of(fd));
    uint64_t v = 0;
    fltab[k].hsize = ubase_check(uref_pic_flow_get_hsize(fd, &v)) ? (unsigned)v : 0;
    fltab[k].vsize = ubase_check(uref_pic_flow_get_vsize(fd, &v)) ? (unsigned)v : 0;
    uint8_t ss = 0;
    fltab[k].ssize = ubase_check(uref_sound_flow_get_sample_size(fd, &ss)) ? ss : 0;
}

void pd_fl_tag(const char *name, struct uref *u)
{
    if (!pd_fltag || u == NULL) return;
    for (int i = 0; i < MAXOBJ; i++)
        if (!strcmp(fltab[i].name, name)) {
            uref_attr_set_string(u, fltab[i].fl, UDICT_TYPE_STRING, "x.fl");
            uref_attr_set_string(u, name, UDICT_TYPE_STRING, "x.flp");
            return;
        }
}

bool pd_fl_size(const char *name, unsigned *h, unsigned *v)
{
    for (int i = 0; i < MAXOBJ; i++)
        if (!strcmp(fltab[i].name, name) && fltab[i].hsize) { *h = fltab[i].hsize; *v = fltab[i].vsize; return true; }
    return false;
}

/* the buffer still belongs to the flow that is set on the input it was fed to */
static bool pd_fl_current(struct uref *u)
{
    const char *fl, *flp;
    if (!ubase_check(uref_attr_get_string(u, &fl, UDICT_TYPE_STRING, "x.fl")) ||
        !ubase_check(uref_attr_get_string(u, &flp, UDICT_TYPE_STRING, "x.flp"))) return false;
    for (int i = 0; i < MAXOBJ; i++)
        if (!strcmp(fltab[i].name, flp)) return !strcmp(fltab[i].fl, fl);
    return false;
}

unsigned pd_fl_sample_size(const char *name)
{
    for (int i = 0; i < MAXOBJ; i++)
        if (!strcmp(fltab[i].name, name) && fltab[i].ssize) return fltab[i].ssize;
    return 0;
}

void pd_fl_reset(void) { memset(fltab, 0, sizeof(fltab)); pd_fltag = false; }
struct obj pipes[MAXOBJ];
struct vsink sinks[MAXOBJ];
struct vreq reqs[MAXOBJ];

const char *pipe_name(struct upipe *u)
{
    static char buf[32];
    if (u == NULL) return "null";
    for (int i = 0; i < MAXOBJ; i++)
        if (pipes[i].ptr == u && pipes[i].name[0]) return pipes[i].name;
    for (int i = 0; i < MAXOBJ; i++)
        if (sinks[i].used && &sinks[i].upipe == u) return sinks[i].name;
    snprintf(buf, sizeof(buf), "other");
    return buf;
}

struct obj *find_pipe(const char *n)
{
    for (int i = 0; i < MAXOBJ; i++)
        if (pipes[i].name[0] && !strcmp(pipes[i].name, n)) return &pipes[i];
    return NULL;
}
struct vsink *find_sink(const char *n)
{
    for (int i = 0; i < MAXOBJ; i++)
        if (sinks[i].used && !strcmp(sinks[i].name, n)) return &sinks[i];
    return NULL;
}
struct vreq *find_req(const char *n)
{
    for (int i = 0; i < MAXOBJ; i++)
        if (reqs[i].used && !strcmp(reqs[i].name, n)) return &reqs[i];
    return NULL;
}
struct upipe *find_any(const char *n)
{
    struct obj *o = find_pipe(n);
    if (o) return o->upipe;
    struct vsink *s = find_sink(n);
    if (s) return s->handle;
    return NULL;
}

/* request identity: follow the proxy chain (proxies keep the upstream
 * request as opaque) */
const char *req_name(struct urequest *r)
{
    static char buf[48];
    int depth = 0;
    struct urequest *cur = r;
    while (cur != NULL && depth < 8) {
        for (int i = 0; i < MAXOBJ; i++)
            if (reqs[i].used && &reqs[i].req == cur) {
                if (depth == 0) return reqs[i].name;
                snprintf(buf, sizeof(buf), "proxy%d(%s)", depth, reqs[i].name);
                return buf;
            }
        cur = urequest_get_opaque(cur, struct urequest *);
        depth++;
    }
    snprintf(buf, sizeof(buf), "inner(type%d)", r ? r->type : -1);
    return buf;
}

const char *fd_name(struct uref *fd)
{
    static char buf[64];
    const char *def = NULL;
    if (fd == NULL || !ubase_check(uref_flow_get_def(fd, &def))) return "none";
    snprintf(buf, sizeof(buf), "%s", def);
    /* a definition made by make_fd("..+"): same def string plus one more attribute (a strict superset) */
    uint8_t plus = 0;
    if (ubase_check(uref_attr_get_small_unsigned(fd, &plus, UDICT_TYPE_SMALL_UNSIGNED, "x.plus")))
        for (size_t l = strlen(buf); plus > 0 && l + 1 < sizeof(buf); plus--, l++) { buf[l] = '+'; buf[l + 1] = 0; }
    return buf;
}

/* ------------------------------------------------------------ probe */
static const char *event_name(int ev)
{
    switch (ev) {
    case UPROBE_LOG: return "log";
    case UPROBE_FATAL: return "fatal";
    case UPROBE_ERROR: return "error";
    case UPROBE_READY: return "ready";
    case UPROBE_DEAD: return "dead";
    case UPROBE_STALLED: return "stalled";
    case UPROBE_SOURCE_END: return "source_end";
    case UPROBE_SINK_END: return "sink_end";
    case UPROBE_NEED_OUTPUT: return "need_output";
    case UPROBE_PROVIDE_REQUEST: return "provide_request";
    case UPROBE_NEED_UPUMP_MGR: return "need_upump_mgr";
    case UPROBE_FREEZE_UPUMP_MGR: return "freeze_upump_mgr";
    case UPROBE_THAW_UPUMP_MGR: return "thaw_upump_mgr";
    case UPROBE_NEED_SOURCE_MGR: return "need_source_mgr";
    case UPROBE_NEW_FLOW_DEF: return "new_flow_def";
    case UPROBE_NEW_RAP: return "new_rap";
    case UPROBE_SPLIT_UPDATE: return "split_update";
    case UPROBE_SYNC_ACQUIRED: return "sync_acquired";
    case UPROBE_SYNC_LOST: return "sync_lost";
    case UPROBE_CLOCK_REF: return "clock_ref";
    case UPROBE_CLOCK_TS: return "clock_ts";
    case UPROBE_CLOCK_UTC: return "clock_utc";
    case UPROBE_PREROLL_END: return "preroll_end";
    default: return "local";
    }
}

int provide(struct urequest *r, const char *who);

void pd_react(const char *pipe, const char *event);

__attribute__((weak)) bool pd_need_output(struct obj *self, struct upipe *upipe);
static int probe_catch(struct uprobe *uprobe, struct upipe *upipe, int event, va_list args)
{
    /* the probe is embedded in the object it was given to */
    struct obj *self = (struct obj *)((char *)uprobe - offsetof(struct obj, probe));
    char nbuf[48];
    const char *n;
    if (upipe == self->ptr || self->ptr == (struct upipe *)-1) n = self->name;
    else if (self->ptr == NULL && !self->alive && self->last == upipe) {
        /* event of a pipe that already threw dead */
        snprintf(nbuf, sizeof(nbuf), "%s", self->name);
        n = nbuf;
    } else {
        snprintf(nbuf, sizeof(nbuf), "inner:%s", self->name);
        n = nbuf;
    }
    if (event == UPROBE_LOG) {
        va_list c;
        va_copy(c, args);
        struct ulog *ulog = va_arg(c, struct ulog *);
        va_end(c);
        printf("ev %s log %d\n", n, ulog ? (int)ulog->level : -1);
        return UBASE_ERR_NONE;
    }
    if (event == UPROBE_PROVIDE_REQUEST) {
        va_list c;
        va_copy(c, args);
        struct urequest *r = va_arg(c, struct urequest *);
        va_end(c);
        printf("ev %s provide_request %s type=%d\n", n, req_name(r), r->type);
        struct obj *o = self;
        if (o && r->type >= 0 && r->type < 8 && o->prov[r->type])
            return provide(r, n);
        return UBASE_ERR_UNHANDLED;
    }
    if (event == UPROBE_NEW_FLOW_DEF) {
        va_list c;
        va_copy(c, args);
        struct uref *fd = va_arg(c, struct uref *);
        va_end(c);
        printf("ev %s new_flow_def %s\n", n, fd_name(fd));
        pd_react(n, "new_flow_def");
        return UBASE_ERR_NONE;
    }
    printf("ev %s %s%s\n", n, event_name(event), event >= UPROBE_LOCAL ? "" : "");
    if (event == UPROBE_DEAD) {
        if (upipe == self->ptr) { self->alive = false; self->last = upipe; self->ptr = NULL; }
        return UBASE_ERR_NONE;
    }
    /* a reaction to 'ready' may already configure the pipe (the event says it accepts control commands): the
     * handle is known by its name from now on, although the allocation has not returned yet */
    if (event == UPROBE_READY && self->ptr == (struct upipe *)-1 && self->upipe == NULL)
        self->upipe = upipe;
    {
        char nn[48];
        snprintf(nn, sizeof(nn), "%s", n);       /* n may live in a buffer the reaction reuses */
        pd_react(nn, event_name(event));
    }
    if (event == UPROBE_READY) {
        return UBASE_ERR_NONE;
    }
    /* an extension may answer need_output (e.g. by replacing the output) */
    if (event == UPROBE_NEED_OUTPUT && upipe == self->ptr && pd_need_output && pd_need_output(self, upipe))
        return UBASE_ERR_NONE;
    if (event == UPROBE_NEED_UPUMP_MGR || event == UPROBE_NEED_SOURCE_MGR ||
        event == UPROBE_NEED_OUTPUT)
        return UBASE_ERR_UNHANDLED;
    return UBASE_ERR_NONE;
}

/* ------------------------------------------------------------ sink pipe */
UPIPE_HELPER_UPIPE(vsink, upipe, 0x76736e6b)
UPIPE_HELPER_UREFCOUNT(vsink, urefcount, vsink_free)

static struct upipe *vsink_alloc(struct upipe_mgr *mgr, struct uprobe *uprobe,
                                 uint32_t signature, va_list args)
{
    struct vsink *s = NULL;
    for (int i = 0; i < MAXOBJ; i++)
        if (!sinks[i].used) { s = &sinks[i]; break; }
    assert(s != NULL);
    memset(s, 0, sizeof(*s));
    s->used = true;
    upipe_init(&s->upipe, mgr, uprobe);
    vsink_init_urefcount(&s->upipe);
    return &s->upipe;
}

static uint32_t digest(struct uref *uref, size_t *size_p)
{
    size_t size = 0;
    uint32_t h = 2166136261u;
    if (uref->ubuf == NULL) { *size_p = 0; return 0; }
    if (!ubase_check(uref_block_size(uref, &size))) {
        /* pictures: size = hsize * vsize, digest of the visible part of every plane;
         * sound: size = samples, digest of every plane */
        size_t hs, vs; uint8_t mp;
        *size_p = 0;
        if (ubase_check(uref_pic_size(uref, &hs, &vs, &mp))) {
            *size_p = hs * vs;
            const char *chroma = NULL;
            while (ubase_check(uref_pic_plane_iterate(uref, &chroma)) && chroma != NULL) {
                size_t stride; uint8_t hsub, vsub, mps; const uint8_t *buf;
                if (!ubase_check(uref_pic_plane_size(uref, chroma, &stride, &hsub, &vsub, &mps)) ||
                    !ubase_check(uref_pic_plane_read(uref, chroma, 0, 0, -1, -1, &buf))) return 0xdeadbeef;
                for (size_t y = 0; y < vs / vsub; y++)
                    for (size_t x = 0; x < hs / hsub * mps / mp; x++) h = (h ^ buf[y * stride + x]) * 16777619u;
                uref_pic_plane_unmap(uref, chroma, 0, 0, -1, -1);
            }
            return h;
        }
        uint8_t ss;
        if (ubase_check(uref_sound_size(uref, &hs, &ss))) {
            *size_p = hs;
            const char *channel = NULL;
            while (ubase_check(uref_sound_plane_iterate(uref, &channel)) && channel != NULL) {
                const uint8_t *buf;
                if (!ubase_check(uref_sound_plane_read_uint8_t(uref, channel, 0, -1, &buf))) return 0xdeadbeef;
                for (size_t i = 0; i < hs * ss; i++) h = (h ^ buf[i]) * 16777619u;
                uref_sound_plane_unmap(uref, channel, 0, -1);
            }
            return h;
        }
        return 0;
    }
    *size_p = size;
    int off = 0;
    while (off < (int)size) {
        int sz = -1;
        const uint8_t *buf;
        if (!ubase_check(uref_block_read(uref, off, &sz, &buf))) return 0xdeadbeef;
        for (int i = 0; i < sz; i++) h = (h ^ buf[i]) * 16777619u;
        uref_block_unmap(uref, off);
        off += sz;
    }
    return h;
}

static void print_payload(struct uref *uref, size_t size)
{
    /* hex payload for small buffers (stream checks) */
    size_t bs;
    if (size > 512 || uref->ubuf == NULL || !ubase_check(uref_block_size(uref, &bs))) {
        if (size <= 512 && uref->ubuf == NULL) printf(" hex=-");
        return;
    }
    printf(" hex=");
    if (size == 0) printf("-");
    int off = 0;
    while (off < (int)size) {
        int sz = -1;
        const uint8_t *buf;
        if (!ubase_check(uref_block_read(uref, off, &sz, &buf))) break;
        for (int i = 0; i < sz; i++) printf("%02x", buf[i]);
        uref_block_unmap(uref, off);
        off += sz;
    }
}

static void vsink_input(struct upipe *upipe, struct uref *uref, struct upump **upump_p)
{
    struct vsink *s = vsink_from_upipe(upipe);
    uint64_t id = 0;
    bool has = ubase_check(uref_vx_get_id(uref, &id));
    size_t size;
    uint32_t d = digest(uref, &size);
    printf("sink %s input u%ld id=%s%" PRIu64 " size=%zu sum=%08x fd=%s", s->name, uref_uid(uref), has ? "" : "?", id, size, d,
           s->fd[0] ? s->fd : "none");
    print_payload(uref, size);
    uint64_t v;
    if (ubase_check(uref_clock_get_pts_sys(uref, &v))) printf(" pts_sys=%" PRIu64, v);
    if (ubase_check(uref_clock_get_dts_sys(uref, &v))) printf(" dts_sys=%" PRIu64, v);
    if (ubase_check(uref_clock_get_pts_prog(uref, &v))) printf(" pts_prog=%" PRIu64, v);
    if (ubase_check(uref_flow_get_discontinuity(uref))) printf(" disc");
    if (ubase_check(uref_block_get_start(uref))) printf(" start");
    if (ubase_check(uref_flow_get_random(uref))) printf(" random");
    const char *sv;
    if (ubase_check(uref_attr_get_string(uref, &sv, UDICT_TYPE_STRING, "x.tag"))) printf(" tag=%s", sv);
    if (ubase_check(uref_attr_get_string(uref, &sv, UDICT_TYPE_STRING, "x.fl")))
        printf(" fl=%s%s", sv, pd_fl_current(uref) ? " flnow" : "");
    printf("\n");
    uref_free(uref);
}

/* an extension may build the buffer manager that a flow format asks for (pictures, sound) */
__attribute__((weak)) struct ubuf_mgr *pd_ubuf_mgr_for(struct uref *flow_format);

int provide(struct urequest *r, const char *who)
{
    printf("provide %s %s type=%d\n", who, req_name(r), r->type);
    switch (r->type) {
    case UREQUEST_UREF_MGR: return urequest_provide_uref_mgr(r, uref_mgr_use(g_uref));
    case UREQUEST_UBUF_MGR: {
        struct uref *fd = r->uref ? uref_dup(r->uref) : NULL;
        struct ubuf_mgr *m = (pd_ubuf_mgr_for && r->uref) ? pd_ubuf_mgr_for(r->uref) : NULL;
        return urequest_provide_ubuf_mgr(r, m ? m : ubuf_mgr_use(g_block), fd);
    }
    case UREQUEST_UCLOCK: return urequest_provide_uclock(r, uclock_use(g_uclock));
    case UREQUEST_FLOW_FORMAT: return urequest_provide_flow_format(r, r->uref ? uref_dup(r->uref) : NULL);
    case UREQUEST_SINK_LATENCY: return urequest_provide_sink_latency(r, 1000);
    }
    return UBASE_ERR_UNHANDLED;
}

static int vsink_control(struct upipe *upipe, int command, va_list args)
{
    struct vsink *s = vsink_from_upipe(upipe);
    switch (command) {
    case UPIPE_SET_FLOW_DEF: {
        struct uref *fd = va_arg(args, struct uref *);
        if (pd_fltag)
            printf("sink %s set_flow_def %s %s fl=%s\n", s->name, fd_name(fd), s->accept ? "accept" : "reject", pd_fl_of(fd));
        else
            printf("sink %s set_flow_def %s %s\n", s->name, fd_name(fd), s->accept ? "accept" : "reject");
        /* a refusal is a refusal whatever its code: the codes real pipes answer alternate (a pipe that does not
         * know the command answers UBASE_ERR_UNHANDLED, one that dislikes the definition UBASE_ERR_INVALID) */
        if (!s->accept) return (s->nrejects++ & 1) ? UBASE_ERR_INVALID : UBASE_ERR_UNHANDLED;
        snprintf(s->fd, sizeof(s->fd), "%s", fd_name(fd));
        return UBASE_ERR_NONE;
    }
    case UPIPE_REGISTER_REQUEST: {
        struct urequest *r = va_arg(args, struct urequest *);
        printf("sink %s register %s type=%d\n", s->name, req_name(r), r->type);
        if (s->reqmode == 2) return UBASE_ERR_UNHANDLED;
        if (s->reqmode == 1) return upipe_throw_provide_request(upipe, r);
        if (s->nregs < 16) { static unsigned long serial; s->regserial[s->nregs] = ++serial; s->regs[s->nregs++] = r; }
        /* mode 3 (answer): the sink answers from inside register_request, as most real sinks do */
        if (s->reqmode == 3) return provide(r, s->name);
        return UBASE_ERR_NONE;
    }
    case UPIPE_UNREGISTER_REQUEST: {
        struct urequest *r = va_arg(args, struct urequest *);
        printf("sink %s unregister %s type=%d\n", s->name, req_name(r), r->type);
        for (int i = 0; i < s->nregs; i++)
            if (s->regs[i] == r) { s->regs[i] = s->regs[--s->nregs]; s->regserial[i] = s->regserial[s->nregs]; break; }
        return UBASE_ERR_NONE;
    }
    default:
        printf("sink %s control %d\n", s->name, command);
        return UBASE_ERR_UNHANDLED;
    }
}

static void vsink_free(struct upipe *upipe)
{
    struct vsink *s = vsink_from_upipe(upipe);
    printf("sink %s freed regs=%d\n", s->name, s->nregs);
    upipe_throw_dead(upipe);
    vsink_clean_urefcount(upipe);
    upipe_clean(upipe);
    s->dead = true;
    s->handle = NULL;
}

static struct upipe_mgr vsink_mgr = {
    .refcount = NULL,
    .signature = 0x76736e6b,
    .upipe_alloc = vsink_alloc,
    .upipe_input = vsink_input,
    .upipe_control = vsink_control,
};

/* sink probe: just records */
static int sink_catch(struct uprobe *uprobe, struct upipe *upipe, int event, va_list args)
{
    if (event == UPROBE_PROVIDE_REQUEST) {
        va_list c;
        va_copy(c, args);
        struct urequest *r = va_arg(c, struct urequest *);
        va_end(c);
        printf("ev %s provide_request %s type=%d\n", pipe_name(upipe), req_name(r), r->type);
        return UBASE_ERR_UNHANDLED;
    }
    if (event != UPROBE_LOG)
        printf("ev %s %s\n", pipe_name(upipe), event_name(event));
    return UBASE_ERR_NONE;
}

/* ------------------------------------------------------------ requests */
/* optional reaction of an extension to the answer of an application request (e.g. one-shot requests that
 * unregister themselves from inside their call-back), called after the reqcb line was printed */
__attribute__((weak)) void pd_reqcb_ext(struct vreq *v);
static int req_cb(struct urequest *r, va_list args)
{
    struct vreq *v = (struct vreq *)r;
    switch (r->type) {
    case UREQUEST_UREF_MGR: {
        struct uref_mgr *m = va_arg(args, struct uref_mgr *);
        printf("reqcb %s provided uref_mgr %s\n", v->name, m == g_uref ? "g" : "other");
        uref_mgr_release(m);
        break;
    }
    case UREQUEST_UBUF_MGR: {
        struct ubuf_mgr *m = va_arg(args, struct ubuf_mgr *);
        struct uref *fd = va_arg(args, struct uref *);
        printf("reqcb %s provided ubuf_mgr %s\n", v->name, m == g_block ? "g" : "other");
        ubuf_mgr_release(m);
        uref_free(fd);
        break;
    }
    case UREQUEST_UCLOCK: {
        struct uclock *c = va_arg(args, struct uclock *);
        printf("reqcb %s provided uclock %s\n", v->name, c == g_uclock ? "g" : "other");
        uclock_release(c);
        break;
    }
    case UREQUEST_FLOW_FORMAT: {
        struct uref *fd = va_arg(args, struct uref *);
        printf("reqcb %s provided flow_format %s\n", v->name, fd_name(fd));
        uref_free(fd);
        break;
    }
    case UREQUEST_SINK_LATENCY: {
        uint64_t l = va_arg(args, uint64_t);
        printf("reqcb %s provided sink_latency %" PRIu64 "\n", v->name, l);
        break;
    }
    }
    if (pd_reqcb_ext) pd_reqcb_ext(v);
    return UBASE_ERR_NONE;
}

/* ------------------------------------------------------------ helpers */
struct uref *make_fd(const char *fdname)
{
    /* fdname: b<letters>[2]  -> "block.<letters>."   (a trailing 2 = a second, equal uref) */
    char def[64];
    char fam = fdname[0];
    char body[32];
    snprintf(body, sizeof(body), "%s", fdname + 1);
    size_t l = strlen(body);
    uint8_t plus = 0;            /* trailing '+': the same definition with one more attribute */
    while (l && body[l - 1] == '+') { body[--l] = 0; plus++; }
    if (l && body[l - 1] == '2') body[l - 1] = 0;
    if (fam == 'b') {
        snprintf(def, sizeof(def), "%s.", body);
        struct uref *bfd = uref_block_flow_alloc_def(g_uref, def);
        if (bfd != NULL && plus)
            uref_attr_set_small_unsigned(bfd, plus, UDICT_TYPE_SMALL_UNSIGNED, "x.plus");
        return bfd;
    }
    struct uref *fd = uref_alloc_control(g_uref);
    snprintf(def, sizeof(def), "%s.", fdname);
    uref_flow_set_def(fd, def);
    return fd;
}

struct uref *make_block(const uint8_t *data, size_t size, int nseg)
{
    struct uref *u = uref_block_alloc(g_uref, g_block, 0);
    if (u == NULL) return NULL;
    /* build nseg segments */
    if (nseg < 1) nseg = 1;
    size_t done = 0;
    for (int s = 0; s < nseg; s++) {
        size_t part = (s == nseg - 1) ? size - done : size / nseg;
        struct ubuf *seg = ubuf_block_alloc(g_block, part);
        assert(seg);
        if (part) {
            int sz = -1;
            uint8_t *w;
            ubase_assert(ubuf_block_write(seg, 0, &sz, &w));
            memcpy(w, data + done, part);
            ubuf_block_unmap(seg, 0);
        }
        ubase_assert(ubuf_block_append(u->ubuf, seg));
        done += part;
    }
    return u;
}

void ret(int err) { printf("ret %d\n", err); }

/* one command (tokens); returns 1 on quit.  Also used for the reactions run from inside probe call-backs. */
static int exec_tokens(int nt, char **tok)
{
    const char *c = tok[0];
    do {
        if (!strcmp(c, "quit")) return 1;
        else if (!strcmp(c, "new") && nt >= 3) {
            const struct pipe_type *pt = registry_find(tok[2]);
            struct obj *o = NULL;
            for (int i = 0; i < MAXOBJ; i++) if (!pipes[i].name[0]) { o = &pipes[i]; break; }
            if (!pt || !o) { ret(-1); return 0; }
            memset(o, 0, sizeof(*o));
            snprintf(o->name, sizeof(o->name), "%s", tok[1]);
            o->type = pt;
            uprobe_init(&o->probe, probe_catch, NULL);
            o->probe.refcount = NULL;
            struct upipe_mgr *mgr = pt->mgr_alloc();
            struct upipe *up;
            /* the pipe pointer is not known before alloc returns: events
             * thrown during alloc are attributed through pending_obj */
            o->ptr = (struct upipe *)-1;
            registry_pending = o->name;
            if (pt->flow_alloc) {
                struct uref *fd = make_fd(nt > 3 ? tok[3] : pt->flow_alloc);
                up = upipe_flow_alloc(mgr, &o->probe, fd);
                uref_free(fd);
            } else
                up = upipe_void_alloc(mgr, &o->probe);
            registry_pending = NULL;
            upipe_mgr_release(mgr);
            o->upipe = up;
            o->ptr = up;
            o->alive = up != NULL;
            if (up && pt->post_alloc) pt->post_alloc(up);
            ret(up ? 0 : -1);
        } else if (!strcmp(c, "sub") && nt >= 3) {
            struct obj *sup = find_pipe(tok[2]);
            struct obj *o = NULL;
            for (int i = 0; i < MAXOBJ; i++) if (!pipes[i].name[0]) { o = &pipes[i]; break; }
            if (!sup || !sup->upipe || !o) { ret(-1); return 0; }
            memset(o, 0, sizeof(*o));
            snprintf(o->name, sizeof(o->name), "%s", tok[1]);
            uprobe_init(&o->probe, probe_catch, NULL);
            o->ptr = (struct upipe *)-1;
            registry_pending = o->name;
            struct upipe *up = upipe_void_alloc_sub(sup->upipe, &o->probe);
            registry_pending = NULL;
            o->upipe = up;
            o->ptr = up;
            o->alive = up != NULL;
            ret(up ? 0 : -1);
        } else if (!strcmp(c, "sink") && nt >= 2) {
            struct uprobe *pr = malloc(sizeof(struct uprobe));
            uprobe_init(pr, sink_catch, NULL);
            struct upipe *up = upipe_void_alloc(&vsink_mgr, pr);
            struct vsink *s = vsink_from_upipe(up);
            snprintf(s->name, sizeof(s->name), "%s", tok[1]);
            s->accept = !(nt > 2 && !strcmp(tok[2], "reject"));
            s->handle = up;
            upipe_throw_ready(up);
            ret(0);
        } else if (!strcmp(c, "policy") && nt >= 3) {
            struct vsink *s = find_sink(tok[1]);
            if (!s) { ret(-1); return 0; }
            s->accept = !strcmp(tok[2], "accept");
            ret(0);
        } else if (!strcmp(c, "reqmode") && nt >= 3) {
            struct vsink *s = find_sink(tok[1]);
            if (!s) { ret(-1); return 0; }
            s->reqmode = !strcmp(tok[2], "throw") ? 1 : !strcmp(tok[2], "refuse") ? 2 : !strcmp(tok[2], "answer") ? 3 : 0;
            ret(0);
        } else if (!strcmp(c, "setfd") && nt >= 3) {
            struct upipe *up = find_any(tok[1]);
            if (!up) { ret(-1); return 0; }
            struct uref *fd = make_fd(tok[2]);
            int err = upipe_set_flow_def(up, fd);
            if (ubase_check(err)) pd_fl_note(tok[1], fd);
            uref_free(fd);
            ret(err);
        } else if (!strcmp(c, "getfd") && nt >= 2) {
            struct upipe *up = find_any(tok[1]);
            if (!up) { ret(-1); return 0; }
            struct uref *fd = NULL;
            int err = upipe_get_flow_def(up, &fd);
            if (ubase_check(err)) printf("ret 0 %s\n", fd_name(fd)); else ret(err);
        } else if (!strcmp(c, "out") && nt >= 3) {
            struct upipe *up = find_any(tok[1]);
            struct upipe *o = !strcmp(tok[2], "null") ? NULL : find_any(tok[2]);
            if (!up) { ret(-1); return 0; }
            ret(upipe_set_output(up, o));
        } else if (!strcmp(c, "getout") && nt >= 2) {
            struct upipe *up = find_any(tok[1]);
            if (!up) { ret(-1); return 0; }
            struct upipe *o = NULL;
            int err = upipe_get_output(up, &o);
            if (ubase_check(err)) printf("ret 0 %s\n", pipe_name(o)); else ret(err);
        } else if (!strcmp(c, "in") && nt >= 4) {
            struct upipe *up = find_any(tok[1]);
            if (!up) { ret(-1); return 0; }
            unsigned id = atoi(tok[2]);
            size_t size = atoi(tok[3]);
            int nseg = nt > 4 ? atoi(tok[4]) : 1;
            uint8_t *data = malloc(size + 1);
            for (size_t i = 0; i < size; i++) data[i] = (uint8_t)(id * 7 + i);
            struct uref *u = make_block(data, size, nseg);
            free(data);
            uref_vx_set_id(u, id);
            pd_fl_tag(tok[1], u);
            printf("input u%ld id=%u\n", uref_uid(u), id);
            upipe_input(up, u, NULL);
            ret(0);
        } else if (!strcmp(c, "ins") && nt >= 3) {
            struct upipe *up = find_any(tok[1]);
            if (!up) { ret(-1); return 0; }
            const char *hex = tok[2];
            size_t size = !strcmp(hex, "-") ? 0 : strlen(hex) / 2;
            uint8_t *data = malloc(size + 1);
            for (size_t i = 0; i < size; i++) { unsigned b; sscanf(hex + 2 * i, "%2x", &b); data[i] = (uint8_t)b; }
            int nseg = nt > 3 ? atoi(tok[3]) : 1;
            struct uref *u = make_block(data, size, nseg);
            free(data);
            for (int k = 4; k < nt; k++) {
                if (!strncmp(tok[k], "id=", 3)) uref_vx_set_id(u, atoi(tok[k] + 3));
                else if (!strncmp(tok[k], "pts_prog=", 9)) uref_clock_set_pts_prog(u, strtoull(tok[k] + 9, NULL, 10));
                else if (!strncmp(tok[k], "dts_prog=", 9)) uref_clock_set_dts_prog(u, strtoull(tok[k] + 9, NULL, 10));
                else if (!strncmp(tok[k], "pts_sys=", 8)) uref_clock_set_pts_sys(u, strtoull(tok[k] + 8, NULL, 10));
                else if (!strncmp(tok[k], "dts_sys=", 8)) uref_clock_set_dts_sys(u, strtoull(tok[k] + 8, NULL, 10));
                else if (!strncmp(tok[k], "cr_sys=", 7)) uref_clock_set_cr_sys(u, strtoull(tok[k] + 7, NULL, 10));
                else if (!strncmp(tok[k], "cr_prog=", 8)) uref_clock_set_cr_prog(u, strtoull(tok[k] + 8, NULL, 10));
                else if (!strncmp(tok[k], "duration=", 9)) uref_clock_set_duration(u, strtoull(tok[k] + 9, NULL, 10));
                else if (!strcmp(tok[k], "disc")) uref_flow_set_discontinuity(u);
                else if (!strcmp(tok[k], "start")) uref_block_set_start(u);
                else if (!strcmp(tok[k], "random")) uref_flow_set_random(u);
            }
            pd_fl_tag(tok[1], u);
            printf("input u%ld\n", uref_uid(u));
            upipe_input(up, u, NULL);
            ret(0);
        } else if (!strcmp(c, "flush") && nt >= 2) {
            struct upipe *up = find_any(tok[1]);
            if (!up) { ret(-1); return 0; }
            ret(upipe_flush(up));
        } else if (!strcmp(c, "rel") && nt >= 2) {
            struct obj *o = find_pipe(tok[1]);
            struct vsink *s = find_sink(tok[1]);
            if (o && o->upipe) { struct upipe *u = o->upipe; o->upipe = NULL; upipe_release(u); ret(0); }
            else if (s && s->handle) { struct upipe *u = s->handle; s->handle = NULL; upipe_release(u); ret(0); }
            else ret(-1);
        } else if (!strcmp(c, "opt") && nt >= 4) {
            struct obj *o = find_pipe(tok[1]);
            if (!o || !o->upipe) { ret(-1); return 0; }
            registry_option(o->upipe, o->type, !strcmp(tok[2], "set"), tok[3], nt > 4 ? tok[4] : NULL);
        } else if (!strcmp(c, "req") && nt >= 3) {
            struct vreq *v = NULL;
            for (int i = 0; i < MAXOBJ; i++) if (!reqs[i].used) { v = &reqs[i]; break; }
            if (!v) { ret(-1); return 0; }
            memset(v, 0, sizeof(*v));
            v->used = true;
            snprintf(v->name, sizeof(v->name), "%s", tok[1]);
            if (!strcmp(tok[2], "uref_mgr")) urequest_init_uref_mgr(&v->req, req_cb, NULL);
            else if (!strcmp(tok[2], "ubuf_mgr")) urequest_init_ubuf_mgr(&v->req, make_fd("bA"), req_cb, NULL);
            else if (!strcmp(tok[2], "uclock")) urequest_init_uclock(&v->req, req_cb, NULL);
            else if (!strcmp(tok[2], "flow_format")) urequest_init_flow_format(&v->req, make_fd("bA"), req_cb, NULL);
            else urequest_init_sink_latency(&v->req, req_cb, NULL);
            ret(0);
        } else if ((!strcmp(c, "reg") || !strcmp(c, "unreg")) && nt >= 3) {
            struct upipe *up = find_any(tok[1]);
            struct vreq *v = find_req(tok[2]);
            if (!up || !v) { ret(-1); return 0; }
            ret(!strcmp(c, "reg") ? upipe_register_request(up, &v->req) : upipe_unregister_request(up, &v->req));
        } else if (!strcmp(c, "provide") && nt >= 3) {
            struct vsink *s = find_sink(tok[1]);
            struct vreq *v = find_req(tok[2]);
            if (!s || !v) { ret(-1); return 0; }
            /* find the registered request (possibly a proxy) that belongs to v */
            struct urequest *found = NULL;
            for (int i = 0; i < s->nregs && !found; i++) {
                struct urequest *cur = s->regs[i];
                for (int d = 0; cur && d < 8; d++) {
                    if (cur == &v->req) { found = s->regs[i]; break; }
                    cur = urequest_get_opaque(cur, struct urequest *);
                }
            }
            if (!found) { printf("ret -2 notregistered\n"); return 0; }
            ret(provide(found, s->name));
        } else if (!strcmp(c, "probeprov") && nt >= 4) {
            struct obj *o = find_pipe(tok[1]);
            if (!o) { ret(-1); return 0; }
            int type = !strcmp(tok[2], "uref_mgr") ? UREQUEST_UREF_MGR : !strcmp(tok[2], "ubuf_mgr") ? UREQUEST_UBUF_MGR :
                       !strcmp(tok[2], "uclock") ? UREQUEST_UCLOCK : !strcmp(tok[2], "flow_format") ? UREQUEST_FLOW_FORMAT : UREQUEST_SINK_LATENCY;
            o->prov[type] = !strcmp(tok[3], "on");
            ret(0);
        } else if (!strcmp(c, "mgrs")) {
            printf("mgrs uref_live=%ld uref_mgr_rc=%u udict_mgr_rc=%u ubuf_mgr_rc=%u umem_mgr_rc=%u uclock_rc=%u\n", uref_live,
                   (unsigned)uatomic_load(&track_rc.refcount),
                   (unsigned)uatomic_load(&g_udict->refcount->refcount),
                   (unsigned)uatomic_load(&g_block->refcount->refcount),
                   (unsigned)uatomic_load(&g_umem->refcount->refcount),
                   g_uclock ? (unsigned)uatomic_load(&g_uclock->refcount->refcount) : 0);
            ret(0);
        } else if (registry_command(nt, tok)) {
            /* handled by an extension */
        } else {
            printf("ret -99 unknown\n");
        }
    } while (0);
    return 0;
}

/* ---- reactions: "onev <pipe> <event> <command...>" - the probe of <pipe> runs <command> (once) from inside
 * its call-back when it catches <event>; output lines of the nested command belong to the block of the
 * command during which the event was thrown; the nested command is announced by an "rcmd" line ---- */
struct reaction { char pipe[8]; char event[24]; char line[128]; bool used; };
static struct reaction reactions[16];

void pd_react(const char *pipe, const char *event)
{
    for (int r = 0; r < 16; r++) {
        struct reaction *x = &reactions[r];
        if (!x->used || strcmp(x->pipe, pipe) || strcmp(x->event, event)) continue;
        x->used = false;
        char buf[128];
        snprintf(buf, sizeof(buf), "%s", x->line);
        char *tok[16];
        int nt = 0;
        for (char *t = strtok(buf, " \t\r\n"); t && nt < 16; t = strtok(NULL, " \t\r\n")) tok[nt++] = t;
        if (nt == 0) continue;
        printf("rcmd");
        for (int i = 0; i < nt; i++) printf(" %s", tok[i]);
        printf("\n");
        exec_tokens(nt, tok);
    }
}

int main(int argc, char **argv)
{
    g_pool = argc > 1 ? atoi(argv[1]) : 0;
    setvbuf(stdout, NULL, _IOFBF, 1 << 16);
    g_umem = umem_alloc_mgr_alloc();
    g_udict = udict_inline_mgr_alloc(g_pool, g_umem, -1, -1);
    g_uref_inner = uref_std_mgr_alloc(g_pool, g_udict, 0);
    urefcount_init(&track_rc, track_rc_dead);
    track_mgr.refcount = &track_rc;
    track_mgr.control_attr_size = g_uref_inner->control_attr_size;
    track_mgr.udict_mgr = g_uref_inner->udict_mgr;
    track_mgr.uref_alloc = track_alloc;
    track_mgr.uref_free = track_free;
    track_mgr.uref_mgr_control = track_control;
    g_uref = &track_mgr;
    g_block = ubuf_block_mem_mgr_alloc(g_pool, g_pool, g_umem, 0, 0, -1, 0);
    g_uclock = registry_uclock();
    registry_init();

    char line[8192];
    while (fgets(line, sizeof(line), stdin)) {
        char *tok[16];
        int nt = 0;
        for (char *t = strtok(line, " \t\r\n"); t && nt < 16; t = strtok(NULL, " \t\r\n")) tok[nt++] = t;
        if (nt == 0 || tok[0][0] == '#') continue;
        printf("cmd");
        for (int i = 0; i < nt; i++) printf(" %s", tok[i]);
        printf("\n");
        if (!strcmp(tok[0], "onev") && nt >= 4) {
            int r;
            for (r = 0; r < 16 && reactions[r].used; r++) ;
            if (r == 16) { printf("ret -1\n"); fflush(stdout); continue; }
            struct reaction *x = &reactions[r];
            snprintf(x->pipe, sizeof(x->pipe), "%s", tok[1]);
            snprintf(x->event, sizeof(x->event), "%s", tok[2]);
            x->line[0] = 0;
            for (int i = 3; i < nt; i++) {
                strncat(x->line, tok[i], sizeof(x->line) - strlen(x->line) - 2);
                strcat(x->line, " ");
            }
            x->used = true;
            printf("ret 0\n");
            fflush(stdout);
            continue;
        }
        if (exec_tokens(nt, tok)) break;
        fflush(stdout);
    }
    fflush(stdout);
    return 0;
}
