/* pd_ext_c05.c - extension of harness/pipe_driver.c for property C05
 * (in-thread pipes neither lose, duplicate nor reorder buffers).
 * Hooks used: pd_types_b, pd_option_b, pd_ext_b.
 *
 * What it adds
 *   - a second tracking uref manager for DATA buffers only ("duref alloc dK" /
 *     "duref free dK"): every data buffer is allocated with it, uref_dup()
 *     copies made by pipes come from it too, control urefs (flow definitions,
 *     dictionaries) never do - so instance-level conservation is observable;
 *   - a blocking recording sink (bsink) living in the driver's sinks[] table
 *     (so out/rel/policy/provide of the driver work on it): when blocked it
 *     keeps what it receives and blocks the pump that generated the buffer
 *     with a upump_blocker, like a real sink whose descriptor is not writable;
 *   - a mock event loop (harness/vloop.c over the REAL lib/upipe/upump_common.c)
 *     and a mock clock tied to the loop's virtual time; nothing fires unless a
 *     command says so;
 *   - pipe types that need a pump manager / clock: buffer, disblo, time_limit,
 *     trickp, and puref (upipe_probe_uref with a probe that can ask to drop);
 *     the real manager is wrapped so that a small probe providing the pump
 *     manager and the clock sits in front of the driver's recording probe;
 *   - options for match_attr, setrap, buffer, time_limit, trickp, puref.
 *
 * Commands
 *   bsink sN [accept|reject]        allocate a blocking recording sink
 *   renew pN sK                     at the next need_output of pN (its output refused the flow definition) the
 *                                   probe drops the refused sink and connects a brand new one named sK
 *   block sN / unblock sN           unblock releases what the sink kept (in order)
 *   inb pN <id> <size> <segs> [attrs]   upipe_input of a data buffer:
 *        payload octet i = (id*16+i)&255, segs = "n1+n2+.." (sizes of the segments)
 *        attrs: noid | sys=<t>:<v> prog=<t>:<v> orig=<t>:<v> (t = pts|dts|cr)
 *               rap=<v> (uref_clock_set_rap_sys after the dates) tag=<s> disc
 *   disp pN                         dispatch the active idler pump of pipe pN (ret -1: none active)
 *   adv <ticks>                     advance the virtual clock, dispatching the timers that expire
 *   provall sN                      answer every request registered at sink sN (registration order)
 *   dlive                           number of live data urefs
 *   giveclock on|off                the wrapper probe answers uclock requests (default on)
 * Output lines
 *   duref alloc dK / duref free dK
 *   dinput dK id=<id>
 *   sink sN input dK id=.. size=.. hex=.. fd=.. sys=.. prog=.. orig=.. dpd=.. cdd=.. rcd=.. tag=.. disc=.. rate=.. [held]
 *   sink sN release dK
 *   ev pN probe_uref id=<id> drop=<0|1>
 */
#include <stdio.h>
#include <stdlib.h>
#include <string.h>
#include <stdint.h>
#include <stdbool.h>
#include <stdarg.h>
#include <inttypes.h>
#include <assert.h>
#include <stddef.h>

#include "upipe/ubase.h"
#include "upipe/ulist.h"
#include "upipe/urefcount.h"
#include "upipe/uprobe.h"
#include "upipe/uclock.h"
#include "upipe/udict.h"
#include "upipe/uref.h"
#include "upipe/uref_std.h"
#include "upipe/uref_attr.h"
#include "upipe/uref_flow.h"
#include "upipe/uref_block.h"
#include "upipe/uref_clock.h"
#include "upipe/ubuf.h"
#include "upipe/ubuf_block.h"
#include "upipe/upump.h"
#include "upipe/upump_blocker.h"
#include "upipe/urequest.h"
#include "upipe/upipe.h"
#include "upipe-modules/upipe_buffer.h"
#include "upipe-modules/upipe_discard_blocking.h"
#include "upipe-modules/upipe_time_limit.h"
#include "upipe-modules/upipe_trickplay.h"
#include "upipe-modules/upipe_probe_uref.h"
#include "upipe-modules/upipe_match_attr.h"
#include "upipe-modules/upipe_setrap.h"

#include "pipe_driver.h"
#include "vloop.h"

UREF_ATTR_UNSIGNED(c05, id, "x.id", verification buffer id)

/* ------------------------------------------------------------ loop + clock */
static struct upump_mgr *g_vloop;
#define C05_CLOCK_BASE 1000

static struct upump_mgr *c05_loop(void)
{
    if (g_vloop == NULL)
        g_vloop = vloop_mgr_alloc();
    return g_vloop;
}

static struct uclock c05_clock;
static struct urefcount c05_clock_rc;
static bool c05_give_clock = true;
static void c05_clock_dead(struct urefcount *rc) { }
static uint64_t c05_clock_now(struct uclock *uclock)
{
    return C05_CLOCK_BASE + vloop_now(c05_loop());
}
static struct uclock *c05_uclock(void)
{
    if (c05_clock.refcount == NULL) {
        urefcount_init(&c05_clock_rc, c05_clock_dead);
        c05_clock.refcount = &c05_clock_rc;
        c05_clock.uclock_now = c05_clock_now;
        c05_clock.uclock_to_real = NULL;
        c05_clock.uclock_from_real = NULL;
    }
    return &c05_clock;
}

/* ------------------------------------------------------------ data uref manager */
static struct uref_mgr *d_inner;
static struct uref_mgr d_mgr;
static struct urefcount d_rc;
static long d_next, d_live;
#define MAXD 4096
static struct uref *d_ptr[MAXD];
static long d_ids[MAXD];
static void d_rc_dead(struct urefcount *rc) { }

static struct uref *d_alloc(struct uref_mgr *mgr)
{
    struct uref *u = d_inner->uref_alloc(d_inner);
    if (u == NULL) return NULL;
    u->mgr = &d_mgr;
    long id = d_next++;
    for (int i = 0; i < MAXD; i++)
        if (d_ptr[i] == NULL) { d_ptr[i] = u; d_ids[i] = id; break; }
    d_live++;
    printf("duref alloc d%ld\n", id);
    return u;
}
static void d_free(struct uref *u)
{
    long id = -1;
    for (int i = 0; i < MAXD; i++)
        if (d_ptr[i] == u) { id = d_ids[i]; d_ptr[i] = NULL; break; }
    if (id < 0) printf("duref free UNKNOWN\n");
    else printf("duref free d%ld\n", id);
    d_live--;
    u->mgr = d_inner;
    d_inner->uref_free(u);
}
static long d_uid(struct uref *u)
{
    for (int i = 0; i < MAXD; i++)
        if (d_ptr[i] == u) return d_ids[i];
    return -1;
}
static int d_control(struct uref_mgr *mgr, int cmd, va_list args)
{
    return uref_mgr_control_va(d_inner, cmd, args);
}
static struct uref_mgr *c05_dmgr(void)
{
    if (d_inner == NULL) {
        d_inner = uref_std_mgr_alloc(0, g_udict, 0);
        assert(d_inner != NULL);
        urefcount_init(&d_rc, d_rc_dead);
        d_mgr.refcount = &d_rc;
        d_mgr.control_attr_size = d_inner->control_attr_size;
        d_mgr.udict_mgr = d_inner->udict_mgr;
        d_mgr.uref_alloc = d_alloc;
        d_mgr.uref_free = d_free;
        d_mgr.uref_mgr_control = d_control;
    }
    return &d_mgr;
}

/* ------------------------------------------------------------ wrapper probe */
struct c05_probe {
    struct uprobe uprobe;
    struct urefcount rc;
    int64_t drop_id;            /* puref: id of the buffer to drop, -1 none */
};

static void c05_probe_dead(struct urefcount *rc)
{
    struct c05_probe *p = (struct c05_probe *)((char *)rc - offsetof(struct c05_probe, rc));
    uprobe_clean(&p->uprobe);
    urefcount_clean(&p->rc);
    free(p);
}

static const char *c05_name(struct upipe *upipe)
{
    if (registry_pending != NULL) return registry_pending;
    return pipe_name(upipe);
}

static int c05_provide(struct urequest *r, const char *who)
{
    if (r->type == UREQUEST_UCLOCK) {
        printf("provide %s %s type=%d\n", who, req_name(r), r->type);
        return urequest_provide_uclock(r, uclock_use(c05_uclock()));
    }
    return provide(r, who);
}

static int c05_probe_catch(struct uprobe *uprobe, struct upipe *upipe, int event, va_list args)
{
    struct c05_probe *p = (struct c05_probe *)uprobe;
    if (event == UPROBE_NEED_UPUMP_MGR) {
        struct upump_mgr **mgr_p = va_arg(args, struct upump_mgr **);
        *mgr_p = upump_mgr_use(c05_loop());
        return UBASE_ERR_NONE;
    }
    if (event == UPROBE_PROVIDE_REQUEST && c05_give_clock) {
        va_list c;
        va_copy(c, args);
        struct urequest *r = va_arg(c, struct urequest *);
        va_end(c);
        if (r->type == UREQUEST_UCLOCK)
            return urequest_provide_uclock(r, uclock_use(c05_uclock()));
    }
    if (event == UPROBE_PROBE_UREF) {
        va_list c;
        va_copy(c, args);
        unsigned int sig = va_arg(c, unsigned int);
        if (sig == UPIPE_PROBE_UREF_SIGNATURE) {
            struct uref *uref = va_arg(c, struct uref *);
            struct upump **upump_p = va_arg(c, struct upump **);
            bool *drop = va_arg(c, bool *);
            (void)upump_p;
            uint64_t id = 0;
            bool has = ubase_check(uref_c05_get_id(uref, &id));
            bool d = has && p->drop_id >= 0 && (uint64_t)p->drop_id == id;
            printf("ev %s probe_uref id=%s%" PRIu64 " drop=%d\n", c05_name(upipe), has ? "" : "?", id, d);
            if (d) *drop = true;
            va_end(c);
            return UBASE_ERR_NONE;
        }
        va_end(c);
    }
    return uprobe_throw_next(uprobe, upipe, event, args);
}

static struct uprobe *c05_probe_alloc(struct uprobe *next)
{
    struct c05_probe *p = malloc(sizeof(*p));
    assert(p != NULL);
    uprobe_init(&p->uprobe, c05_probe_catch, next);
    urefcount_init(&p->rc, c05_probe_dead);
    p->uprobe.refcount = &p->rc;
    p->drop_id = -1;
    return &p->uprobe;
}

/* wrapped managers: the real manager allocates the pipe with our probe in front */
#define WRAP(NAME, REAL)                                                        \
static struct upipe *wrap_alloc_##NAME(struct upipe_mgr *mgr, struct uprobe *uprobe, \
                                       uint32_t signature, va_list args)        \
{                                                                               \
    struct upipe_mgr *real = REAL();                                            \
    struct upipe *u = real->upipe_alloc(real, c05_probe_alloc(uprobe), signature, args); \
    upipe_mgr_release(real);                                                    \
    return u;                                                                   \
}                                                                               \
static struct upipe_mgr wrap_mgr_##NAME = { .refcount = NULL, .signature = 0,   \
                                            .upipe_alloc = wrap_alloc_##NAME }; \
static struct upipe_mgr *wrap_mgr_alloc_##NAME(void) { return &wrap_mgr_##NAME; }

WRAP(buffer, upipe_buffer_mgr_alloc)
WRAP(disblo, upipe_disblo_mgr_alloc)
WRAP(time_limit, upipe_time_limit_mgr_alloc)
WRAP(trickp, upipe_trickp_mgr_alloc)
WRAP(puref, upipe_probe_uref_mgr_alloc)

static const struct pipe_type c05_types[] = {
    { "buffer", wrap_mgr_alloc_buffer, NULL, NULL },
    { "disblo", wrap_mgr_alloc_disblo, NULL, NULL },
    { "time_limit", wrap_mgr_alloc_time_limit, NULL, NULL },
    { "trickp", wrap_mgr_alloc_trickp, NULL, NULL },
    { "puref", wrap_mgr_alloc_puref, NULL, NULL },
    { NULL, NULL, NULL, NULL }
};

const struct pipe_type *pd_types_b(const char *name)
{
    for (int i = 0; c05_types[i].name; i++)
        if (!strcmp(c05_types[i].name, name)) return &c05_types[i];
    return NULL;
}

/* ------------------------------------------------------------ options */
bool pd_option_b(struct upipe *upipe, const struct pipe_type *type, bool set,
                 const char *name, const char *value)
{
    const char *t = type ? type->name : "";
    if (!set || value == NULL) return false;
    int err;
    if (!strcmp(t, "match_attr") && !strcmp(name, "match")) {
        unsigned long long lo = 0, hi = 0;
        sscanf(value, "%llu,%llu", &lo, &hi);
        err = upipe_match_attr_set_uint64_t(upipe, uref_c05_match_id);
        if (ubase_check(err)) err = upipe_match_attr_set_boundaries(upipe, lo, hi);
    } else if (!strcmp(t, "setrap") && !strcmp(name, "rap")) {
        err = upipe_setrap_set_rap(upipe, strtoull(value, NULL, 10));
    } else if (!strcmp(t, "buffer") && !strcmp(name, "max_size")) {
        err = upipe_buffer_set_max_size(upipe, strtoull(value, NULL, 10));
    } else if (!strcmp(t, "time_limit") && !strcmp(name, "limit")) {
        err = upipe_time_limit_set_limit(upipe, strtoull(value, NULL, 10));
    } else if (!strcmp(t, "trickp") && !strcmp(name, "rate")) {
        struct urational r = { 1, 1 };
        long long n = 1;
        unsigned long long d = 1;
        sscanf(value, "%lld/%llu", &n, &d);
        r.num = n;
        r.den = d;
        err = upipe_trickp_set_rate(upipe, r);
    } else if (!strcmp(t, "puref") && !strcmp(name, "drop")) {
        struct c05_probe *p = (struct c05_probe *)upipe->uprobe;
        p->drop_id = strtoll(value, NULL, 10);
        err = UBASE_ERR_NONE;
    } else
        return false;
    printf("ret %d\n", err);
    return true;
}

/* ------------------------------------------------------------ blocking sink */
struct bx {
    bool mine;
    bool blocked;
    struct uchain held;
    struct uchain blockers;
};
static struct bx bx[MAXOBJ];

static struct vsink *bs_from_upipe(struct upipe *upipe)
{
    return (struct vsink *)((char *)upipe - offsetof(struct vsink, upipe));
}

static void bs_blocker_cb(struct upump_blocker *blocker)
{
    /* the blocked pump is being freed */
    ulist_delete(upump_blocker_to_uchain(blocker));
    upump_blocker_free(blocker);
}

static const char *date_str(char *buf, size_t n, uint64_t date, int type)
{
    const char *t = type == UREF_DATE_PTS ? "pts" : type == UREF_DATE_DTS ? "dts" :
                    type == UREF_DATE_CR ? "cr" : NULL;
    if (t == NULL) snprintf(buf, n, "-");
    else snprintf(buf, n, "%s:%" PRIu64, t, date);
    return buf;
}

static void bs_print(struct vsink *s, struct uref *uref, bool held)
{
    uint64_t id = 0;
    bool has = ubase_check(uref_c05_get_id(uref, &id));
    size_t size = 0;
    if (uref->ubuf == NULL || !ubase_check(uref_block_size(uref, &size))) size = 0;
    printf("sink %s input d%ld id=", s->name, d_uid(uref));
    if (has) printf("%" PRIu64, id); else printf("-");
    printf(" size=%zu hex=", size);
    if (size == 0) printf("-");
    int off = 0;
    while (off < (int)size) {
        int sz = -1;
        const uint8_t *buf;
        if (!ubase_check(uref_block_read(uref, off, &sz, &buf))) { printf("!"); break; }
        for (int i = 0; i < sz; i++) printf("%02x", buf[i]);
        uref_block_unmap(uref, off);
        off += sz;
    }
    printf(" fd=%s", s->fd[0] ? s->fd : "none");
    char b[48];
    uint64_t date;
    int type;
    uref_clock_get_date_sys(uref, &date, &type);
    printf(" sys=%s", date_str(b, sizeof(b), date, type));
    uref_clock_get_date_prog(uref, &date, &type);
    printf(" prog=%s", date_str(b, sizeof(b), date, type));
    uref_clock_get_date_orig(uref, &date, &type);
    printf(" orig=%s", date_str(b, sizeof(b), date, type));
    uint64_t v;
    if (ubase_check(uref_clock_get_dts_pts_delay(uref, &v))) printf(" dpd=%" PRIu64, v); else printf(" dpd=-");
    if (ubase_check(uref_clock_get_cr_dts_delay(uref, &v))) printf(" cdd=%" PRIu64, v); else printf(" cdd=-");
    if (ubase_check(uref_clock_get_rap_cr_delay(uref, &v))) printf(" rcd=%" PRIu64, v); else printf(" rcd=-");
    const char *sv;
    if (ubase_check(uref_attr_get_string(uref, &sv, UDICT_TYPE_STRING, "x.tag"))) printf(" tag=%s", sv);
    else printf(" tag=-");
    printf(" disc=%d", ubase_check(uref_flow_get_discontinuity(uref)) ? 1 : 0);
    struct urational rate;
    if (ubase_check(uref_clock_get_rate(uref, &rate))) printf(" rate=%" PRId64 "/%" PRIu64, rate.num, rate.den);
    else printf(" rate=-");
    if (held) printf(" held");
    printf("\n");
}

static void bs_input(struct upipe *upipe, struct uref *uref, struct upump **upump_p)
{
    struct vsink *s = bs_from_upipe(upipe);
    struct bx *x = &bx[s - sinks];
    bs_print(s, uref, x->blocked);
    if (!x->blocked) {
        uref_free(uref);
        return;
    }
    ulist_add(&x->held, uref_to_uchain(uref));
    if (upump_p != NULL && *upump_p != NULL &&
        upump_blocker_find(&x->blockers, *upump_p) == NULL) {
        struct upump_blocker *b = upump_blocker_alloc(*upump_p, bs_blocker_cb, s);
        if (b != NULL) ulist_add(&x->blockers, upump_blocker_to_uchain(b));
    }
}

static void bs_release_held(struct vsink *s, struct bx *x)
{
    struct uchain *uchain;
    while ((uchain = ulist_pop(&x->held)) != NULL) {
        struct uref *uref = uref_from_uchain(uchain);
        printf("sink %s release d%ld\n", s->name, d_uid(uref));
        uref_free(uref);
    }
}

static void bs_unblock_pumps(struct bx *x)
{
    struct uchain *uchain, *tmp;
    ulist_delete_foreach (&x->blockers, uchain, tmp) {
        ulist_delete(uchain);
        upump_blocker_free(upump_blocker_from_uchain(uchain));
    }
}

static int bs_control(struct upipe *upipe, int command, va_list args)
{
    struct vsink *s = bs_from_upipe(upipe);
    switch (command) {
    case UPIPE_SET_FLOW_DEF: {
        struct uref *fd = va_arg(args, struct uref *);
        printf("sink %s set_flow_def %s %s\n", s->name, fd_name(fd), s->accept ? "accept" : "reject");
        if (!s->accept) return UBASE_ERR_INVALID;
        snprintf(s->fd, sizeof(s->fd), "%s", fd_name(fd));
        return UBASE_ERR_NONE;
    }
    case UPIPE_REGISTER_REQUEST: {
        struct urequest *r = va_arg(args, struct urequest *);
        printf("sink %s register %s type=%d\n", s->name, req_name(r), r->type);
        if (s->reqmode == 2) return UBASE_ERR_UNHANDLED;
        if (s->reqmode == 1) return upipe_throw_provide_request(upipe, r);
        if (s->nregs < 16) { static unsigned long serial; s->regserial[s->nregs] = ++serial; s->regs[s->nregs++] = r; }
        return UBASE_ERR_NONE;
    }
    case UPIPE_UNREGISTER_REQUEST: {
        struct urequest *r = va_arg(args, struct urequest *);
        printf("sink %s unregister %s type=%d\n", s->name, req_name(r), r->type);
        for (int i = 0; i < s->nregs; i++)
            if (s->regs[i] == r) {
                for (int j = i; j + 1 < s->nregs; j++) { s->regs[j] = s->regs[j + 1]; s->regserial[j] = s->regserial[j + 1]; }
                s->nregs--;
                break;
            }
        return UBASE_ERR_NONE;
    }
    default:
        printf("sink %s control %d\n", s->name, command);
        return UBASE_ERR_UNHANDLED;
    }
}

static void bs_dead(struct urefcount *rc)
{
    struct vsink *s = (struct vsink *)((char *)rc - offsetof(struct vsink, urefcount));
    struct bx *x = &bx[s - sinks];
    struct upipe *upipe = &s->upipe;
    printf("sink %s freed regs=%d\n", s->name, s->nregs);
    upipe_throw_dead(upipe);
    bs_release_held(s, x);
    bs_unblock_pumps(x);
    urefcount_clean(&s->urefcount);
    upipe_clean(upipe);
    s->dead = true;
    s->handle = NULL;
    x->mine = false;
}

static int bs_catch(struct uprobe *uprobe, struct upipe *upipe, int event, va_list args)
{
    if (event == UPROBE_PROVIDE_REQUEST) return UBASE_ERR_UNHANDLED;
    if (event != UPROBE_LOG)
        printf("ev %s %s\n", pipe_name(upipe),
               event == UPROBE_READY ? "ready" : event == UPROBE_DEAD ? "dead" : "other");
    return UBASE_ERR_NONE;
}

static struct upipe *bs_alloc(struct upipe_mgr *mgr, struct uprobe *uprobe,
                              uint32_t signature, va_list args)
{
    return NULL; /* never allocated through the manager */
}

static struct upipe_mgr bs_mgr = {
    .refcount = NULL,
    .signature = 0x62736e6b,
    .upipe_alloc = bs_alloc,
    .upipe_input = bs_input,
    .upipe_control = bs_control,
};

static struct vsink *bsink_make(const char *name, bool accept, struct vsink *slot);
static bool cmd_bsink(int nt, char **tok)
{
    struct vsink *s = bsink_make(tok[1], !(nt > 2 && !strcmp(tok[2], "reject")), NULL);
    ret(s != NULL ? 0 : -1);
    return true;
}

/* slot: where to build it (a dead sink's place, as an allocator would recycle it) or NULL: the first free one */
static struct vsink *bsink_make(const char *name, bool accept, struct vsink *slot)
{
    struct vsink *s = slot;
    for (int i = 0; s == NULL && i < MAXOBJ; i++)
        if (!sinks[i].used) { s = &sinks[i]; break; }
    if (s == NULL) return NULL;
    struct bx *x = &bx[s - sinks];
    memset(s, 0, sizeof(*s));
    memset(x, 0, sizeof(*x));
    s->used = true;
    x->mine = true;
    ulist_init(&x->held);
    ulist_init(&x->blockers);
    snprintf(s->name, sizeof(s->name), "%s", name);
    s->accept = accept;
    uprobe_init(&s->probe, bs_catch, NULL);
    upipe_init(&s->upipe, &bs_mgr, &s->probe);
    urefcount_init(&s->urefcount, bs_dead);
    s->upipe.refcount = &s->urefcount;
    s->handle = &s->upipe;
    upipe_throw_ready(&s->upipe);
    return s;
}

/* ---- "renew pN sK": at the next need_output of pN the probe replaces the sink that refused by a brand new
 * one named sK: it disconnects the output, drops the application's handle on the refused sink and only then
 * allocates the replacement - in the very place of the old one if that is free by then, as malloc would -
 * and connects it.  Done only when pN is the only pipe connected to the refused sink. */
static char renew_arm[MAXOBJ][8];

bool pd_need_output(struct obj *self, struct upipe *upipe)
{
    int idx = (int)(self - pipes);
    if (idx < 0 || idx >= MAXOBJ || !renew_arm[idx][0]) return false;
    struct upipe *out = NULL;
    if (!ubase_check(upipe_get_output(upipe, &out)) || out == NULL) return false;
    struct vsink *old = NULL;
    for (int i = 0; i < MAXOBJ; i++)
        if (sinks[i].used && !sinks[i].dead && &sinks[i].upipe == out && bx[i].mine) old = &sinks[i];
    if (old == NULL || old->handle == NULL || find_sink(renew_arm[idx]) != NULL) return false;
    int up = 0;
    for (int i = 0; i < MAXOBJ; i++) {
        struct upipe *o = NULL;
        if (pipes[i].name[0] && pipes[i].alive && pipes[i].ptr != NULL && pipes[i].ptr != (struct upipe *)-1 &&
            ubase_check(upipe_get_output(pipes[i].ptr, &o)) && o == out) up++;
    }
    if (up != 1) return false;
    char name[8];
    snprintf(name, sizeof(name), "%s", renew_arm[idx]);
    renew_arm[idx][0] = 0;
    printf("probe renew %s %s %s\n", self->name, old->name, name);
    upipe_set_output(upipe, NULL);
    struct upipe *h = old->handle;
    old->handle = NULL;
    upipe_release(h);
    struct vsink *nw = bsink_make(name, true, old->dead ? old : NULL);
    if (nw == NULL) return false;
    upipe_set_output(upipe, &nw->upipe);
    return true;
}

/* ------------------------------------------------------------ input */
static int date_type(const char *t)
{
    if (!strncmp(t, "pts", 3)) return UREF_DATE_PTS;
    if (!strncmp(t, "dts", 3)) return UREF_DATE_DTS;
    if (!strncmp(t, "cr", 2)) return UREF_DATE_CR;
    return UREF_DATE_NONE;
}

static bool cmd_inb(int nt, char **tok)
{
    struct upipe *up = find_any(tok[1]);
    if (up == NULL) { ret(-1); return true; }
    unsigned id = atoi(tok[2]);
    size_t size = atoi(tok[3]);
    struct uref *u = uref_block_alloc(c05_dmgr(), g_block, 0);
    assert(u != NULL);
    /* segments */
    char segs[128];
    snprintf(segs, sizeof(segs), "%s", tok[4]);
    size_t done = 0;
    for (char *p = strtok(segs, "+"); p != NULL; p = strtok(NULL, "+")) {
        size_t part = atoi(p);
        if (done + part > size) part = size - done;
        struct ubuf *seg = ubuf_block_alloc(g_block, part);
        assert(seg != NULL);
        if (part) {
            int sz = -1;
            uint8_t *w;
            ubase_assert(ubuf_block_write(seg, 0, &sz, &w));
            for (size_t i = 0; i < part; i++) w[i] = (uint8_t)(id * 16 + done + i);
            ubuf_block_unmap(seg, 0);
        }
        ubase_assert(ubuf_block_append(u->ubuf, seg));
        done += part;
    }
    if (done < size) {
        size_t part = size - done;
        struct ubuf *seg = ubuf_block_alloc(g_block, part);
        int sz = -1;
        uint8_t *w;
        ubase_assert(ubuf_block_write(seg, 0, &sz, &w));
        for (size_t i = 0; i < part; i++) w[i] = (uint8_t)(id * 16 + done + i);
        ubuf_block_unmap(seg, 0);
        ubase_assert(ubuf_block_append(u->ubuf, seg));
    }
    bool noid = false;
    const char *rap = NULL;
    for (int k = 5; k < nt; k++) {
        if (!strcmp(tok[k], "noid")) noid = true;
        else if (!strncmp(tok[k], "sys=", 4)) uref_clock_set_date_sys(u, strtoull(strchr(tok[k], ':') + 1, NULL, 10), date_type(tok[k] + 4));
        else if (!strncmp(tok[k], "prog=", 5)) uref_clock_set_date_prog(u, strtoull(strchr(tok[k], ':') + 1, NULL, 10), date_type(tok[k] + 5));
        else if (!strncmp(tok[k], "orig=", 5)) uref_clock_set_date_orig(u, strtoull(strchr(tok[k], ':') + 1, NULL, 10), date_type(tok[k] + 5));
        else if (!strncmp(tok[k], "rap=", 4)) rap = tok[k] + 4;
        else if (!strncmp(tok[k], "cdd=", 4)) uref_clock_set_cr_dts_delay(u, strtoull(tok[k] + 4, NULL, 10));
        else if (!strncmp(tok[k], "dpd=", 4)) uref_clock_set_dts_pts_delay(u, strtoull(tok[k] + 4, NULL, 10));
        else if (!strncmp(tok[k], "tag=", 4)) uref_attr_set_string(u, tok[k] + 4, UDICT_TYPE_STRING, "x.tag");
        else if (!strcmp(tok[k], "disc")) uref_flow_set_discontinuity(u);
    }
    if (rap != NULL) uref_clock_set_rap_sys(u, strtoull(rap, NULL, 10));
    if (!noid) uref_c05_set_id(u, id);
    printf("dinput d%ld id=%u\n", d_uid(u), id);
    upipe_input(up, u, NULL);
    ret(0);
    return true;
}

/* ------------------------------------------------------------ commands */
bool pd_ext_b(int nt, char **tok)
{
    const char *c = tok[0];
    if (!strcmp(c, "bsink") && nt >= 2) return cmd_bsink(nt, tok);
    if (!strcmp(c, "renew") && nt >= 3) {
        struct obj *o = find_pipe(tok[1]);
        if (o == NULL || o->upipe == NULL) { ret(-1); return true; }
        snprintf(renew_arm[o - pipes], sizeof(renew_arm[0]), "%s", tok[2]);
        ret(0);
        return true;
    }
    if ((!strcmp(c, "block") || !strcmp(c, "unblock")) && nt >= 2) {
        struct vsink *s = find_sink(tok[1]);
        if (s == NULL || !bx[s - sinks].mine) { ret(-1); return true; }
        struct bx *x = &bx[s - sinks];
        if (!strcmp(c, "block")) x->blocked = true;
        else {
            x->blocked = false;
            /* the sink survives what the restarted pumps may do */
            upipe_use(&s->upipe);
            bs_release_held(s, x);
            bs_unblock_pumps(x);
            upipe_release(&s->upipe);
        }
        ret(0);
        return true;
    }
    if (!strcmp(c, "inb") && nt >= 5) return cmd_inb(nt, tok);
    if (!strcmp(c, "disp") && nt >= 2) {
        struct obj *o = find_pipe(tok[1]);
        if (o == NULL || o->ptr == NULL) { ret(-1); return true; }
        struct vloop_pump_info infos[64];
        size_t n = vloop_pumps(c05_loop(), infos, 64);
        if (n > 64) n = 64;
        for (size_t i = 0; i < n; i++) {
            if (infos[i].type != UPUMP_TYPE_IDLER || !infos[i].active) continue;
            if (upump_get_opaque(infos[i].upump, struct upipe *) != o->ptr) continue;
            vloop_dispatch(c05_loop(), infos[i].upump);
            ret(0);
            return true;
        }
        ret(-1);
        return true;
    }
    if (!strcmp(c, "adv") && nt >= 2) {
        unsigned n = vloop_advance(c05_loop(), strtoull(tok[1], NULL, 10), 1000);
        printf("ret 0 %u now=%" PRIu64 "\n", n, C05_CLOCK_BASE + vloop_now(c05_loop()));
        return true;
    }
    if (!strcmp(c, "provall") && nt >= 2) {
        struct vsink *s = find_sink(tok[1]);
        if (s == NULL) { ret(-1); return true; }
        /* every registration present now, and every one that appears while the others are being answered (an
         * answer may re-plumb upstream: requests are withdrawn and registered again, with new proxies), is
         * answered once */
        unsigned long answered[64];
        int done = 0;
        for (int pass = 0; pass < 64 && done < 64; pass++) {
            struct urequest *next = NULL;
            /* clock requests first, then the others in registration order */
            for (int clk = 1; clk >= 0 && next == NULL; clk--)
                for (int j = 0; j < s->nregs && next == NULL; j++) {
                    if ((s->regs[j]->type == UREQUEST_UCLOCK) != (clk == 1)) continue;
                    bool seen = false;
                    for (int i = 0; i < done; i++) if (answered[i] == s->regserial[j]) seen = true;
                    if (!seen) { next = s->regs[j]; answered[done++] = s->regserial[j]; }
                }
            if (next == NULL) break;
            c05_provide(next, s->name);
        }
        printf("ret 0 %d\n", done);
        return true;
    }
    if (!strcmp(c, "dlive")) {
        printf("ret 0 %ld leaked_active=%u\n", d_live, g_vloop ? vloop_leaked_active(g_vloop) : 0);
        return true;
    }
    if (!strcmp(c, "giveclock") && nt >= 2) {
        c05_give_clock = !strcmp(tok[1], "on");
        ret(0);
        return true;
    }
    return false;
}
