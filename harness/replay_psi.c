/* replay_psi: command interpreter over the REAL upipe_ts_psi_merge,
 * upipe_ts_psi_split and upipe_ts_psi_join (check C16).  The sources of the
 * three pipes are compiled from the repository's working tree with the
 * clean-room biTStream shim (harness/shim).
 *
 * stdin: one command per line, executions bracketed by "exec <i>" / "end".
 * stdout: one result line per command.  It holds NO oracle: it serialises what
 * the specification (or the script generator) describes, feeds the real pipes,
 * and prints what came out, identified by comparison with the sections it was
 * told about.
 *
 * A section is described by (len, tid, syn, ff, bad) exactly as in
 * spec/PsiSectionsBase.tla; byte_at() below is the C twin of ByteAt (the check
 * compares the two on every small behaviour: "hex=" versus TLC's octets).
 *
 *   exec <i>
 *   sec <k> <len> <tid> <syn> <ff> <bad>          define section k (1..63)
 *   merger                                        new merger -> recording sink 0
 *   pay <flags> <ptr> <runs> <stuff> [<segs>]     input one TS payload; flags: s (unit start) d (discontinuity) or -
 *                                                 runs: k:a:b,k:a:b.. or - ; segs: sizes n+n+n of the ubuf segments
 *   rawpay <flags> <hex> [<segs>]                 the same with explicit octets
 *                                                 flags f / g / h: the 1st / 2nd / 3rd allocation (malloc) the library makes
 *                                                 during this input is refused (rf=<n> in the answer: how many were)
 *       -> pay n=<size> hex=<octets|-> out=<ids|-> oh=<hex;hex|-> ev=<a|l|F..|->
 *          out: per output section index if it is octet for octet section k, else 0;
 *          oh: the octets of the outputs (only when all are <= 48 octets)
 *   mfd [<latency>]                               set_flow_def on the merger again, between two payloads
 *   splitter                                      new splitter
 *   addout <o> <n> <filterhex> <maskhex>          new output o (1..15) with a filter -> sink o
 *   delout <o>                                    release output o
 *   ssec <k> [<segs>]                             input section k
 *       -> ssec k=<k> del=<o,o,..|-> mod=<o,..|->      outputs that received it, in order; those whose octets differ
 *   joiner                                        new joiner -> sink 0
 *   jadd <i> / jdel <i>                           new / released input i (1..15)
 *   jfd <i> <octetrate> <latency> <refuse>        set_flow_def on input i (octet rate / latency attributes when
 *                                                 non-zero); refuse=1: every umem (re)allocation during the
 *                                                 call is refused (flow definitions live in a udict manager
 *                                                 without slack, so that a new attribute has to allocate)
 *       -> jfd i=<i> r=<err> refused=<n>
 *   jsec <i> <k> [<segs>]                         input section k on input i
 *       -> jsec i=<i> k=<k> out=<ids|-> mod=<n>
 *   end                                           release everything
 *
 * Executions run in a forked child: a sanitizer report / assertion / signal
 * ends the execution with a "san {...}" line and the parent goes on with the
 * next execution (same scheme as replay_bits.c).
 */
#undef NDEBUG
#include <stdio.h>
#include <stdlib.h>
#include <string.h>
#include <stdint.h>
#include <stdbool.h>
#include <stdarg.h>
#include <assert.h>
#include <unistd.h>
#include <signal.h>
#include <sys/mman.h>
#include <sys/wait.h>

#include "upipe/ubase.h"
#include "upipe/uprobe.h"
#include "upipe/umem.h"
#include "upipe/umem_alloc.h"
#include "upipe/udict.h"
#include "upipe/udict_inline.h"
#include "upipe/uref.h"
#include "upipe/uref_std.h"
#include "upipe/uref_flow.h"
#include "upipe/uref_block.h"
#include "upipe/uref_block_flow.h"
#include "upipe/uref_clock.h"
#include "upipe/ubuf.h"
#include "upipe/ubuf_block.h"
#include "upipe/ubuf_block_mem.h"
#include "upipe/upipe.h"
#include "upipe-ts/upipe_ts_psi_merge.h"
#include "upipe-ts/upipe_ts_psi_split.h"
#include "upipe-ts/upipe_ts_psi_join.h"
#include "upipe-ts/uref_ts_flow.h"

#if defined(__SANITIZE_ADDRESS__)
const char *__asan_default_options(void) { return "detect_leaks=0:abort_on_error=0:symbolize=1"; }
#endif
const char *__ubsan_default_options(void) { return "print_stacktrace=0"; }

#define MAXSEC 64
#define MAXO 16
#define MAXREC 256
#define MAXB 70000

/* ------------------------------------------------------------ sections */
struct sec { int def, len, tid, syn, ff, bad; };
static struct sec secs[MAXSEC];

static int hdrlen(const struct sec *d) { return d->bad > 0 ? d->bad : d->len - 3; }
static uint8_t byte_at(const struct sec *d, int i)
{
    if (i == 0) return (uint8_t)d->tid;
    if (i == 1) return (uint8_t)(128 * d->syn + 48 + hdrlen(d) / 256);
    if (i == 2) return (uint8_t)(hdrlen(d) % 256);
    if (d->ff) return 255;
    return (uint8_t)((d->tid * 7 + i * 13 + i / 251) % 256);
}

/* index of the section whose serialisation is exactly these octets (0: none) */
static int identify(const uint8_t *b, size_t n)
{
    for (int k = 1; k < MAXSEC; k++) {
        if (!secs[k].def || (size_t)secs[k].len != n) continue;
        size_t i;
        for (i = 0; i < n; i++) if (b[i] != byte_at(&secs[k], (int)i)) break;
        if (i == n) return k;
    }
    return 0;
}

/* ------------------------------------------------------------ managers */
static struct umem_mgr *umem_mgr;
static struct udict_mgr *udict_mgr;
static struct uref_mgr *uref_mgr;
static struct ubuf_mgr *ubuf_mgr;

/* ------------------------------------------------------------ recording */
struct rec { int sink; size_t size; uint8_t *data; };
static struct rec recs[MAXREC];
static int nrecs;
static char evs[64];
static int nevs;

static void clear_recs(void)
{
    for (int i = 0; i < nrecs; i++) free(recs[i].data);
    nrecs = 0;
    nevs = 0;
    evs[0] = 0;
}
static void add_ev(char c) { if (nevs < 60) { evs[nevs++] = c; evs[nevs] = 0; } }

/* an output created "lazy" gets its sink only when it asks for one (need_output), as applications do */
static int lazy_plug(struct upipe *upipe);
static int catch(struct uprobe *uprobe, struct upipe *upipe, int event, va_list args)
{
    switch (event) {
    case UPROBE_SYNC_ACQUIRED: add_ev('a'); break;
    case UPROBE_SYNC_LOST: add_ev('l'); break;
    case UPROBE_FATAL: add_ev('F'); break;
    case UPROBE_ERROR: add_ev('E'); break;
    case UPROBE_NEED_OUTPUT: return lazy_plug(upipe);
    default: break;
    }
    return UBASE_ERR_NONE;
}
static struct uprobe probe;

/* recording sink: a pipe without refcount (static lifetime within an execution) */
/* fault injection: the k-th malloc of the library during one input is refused (the harness's own are exempt) */
static int fail_cd;
static unsigned fail_refused;
static bool in_harness;
void *__real_malloc(size_t n);
void *__wrap_malloc(size_t n)
{
    if (fail_cd > 0 && !in_harness && --fail_cd == 0) { fail_refused++; return NULL; }
    return __real_malloc(n);
}

struct vsink { struct upipe upipe; int id; bool used; };
static struct vsink sinks[MAXO];

static void vsink_input(struct upipe *upipe, struct uref *uref, struct upump **upump_p)
{
    struct vsink *s = (struct vsink *)upipe;
    size_t size = 0;
    bool was = in_harness;
    in_harness = true;
    assert(nrecs < MAXREC);
    if (uref->ubuf == NULL || !ubase_check(uref_block_size(uref, &size))) size = 0;
    uint8_t *d = malloc(size + 1);
    if (size) {
        int err = uref_block_extract(uref, 0, (int)size, d);
        if (!ubase_check(err)) { memset(d, 0xEE, size); add_ev('X'); }
    }
    recs[nrecs].sink = s->id;
    recs[nrecs].size = size;
    recs[nrecs].data = d;
    nrecs++;
    uref_free(uref);
    in_harness = was;
}
static int vsink_control(struct upipe *upipe, int command, va_list args)
{
    switch (command) {
    case UPIPE_SET_FLOW_DEF: return UBASE_ERR_NONE;
    case UPIPE_REGISTER_REQUEST: {
        struct urequest *r = va_arg(args, struct urequest *);
        return upipe_throw_provide_request(upipe, r);
    }
    case UPIPE_UNREGISTER_REQUEST: return UBASE_ERR_NONE;
    default: return UBASE_ERR_UNHANDLED;
    }
}
static struct upipe_mgr vsink_mgr = {
    .refcount = NULL, .signature = 0x76733136,
    .upipe_alloc = NULL, .upipe_input = vsink_input, .upipe_control = vsink_control,
};
static struct upipe *sink_get(int id)
{
    assert(id >= 0 && id < MAXO);
    if (!sinks[id].used) {
        upipe_init(&sinks[id].upipe, &vsink_mgr, &probe);
        sinks[id].id = id;
        sinks[id].used = true;
    }
    return &sinks[id].upipe;
}

/* ------------------------------------------------------------ pipes */
static struct upipe *merger, *splitter, *joiner;
static bool lazy_out[MAXO];
static struct upipe *souts[MAXO], *jins[MAXO];
static int lazy_plug(struct upipe *upipe)
{
    for (int o = 1; o < MAXO; o++)
        if (souts[o] == upipe && lazy_out[o]) {
            lazy_out[o] = false;
            return upipe_set_output(upipe, sink_get(o));
        }
    return UBASE_ERR_UNHANDLED;
}

/* flow definitions come from a dictionary manager without slack over a umem
 * manager that can be told to refuse: a failed attribute write inside a pipe */
static struct umem_mgr *fd_umem_mgr;
static struct udict_mgr *fd_udict_mgr;
static struct uref_mgr *fd_uref_mgr;
static bool (*o_umem_alloc)(struct umem_mgr *, struct umem *, size_t);
static bool (*o_umem_realloc)(struct umem *, size_t);
static bool umem_refuse;
static unsigned umem_refused;
static bool r_umem_alloc(struct umem_mgr *mgr, struct umem *umem, size_t size)
{
    if (umem_refuse) { umem_refused++; return false; }
    return o_umem_alloc(mgr, umem, size);
}
static bool r_umem_realloc(struct umem *umem, size_t size)
{
    if (umem_refuse) { umem_refused++; return false; }
    return o_umem_realloc(umem, size);
}
static void fd_mgrs(void)
{
    if (fd_uref_mgr != NULL) return;
    fd_umem_mgr = umem_alloc_mgr_alloc();
    o_umem_alloc = fd_umem_mgr->umem_alloc;
    o_umem_realloc = fd_umem_mgr->umem_realloc;
    fd_umem_mgr->umem_alloc = r_umem_alloc;
    fd_umem_mgr->umem_realloc = r_umem_realloc;
    fd_udict_mgr = udict_inline_mgr_alloc(0, fd_umem_mgr, 1, 1);
    fd_uref_mgr = uref_std_mgr_alloc(0, fd_udict_mgr, 0);
    assert(fd_umem_mgr && fd_udict_mgr && fd_uref_mgr);
}

static struct uref *flow_def(void)
{
    fd_mgrs();
    struct uref *fd = uref_block_flow_alloc_def(fd_uref_mgr, "mpegtspsi.");
    assert(fd != NULL);
    return fd;
}

static void release_all(void)
{
    for (int i = 0; i < MAXO; i++) {
        if (souts[i]) { upipe_release(souts[i]); souts[i] = NULL; }
        if (jins[i]) { upipe_release(jins[i]); jins[i] = NULL; }
    }
    if (merger) { upipe_release(merger); merger = NULL; }
    if (splitter) { upipe_release(splitter); splitter = NULL; }
    if (joiner) { upipe_release(joiner); joiner = NULL; }
    for (int i = 0; i < MAXO; i++) sinks[i].used = false;
    clear_recs();
    memset(secs, 0, sizeof(secs));
}

/* ------------------------------------------------------------ buffers */
static uint8_t buf[MAXB];

/* block uref made of the given segment sizes ("3+10+4", missing: one segment) */
static struct uref *make_block(const uint8_t *data, size_t size, const char *segs)
{
    struct uref *u = NULL;
    size_t done = 0;
    const char *p = segs;
    do {
        size_t part = size - done;
        if (p && *p) {
            char *e;
            size_t want = strtoul(p, &e, 10);
            p = e;
            if (*p == '+') p++;
            if (want < part) part = want;
        }
        struct ubuf *seg = ubuf_block_alloc(ubuf_mgr, (int)part);
        assert(seg != NULL);
        if (part) {
            int sz = -1;
            uint8_t *w;
            ubase_assert(ubuf_block_write(seg, 0, &sz, &w));
            assert((size_t)sz == part);
            memcpy(w, data + done, part);
            ubuf_block_unmap(seg, 0);
        }
        if (u == NULL) {
            u = uref_alloc(uref_mgr);
            assert(u != NULL);
            uref_attach_ubuf(u, seg);
        } else
            ubase_assert(ubuf_block_append(u->ubuf, seg));
        done += part;
    } while (done < size);
    return u;
}

static size_t serialise_section(int k, uint8_t *out)
{
    assert(k > 0 && k < MAXSEC && secs[k].def);
    for (int i = 0; i < secs[k].len; i++) out[i] = byte_at(&secs[k], i);
    return (size_t)secs[k].len;
}

static void print_hex(const uint8_t *b, size_t n)
{
    if (n == 0) { printf("-"); return; }
    for (size_t i = 0; i < n; i++) printf("%02x", b[i]);
}

static size_t parse_hex(const char *hex, uint8_t *out)
{
    if (!strcmp(hex, "-")) return 0;
    size_t n = strlen(hex) / 2;
    assert(n < MAXB);
    for (size_t i = 0; i < n; i++) { unsigned b; sscanf(hex + 2 * i, "%2x", &b); out[i] = (uint8_t)b; }
    return n;
}

/* ------------------------------------------------------------ commands */
static void report_pay(size_t size)
{
    printf("pay n=%zu hex=", size);
    if (size <= 64) print_hex(buf, size); else printf("-");
    printf(" out=");
    bool small = true;
    if (nrecs == 0) printf("-");
    for (int i = 0; i < nrecs; i++) {
        printf("%s%d", i ? "," : "", identify(recs[i].data, recs[i].size));
        if (recs[i].size > 48) small = false;
    }
    printf(" oh=");
    if (nrecs == 0 || !small) printf("-");
    else for (int i = 0; i < nrecs; i++) { if (i) printf(";"); print_hex(recs[i].data, recs[i].size); }
    /* sizes of what is not a section: for the reports */
    printf(" gs=");
    bool any = false;
    for (int i = 0; i < nrecs; i++)
        if (!identify(recs[i].data, recs[i].size)) { printf("%s%zu", any ? "," : "", recs[i].size); any = true; }
    if (!any) printf("-");
    printf(" ev=%s rf=%u\n", nevs ? evs : "-", fail_refused);
}

static void input_payload(const char *flags, size_t size, const char *segs)
{
    assert(merger != NULL);
    struct uref *u = make_block(buf, size, segs);
    if (strchr(flags, 's')) uref_block_set_start(u);
    if (strchr(flags, 'd')) uref_flow_set_discontinuity(u);
    clear_recs();
    fail_refused = 0;
    fail_cd = strchr(flags, 'f') ? 1 : strchr(flags, 'g') ? 2 : strchr(flags, 'h') ? 3 : 0;
    upipe_input(merger, u, NULL);
    fail_cd = 0;
    report_pay(size);
}

static void do_line(char *line)
{
    char *tok[12];
    int nt = 0;
    for (char *t = strtok(line, " \t\r\n"); t && nt < 12; t = strtok(NULL, " \t\r\n")) tok[nt++] = t;
    if (nt == 0) return;
    const char *c = tok[0];
    if (!strcmp(c, "exec")) {
        alarm(30);
        release_all();
        printf("exec %s\n", nt > 1 ? tok[1] : "0");
    } else if (!strcmp(c, "end")) {
        release_all();
        printf("end\n");
    } else if (!strcmp(c, "sec") && nt >= 7) {
        int k = atoi(tok[1]);
        assert(k > 0 && k < MAXSEC);
        secs[k].def = 1;
        secs[k].len = atoi(tok[2]); secs[k].tid = atoi(tok[3]); secs[k].syn = atoi(tok[4]);
        secs[k].ff = atoi(tok[5]); secs[k].bad = atoi(tok[6]);
        assert(secs[k].len >= 3 && secs[k].len < MAXB / 4);
        printf("sec %d\n", k);
    } else if (!strcmp(c, "merger")) {
        struct upipe_mgr *mgr = upipe_ts_psim_mgr_alloc();
        merger = upipe_void_alloc(mgr, &probe);
        assert(merger != NULL);
        struct uref *fd = flow_def();
        int e1 = upipe_set_flow_def(merger, fd);
        uref_free(fd);
        int e2 = upipe_set_output(merger, sink_get(0));
        printf("merger %d %d\n", e1, e2);
    } else if (!strcmp(c, "mfd")) {
        /* the flow definition again (with a latency when asked): upstream re-sends it whenever one of
         * its attributes changes or its output is set again */
        assert(merger != NULL);
        struct uref *fd = flow_def();
        if (nt > 1 && atoi(tok[1])) uref_clock_set_latency(fd, atoi(tok[1]));
        int e1 = upipe_set_flow_def(merger, fd);
        uref_free(fd);
        printf("mfd r=%d\n", e1);
    } else if (!strcmp(c, "pay") && nt >= 5) {
        size_t n = 0;
        if (strchr(tok[1], 's')) buf[n++] = (uint8_t)atoi(tok[2]);
        if (strcmp(tok[3], "-")) {
            char *p = tok[3];
            while (*p) {
                int k = (int)strtol(p, &p, 10); assert(*p == ':'); p++;
                int a = (int)strtol(p, &p, 10); assert(*p == ':'); p++;
                int b = (int)strtol(p, &p, 10);
                if (*p == ',') p++;
                assert(k > 0 && k < MAXSEC && secs[k].def && a >= 0 && a <= b && b <= secs[k].len);
                for (int i = a; i < b; i++) { assert(n < MAXB); buf[n++] = byte_at(&secs[k], i); }
            }
        }
        int stuff = atoi(tok[4]);
        for (int i = 0; i < stuff; i++) { assert(n < MAXB); buf[n++] = 0xff; }
        input_payload(tok[1], n, nt > 5 ? tok[5] : NULL);
    } else if (!strcmp(c, "rawpay") && nt >= 3) {
        size_t n = parse_hex(tok[2], buf);
        input_payload(tok[1], n, nt > 3 ? tok[3] : NULL);
    } else if (!strcmp(c, "splitter")) {
        struct upipe_mgr *mgr = upipe_ts_psi_split_mgr_alloc();
        splitter = upipe_void_alloc(mgr, &probe);
        assert(splitter != NULL);
        struct uref *fd = flow_def();
        int e1 = upipe_set_flow_def(splitter, fd);
        uref_free(fd);
        printf("splitter %d\n", e1);
    } else if (!strcmp(c, "addout") && nt >= 5) {
        int o = atoi(tok[1]);
        int n = atoi(tok[2]);
        assert(splitter != NULL && o > 0 && o < MAXO && souts[o] == NULL && n >= 0 && n <= 64);
        uint8_t f[64], m[64];
        size_t nf = parse_hex(tok[3], f), nm = parse_hex(tok[4], m);
        assert(nf == (size_t)n && nm == (size_t)n);
        struct uref *fd = flow_def();
        int e0 = uref_ts_flow_set_psi_filter(fd, f, m, (size_t)n);
        souts[o] = upipe_flow_alloc_sub(splitter, &probe, fd);
        uref_free(fd);
        bool lazy = nt > 5 && !strcmp(tok[5], "lazy");
        int e1 = !souts[o] ? -1 : lazy ? 0 : upipe_set_output(souts[o], sink_get(o));
        lazy_out[o] = lazy;
        printf("addout o=%d r=%d,%d\n", o, e0, e1);
    } else if (!strcmp(c, "delout") && nt >= 2) {
        int o = atoi(tok[1]);
        assert(o > 0 && o < MAXO && souts[o] != NULL);
        upipe_release(souts[o]);
        souts[o] = NULL;
        printf("delout o=%d\n", o);
    } else if (!strcmp(c, "ssec") && nt >= 2) {
        int k = atoi(tok[1]);
        assert(splitter != NULL);
        size_t n = serialise_section(k, buf);
        struct uref *u = make_block(buf, n, nt > 2 ? tok[2] : NULL);
        clear_recs();
        upipe_input(splitter, u, NULL);
        printf("ssec k=%d del=", k);
        if (nrecs == 0) printf("-");
        for (int i = 0; i < nrecs; i++) printf("%s%d", i ? "," : "", recs[i].sink);
        printf(" mod=");
        bool any = false;
        for (int i = 0; i < nrecs; i++)
            if (recs[i].size != n || memcmp(recs[i].data, buf, n)) { printf("%s%d", any ? "," : "", recs[i].sink); any = true; }
        if (!any) printf("-");
        printf(" ev=%s\n", nevs ? evs : "-");
    } else if (!strcmp(c, "joiner")) {
        struct upipe_mgr *mgr = upipe_ts_psi_join_mgr_alloc();
        struct uref *fd = flow_def();
        joiner = upipe_flow_alloc(mgr, &probe, fd);
        uref_free(fd);
        assert(joiner != NULL);
        int e1 = upipe_set_output(joiner, sink_get(0));
        printf("joiner %d\n", e1);
    } else if (!strcmp(c, "jadd") && nt >= 2) {
        int i = atoi(tok[1]);
        assert(joiner != NULL && i > 0 && i < MAXO && jins[i] == NULL);
        jins[i] = upipe_void_alloc_sub(joiner, &probe);
        assert(jins[i] != NULL);
        struct uref *fd = flow_def();
        int e1 = upipe_set_flow_def(jins[i], fd);
        uref_free(fd);
        printf("jadd i=%d r=%d\n", i, e1);
    } else if (!strcmp(c, "jdel") && nt >= 2) {
        int i = atoi(tok[1]);
        assert(i > 0 && i < MAXO && jins[i] != NULL);
        upipe_release(jins[i]);
        jins[i] = NULL;
        printf("jdel i=%d\n", i);
    } else if (!strcmp(c, "jfd") && nt >= 5) {
        int i = atoi(tok[1]);
        assert(i > 0 && i < MAXO && jins[i] != NULL);
        struct uref *fd = flow_def();
        if (atoi(tok[2])) uref_block_flow_set_octetrate(fd, atoi(tok[2]));
        if (atoi(tok[3])) uref_clock_set_latency(fd, atoi(tok[3]));
        umem_refused = 0;
        umem_refuse = atoi(tok[4]) != 0;
        int e1 = upipe_set_flow_def(jins[i], fd);
        umem_refuse = false;
        uref_free(fd);
        printf("jfd i=%d r=%d refused=%u\n", i, e1, umem_refused);
    } else if (!strcmp(c, "jsec") && nt >= 3) {
        int i = atoi(tok[1]);
        int k = atoi(tok[2]);
        assert(i > 0 && i < MAXO && jins[i] != NULL);
        size_t n = serialise_section(k, buf);
        struct uref *u = make_block(buf, n, nt > 3 ? tok[3] : NULL);
        clear_recs();
        upipe_input(jins[i], u, NULL);
        printf("jsec i=%d k=%d out=", i, k);
        if (nrecs == 0) printf("-");
        int mod = 0;
        for (int r = 0; r < nrecs; r++) {
            int id = identify(recs[r].data, recs[r].size);
            /* several sections of a script may have the same octets: prefer k */
            if (recs[r].size == n && !memcmp(recs[r].data, buf, n)) id = k;
            else mod++;
            printf("%s%d", r ? "," : "", id);
        }
        printf(" mod=%d ev=%s\n", mod, nevs ? evs : "-");
    } else {
        printf("err command %s\n", c);
        exit(3);
    }
    fflush(stdout);
}

/* ------------------------------------------------------------ driver */
static char **lines;
static long nlines;

/* keep what is stable in a sanitizer / assert message */
static void report_san(const char *err, int status)
{
    char kind[32] = "signal", where[128] = "?", msg[256] = "";
    const char *p;
    if ((p = strstr(err, "runtime error: ")) != NULL) {
        strcpy(kind, "ubsan");
        const char *b = p;
        while (b > err && b[-1] != '\n') b--;
        const char *slash = b;
        for (const char *q = b; q < p; q++) if (*q == '/') slash = q + 1;
        size_t n = strcspn(slash, ":");
        snprintf(where, sizeof(where), "%.*s", (int)(n < 100 ? n : 100), slash);
        snprintf(msg, sizeof(msg), "%.*s", (int)strcspn(p + 15, "\n"), p + 15);
    } else if ((p = strstr(err, "AddressSanitizer: ")) != NULL) {
        strcpy(kind, "asan");
        size_t n = strcspn(p + 18, " \n");
        const char *rw = strstr(p, "WRITE of size") ? "WRITE" : strstr(p, "READ of size") ? "READ" : "";
        snprintf(msg, sizeof(msg), "%.*s %s", (int)n, p + 18, rw);
        const char *f = strstr(p, "#0 ");
        if (f != NULL && (f = strstr(f, " in ")) != NULL) {
            f += 4;
            snprintf(where, sizeof(where), "%.*s", (int)strcspn(f, " \n"), f);
        }
    } else if ((p = strstr(err, "Assertion")) != NULL) {
        strcpy(kind, "assert");
        snprintf(msg, sizeof(msg), "%.*s", (int)strcspn(p, "\n"), p);
        const char *b = p;
        while (b > err && b[-1] != '\n') b--;
        const char *slash = b;
        for (const char *q = b; q < p; q++) if (*q == '/') slash = q + 1;
        size_t n = strcspn(slash, ":");
        snprintf(where, sizeof(where), "%.*s", (int)(n < 100 ? n : 100), slash);
    } else
        snprintf(msg, sizeof(msg), "status %d", status);
    for (char *q = msg; *q; q++)
        if (*q == '"' || *q == '\\' || *q == '\'' || *q == '`' || (unsigned char)*q < 32) *q = ' ';
    for (char *q = where; *q; q++)
        if (*q == '"' || *q == '\\' || (unsigned char)*q < 32) *q = ' ';
    printf("san {\"kind\":\"%s\",\"where\":\"%s\",\"msg\":\"%s\"}\n", kind, where, msg);
    printf("end\n");
    fflush(stdout);
}

int main(int argc, char **argv)
{
    size_t capl = 1024;
    lines = malloc(capl * sizeof(char *));
    char *l = NULL;
    size_t ln = 0;
    while (getline(&l, &ln, stdin) > 0) {
        if ((size_t)nlines == capl) lines = realloc(lines, (capl *= 2) * sizeof(char *));
        lines[nlines++] = strdup(l);
    }
    free(l);
    setvbuf(stdout, NULL, _IOFBF, 1 << 16);

    long *cur = mmap(NULL, sizeof(long), PROT_READ | PROT_WRITE, MAP_SHARED | MAP_ANONYMOUS, -1, 0);
    assert(cur != MAP_FAILED);
    long start = 0;
    while (start < nlines) {
        int pe[2];
        if (pipe(pe) != 0) return 2;
        fflush(stdout);
        *cur = start;
        pid_t pid = fork();
        if (pid < 0) return 2;
        if (pid == 0) {
            close(pe[0]);
            dup2(pe[1], 2);
            close(pe[1]);
            umem_mgr = umem_alloc_mgr_alloc();
            udict_mgr = udict_inline_mgr_alloc(0, umem_mgr, -1, -1);
            uref_mgr = uref_std_mgr_alloc(0, udict_mgr, 0);
            /* tight buffers: no prepend/append room, alignment 1 (overruns visible to ASan) */
            ubuf_mgr = ubuf_block_mem_mgr_alloc(0, 0, umem_mgr, 0, 0, 1, 0);
            assert(umem_mgr && udict_mgr && uref_mgr && ubuf_mgr);
            uprobe_init(&probe, catch, NULL);
            for (long i = start; i < nlines; i++) {
                if (!strncmp(lines[i], "exec", 4)) *cur = i;
                do_line(lines[i]);
            }
            fflush(stdout);
            _exit(0);
        }
        close(pe[1]);
        static char err[65536];
        size_t eo = 0;
        ssize_t rd;
        while ((rd = read(pe[0], err + eo, sizeof(err) - 1 - eo)) > 0) eo += rd;
        err[eo] = 0;
        char dump[4096];
        while (read(pe[0], dump, sizeof(dump)) > 0);
        close(pe[0]);
        int status = 0;
        waitpid(pid, &status, 0);
        if (WIFEXITED(status) && WEXITSTATUS(status) == 0) break;
        if (WIFEXITED(status) && WEXITSTATUS(status) == 3) {
            fprintf(stderr, "replay_psi: script error\n%s", err);
            return 3;
        }
        report_san(err, status);
        long i = *cur + 1;
        while (i < nlines && strncmp(lines[i], "exec", 4)) i++;
        start = i;
    }
    return 0;
}
