/* pd_ext_c01: extension of harness/pipe_driver.c for property C01 (every
 * refcounted object is freed exactly once and never used afterwards).
 *
 * 1. Hook H4 (include/upipe/urefcount.h under -DUPIPE_VERIF): every
 *    init / use / release / destroy of every urefcount in the process is
 *    printed, with a stable object id (oK, allocation order) and the value of
 *    the real counter; the destructor is wrapped by a trampoline so that the
 *    END of the destructor is printed too:
 *        rc i oK <has_cb>        urefcount_init
 *        rc u oK <has_cb> <n>    urefcount_use    (n = counter before)
 *        rc r oK <has_cb> <n>    urefcount_release
 *        rc d oK                 destructor about to run (counter reached 0)
 *        rc e oK                 destructor returned
 * 2. The function tables of the global managers are interposed (after
 *    `base`): every ubuf / udict / umem allocation and release is printed
 *    (`ubuf alloc bK`, `ubuf free bK|UNKNOWN`, `udict ...dK`, `mem ...mK`);
 *    with pool depth > 0 the public part of every structure resting in a
 *    pool is ASan-poisoned until the pool hands it out again, so that a stale
 *    access to a recycled uref / ubuf / udict is reported.
 * 3. Commands (first command of every script must be `base <pool>`):
 *    base <pool>             install the interposition, create the mock loop and clock, print manager ids
 *    who <name>              object id and counter of a pipe / sink handle
 *    caps <name>             does the pipe have an input / a control function
 *    cnew pN <type> [arg]    allocate a pipe behind real probes (uprobe_upump_mgr on a vloop,
 *                            uprobe_uclock on a virtual clock, uprobe_uref_mgr); types: every
 *                            registry type plus qsrc <length>, qsink <pM>
 *    loop [n]                run the mock event loop until idle (at most n iterations)
 *    advance <ticks>         move the virtual clock, firing timers
 *    rcs                     counters of every application-held pipe and manager, live object counts
 *    answer                  answer every request currently registered at a recording sink
 *    reqclean rN             urequest_clean of an application request
 *    ufd uN <fd> / ualloc uN <size> / udup uN uM / ufree uN / udetach uN bM / uattach uN bM
 *    bdup bN bM / bfree bN / uin pN uM / usetfd pN uM      application-level urefs and ubufs
 *    teardown                release every global manager (creator's reference); last command
 */
#include <stdio.h>
#include <stdlib.h>
#include <string.h>
#include <stdint.h>
#include <stdbool.h>
#include <stdarg.h>
#include <inttypes.h>
#include <assert.h>

#include "upipe/ubase.h"
#include "upipe/uatomic.h"
#include "upipe/urefcount.h"
#include "upipe/ulist.h"
#include "upipe/uprobe.h"
#include "upipe/uprobe_upump_mgr.h"
#include "upipe/uprobe_uref_mgr.h"
#include "upipe/uprobe_uclock.h"
#include "upipe/umem.h"
#include "upipe/udict.h"
#include "upipe/uref.h"
#include "upipe/uref_attr.h"
#include "upipe/uref_flow.h"
#include "upipe/uref_block.h"
#include "upipe/ubuf.h"
#include "upipe/ubuf_block.h"
#include "upipe/uclock.h"
#include "upipe/upump.h"
#include "upipe/urequest.h"
#include "upipe/upipe.h"
#include "upipe-modules/upipe_queue_source.h"
#include "upipe-modules/upipe_queue_sink.h"
#include "upipe-modules/upipe_buffer.h"
#include "upipe-modules/upipe_discard_blocking.h"
#include "upipe-modules/upipe_even.h"
#include "upipe-modules/upipe_time_limit.h"
#include "upipe-modules/upipe_rate_limit.h"
#include "upipe-modules/upipe_trickplay.h"
#include "upipe-modules/upipe_dump.h"
#include "upipe-modules/upipe_burst.h"
#include "upipe-modules/upipe_multicat_probe.h"
#include "upipe-modules/upipe_m3u_reader.h"
#include "upipe-modules/upipe_stream_switcher.h"
#include "upipe-modules/upipe_play.h"
#include "upipe-modules/upipe_void_source.h"
#include "upipe-modules/upipe_sync.h"
#include "upipe-modules/upipe_block_to_sound.h"
#include "upipe-modules/upipe_rtp_h264.h"
#include "upipe-modules/upipe_rtp_mpeg4.h"
#include "upipe-modules/upipe_audio_split.h"
#include "upipe-modules/upipe_separate_fields.h"
#include "upipe-modules/upipe_dtsdi.h"
#include "upipe-modules/upipe_ntsc_prepend.h"
#include "upipe-modules/upipe_audiocont.h"
#include "upipe-modules/upipe_videocont.h"

#include "pipe_driver.h"
#include "vloop.h"

#if defined(__SANITIZE_ADDRESS__)
#include <sanitizer/asan_interface.h>
#define POISON(p, s) ASAN_POISON_MEMORY_REGION((p), (s))
#define UNPOISON(p, s) ASAN_UNPOISON_MEMORY_REGION((p), (s))
#define IS_POISONED(p) __asan_address_is_poisoned((p))
#else
#define POISON(p, s) ((void)0)
#define UNPOISON(p, s) ((void)0)
#define IS_POISONED(p) 0
#endif

extern struct uref_mgr *g_uref_inner;

UREF_ATTR_UNSIGNED(cx, id, "x.id", verification buffer id)

/* ------------------------------------------------------------ hook H4 */
#define MAXE 16384
struct ent {
    const void *addr;
    urefcount_cb orig;
    int state;                 /* 1 live, 2 destructor running, 3 destructor returned */
};
static struct ent ents[MAXE];
static int nents;

static int ent_find(const void *addr)
{
    for (int i = nents - 1; i >= 0; i--)
        if (ents[i].addr == addr)
            return i;
    return -1;
}

static void tramp(struct urefcount *rc)
{
    int k = -1;
    for (int i = nents - 1; i >= 0; i--)
        if (ents[i].addr == rc && ents[i].state == 2) { k = i; break; }
    if (k < 0) {
        /* cannot happen: the trampoline is only installed on known objects */
        printf("rc e o-1\n");
        return;
    }
    ents[k].orig(rc);
    ents[k].state = 3;
    printf("rc e o%d\n", k);
}

static void ref_cb(int ev, const void *rcp, unsigned v)
{
    struct urefcount *rc = (struct urefcount *)rcp;
    int k;
    switch (ev) {
    case UVERIF_REF_INIT:
        if (nents >= MAXE) { printf("rc overflow\n"); return; }
        k = nents++;
        ents[k].addr = rcp;
        ents[k].orig = rc->cb;
        ents[k].state = 1;
        if (rc->cb != NULL)
            rc->cb = tramp;
        printf("rc i o%d %u\n", k, v);
        break;
    case UVERIF_REF_USE:
    case UVERIF_REF_RELEASE:
        k = ent_find(rcp);
        printf("rc %c o%d %u %u\n", ev == UVERIF_REF_USE ? 'u' : 'r', k, v,
               (unsigned)uatomic_load(&rc->refcount));
        break;
    case UVERIF_REF_DESTROY:
        k = ent_find(rcp);
        if (k >= 0) ents[k].state = 2;
        printf("rc d o%d\n", k);
        break;
    }
}

__attribute__((constructor)) static void c01_install(void)
{
    upipe_verif_ref_cb = ref_cb;
}

static int rc_id(struct urefcount *rc) { return rc ? ent_find(rc) : -1; }
static unsigned rc_val(struct urefcount *rc) { return rc ? (unsigned)uatomic_load(&rc->refcount) : 0; }

/* ------------------------------------------------------------ interposition */
static int g_pooldepth;
static struct upump_mgr *g_loop;
static struct uclock vclock;
static struct urefcount vclock_rc;
static void vclock_dead(struct urefcount *rc) { }
static uint64_t vclock_now(struct uclock *c) { return (g_loop ? vloop_now(g_loop) : 0) + UCLOCK_FREQ; }

struct live { void *p; long id; };
#define MAXL 4096
struct table {
    const char *name;
    char letter;
    struct live live[MAXL];
    long next, count;
    void *pooled[64];          /* structures resting in the pool (poisoned) */
    int npooled;
    int depth;                 /* the manager is entered (splice of a segmented block re-enters it) */
    size_t psize;
};
static struct table t_uref = { "uref", 'U', .psize = sizeof(struct uref) };
static struct table t_ubuf = { "ubuf", 'b', .psize = sizeof(struct ubuf_block) };
static struct table t_udict = { "udict", 'd', .psize = sizeof(struct udict) };
static struct table t_mem = { "mem", 'm' };
/* pumps and blockers handed out by the mock event loop (harness/vloop.c observer) */
static struct table t_pump = { "pump", 'w' };
static struct table t_blk = { "blk", 'k' };

static long tab_add(struct table *t, void *p, bool print)
{
    long id = t->next++;
    for (int i = 0; i < MAXL; i++)
        if (t->live[i].p == NULL) { t->live[i].p = p; t->live[i].id = id; break; }
    t->count++;
    if (print) printf("%s alloc %c%ld\n", t->name, t->letter, id);
    return id;
}
static long tab_id(struct table *t, void *p)
{
    for (int i = 0; i < MAXL; i++)
        if (t->live[i].p == p) return t->live[i].id;
    return -1;
}
static long tab_del(struct table *t, void *p, bool print)
{
    for (int i = 0; i < MAXL; i++)
        if (t->live[i].p == p) {
            long id = t->live[i].id;
            t->live[i].p = NULL;
            t->count--;
            if (print) printf("%s free %c%ld\n", t->name, t->letter, id);
            return id;
        }
    if (print) printf("%s free UNKNOWN\n", t->name);
    return -1;
}
static void loop_obj(int alloc, const char *kind, const void *p)
{
    struct table *t = kind[0] == 'p' ? &t_pump : &t_blk;
    if (alloc) tab_add(t, (void *)p, true);
    else tab_del(t, (void *)p, true);
}
/* source pumps of the application (idlers on the mock loop): `pump wN`, `inp pN wM ...`, `pstart`, `pstop`, `pfree` */
#define MAXAP 8
static struct { char name[8]; struct upump *upump; } apumps[MAXAP];
static int apump_find(const char *n)
{
    for (int i = 0; i < MAXAP; i++)
        if (apumps[i].upump != NULL && !strcmp(apumps[i].name, n)) return i;
    return -1;
}
static void apump_cb(struct upump *upump)
{
    /* a source that produces on demand: one call-back per start */
    for (int i = 0; i < MAXAP; i++)
        if (apumps[i].upump == upump) printf("pumprun %s\n", apumps[i].name);
    upump_stop(upump);
}
/* pool poisoning: every structure of the table resting in the manager's pool
 * is poisoned; before the manager is entered for an allocation everything is
 * unpoisoned (the pool decides which one it hands out), afterwards what
 * still rests is poisoned again */
static void pool_open(struct table *t)
{
    if (t->depth++ > 0) return;
    for (int i = 0; i < t->npooled; i++) UNPOISON(t->pooled[i], t->psize);
}
static void pool_close(struct table *t, void *taken)
{
    int j = 0;
    for (int i = 0; i < t->npooled; i++)
        if (t->pooled[i] != taken) t->pooled[j++] = t->pooled[i];
    t->npooled = j;
    if (--t->depth > 0) return;         /* an outer call still holds what it took */
    for (int i = 0; i < t->npooled; i++) POISON(t->pooled[i], t->psize);
}
static void pool_rest(struct table *t, void *p)
{
    /* after the real free: if the memory went back to malloc ASan has
     * poisoned it already; otherwise it rests in the pool */
    if (g_pooldepth <= 0 || IS_POISONED(p)) return;
    if (t->npooled < 64) {
        t->pooled[t->npooled++] = p;
        if (t->depth == 0) POISON(p, t->psize);
    }
}
static void pool_forget(struct table *t)
{
    for (int i = 0; i < t->npooled; i++) UNPOISON(t->pooled[i], t->psize);
    t->npooled = 0;
}

/* uref (inner manager below pipe_driver's tracking manager): poisoning only */
static struct uref *(*o_uref_alloc)(struct uref_mgr *);
static void (*o_uref_free)(struct uref *);
static int (*o_uref_mgr_control)(struct uref_mgr *, int, va_list);
static struct uref *i_uref_alloc(struct uref_mgr *mgr)
{
    pool_open(&t_uref);
    struct uref *u = o_uref_alloc(mgr);
    pool_close(&t_uref, u);
    if (u) tab_add(&t_uref, u, false);
    return u;
}
static void i_uref_free(struct uref *u)
{
    tab_del(&t_uref, u, false);
    o_uref_free(u);
    pool_rest(&t_uref, u);
}
static int i_uref_mgr_control(struct uref_mgr *mgr, int cmd, va_list args)
{
    pool_forget(&t_uref);
    return o_uref_mgr_control(mgr, cmd, args);
}

/* ubuf */
static struct ubuf *(*o_ubuf_alloc)(struct ubuf_mgr *, uint32_t, va_list);
static int (*o_ubuf_control)(struct ubuf *, int, va_list);
static void (*o_ubuf_free)(struct ubuf *);
static int (*o_ubuf_mgr_control)(struct ubuf_mgr *, int, va_list);
static struct ubuf *i_ubuf_alloc(struct ubuf_mgr *mgr, uint32_t sig, va_list args)
{
    pool_open(&t_ubuf);
    struct ubuf *b = o_ubuf_alloc(mgr, sig, args);
    pool_close(&t_ubuf, b);
    if (b) tab_add(&t_ubuf, b, true);
    return b;
}
/* (a duplicate that is built and thrown away INSIDE one refused dup / splice was never announced: its release
 * on the error path is not an event either) */
static int in_ubuf_ctl;
static int i_ubuf_control(struct ubuf *ubuf, int cmd, va_list args)
{
    struct ubuf **pp = NULL;
    if (cmd == UBUF_DUP || cmd == UBUF_SPLICE_BLOCK) {
        va_list c;
        va_copy(c, args);
        pp = va_arg(c, struct ubuf **);
        va_end(c);
        pool_open(&t_ubuf);
    }
    in_ubuf_ctl++;
    int err = o_ubuf_control(ubuf, cmd, args);
    in_ubuf_ctl--;
    if (pp) {
        struct ubuf *n = ubase_check(err) ? *pp : NULL;
        pool_close(&t_ubuf, n);
        if (n) tab_add(&t_ubuf, n, true);
    }
    return err;
}
static void i_ubuf_free(struct ubuf *b)
{
    tab_del(&t_ubuf, b, !(in_ubuf_ctl > 0 && tab_id(&t_ubuf, b) < 0));
    o_ubuf_free(b);
    pool_rest(&t_ubuf, b);
}
static int i_ubuf_mgr_control(struct ubuf_mgr *mgr, int cmd, va_list args)
{
    if (cmd == UBUF_MGR_VACUUM) pool_forget(&t_ubuf);
    return o_ubuf_mgr_control(mgr, cmd, args);
}

/* udict */
static struct udict *(*o_udict_alloc)(struct udict_mgr *, size_t);
static int (*o_udict_control)(struct udict *, int, va_list);
static void (*o_udict_free)(struct udict *);
static int (*o_udict_mgr_control)(struct udict_mgr *, int, va_list);
static struct udict *i_udict_alloc(struct udict_mgr *mgr, size_t size)
{
    pool_open(&t_udict);
    struct udict *d = o_udict_alloc(mgr, size);
    pool_close(&t_udict, d);
    if (d) tab_add(&t_udict, d, true);
    return d;
}
static int i_udict_control(struct udict *udict, int cmd, va_list args)
{
    struct udict **pp = NULL;
    if (cmd == UDICT_DUP) {
        va_list c;
        va_copy(c, args);
        pp = va_arg(c, struct udict **);
        va_end(c);
        pool_open(&t_udict);
    }
    int err = o_udict_control(udict, cmd, args);
    if (pp) {
        struct udict *n = ubase_check(err) ? *pp : NULL;
        pool_close(&t_udict, n);
        if (n) tab_add(&t_udict, n, true);
    }
    return err;
}
static void i_udict_free(struct udict *d)
{
    tab_del(&t_udict, d, true);
    o_udict_free(d);
    pool_rest(&t_udict, d);
}
static int i_udict_mgr_control(struct udict_mgr *mgr, int cmd, va_list args)
{
    pool_forget(&t_udict);
    return o_udict_mgr_control(mgr, cmd, args);
}

/* umem: identity of a buffer = its struct umem (embedded in the owner) */
static bool (*o_umem_alloc)(struct umem_mgr *, struct umem *, size_t);
static bool (*o_umem_realloc)(struct umem *, size_t);
static void (*o_umem_free)(struct umem *);
/* fault injection: the n-th umem allocation / the n-th malloc from now on is refused (commands failmem,
 * failmalloc; 0 disarms) */
static int fail_mem_cd, fail_malloc_cd;
void *__real_malloc(size_t n);
void *__wrap_malloc(size_t n)
{
    if (fail_malloc_cd > 0 && --fail_malloc_cd == 0)
        return NULL;
    return __real_malloc(n);
}
static bool i_umem_alloc(struct umem_mgr *mgr, struct umem *umem, size_t size)
{
    if (fail_mem_cd > 0 && --fail_mem_cd == 0) {
        printf("refused mem\n");
        return false;
    }
    bool ok = o_umem_alloc(mgr, umem, size);
    if (ok) {
        if (tab_id(&t_mem, umem) >= 0) {
            /* the owner structure was recycled without umem_free: the old buffer leaks */
            printf("mem lost m%ld\n", tab_id(&t_mem, umem));
            tab_del(&t_mem, umem, false);
            t_mem.count++;          /* still allocated */
        }
        tab_add(&t_mem, umem, true);
    }
    return ok;
}
static bool i_umem_realloc(struct umem *umem, size_t size)
{
    return o_umem_realloc(umem, size);
}
static void i_umem_free(struct umem *umem)
{
    tab_del(&t_mem, umem, true);
    o_umem_free(umem);
}

static bool interposed;
static void interpose(void)
{
    if (interposed) return;
    interposed = true;
    o_uref_alloc = g_uref_inner->uref_alloc;
    o_uref_free = g_uref_inner->uref_free;
    o_uref_mgr_control = g_uref_inner->uref_mgr_control;
    g_uref_inner->uref_alloc = i_uref_alloc;
    g_uref_inner->uref_free = i_uref_free;
    if (o_uref_mgr_control) g_uref_inner->uref_mgr_control = i_uref_mgr_control;

    o_ubuf_alloc = g_block->ubuf_alloc;
    o_ubuf_control = g_block->ubuf_control;
    o_ubuf_free = g_block->ubuf_free;
    o_ubuf_mgr_control = g_block->ubuf_mgr_control;
    g_block->ubuf_alloc = i_ubuf_alloc;
    g_block->ubuf_control = i_ubuf_control;
    g_block->ubuf_free = i_ubuf_free;
    if (o_ubuf_mgr_control) g_block->ubuf_mgr_control = i_ubuf_mgr_control;

    o_udict_alloc = g_udict->udict_alloc;
    o_udict_control = g_udict->udict_control;
    o_udict_free = g_udict->udict_free;
    o_udict_mgr_control = g_udict->udict_mgr_control;
    g_udict->udict_alloc = i_udict_alloc;
    g_udict->udict_control = i_udict_control;
    g_udict->udict_free = i_udict_free;
    if (o_udict_mgr_control) g_udict->udict_mgr_control = i_udict_mgr_control;

    o_umem_alloc = g_umem->umem_alloc;
    o_umem_realloc = g_umem->umem_realloc;
    o_umem_free = g_umem->umem_free;
    g_umem->umem_alloc = i_umem_alloc;
    g_umem->umem_realloc = i_umem_realloc;
    g_umem->umem_free = i_umem_free;
}

/* ------------------------------------------------------------ pipe types */
static struct upipe_mgr *voidsrc_mgr(void) { return upipe_voidsrc_mgr_alloc(); }
static const struct pipe_type c01_types[] = {
    { "qsrc", upipe_qsrc_mgr_alloc, NULL, NULL },
    { "qsink", upipe_qsink_mgr_alloc, NULL, NULL },
    { "buffer", upipe_buffer_mgr_alloc, NULL, NULL },
    { "disblo", upipe_disblo_mgr_alloc, NULL, NULL },
    { "even", upipe_even_mgr_alloc, NULL, NULL },
    { "time_limit", upipe_time_limit_mgr_alloc, NULL, NULL },
    { "rate_limit", upipe_rate_limit_mgr_alloc, NULL, NULL },
    { "trickp", upipe_trickp_mgr_alloc, NULL, NULL },
    { "dump", upipe_dump_mgr_alloc, NULL, NULL },
    { "burst", upipe_burst_mgr_alloc, NULL, NULL },
    { "multicat_probe", upipe_multicat_probe_mgr_alloc, NULL, NULL },
    { "m3u_reader", upipe_m3u_reader_mgr_alloc, NULL, NULL },
    { "stream_switcher", upipe_stream_switcher_mgr_alloc, NULL, NULL },
    { "play", upipe_play_mgr_alloc, NULL, NULL },
    { "sync", upipe_sync_mgr_alloc, NULL, NULL },
    { "block_to_sound", upipe_block_to_sound_mgr_alloc, NULL, NULL },
    { "rtp_h264", upipe_rtp_h264_mgr_alloc, NULL, NULL },
    { "rtp_mpeg4", upipe_rtp_mpeg4_mgr_alloc, NULL, NULL },
    { "audio_split", upipe_audio_split_mgr_alloc, NULL, NULL },
    { "separate_fields", upipe_separate_fields_mgr_alloc, NULL, NULL },
    { "dtsdi", upipe_dtsdi_mgr_alloc, NULL, NULL },
    { "ntsc_prepend", upipe_ntsc_prepend_mgr_alloc, NULL, NULL },
    { "audiocont", upipe_audiocont_mgr_alloc, NULL, NULL },
    { "videocont", upipe_videocont_mgr_alloc, NULL, NULL },
    { "voidsrc", voidsrc_mgr, "void", NULL },
    { NULL, NULL, NULL, NULL }
};

const struct pipe_type *pd_types_c(const char *name)
{
    for (int i = 0; c01_types[i].name; i++)
        if (!strcmp(c01_types[i].name, name)) return &c01_types[i];
    return NULL;
}

bool pd_option_c(struct upipe *upipe, const struct pipe_type *type, bool set,
                 const char *name, const char *value)
{
    const char *t = type ? type->name : "";
    int err;
    if (!strcmp(t, "time_limit") && !strcmp(name, "limit")) {
        if (set) err = upipe_time_limit_set_limit(upipe, strtoull(value, NULL, 10));
        else { uint64_t v = 0; err = upipe_time_limit_get_limit(upipe, &v); if (ubase_check(err)) { printf("ret 0 %" PRIu64 "\n", v); return true; } }
    } else if (!strcmp(t, "rate_limit") && !strcmp(name, "limit")) {
        if (set) err = upipe_rate_limit_set_limit(upipe, strtoull(value, NULL, 10));
        else { uint64_t v = 0; err = upipe_rate_limit_get_limit(upipe, &v); if (ubase_check(err)) { printf("ret 0 %" PRIu64 "\n", v); return true; } }
    } else if (!strcmp(t, "buffer") && !strcmp(name, "max_size")) {
        if (set) err = upipe_buffer_set_max_size(upipe, strtoull(value, NULL, 10));
        else { uint64_t v = 0; err = upipe_buffer_get_max_size(upipe, &v); if (ubase_check(err)) { printf("ret 0 %" PRIu64 "\n", v); return true; } }
    } else
        return false;
    printf("ret %d\n", err);
    return true;
}

/* ------------------------------------------------------------ application urefs / ubufs */
struct aref { char name[8]; struct uref *u; };
struct abuf { char name[8]; struct ubuf *b; };
static struct aref arefs[64];
static struct abuf abufs[64];
static struct aref *aref_find(const char *n, bool create)
{
    for (int i = 0; i < 64; i++) if (arefs[i].name[0] && !strcmp(arefs[i].name, n)) return &arefs[i];
    if (!create) return NULL;
    for (int i = 0; i < 64; i++) if (!arefs[i].name[0]) { snprintf(arefs[i].name, 8, "%s", n); arefs[i].u = NULL; return &arefs[i]; }
    return NULL;
}
static struct abuf *abuf_find(const char *n, bool create)
{
    for (int i = 0; i < 64; i++) if (abufs[i].name[0] && !strcmp(abufs[i].name, n)) return &abufs[i];
    if (!create) return NULL;
    for (int i = 0; i < 64; i++) if (!abufs[i].name[0]) { snprintf(abufs[i].name, 8, "%s", n); abufs[i].b = NULL; return &abufs[i]; }
    return NULL;
}

/* requests answered already by `answer` */
static struct urequest *answered[256];
static int nanswered;

static struct obj *obj_new(const char *name)
{
    if (find_pipe(name)) return NULL;
    for (int i = 0; i < MAXOBJ; i++)
        if (!pipes[i].name[0]) {
            memset(&pipes[i], 0, sizeof(pipes[i]));
            snprintf(pipes[i].name, sizeof(pipes[i].name), "%s", name);
            return &pipes[i];
        }
    return NULL;
}

bool pd_ext_c(int nt, char **tok)
{
    const char *c = tok[0];
    if (!strcmp(c, "base")) {
        g_pooldepth = nt > 1 ? atoi(tok[1]) : 0;
        interpose();
        if (g_loop == NULL) {
            vloop_obj_cb = loop_obj;
            g_loop = vloop_mgr_alloc_depth(g_pooldepth, g_pooldepth);
            urefcount_init(&vclock_rc, vclock_dead);
            vclock.refcount = &vclock_rc;
            vclock.uclock_now = vclock_now;
            vclock.uclock_to_real = NULL;
            vclock.uclock_from_real = NULL;
        }
        printf("base umem=o%d udict=o%d urefi=o%d track=o%d block=o%d uclock=o%d loop=o%d vclock=o%d\n",
               rc_id(g_umem->refcount), rc_id(g_udict->refcount), rc_id(g_uref_inner->refcount),
               rc_id(g_uref->refcount), rc_id(g_block->refcount), g_uclock ? rc_id(g_uclock->refcount) : -1,
               rc_id(g_loop->refcount), rc_id(&vclock_rc));
        ret(0);
        return true;
    }
    if (!strcmp(c, "who") && nt >= 2) {
        struct upipe *up = find_any(tok[1]);
        if (up == NULL) { ret(-1); return true; }
        printf("who %s o%d rc=%u\n", tok[1], rc_id(up->refcount), rc_val(up->refcount));
        ret(0);
        return true;
    }
    if (!strcmp(c, "caps") && nt >= 2) {
        struct upipe *up = find_any(tok[1]);
        if (up == NULL) { ret(-1); return true; }
        printf("caps %s input=%d control=%d\n", tok[1], up->mgr->upipe_input != NULL, up->mgr->upipe_control != NULL);
        ret(0);
        return true;
    }
    if (!strcmp(c, "cnew") && nt >= 3) {
        const struct pipe_type *pt = registry_find(tok[2]);
        struct obj *o = pt ? obj_new(tok[1]) : NULL;
        if (o == NULL || g_loop == NULL) { ret(-1); return true; }
        struct upipe *qsrc = NULL;
        if (!strcmp(tok[2], "qsink")) {
            struct obj *q = nt > 3 ? find_pipe(tok[3]) : NULL;
            if (q == NULL || q->upipe == NULL || q->type == NULL || strcmp(q->type->name, "qsrc")) {
                o->name[0] = 0;
                ret(-1);
                return true;
            }
            qsrc = q->upipe;
        }
        o->type = pt;
        /* the recording probe function is static in pipe_driver.c: borrow it
         * from a scratch object created by the built-in command (see c01.py:
         * every script starts with `new zz null` + `rel zz`) */
        struct obj *donor = find_pipe("zz");
        if (donor == NULL || donor->probe.uprobe_throw == NULL) { o->name[0] = 0; ret(-1); return true; }
        uprobe_init(&o->probe, donor->probe.uprobe_throw, NULL);
        o->probe.refcount = NULL;
        struct uprobe *p = &o->probe;
        p = uprobe_uref_mgr_alloc(p, g_uref);
        p = uprobe_uclock_alloc(p, &vclock);
        p = uprobe_upump_mgr_alloc(p, g_loop);
        struct upipe_mgr *mgr = pt->mgr_alloc();
        struct upipe *up;
        o->ptr = (struct upipe *)-1;
        registry_pending = o->name;
        if (!strcmp(tok[2], "qsrc"))
            up = upipe_qsrc_alloc(mgr, p, nt > 3 ? atoi(tok[3]) : 1);
        else if (qsrc != NULL)
            up = upipe_qsink_alloc(mgr, p, qsrc);
        else if (pt->flow_alloc) {
            struct uref *fd = make_fd(nt > 3 ? tok[3] : pt->flow_alloc);
            up = upipe_flow_alloc(mgr, p, fd);
            uref_free(fd);
        } else
            up = upipe_void_alloc(mgr, p);
        registry_pending = NULL;
        upipe_mgr_release(mgr);
        o->upipe = up;
        o->ptr = up;
        o->alive = up != NULL;
        if (up && pt->post_alloc) pt->post_alloc(up);
        if (up && !strcmp(tok[2], "qsrc"))
            upipe_attach_upump_mgr(up);
        if (up == NULL) o->name[0] = 0;
        ret(up ? 0 : -1);
        return true;
    }
    if (!strcmp(c, "pump") && nt >= 2) {
        int k = -1;
        for (int i = 0; i < MAXAP; i++) if (apumps[i].upump == NULL) { k = i; break; }
        if (k < 0 || g_loop == NULL || apump_find(tok[1]) >= 0) { ret(-1); return true; }
        snprintf(apumps[k].name, sizeof(apumps[k].name), "%s", tok[1]);
        apumps[k].upump = upump_alloc_idler(g_loop, apump_cb, NULL, NULL);
        if (apumps[k].upump == NULL) { ret(-1); return true; }
        upump_start(apumps[k].upump);
        ret(0);
        return true;
    }
    if ((!strcmp(c, "pstart") || !strcmp(c, "pstop") || !strcmp(c, "pfree")) && nt >= 2) {
        int k = apump_find(tok[1]);
        if (k < 0) { ret(-1); return true; }
        if (c[2] == 't' && c[3] == 'a') upump_start(apumps[k].upump);
        else if (c[1] == 's') upump_stop(apumps[k].upump);
        else { struct upump *u = apumps[k].upump; apumps[k].upump = NULL; upump_stop(u); upump_free(u); }
        ret(0);
        return true;
    }
    if (!strcmp(c, "pstate") && nt >= 2) {
        int k = apump_find(tok[1]);
        if (k < 0) { ret(-1); return true; }
        struct vloop_pump_info info;
        bool ok = vloop_pump_info(g_loop, apumps[k].upump, &info);
        printf("pstate %s active=%d\n", tok[1], ok && info.active);
        ret(0);
        return true;
    }
    if (!strcmp(c, "inp") && nt >= 5) {
        /* upipe_input with a source pump: the pipe may block it while it holds the buffer */
        struct upipe *up = find_any(tok[1]);
        int k = apump_find(tok[2]);
        if (up == NULL || k < 0 || up->mgr->upipe_input == NULL) { ret(-1); return true; }
        unsigned id = atoi(tok[3]);
        size_t size = atoi(tok[4]);
        int nseg = nt > 5 ? atoi(tok[5]) : 1;
        uint8_t *data = malloc(size + 1);
        for (size_t i = 0; i < size; i++) data[i] = (uint8_t)(id * 7 + i);
        struct uref *u = make_block(data, size, nseg);
        free(data);
        uref_cx_set_id(u, id);
        printf("input u%ld id=%u\n", uref_uid(u), id);
        upipe_input(up, u, &apumps[k].upump);
        ret(0);
        return true;
    }
    if (!strcmp(c, "loop")) {
        unsigned n = g_loop ? vloop_run(g_loop, nt > 1 ? atoi(tok[1]) : 64) : 0;
        printf("ret 0 %u\n", n);
        return true;
    }
    if (!strcmp(c, "advance") && nt >= 2) {
        unsigned n = g_loop ? vloop_advance(g_loop, strtoull(tok[1], NULL, 10), 64) : 0;
        printf("ret 0 %u\n", n);
        return true;
    }
    if (!strcmp(c, "rcs")) {
        printf("rcs");
        for (int i = 0; i < MAXOBJ; i++)
            if (pipes[i].name[0] && pipes[i].upipe)
                printf(" %s=%u", pipes[i].name, rc_val(pipes[i].upipe->refcount));
        for (int i = 0; i < MAXOBJ; i++)
            if (sinks[i].used && sinks[i].handle)
                printf(" %s=%u", sinks[i].name, rc_val(sinks[i].handle->refcount));
        printf(" | nuref=%ld nubuf=%ld nudict=%ld nmem=%ld", t_uref.count, t_ubuf.count, t_udict.count, t_mem.count);
        printf(" | track=%u urefi=%u udictm=%u block=%u umem=%u uclock=%u loop=%u vclock=%u\n",
               rc_val(g_uref->refcount), rc_val(g_uref_inner->refcount), rc_val(g_udict->refcount),
               rc_val(g_block->refcount), rc_val(g_umem->refcount), g_uclock ? rc_val(g_uclock->refcount) : 0,
               g_loop ? rc_val(g_loop->refcount) : 0, rc_val(&vclock_rc));
        ret(0);
        return true;
    }
    if (!strcmp(c, "answer")) {
        /* three rounds; in each, every request registered at a sink is answered once (answering a request
         * again is what a provider may do at any time; a structure its owner registered again is a new one) */
        int n = 0;
        for (int round = 0; round < 3; round++) {
            int before = n;
            nanswered = 0;         /* a structure registered again by its owner is a new request */
            for (int i = 0; i < MAXOBJ; i++) {
                if (!sinks[i].used || sinks[i].dead) continue;
                for (int k = 0; k < sinks[i].nregs; k++) {
                    struct urequest *r = sinks[i].regs[k];
                    bool done = false;
                    for (int a = 0; a < nanswered; a++) if (answered[a] == r) done = true;
                    if (done) continue;
                    if (nanswered < 256) answered[nanswered++] = r;
                    provide(r, sinks[i].name);
                    n++;
                    k = -1;            /* the list may have changed: rescan */
                }
            }
            if (n == before) break;
        }
        printf("ret 0 %d\n", n);
        return true;
    }
    if (!strcmp(c, "reqclean") && nt >= 2) {
        struct vreq *v = find_req(tok[1]);
        if (v == NULL) { ret(-1); return true; }
        urequest_clean(&v->req);
        v->used = false;
        ret(0);
        return true;
    }
    if (!strcmp(c, "failoff")) {
        fail_mem_cd = fail_malloc_cd = 0;
        ret(0);
        return true;
    }
    if ((!strcmp(c, "failmem") || !strcmp(c, "failmalloc")) && nt >= 2) {
        if (c[4] == 'm' && c[5] == 'e') fail_mem_cd = atoi(tok[1]);
        else fail_malloc_cd = atoi(tok[1]);
        ret(0);
        return true;
    }
    if (!strcmp(c, "ufd") && nt >= 3) {
        struct aref *a = aref_find(tok[1], true);
        if (a == NULL || a->u != NULL) { ret(-1); return true; }
        a->u = make_fd(tok[2]);
        printf("app take u%ld\n", uref_uid(a->u));
        ret(0);
        return true;
    }
    if (!strcmp(c, "ualloc") && nt >= 3) {
        struct aref *a = aref_find(tok[1], true);
        if (a == NULL || a->u != NULL) { ret(-1); return true; }
        a->u = uref_block_alloc(g_uref, g_block, atoi(tok[2]));
        if (a->u == NULL) { ret(-1); return true; }
        uref_cx_set_id(a->u, 1000 + uref_uid(a->u));
        printf("app take u%ld\n", uref_uid(a->u));
        ret(0);
        return true;
    }
    if (!strcmp(c, "udup") && nt >= 3) {
        struct aref *a = aref_find(tok[1], false), *b = aref_find(tok[2], true);
        if (a == NULL || a->u == NULL || b == NULL || b->u != NULL) { ret(-1); return true; }
        b->u = uref_dup(a->u);
        if (b->u == NULL) { ret(-1); return true; }
        printf("app take u%ld\n", uref_uid(b->u));
        ret(0);
        return true;
    }
    if (!strcmp(c, "ufree") && nt >= 2) {
        struct aref *a = aref_find(tok[1], false);
        if (a == NULL || a->u == NULL) { ret(-1); return true; }
        printf("app drop u%ld\n", uref_uid(a->u));
        struct uref *u = a->u;
        a->u = NULL;
        uref_free(u);
        ret(0);
        return true;
    }
    if (!strcmp(c, "udetach") && nt >= 3) {
        struct aref *a = aref_find(tok[1], false);
        struct abuf *b = abuf_find(tok[2], true);
        if (a == NULL || a->u == NULL || a->u->ubuf == NULL || b == NULL || b->b != NULL) { ret(-1); return true; }
        b->b = uref_detach_ubuf(a->u);
        printf("app take b%ld\n", tab_id(&t_ubuf, b->b));
        ret(0);
        return true;
    }
    if (!strcmp(c, "uattach") && nt >= 3) {
        struct aref *a = aref_find(tok[1], false);
        struct abuf *b = abuf_find(tok[2], false);
        if (a == NULL || a->u == NULL || b == NULL || b->b == NULL) { ret(-1); return true; }
        printf("app give b%ld\n", tab_id(&t_ubuf, b->b));
        struct ubuf *ub = b->b;
        b->b = NULL;
        uref_attach_ubuf(a->u, ub);
        ret(0);
        return true;
    }
    if (!strcmp(c, "bdup") && nt >= 3) {
        struct abuf *a = abuf_find(tok[1], false), *b = abuf_find(tok[2], true);
        if (a == NULL || a->b == NULL || b == NULL || b->b != NULL) { ret(-1); return true; }
        b->b = ubuf_dup(a->b);
        if (b->b == NULL) { ret(-1); return true; }
        printf("app take b%ld\n", tab_id(&t_ubuf, b->b));
        ret(0);
        return true;
    }
    /* ---- feeding a getter's answer back to the setter: the pointer is borrowed from the pipe, which may
     * hold the only reference on it ---- */
    if (!strcmp(c, "outself") && nt >= 2) {
        struct upipe *up = find_any(tok[1]);
        struct upipe *o = NULL;
        if (up == NULL) { ret(-1); return true; }
        int err = upipe_get_output(up, &o);
        if (!ubase_check(err) || o == NULL) { printf("ret %d none\n", err); return true; }
        ret(upipe_set_output(up, o));
        return true;
    }
    if (!strcmp(c, "fdself") && nt >= 2) {
        struct upipe *up = find_any(tok[1]);
        struct uref *fd = NULL;
        if (up == NULL) { ret(-1); return true; }
        int err = upipe_get_flow_def(up, &fd);
        if (!ubase_check(err) || fd == NULL) { printf("ret %d none\n", err); return true; }
        ret(upipe_set_flow_def(up, fd));
        return true;
    }
    /* ---- segmented block buffers owned by the application: the calls that hand a ubuf over to the
     * chain of another one (append / insert), free segments (truncate / delete / resize) or give
     * segments back (split) ---- */
    if (!strcmp(c, "balloc") && nt >= 3) {
        struct abuf *b = abuf_find(tok[1], true);
        if (b == NULL || b->b != NULL) { ret(-1); return true; }
        int size = atoi(tok[2]);
        b->b = ubuf_block_alloc(g_block, size);
        if (b->b == NULL) { ret(-1); return true; }
        int sz = -1; uint8_t *w;
        if (size > 0 && ubase_check(ubuf_block_write(b->b, 0, &sz, &w))) {
            for (int i = 0; i < sz; i++) w[i] = (uint8_t)(i + size);
            ubuf_block_unmap(b->b, 0);
        }
        printf("app take b%ld\n", tab_id(&t_ubuf, b->b));
        ret(0);
        return true;
    }
    if ((!strcmp(c, "bappend") && nt >= 3) || (!strcmp(c, "binsert") && nt >= 4)) {
        bool ins = c[1] == 'i';
        struct abuf *a = abuf_find(tok[1], false), *b = abuf_find(tok[ins ? 3 : 2], false);
        if (a == NULL || a->b == NULL || b == NULL || b->b == NULL || a == b) { ret(-1); return true; }
        struct ubuf *ub = b->b;
        long id = tab_id(&t_ubuf, ub);
        int err = ins ? ubuf_block_insert(a->b, atoi(tok[2]), ub) : ubuf_block_append(a->b, ub);
        if (ubase_check(err)) {
            printf("app give b%ld\n", id);      /* it now belongs to the chain of the other one */
        } else {
            printf("app drop b%ld\n", id);      /* refused: still ours, freed here (the script counts it as consumed) */
            ubuf_free(ub);
        }
        b->b = NULL;
        ret(err);
        return true;
    }
    if (!strcmp(c, "btrunc") && nt >= 3) {
        struct abuf *a = abuf_find(tok[1], false);
        if (a == NULL || a->b == NULL) { ret(-1); return true; }
        ret(ubuf_block_truncate(a->b, atoi(tok[2])));
        return true;
    }
    if (!strcmp(c, "bdelete") && nt >= 4) {
        struct abuf *a = abuf_find(tok[1], false);
        if (a == NULL || a->b == NULL) { ret(-1); return true; }
        ret(ubuf_block_delete(a->b, atoi(tok[2]), atoi(tok[3])));
        return true;
    }
    if (!strcmp(c, "bresize") && nt >= 4) {
        struct abuf *a = abuf_find(tok[1], false);
        if (a == NULL || a->b == NULL) { ret(-1); return true; }
        ret(ubuf_block_resize(a->b, atoi(tok[2]), atoi(tok[3])));
        return true;
    }
    if (!strcmp(c, "bsplit") && nt >= 4) {
        struct abuf *a = abuf_find(tok[1], false), *b = abuf_find(tok[3], true);
        if (a == NULL || a->b == NULL || b == NULL || b->b != NULL) { ret(-1); return true; }
        b->b = ubuf_block_split(a->b, atoi(tok[2]));
        if (b->b == NULL) { ret(-1); return true; }
        printf("app take b%ld\n", tab_id(&t_ubuf, b->b));
        ret(0);
        return true;
    }
    if (!strcmp(c, "bsplice") && nt >= 5) {
        struct abuf *a = abuf_find(tok[1], false), *b = abuf_find(tok[4], true);
        if (a == NULL || a->b == NULL || b == NULL || b->b != NULL) { ret(-1); return true; }
        b->b = ubuf_block_splice(a->b, atoi(tok[2]), atoi(tok[3]));
        if (b->b == NULL) { ret(-1); return true; }
        printf("app take b%ld\n", tab_id(&t_ubuf, b->b));
        ret(0);
        return true;
    }
    if (!strcmp(c, "bread") && nt >= 2) {
        /* walk the whole chain: every segment is mapped and read */
        struct abuf *a = abuf_find(tok[1], false);
        if (a == NULL || a->b == NULL) { ret(-1); return true; }
        size_t total = 0;
        unsigned sum = 0, got = 0;
        if (!ubase_check(ubuf_block_size(a->b, &total))) { ret(-1); return true; }
        int off = 0;
        while ((size_t)off < total) {
            int sz = -1; const uint8_t *r;
            if (!ubase_check(ubuf_block_read(a->b, off, &sz, &r)) || sz <= 0) break;
            for (int i = 0; i < sz; i++) sum += r[i];
            ubuf_block_unmap(a->b, off);
            off += sz; got += sz;
        }
        printf("ret 0 size=%zu read=%u sum=%u\n", total, got, sum);
        return true;
    }
    if (!strcmp(c, "bfree") && nt >= 2) {
        struct abuf *a = abuf_find(tok[1], false);
        if (a == NULL || a->b == NULL) { ret(-1); return true; }
        printf("app drop b%ld\n", tab_id(&t_ubuf, a->b));
        struct ubuf *ub = a->b;
        a->b = NULL;
        ubuf_free(ub);
        ret(0);
        return true;
    }
    if (!strcmp(c, "uin") && nt >= 3) {
        struct upipe *up = find_any(tok[1]);
        struct aref *a = aref_find(tok[2], false);
        if (up == NULL || a == NULL || a->u == NULL) { ret(-1); return true; }
        printf("app give u%ld\n", uref_uid(a->u));
        struct uref *u = a->u;
        a->u = NULL;
        upipe_input(up, u, NULL);
        ret(0);
        return true;
    }
    if (!strcmp(c, "usetfd") && nt >= 3) {
        struct upipe *up = find_any(tok[1]);
        struct aref *a = aref_find(tok[2], false);
        if (up == NULL || a == NULL || a->u == NULL) { ret(-1); return true; }
        ret(upipe_set_flow_def(up, a->u));
        return true;
    }
    if (!strcmp(c, "teardown")) {
        pool_forget(&t_uref);
        pool_forget(&t_ubuf);
        pool_forget(&t_udict);
        printf("teardown loop\n");
        if (g_loop) { struct upump_mgr *l = g_loop; g_loop = NULL; upump_mgr_release(l); }
        printf("teardown vclock\n");
        urefcount_release(&vclock_rc);
        printf("teardown uclock\n");
        if (g_uclock) uclock_release(g_uclock);
        printf("teardown block\n");
        ubuf_mgr_release(g_block);
        printf("teardown track\n");
        uref_mgr_release(g_uref);
        printf("teardown urefi\n");
        uref_mgr_release(g_uref_inner);
        printf("teardown udict\n");
        udict_mgr_release(g_udict);
        printf("teardown umem\n");
        umem_mgr_release(g_umem);
        ret(0);
        return true;
    }
    return false;
}
