"""C03 - segmented block buffers behave exactly like byte strings.

1. TLC checks exhaustively, for small bounds,
   * the abstract specification spec/BlockBuf.tla (a handle is a byte string
     str[h] and a list of windows on memory areas; every call is defined on
     byte strings; invariants ByteString / FreshSingle, action property
     ErrLeavesUnchanged) - configurations MCBlockBuf_c03_*;
   * the detailed specification spec/BlockSeg.tla, a statement by statement
     transcription of ubuf_block.h (segment chain, total_size, offset cache
     rewritten by every ubuf_block_get, cached tail) with the proposed range
     checks: TotalOK, CacheSound, EndSound and NoBad (every result equals the
     byte-string result, an error changes nothing, out-of-range is refused) -
     configurations MCBlockSeg_*; readers are actions like any other call.
   Negative configurations (the repository's present prepend / get / delete /
   splice re-introduced, an out-of-range delete that shrinks before failing)
   must be rejected; the counterexample TLC prints is replayed on the real code.
2. spec -> code: behaviours emitted by TLC (exhaustive "any call, then one
   read at one offset", random walks of both specifications) with the results
   the specification predicts are executed by harness/replay_block.c on the
   real ubuf_block / uref_block API (ubuf_block_mem, 7 manager configurations,
   ASan + UBSan) and compared result by result.
3. code -> spec: seeded random scripts over 8 handles with offsets / sizes
   inside, at the boundaries and outside the blocks are executed and every
   recorded execution (those of 2. included) is validated by
   spec/BlockBuf_Trace.tla.
A violation is reported only for an execution of the real code that the trace
specification rejects; the rejection is localised by re-executing prefixes of
it followed by one read at one offset (judged by TLC again), which gives the
call that left the block wrong and a stable key.
"""
import vlib
from checks import blockcommon as bc

LEVEL = "model_checking"

MUT = ["CAlloc", "CDup", "CSplice", "CSplit", "CCopy", "CMerge", "CAppend", "CInsert", "CDelete",
       "CTruncate", "CResize", "CPrepend", "CWmap", "CPoke", "CFree"]
SEGOPS = ["alloc", "dup", "splice", "split", "copy", "merge", "append", "insert", "delete", "truncate",
          "resize", "prepend", "poke", "free", "size", "rd1", "slin", "extract", "scan"]


def plan(ctx):
    q = ctx.quick
    B, S = "MCBlockBuf", "MCBlockSeg"
    jobs = []
    # behaviour emission first (the replay waits for it)
    jobs.append(dict(module=B, cfg="MCBlockBuf_emit_q", kind="emit", pre=2, nh=2, workers=1))
    # "sandwich": append, a read that moves the offset cache, any cutting / growing call, a read at every offset
    jobs.append(dict(module=B, cfg="MCBlockBuf_emit_sw", kind="emit", pre=2, nh=2, workers=1))
    jobs.append(dict(module=B, cfg="MCBlockBuf_sim", kind="sim", pre=2, nh=4, simulate=500 if q else 20000, depth=14))
    jobs.append(dict(module=B, cfg="MCBlockBuf_sim_pre0", kind="sim", pre=0, nh=4, simulate=250 if q else 6000, depth=14))
    jobs.append(dict(module=B, cfg="MCBlockBuf_sim_pre1", kind="sim", pre=1, nh=4, simulate=250 if q else 6000, depth=14))
    jobs.append(dict(module=S, cfg="MCBlockSeg_sim", kind="sim", pre=2, nh=4, simulate=250 if q else 8000, depth=16))
    for b in ("s2prepend", "s14getneg", "s3delete", "s3splice"):
        jobs.append(dict(module=S, cfg="MCBlockSeg_neg_" + b, kind="neg", cex=True, nh=3))
    jobs.append(dict(module=B, cfg="MCBlockBuf_neg_s3delete", kind="neg"))
    # exhaustive runs
    jobs.append(dict(module=B, cfg="MCBlockBuf_c03_q", kind="pos", workers=2))
    jobs.append(dict(module=S, cfg="MCBlockSeg_q2", kind="pos", workers=2))
    jobs.append(dict(module=S, cfg="MCBlockSeg_q", kind="pos", workers=2))
    jobs.append(dict(module=B, cfg="MCBlockBuf_cov", kind="cov", cov=True, need=MUT))
    jobs.append(dict(module=S, cfg="MCBlockSeg_cov", kind="covbeh", need=SEGOPS))
    if not q:
        jobs.append(dict(module=B, cfg="MCBlockBuf_emit_t3", kind="emit", pre=2, nh=3, workers=2, timeout=1500))
        jobs.append(dict(module=B, cfg="MCBlockBuf_c03_t", kind="pos", workers=4, timeout=1700, heap="8g"))
        jobs.append(dict(module=B, cfg="MCBlockBuf_c03_t2", kind="pos", workers=4, timeout=1700, heap="8g"))
        jobs.append(dict(module=S, cfg="MCBlockSeg_t", kind="pos", workers=4, timeout=1700, heap="8g"))
        jobs.append(dict(module=S, cfg="MCBlockSeg_t4", kind="pos", workers=4, timeout=1700, heap="8g"))
    return dict(jobs=jobs, mode="c03", nh=8, maxlen=24,
                random_scripts=280 if q else 12000, script_len=45 if q else 70,
                judge_budget_s=40 if q else 600, parallel=3 if q else 3, validate_jobs=3 if q else 4,
                also_indirect=8)


def run(ctx):
    bc.run_check(ctx, plan(ctx))
    ctx.assumptions += [
        "arguments with no byte-string meaning (offset at or past the end, range longer than the block, copy to an "
        "empty block) are only required to be refused without any change, or - if the call reports success - to give "
        "a self-consistent block (size() octets can be extracted); readers with such arguments are not constrained",
        "sizes below -1, a negative truncate offset, and append/insert of a block to itself are outside the quantification "
        "(the harness refuses to issue them)",
        "the octets uncovered by prepend and the padding of copy/merge are those of the underlying memory (the harness "
        "fills every umem buffer with a known octet); a prepend may be refused whenever it likes",
        "one call at a time (no concurrent use of a block), allocation never fails",
    ]
    ctx.trusted += ["TLC", "harness/replay_block.c (command interpreter; judges with the block's own ubuf_block_size "
                    "whether arguments are in range - a wrong answer makes the trace specification reject the line)",
                    "gcc AddressSanitizer / UndefinedBehaviorSanitizer"]


def replay(ctx, rp):
    return bc.replay_file(ctx, rp, "C03")
