"""C06, pthread stage - the worker pipes between two REAL threads.

run_part(ctx) is called by checks/c06.py after the worker stage.

What the earlier stages leave open is everything that only exists with real threads: the thread start-up of
lib/upipe-pthread/upipe_pthread_transfer.c (new thread, its own libev loop, uprobe_pthread_upump_mgr_set,
upipe_xfer_mgr_attach, upump_mgr_run(loop, mutex), termination through the event descriptor and pthread_join
in the application's loop), the real umutex_pthread, the mutex discipline of the real libev loop
(lib/upump-ev/upump_ev.c: locked while watchers are invoked, released while it sleeps) and the last sentence
of the statement - no unsynchronised access between the two threads.

1. code -> spec, same abstract specification: harness/pthr_worker.c drives upipe_wlin / wsink / wsrc with the
   application on the main thread (default libev loop) and the worker thread created by the real
   upipe_pthread_xfer_mgr_alloc; every observation (calls, entries of the remote pipe with the thread that
   performs them, Lock / Unlock of the real mutex seen through a recording wrapper, deliveries, forwarded
   events, deaths, free of the manager, pthread_join) is appended to one log under a lock; the executions
   (fixed and seeded random application programs x pacing seeds x jitter at the hooks H1-H4) are validated by
   TLC against spec/Worker_Trace.tla (InOrderOnce, FlowDefFirst, EndLast, HoldNotDrop, Confinement - now with
   the REAL mutex -, EventsAtHome, FreedOnce, and Join: the worker thread ends only after the manager is gone
   and does nothing afterwards).
2. ThreadSanitizer: the same programs in a build without the log (nothing of the harness orders the threads);
   every data race ThreadSanitizer reports is an event `Race` the specification has no action for.  Reports
   are named by the functions of the repository on top of the two stacks; the optimistic plain accesses of
   uring.h (validated by the tagged compare-and-swap that follows, property C07) are suppressed by design.
A rejected execution is reported only if re-running the same program reproduces a rejection of the same name
(real schedules are not deterministic: up to 3000 further executions are tried); otherwise it is recorded in
the evidence (pthread_unreproduced) and not reported.
"""
import json
import os
import re
import concurrent.futures
import vlib
from checks import c06_worker

SRC = ["pthr_worker.c", "lib/upipe/umem_alloc.c", "lib/upipe/udict_inline.c",
       "lib/upipe/uref_std.c", "lib/upipe/upump_common.c", "lib/upipe/uprobe.c", "lib/upipe/uprobe_prefix.c",
       "lib/upipe/uprobe_transfer.c", "lib/upipe-modules/upipe_queue.c", "lib/upipe-modules/upipe_queue_sink.c",
       "lib/upipe-modules/upipe_queue_source.c", "lib/upipe-modules/upipe_transfer.c",
       "lib/upipe-modules/upipe_worker.c", "lib/upipe-pthread/uprobe_pthread_upump_mgr.c",
       "lib/upipe-pthread/upipe_pthread_transfer.c", "lib/upipe-pthread/umutex_pthread.c",
       "lib/upump-ev/upump_ev.c"]
WRAP = "-Wl,--wrap=free,--wrap=pthread_join"

# (flavour, inlen, outlen, mutex, program of the application, program of the remote source)
FIXED = [("lin", 1, 1, 1, "oAiBiir", "-"), ("lin", 1, 1, 1, "oAiizctir", "-"), ("lin", 1, 2, 1, "oAiOiir", "-"),
         ("lin", 2, 1, 1, "ozAictBiiwir", "-"), ("lin", 1, 1, 1, "oAiiiiwiiBiiir", "-"),
         ("sink", 1, 1, 1, "AiizctBir", "-"), ("sink", 2, 1, 1, "Aiiiczctr", "-"), ("sink", 1, 1, 1, "zAictiwiir", "-"),
         ("src", 1, 1, 1, "owzctwr", "AiiBi"), ("src", 1, 2, 1, "owOwwr", "AiBii"), ("src", 1, 1, 1, "owwwwwwr", "AiiiiBiii"),
         ("lin", 1, 1, 0, "oAiiBir", "-"), ("sink", 1, 1, 0, "AiBiwir", "-"), ("src", 1, 1, 0, "owwr", "Aii")]


def gen_prog(rng, fl):
    """A random application program that respects the contract of the worker stage: the output is set before
    anything flows, a flow definition precedes the first buffer, the worker is thawed before the release."""
    p = []
    if fl != "sink":
        p.append("o")
    frozen = False
    have_fd = False
    n = 4 + rng.below(9)
    for _ in range(n):
        r = rng.below(16)
        if fl == "src":
            c = "w" if r < 7 else "z" if r < 9 else "t" if r < 11 else "c" if r < 13 else "O" if r < 14 else "o"
        else:
            c = "i" if r < 7 else "A" if r < 8 else "B" if r < 9 else "z" if r < 10 else "t" if r < 11 else \
                "c" if r < 13 else "w" if r < 15 else ("O" if fl == "lin" else "w")
        if c == "i" and not have_fd:
            c = "A"
        if c in "AB":
            have_fd = True
        if c == "z":
            if frozen:
                c = "t"
        if c == "t" and not frozen:
            c = "w"
        if c == "z":
            frozen = True
        if c == "t":
            frozen = False
        p.append(c)
    if frozen:
        p.append("t")
    p.append("r")
    return "".join(p)


def gen_src(rng):
    s = ["A"]
    for _ in range(2 + rng.below(6)):
        s.append("B" if rng.below(6) == 0 else "A" if rng.below(8) == 0 else "i")
    return "".join(s)


def build(ctx):
    return ctx.cc("pthr_worker", SRC, flags=[WRAP], libs=["-lev", "-lpthread"])


def build_tsan(ctx):
    return ctx.cc("pthr_worker_tsan", SRC, flags=[WRAP, "-DPW_NOLOG"], libs=["-lev", "-lpthread"], san="tsan")


def run_prog(ctx, binp, item, seed, jitter, runs, timeout=300):
    fl, il, ol, mx, prog, src = item
    r = ctx.run([binp, fl, str(il), str(ol), str(mx), prog, src, str(seed), str(jitter), str(runs)], timeout=timeout)
    if r.returncode != 0:
        raise vlib.ToolError("pthr_worker %s rc=%d %s" % (" ".join(map(str, item)), r.returncode, (r.stderr or "")[-1500:]))
    return c06_worker.parse(r.stdout)


def cmd_of(r0):
    seed, jitter = r0["sched"].split("/")
    return "pthr_worker %s %d %d %d %s %s %s %s 1" % (r0["fl"], r0["il"], r0["ol"], r0["mx"], r0["what"], r0["src"] or "-", seed, jitter)


def key_of(h, line):
    key, why = c06_worker.key_of(h, line)
    ev = h[line - 1] if 0 < line <= len(h) else {}
    if ev.get("e") == "Join":
        key = "worker;thread-joined-early"
    if key.startswith("worker;"):
        key = "pthread;" + key[7:]
    return key, why


def item_of(r0):
    return (r0["fl"], r0["il"], r0["ol"], r0["mx"], r0["what"], r0["src"] or "-")


def reproduce(ctx, binp, h, key, tries):
    """Real schedules are not deterministic: run the same program again (same and other pacing seeds) until TLC
    rejects an execution under the same name."""
    r0 = h[0]
    seed, jitter = r0["sched"].split("/")
    seed, jitter = int(seed), int(jitter)
    done = 0
    k = 0
    while done < tries:
        n = min(100, tries - done)
        hs = run_prog(ctx, binp, item_of(r0), seed + 1000003 * k, jitter, n)
        k += 1
        done += n
        if not hs:
            continue
        rej = ctx.validate_histories_1pass("Worker_Trace", "Worker_Trace.cfg", hs, tag="ptre")
        ctx.traces -= len(hs)
        for idx, line, _ in rej:
            if key_of(hs[idx], line)[0] == key:
                return hs[idx], line
    return None


def corrupt(h):
    out = c06_worker.corrupt(h)
    # the application enters the remote pipe without holding the mutex
    idx = [i for i, e in enumerate(h) if e["e"] == "REnter" and e["k"] == "control" and e["th"] == 0]
    if idx:
        c = [dict(e) for e in h]
        # drop the Lock of the application's freeze
        locks = [i for i in range(idx[0]) if c[i]["e"] == "Lock" and c[i]["th"] == 0]
        if locks:
            del c[locks[-1]]
            out.append(("control on the remote pipe without the mutex", c))
    j = [i for i, e in enumerate(h) if e["e"] == "Join"]
    m = [i for i, e in enumerate(h) if e["e"] == "MgrFree"]
    if j and m and m[0] < j[0]:
        c = [dict(e) for e in h]
        c[j[0]], c[m[0]] = c[m[0]], c[j[0]]
        out.append(("thread joined before the manager was freed", c))
    return out


# ------------------------------------------------------------------ ThreadSanitizer
SUPP = """# optimistic plain accesses of the lock-free ring, validated by the tagged compare-and-swap that follows (C07)
race:uring_
"""
FRAME = re.compile(r"^\s+#\d+ (\S+) (\S+?)(?::\d+)*(?: \(.*\))?$")


KNOWN_SHAPES = [
    # (function that frees, function of the other thread still working on the object) -> key of the earlier stages
    ("upipe_xfer_mgr_free", "uqueue_push", "xfer_mgr;detach;manager-freed-during-push"),
    ("upipe_qsrc_free", "uqueue_push", "qsrc;ref_end;queue-source-freed-during-push"),
    ("upipe_xfer_free", "uqueue_push", "xfer;dead;xfer-pipe-freed-during-push"),
]


def tsan_reports(text, repo):
    """[(key, is_fd, summary lines)] - one per ThreadSanitizer report; naming only: the innermost function of the
    repository on each of the two racing stacks (the three use-after-free races already recorded by the earlier
    stages keep their names)."""
    out = []
    rrepo = os.path.realpath(repo)
    for block in text.split("=================="):
        if "WARNING: ThreadSanitizer" not in block:
            continue
        kind = re.search(r"WARNING: ThreadSanitizer: ([^(\n]+)", block).group(1).strip()
        stacks, cur = [], None
        for line in block.splitlines():
            if re.match(r"^  \S", line):
                cur = []
                stacks.append((line.strip(), cur))
            else:
                m = FRAME.match(line)
                if m and cur is not None:
                    cur.append((m.group(1), m.group(2)))
        racing = [(h, f) for h, f in stacks if re.match(r"^(Read|Write|Previous|Atomic)", h)][:2]
        is_fd = any(h.startswith("Location is file descriptor") for h, _ in stacks)
        tops, allfn = [], []
        for head, frames in racing:
            inrepo = [f for f, path in frames if "harness" not in path and
                      os.path.realpath(path.split(":")[0]).startswith(rrepo + os.sep)]
            allfn.append(set(inrepo))
            tops.append(inrepo[0] if inrepo else "harness:" + next((f for f, path in frames if "pthr_worker.c" in path), "?"))
        key = None
        if len(allfn) == 2:
            for freer, other, known in KNOWN_SHAPES:
                if (freer in allfn[0] and other in allfn[1]) or (freer in allfn[1] and other in allfn[0]):
                    key = known
        if key is None:
            key = "pthread;tsan;%s;%s" % (kind.replace(" ", "-"), "|".join(sorted(set(tops))))
        out.append((key, is_fd, block.strip().splitlines()[:14]))
    return out


def run_tsan(ctx, tbin, items, seed, runs):
    supp = os.path.join(ctx.build, "tsan.supp")
    with open(supp, "w") as f:
        f.write(SUPP)
    env = dict(os.environ, TSAN_OPTIONS="suppressions=%s halt_on_error=0 exitcode=0 report_signal_unsafe=0 "
                                        "second_deadlock_stack=0 history_size=3" % supp)

    def one(it):
        fl, il, ol, mx, prog, src = it
        res = []
        for jitter in (0, 150):
            r = ctx.run([tbin, fl, str(il), str(ol), str(mx), prog, src, str(seed), str(jitter), str(runs)], timeout=600, env=env)
            if r.returncode not in (0,):
                raise vlib.ToolError("pthr_worker_tsan %s rc=%d %s" % (" ".join(map(str, it)), r.returncode, (r.stderr or "")[-800:]))
            res += [(k, fd, lines, it, jitter) for k, fd, lines in tsan_reports(r.stderr or "", vlib.REPO)]
        return res
    allr = []
    with concurrent.futures.ThreadPoolExecutor(max_workers=4) as ex:
        for res in ex.map(one, items):
            allr += res
    return allr


def run_part(ctx):
    rng = vlib.Rng(ctx.seed * 7919 + 6)
    items = list(FIXED)
    nrand = 10 if ctx.quick else 120
    for k in range(nrand):
        fl = ("lin", "sink", "src")[k % 3]
        mx = 0 if rng.below(5) == 0 else 1
        prog = gen_prog(rng, fl)
        if mx == 0:
            prog = prog.replace("z", "w").replace("t", "w")
        items.append((fl, 1 + rng.below(2), 1 + rng.below(2), mx, prog, gen_src(rng) if fl == "src" else "-"))
    with concurrent.futures.ThreadPoolExecutor(max_workers=2) as bex:
        fb, ft = bex.submit(build, ctx), bex.submit(build_tsan, ctx)
        binp, tbin = fb.result(), ft.result()
    runs = 12 if ctx.quick else 150
    pool = []

    def explore(it):
        hs = []
        for j, jitter in enumerate((0, 40, 300)):
            hs += run_prog(ctx, binp, it, ctx.seed * 100 + j * 1000, jitter, runs)
        return hs
    with concurrent.futures.ThreadPoolExecutor(max_workers=4) as ex:
        for it, hs in zip(items, ex.map(explore, items)):
            pool += hs
    ctx.evaluations += len(pool)
    ctx.extra["pthread_executions"] = len(pool)
    ctx.extra["pthread_programs"] = len(items)
    hung = sum(1 for h in pool if h[-1]["e"] in ("Hang", "Crash"))
    ctx.extra["pthread_hung_or_crashed"] = hung
    rej = c06_worker.validate_chunks(ctx, pool, "pt")
    first = {}
    for idx, line, _ in rej:
        key, why = key_of(pool[idx], line)
        first.setdefault(key, (idx, line, why))
    unrep = []
    for key, (idx, line, why) in first.items():
        h = pool[idx]
        got = reproduce(ctx, binp, h, key, 300 if ctx.quick else 3000)
        if got is None:
            unrep.append({"key": key, "cmd": cmd_of(h[0]), "event": h[line - 1] if 0 < line <= len(h) else None})
            continue
        h2, line2 = got
        ev = h2[line2 - 1] if 0 < line2 <= len(h2) else {}
        r0 = h2[0]
        ctx.violation(key, "trace of the real worker pipe between two real threads (%s, queues %d/%d, mutex %d, program %s) "
                      "rejected at event %d %s: %s" % (r0["fl"], r0["il"], r0["ol"], r0["mx"], r0["what"], line2, json.dumps(ev), why),
                      {"stage": "pthread", "cmd": cmd_of(r0), "reset": r0, "trace": h2})
    ctx.extra["pthread_unreproduced"] = unrep
    if unrep:
        ctx.notes.append("pthread stage: %d rejected execution(s) did not reproduce and are not reported" % len(unrep))
    # vacuity: corrupted copies of an accepted execution must be rejected
    bad = set(i for i, _, _ in rej)
    best = []
    for i, h in enumerate(pool):
        if i not in bad and h[0]["mx"] == 1 and h[0]["fl"] != "src":
            c = corrupt(h)
            if len(c) > len(best):
                best = c
            if len(best) >= 6:
                break
    if best:
        crej = set(i for i, _, _ in ctx.validate_histories_1pass("Worker_Trace", "Worker_Trace.cfg", [c for _, c in best], tag="ptc"))
        ctx.traces -= len(best)
        missed = [s for i, (s, c) in enumerate(best) if i not in crej]
        if missed:
            raise vlib.ToolError("vacuity: corrupted pthread traces accepted: %s" % missed)
    ctx.extra["pthread_corrupted_traces_rejected"] = len(best)
    for h in pool:
        if h[0]["fl"] == "lin" and h[0]["mx"] == 1:
            ctx.sample({"pthread_program": h[0]["what"], "trace": [e for e in h[1:] if e["e"] not in ("Lock", "Unlock", "RLeave")][:24]}, limit=8)
            break
    # ThreadSanitizer
    reports = run_tsan(ctx, tbin, items, ctx.seed, 6 if ctx.quick else 60)
    kinds, fdkinds = {}, {}
    for key, is_fd, lines, it, jitter in reports:
        if is_fd:
            # races on a file descriptor number (close against a system call on the same number): recorded, not
            # judged - the statement is about memory, and the ones seen are the descriptor side of the recorded
            # use-after-free races and of libev removing a watcher's descriptor from its poll set lazily
            fdkinds[key] = fdkinds.get(key, 0) + 1
            continue
        kinds.setdefault(key, (lines, it, jitter, 0))
        l0, i0, j0, n = kinds[key]
        kinds[key] = (l0, i0, j0, n + 1)
    ctx.extra["pthread_tsan_reports"] = {k: v[3] for k, v in kinds.items()}
    ctx.extra["pthread_tsan_descriptor_reports_not_judged"] = fdkinds
    ctx.extra["pthread_tsan_executions"] = len(items) * 2 * (6 if ctx.quick else 60)
    for key, (lines, it, jitter, n) in kinds.items():
        ctx.violation(key, "ThreadSanitizer reports an unsynchronised access between the application and the worker thread "
                      "(%d reports; first with program %s): %s" % (n, " ".join(map(str, it)), " / ".join(l.strip() for l in lines[:9])),
                      {"stage": "pthread-tsan", "item": list(it), "jitter": jitter, "report": lines})
    ctx.assumptions += [
        "pthread stage: the log of the logging build is written under one lock, so its order is consistent with real time; "
        "the lock itself orders the two threads at every observation, which is why data races are looked for in a second "
        "build without any log (ThreadSanitizer)",
        "pthread stage: real schedules are sampled (pacing seeds, jitter at the hooks), not enumerated; a rejected execution "
        "is reported only if it reproduces"]
    ctx.trusted += ["harness/pthr_worker.c", "libev, glibc pthreads", "gcc ThreadSanitizer (with the suppression race:uring_)"]


def replay(ctx, rp):
    r = rp.get("replay", {})
    if r.get("stage") == "pthread":
        binp = build(ctx)
        h = r["trace"]
        got = reproduce(ctx, binp, h, rp.get("key"), 3000)
        if got:
            print("REPRODUCED property=C06 key=%s" % rp.get("key"))
            return 1
        print("NOT-REPRODUCED property=C06 key=%s" % rp.get("key"))
        return 0
    if r.get("stage") == "pthread-tsan":
        tbin = build_tsan(ctx)
        reps = run_tsan(ctx, tbin, [tuple(r["item"])], ctx.seed, 60)
        if any(k == rp.get("key") for k, _, _, _, _ in reps):
            print("REPRODUCED property=C06 key=%s" % rp.get("key"))
            return 1
        print("NOT-REPRODUCED property=C06 key=%s" % rp.get("key"))
        return 0
    return None
