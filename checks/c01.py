"""C01 - every refcounted object is freed exactly once and never used afterwards.

1. TLC checks spec/MCLifecycle.tla (the reference handling of filters built on
   upipe_helper_output, of recording sinks and of the queue sink / queue
   source pair, transcribed from the C code as events of the abstract object
   table spec/Lifecycle.tla) for EVERY API program over small pipelines:
   RcIsHolders, DestroyOnce, NoUseAfterDestroy, QuiescentClean; broken
   transcriptions (negative cfgs) must be rejected; a register-based vacuity
   guard replaces -coverage (which exhausts the heap on recursive operators).
2. spec -> code: the programs TLC generates (BFS and simulation), with what
   the specification predicts after every call (pipes that died, counter of
   every pipe still held, live urefs), are executed on the real pipes by
   harness/pipe_driver.c + harness/pd_ext_c01.c (ASan+UBSan+LSan, pool depth
   0 and 2) and compared call by call.
3. code -> spec: every execution (the TLC programs and seeded random scripts
   over all pipe types of the registry and of the extension, with
   application-level uref/ubuf dup/attach/detach, options, requests, the mock
   event loop) is recorded event by event (hook H4, interposed managers,
   sanitizer reports) and validated by spec/Lifecycle_Trace.tla.
A violation is an execution of the real code that TLC rejects, reproduced by
re-running it, shrunk to a minimal script; its key is the normalised call
sequence on the pipe concerned.
"""
import json, os, re, threading, time
import vlib
from checks import pipecommon

LEVEL = "model_checking"
EXTRA_MODULES = ["queue_source", "queue_sink", "queue", "buffer", "discard_blocking", "even", "time_limit",
                 "rate_limit", "trickplay", "dump", "burst", "rtp_h264", "rtp_mpeg4", "audio_split",
                 "separate_fields", "dtsdi", "ntsc_prepend", "audiocont", "videocont", "multicat_probe",
                 "m3u_reader", "stream_switcher", "play", "void_source", "sync", "block_to_sound"]
EXTRA = ["vloop.c", "lib/upipe/uprobe_upump_mgr.c", "lib/upipe/uprobe_uref_mgr.c", "lib/upipe/uprobe_uclock.c",
         "lib/upipe/ubuf_pic.c"]
TRACE = ("Lifecycle_Trace", "Lifecycle_Trace.cfg")
PRELUDE = ["new zz null", "rel zz"]

REGISTRY_TYPES = ["idem", "dup", "setattr", "setflowdef", "probe_uref", "skip", "htons", "delay", "match_attr",
                  "null", "agg", "chunk_stream", "setrap", "noclock", "nodemux", "genaux", "tblk"]
EXT_TYPES = ["buffer", "disblo", "even", "time_limit", "rate_limit", "trickp", "dump", "burst",
             "multicat_probe", "m3u_reader", "stream_switcher", "play", "sync", "block_to_sound", "rtp_h264",
             "rtp_mpeg4", "audio_split", "separate_fields", "dtsdi", "ntsc_prepend", "audiocont", "videocont"]
# pipe types that create sub-pipes with upipe_void_alloc_sub
SUB_TYPES = ["dup", "even", "trickp", "stream_switcher", "play", "sync", "audio_split", "audiocont", "videocont"]
# filters whose reference handling is the one transcribed as class "lin" of MCLifecycle.tla
LIN_TYPES = ["idem", "setattr", "probe_uref", "setrap", "noclock", "nodemux", "delay"]
OPTIONS = {"skip": [("offset", ["0", "2", "4"])], "delay": [("delay", ["0", "27000", "-5"])],
           "setattr": [("dict", ["a=1", "none", "b=2"])], "setflowdef": [("dict", ["a=1", "none"])],
           "time_limit": [("limit", ["27000", "0"])], "rate_limit": [("limit", ["1000", "0"])],
           "buffer": [("max_size", ["100", "0"])], "qsink": [("max_length", ["1", "3"])],
           "agg": [("output_size", ["16", "100"])]}


# ---------------------------------------------------------------- executions
class Exe:
    def __init__(self, cmds, source, pool=0, pred=None, names=None):
        self.cmds = list(cmds)
        self.source = source
        self.pool = pool
        self.pred = pred              # [(index of the rcs command, predicted record)]
        self.events = None
        self.blocks = None
        self.san = None
        self.rc = None
        self.stderr = ""
        self.leaks = True             # run with LeakSanitizer

    def script(self):
        return PRELUDE + ["base %d" % self.pool] + self.cmds


def build(ctx):
    srcs = pipecommon.driver_sources(EXTRA_MODULES, EXTRA, ["pd_ext_c01.c"])
    objs = ctx.cc_objs(srcs, san="asan")
    return ctx.cc("pd_c01", objs, san="asan", flags=["-Wl,--wrap=malloc"])


SAN_ENV = {"ASAN_OPTIONS": "detect_leaks=1:abort_on_error=0:exitcode=97:allocator_may_return_null=1",
           "UBSAN_OPTIONS": "print_stacktrace=1:halt_on_error=1:exitcode=98",
           "LSAN_OPTIONS": "exitcode=96"}


def san_kind(rc, err):
    if "attempting double-free" in err:
        return "double-free"
    if "heap-use-after-free" in err or "use-after-poison" in err or "stack-use-after" in err:
        return "use-after-free"
    if "AddressSanitizer" in err:
        m = re.search(r"AddressSanitizer: ([\w-]+)", err)
        return m.group(1) if m else "asan"
    if "runtime error" in err:
        return "undefined-behaviour"
    if "LeakSanitizer" in err or "detected memory leaks" in err:
        return "leak"
    if rc == 124:
        return "hang"
    if rc != 0:
        return "crash"
    return None


SKIP_FRAMES = ("__interceptor", "__asan", "free", "malloc", "tramp", "urefcount_release", "upipe_release", "uref_free",
               "ubuf_free", "udict_free", "upool_free", "upool_alloc", "upool_alloc_internal", "uprobe_release",
               "upipe_mgr_release", "ubuf_mgr_release", "uref_mgr_release", "umem_free", "urequest_free",
               "upipe_control_nodbg_va", "upipe_control_va", "upipe_control", "upipe_alloc_va", "upipe_alloc")


def san_site(err):
    """Stable description of an AddressSanitizer use-after-free / double-free
    report: which kind of object (function that allocated it) and in which
    function of the repository the release that freed it was issued."""
    sect, stacks = "access", {"access": [], "freed": [], "alloc": []}
    for l in err.splitlines():
        if l.startswith("freed by thread"):
            sect = "freed"
        elif l.startswith("previously allocated by"):
            sect = "alloc"
        elif l.startswith("SUMMARY") or l.startswith("Shadow bytes"):
            break
        m = re.match(r"\s+#\d+ 0x[0-9a-f]+ in (\S+) (\S+)", l)
        if m:
            stacks[sect].append((m.group(1), m.group(2)))

    def first_repo(st, skip_destructors=False):
        for fn, where in st:
            if "/repo/" not in where or fn in SKIP_FRAMES:
                continue
            if skip_destructors and re.search(r"(_free|_free_void|_free_inner|_dead_urefcount|_no_ref|_clean_\w+)$", fn):
                continue
            return fn
        return None
    obj = first_repo(stacks["alloc"])
    rel = first_repo(stacks["freed"], skip_destructors=True)
    if obj is None and rel is None:
        return None
    return "object=%s;released-in=%s" % (obj or "?", rel or "application")


def run_one(ctx, binp, exe, timeout=10):
    env = SAN_ENV if exe.leaks else dict(SAN_ENV, ASAN_OPTIONS=SAN_ENV["ASAN_OPTIONS"].replace("detect_leaks=1", "detect_leaks=0"))
    r = ctx.run([binp, str(exe.pool)], input="\n".join(exe.script()) + "\nquit\n", timeout=timeout, env=env)
    exe.rc = r.returncode
    exe.stderr = (r.stderr or "")[-6000:]
    exe.san = san_kind(r.returncode, r.stderr or "")
    exe.site = san_site(r.stderr or "") if exe.san in ("use-after-free", "double-free") else None
    exe.raw = r.stdout.splitlines()
    if len(exe.raw) > 60000:
        # an execution that floods (a livelock that keeps printing): inconclusive, like a hang
        exe.san = "hang"
        exe.raw = exe.raw[:2000]
    exe.events, exe.blocks = to_events(exe)


def execute(ctx, binp, exes, jobs=6):
    err = []
    it = iter(list(exes))
    lock = threading.Lock()

    def work():
        while True:
            with lock:
                e = next(it, None)
            if e is None or err:
                return
            try:
                run_one(ctx, binp, e)
            except Exception as ex:
                err.append(ex)
    ths = [threading.Thread(target=work) for _ in range(jobs)]
    for t in ths:
        t.start()
    for t in ths:
        t.join()
    if err:
        raise err[0] if isinstance(err[0], vlib.ToolError) else vlib.ToolError("harness driver: %r" % err[0])


CREATE = ("new", "cnew", "sink", "sub")


def to_events(exe):
    """Translate the ordered output of the harness into events of
    Lifecycle_Trace.tla (pure translation: no judgement here).  Returns
    (events, blocks) where blocks[i] = (command tokens, first event index)."""
    evs = [{"e": "Reset"}]
    blocks = []
    names = {}          # handle name -> object id (from `who`)
    mgr = {}            # manager name -> object id (from `base`)
    cur = None
    app_rel = None      # object whose next release is the application's
    finished = False
    for line in exe.raw:
        t = line.split()
        if not t:
            continue
        if t[0] == "cmd":
            cur = t[1:]
            blocks.append((cur, len(evs)))
            app_rel = None
            if cur[0] == "rel" and len(cur) > 1 and cur[1] in names:
                app_rel = names[cur[1]]
            if cur[0] == "quit":
                finished = True
            continue
        if t[0] == "rcmd":
            # a command run by a probe from inside its call-back (reaction): same block, but a release it
            # performs is the application's
            if len(t) > 2 and t[1] == "rel" and t[2] in names:
                app_rel = names[t[2]]
            continue
        if t[0] == "rc" and len(t) >= 3:
            k, o = t[1], t[2]
            if k == "i":
                evs.append({"e": "Init", "o": o, "v": int(t[3])})
            elif k in ("u", "r"):
                ev = {"e": "Use" if k == "u" else "Rel", "o": o, "v": int(t[3]), "n": int(t[4]), "h": "int"}
                if k == "r" and app_rel is not None and o == app_rel:
                    ev["h"] = "app"
                    app_rel = None
                evs.append(ev)
            elif k == "d":
                evs.append({"e": "Destroy", "o": o})
            elif k == "e":
                evs.append({"e": "End", "o": o})
            else:
                evs.append({"e": "Unparsed", "line": line})
        elif t[0] == "base" and len(t) > 1:
            for kv in t[1:]:
                n, _, o = kv.partition("=")
                if o != "o-1":
                    mgr[n] = o
                    evs.append({"e": "Adopt", "o": o})
        elif t[0] == "who" and len(t) >= 3:
            if t[2] != "o-1" and t[1] not in names:
                names[t[1]] = t[2]
                evs.append({"e": "Adopt", "o": t[2]})
        elif t[0] == "teardown" and len(t) == 2:
            app_rel = mgr.get(t[1])
        elif t[0] == "rcs":
            objs, vals = [], []
            for kv in t[1:]:
                n, _, v = kv.partition("=")
                if n in names and v.isdigit():
                    objs.append(names[n])
                    vals.append(int(v))
                elif n in mgr and v.isdigit():
                    objs.append(mgr[n])
                    vals.append(int(v))
                elif n == "udictm" and "udict" in mgr:
                    objs.append(mgr["udict"])
                    vals.append(int(v))
            evs.append({"e": "Audit", "objs": objs, "vals": vals})
        elif t[0] in ("uref", "ubuf", "udict", "mem", "blk", "pump") and len(t) >= 3:
            if t[1] == "alloc":
                evs.append({"e": "Alloc", "o": t[2], "k": {"blk": "blocker"}.get(t[0], t[0])})
            elif t[1] == "free":
                evs.append({"e": "Free", "o": t[2] if t[2] != "UNKNOWN" else "?"})
            else:
                evs.append({"e": "Lost", "o": t[2]})
        elif t[0] == "app" and len(t) >= 3:
            evs.append({"e": "Take" if t[1] == "take" else "Give", "o": t[2]})
    exe.names = names
    if exe.san is not None:
        evs.append({"e": "San", "kind": exe.san})
    elif finished and blocks and any(b[0][0] == "teardown" for b in blocks):
        evs.append({"e": "Quiescent"})
    return evs, blocks


# ---------------------------------------------------------------- validation
def validate(ctx, exes, tag):
    """One TLC run of Lifecycle_Trace over all executions; returns
    [(exe, line in execution (1-based), sentence)]."""
    if not exes:
        return []
    path = os.path.join(ctx.build, "%s.ndjson" % tag)
    starts = []
    n = 1
    with open(path, "w") as f:
        for i, e in enumerate(exes):
            starts.append(n)
            for k, ev in enumerate(e.events):
                if k == 0:
                    ev = dict(ev)
                    ev["hid"] = i
                f.write(json.dumps(ev, separators=(",", ":")) + "\n")
            n += len(e.events)
    accepted, res, line = ctx.validate_trace(TRACE[0], TRACE[1], path, timeout=1500, heap="6g")
    if not accepted:
        raise vlib.ToolError("Lifecycle_Trace did not consume the trace (line %s, violated %s)\n%s"
                             % (line, res.violated, res.out[-2500:]))
    m = re.search(r'"TRACE_BAD",\s*(\{.*?\})\s*>>', res.out, re.S)
    if not m:
        raise vlib.ToolError("Lifecycle_Trace: no TRACE_BAD report\n" + res.out[-2000:])
    bad = re.findall(r'<<(\d+), (\d+), "(\w+)">>', m.group(1))
    ctx.traces += len(exes)
    out = []
    for a, b, w in bad:
        i = int(a)
        out.append((exes[i], int(b) - starts[i] + 1, w))
    return out


def validate_parallel(ctx, exes, tag, jobs=3):
    res, err = [], []
    step = max(1, (len(exes) + jobs - 1) // jobs)

    def one(k, part):
        try:
            res.extend(validate(ctx, part, "%s%d" % (tag, k)))
        except Exception as ex:
            err.append(ex)
    ths = [threading.Thread(target=one, args=(k, exes[b:b + step])) for k, b in enumerate(range(0, len(exes), step))]
    for t in ths:
        t.start()
    for t in ths:
        t.join()
    if err:
        raise err[0] if isinstance(err[0], vlib.ToolError) else vlib.ToolError("trace validation: %r" % err[0])
    return res


# ---------------------------------------------------------------- keys, shrinking
NORM = {"out": "set_output", "setfd": "set_flow_def", "usetfd": "set_flow_def", "in": "input", "uin": "input",
        "inp": "input(pump)",
        "outself": "set_output(get_output)", "fdself": "set_flow_def(get_flow_def)",
        "flush": "flush", "rel": "release", "sub": "alloc_sub", "reg": "register_request",
        "unreg": "unregister_request", "opt": "option"}


def block_of(exe, line):
    """Index of the command during which event `line` (1-based) occurred."""
    idx = -1
    for i, (cmd, first) in enumerate(exe.blocks):
        if first <= line - 1:
            idx = i
    return idx


def types_of(exe):
    ty = {}
    for c in exe.script():
        t = c.split()
        if t[0] in ("new", "cnew") and len(t) >= 3:
            ty[t[1]] = t[2]
        elif t[0] == "sink":
            ty[t[1]] = "sink"
        elif t[0] == "sub" and len(t) >= 3:
            ty[t[1]] = ty.get(t[2], "?") + ".sub"
    return ty


def norm_cmd(t):
    n = NORM.get(t[0])
    if n is None:
        return None
    if t[0] == "out":
        return "set_output(%s)" % ("NULL" if t[2] == "null" else "x")
    if t[0] == "opt":
        return "%s_%s" % (t[2], t[3]) if len(t) > 3 else "option"
    return n


def target_of(exe, line):
    """The pipe a rejected event is attributed to: the pipe the current
    command is addressed to; for a command without a pipe (loop, advance,
    answer) the named pipe whose destructor is running."""
    ty = types_of(exe)
    bi = block_of(exe, line)
    cmd = exe.blocks[bi][0] if bi >= 0 else ["?"]
    if cmd[0] in NORM and len(cmd) > 1 and cmd[1] in ty:
        return cmd[1]
    inv = {o: n for n, o in getattr(exe, "names", {}).items()}
    stack = []
    for ev in exe.events[:line - 1]:
        if ev["e"] == "Destroy":
            stack.append(ev["o"])
        elif ev["e"] == "End" and stack and stack[-1] == ev["o"]:
            stack.pop()
    for o in reversed(stack):
        if o in inv and inv[o] in ty:
            return inv[o]
    return None


def key_of(exe, line, why):
    ty = types_of(exe)
    bi = block_of(exe, line)
    ev = exe.events[line - 1] if 0 < line <= len(exe.events) else {}
    target = target_of(exe, line)
    leak = ev.get("e") == "Quiescent" or ev.get("kind") == "leak"
    if leak:
        # name the first pipe (creation order) whose refcount was never destroyed
        ended = {e["o"] for e in exe.events if e["e"] == "End"}
        inv = {o: n for n, o in getattr(exe, "names", {}).items()}
        left = [inv[e["o"]] for e in exe.events if e["e"] == "Init" and e["o"] not in ended and e["o"] in inv]
        left = [n for n in left if n in ty and n != "se"]
        target = left[0] if left else None
    if ev.get("e") == "San" and ev.get("kind") in ("use-after-free", "double-free"):
        site = getattr(exe, "site", None)
        if site is not None:
            return "%s;%s" % (ev["kind"], site)
    if target is not None:
        seq = []
        for c, _ in exe.blocks[:bi + 1 if bi >= 0 else None]:
            if len(c) > 1 and c[1] == target:
                n = norm_cmd(c)
                if n:
                    seq.append(n)
        return "%s;%s%s" % (ty[target], ",".join(seq), ";never destroyed" if leak else "")
    # no pipe to attribute it to: name every call of the body
    seq = []
    for c in exe.cmds[:getattr(exe, "nbody", len(exe.cmds))]:
        t = c.split()
        n = norm_cmd(t)
        APPOPS = {"ualloc": "uref_alloc", "udup": "uref_dup", "ufree": "uref_free", "udetach": "uref_detach_ubuf",
                  "uattach": "uref_attach_ubuf", "bdup": "ubuf_dup", "bfree": "ubuf_free",
                  "balloc": "ubuf_block_alloc", "bappend": "ubuf_block_append", "binsert": "ubuf_block_insert",
                  "btrunc": "ubuf_block_truncate", "bdelete": "ubuf_block_delete", "bresize": "ubuf_block_resize",
                  "bsplit": "ubuf_block_split", "bsplice": "ubuf_block_splice", "bread": "ubuf_block_read"}
        if n is None and t[0] in APPOPS:
            seq.append(APPOPS[t[0]])
        elif n and len(t) > 1 and t[1] in ty:
            seq.append("%s.%s" % (ty[t[1]], n))
    what = "leak" if leak else (ev.get("kind") or why)
    return "%s;%s" % (what, ",".join(seq))


def well_formed(cmds):
    """Static check that a (shrunk) script still respects the ownership
    rules: every name is created before it is used and never used after
    the application gave it up."""
    live = set()
    fdset = set()      # pipes that were given a flow definition
    sinks = set()
    regs = {}          # request -> pipe it is registered on
    stall = any(c.split()[0] in ("new", "cnew") and c.split()[2] in STALL_TYPES for c in cmds if len(c.split()) > 2)
    outof, kinds, released = {}, {}, False
    nstall = 0
    # (the directed scripts that chain two self-holding pipes on purpose give the second one an answering probe)
    directed_ok = any(c.startswith("probeprov") for c in cmds)
    gone = set()       # handles a reaction (onev ... rel X) may have released: only the epilogue may name them again
    need_who = set()   # handles whose object id has not been announced yet (`who` right after the creation:
                       # without it the application's reference on the object is unknown to the trace)
    for c in cmds:
        t = c.split()
        k = t[0]
        if k == "reqmode" and stall and len(t) > 2 and t[2] != "hold":
            return False              # with a self-holding pipe every sink must be able to answer
        if k == "who":
            need_who.discard(t[1])
        elif need_who and any(x in need_who for x in t[1:]):
            return False
        if k == "onev":
            # onev <pipe> <event> rel <handle>: the probe of <pipe> releases <handle> when it catches <event>
            if len(t) != 5 or t[3] != "rel" or t[1] not in live or t[4] not in live or t[4] in regs.values():
                return False
            gone.add(t[4])
            continue
        if gone and k not in ("rel", "flush") and not (k == "out" and len(t) > 2 and t[2] == "se"):
            if any(x in gone for x in t[1:]):
                return False
        if k in ("new", "cnew", "sink", "sub"):
            need_who.add(t[1])
        if k in ("new", "cnew") and len(t) > 2:
            kinds[t[1]] = t[2]
            if stall and t[1] != "zz" and t[2] not in FORWARDERS and t[2] not in STALL_TYPES:
                return False          # (a pipe that does not hand requests on can never answer a self-holding one)
            if t[2] in STALL_TYPES:
                nstall += 1
                if nstall > 1 and not directed_ok:
                    return False      # (one self-holding pipe per script: genaux intercepts the requests of a tblk)
        if k == "sub":
            kinds[t[1]] = "sub"
        if stall:
            if k == "out" and len(t) > 2:
                if t[2] == "null" and released:
                    return False      # a released pipe upstream may lose its path to a sink
                outof[t[1]] = None if t[2] == "null" else t[2]
            if k == "rel" and t[1] in kinds:
                if kinds[t[1]] not in ("qsrc", "qsink", "null", "sub") and outof.get(t[1]) is None:
                    return False      # released without output while a self-holding pipe exists
                released = True
        if k == "sink":
            sinks.add(t[1])
        if k in ("setfd", "usetfd"):
            fdset.add(t[1])
        if k in ("in", "uin", "inp") and t[1] not in sinks and t[1] not in fdset:
            return False              # buffers only after a flow definition
        if k == "reg":
            if regs.get(t[2]) is not None:
                return False
            regs[t[2]] = t[1]
        if k == "unreg":
            if regs.get(t[2]) != t[1]:
                return False
            regs[t[2]] = None
        if k == "rel" and t[1] in regs.values():
            return False              # unregister before releasing the pipe
        if k in ("failmem", "failmalloc", "failoff"):
            continue
        if k == "pump":
            if t[1] in live:
                return False
            live.add(t[1])
        elif k in ("pstart", "pstop", "pstate"):
            if t[1] not in live:
                return False
        elif k == "pfree":
            if t[1] not in live:
                return False
            live.discard(t[1])
        elif k == "inp":
            if t[1] not in live or t[2] not in live:
                return False
        elif k in ("new", "cnew", "sink", "ualloc", "ufd", "req"):
            if t[1] in live:
                return False
            if k == "cnew" and len(t) > 3 and t[2] == "qsink" and t[3] not in live:
                return False
            live.add(t[1])
        elif k == "sub":
            if t[1] in live or t[2] not in live:
                return False
            live.add(t[1])
        elif k in ("udup", "bdup"):
            if t[1] not in live or t[2] in live:
                return False
            live.add(t[2])
        elif k == "balloc":
            if t[1] in live:
                return False
            live.add(t[1])
        elif k in ("bappend", "binsert"):
            g = t[2] if k == "bappend" else t[3]
            if t[1] not in live or g not in live or g == t[1]:
                return False
            live.discard(g)
        elif k in ("bsplit", "bsplice"):
            n = t[3] if k == "bsplit" else t[4]
            if t[1] not in live or n in live:
                return False
            live.add(n)
        elif k in ("btrunc", "bdelete", "bresize", "bread"):
            if t[1] not in live:
                return False
        elif k == "udetach":
            if t[1] not in live or t[2] in live:
                return False
            live.add(t[2])
        elif k == "uattach":
            if t[1] not in live or t[2] not in live:
                return False
            live.discard(t[2])
        elif k in ("rel", "ufree", "bfree", "reqclean"):
            if t[1] not in live:
                return False
            live.discard(t[1])
        elif k in ("uin", "usetfd", "reg", "unreg"):
            if t[1] not in live or t[2] not in live:
                return False
            if k == "uin":
                live.discard(t[2])
        elif k == "out":
            if t[1] not in live or (t[2] != "null" and t[2] not in live):
                return False
        elif k in ("setfd", "in", "ins", "flush", "opt", "who", "caps", "policy", "reqmode", "probeprov", "getfd", "getout",
                   "outself", "fdself"):
            if t[1] not in live:
                return False
        elif k == "provide":
            if t[1] not in live or t[2] not in live:
                return False
        elif k == "teardown":
            if live:
                return False          # everything must have been released before the managers go
    return not live


def same_failure(e, line, why, ref):
    ev = e.events[line - 1] if 0 < line <= len(e.events) else {}
    return why == ref[0] and ev.get("e") == ref[1] and ev.get("kind") == ref[2]


def shrink(ctx, binp, exe, line, why, rounds=24):
    """Delta debugging (chunks, then single commands) on the BODY of the
    script; the epilogue is recomputed for every candidate, candidates must
    respect the ownership rules and the input contract, and Lifecycle_Trace
    must reject them for the same sentence with the same kind of event.
    Returns (execution, line, sentence)."""
    ev0 = exe.events[line - 1] if 0 < line <= len(exe.events) else {}
    ref = (why, ev0.get("e"), ev0.get("kind"))
    body = exe.cmds[:getattr(exe, "nbody", len(exe.cmds))]
    if "teardown" in body:
        body = body[:body.index("teardown")]
    first = Exe(body + epilogue_for(body), exe.source, exe.pool)
    first.nbody = len(body)
    if not well_formed(first.cmds):
        return exe, line, why
    execute(ctx, binp, [first], jobs=1)
    r = validate(ctx, [first], "shr") if first.san != "hang" else []
    if not r or not same_failure(first, r[0][1], r[0][2], ref):
        return exe, line, why                 # only fails with its own epilogue: keep it as it is
    cur, cline = first, r[0][1]
    n = 2
    while rounds > 0 and cur.nbody > 1:
        rounds -= 1
        body = cur.cmds[:cur.nbody]
        chunk = max(1, len(body) // n)
        cands = []
        for i in range(0, len(body), chunk):
            b = body[:i] + body[i + chunk:]
            c = Exe(b + epilogue_for(b), cur.source, cur.pool)
            c.nbody = len(b)
            if well_formed(c.cmds):
                cands.append(c)
        rej = []
        if cands:
            execute(ctx, binp, cands, jobs=6)
            rej = validate(ctx, [e for e in cands if e.san != "hang"], "shr")
        ok = [(e, l) for e, l, w in rej if same_failure(e, l, w, ref)]
        if ok:
            ok.sort(key=lambda x: x[0].nbody)
            cur, cline = ok[0]
            n = max(2, n - 1)
        elif chunk == 1:
            break
        else:
            n = min(len(body), n * 2)
    return cur, cline, why


def canonical_trigger(ctx, binp, exe, line, why):
    """The defect is latent after the calls that precede the failing one:
    if releasing the pipe at that point is rejected for the same sentence,
    `release` is taken as the canonical observer (one key per defect
    instead of one per way of stumbling on it)."""
    bi = block_of(exe, line)
    if bi < 0:
        return exe, line
    cmd = exe.blocks[bi][0]
    ty = types_of(exe)
    if cmd[0] not in NORM or cmd[0] == "rel" or len(cmd) < 2 or cmd[1] not in ty:
        return exe, line
    k = bi - (len(PRELUDE) + 1)
    if k < 0 or k >= getattr(exe, "nbody", 0):
        return exe, line
    body = exe.cmds[:k] + ["rel %s" % cmd[1]]
    e = Exe(body + epilogue_for(body), exe.source, exe.pool)
    e.nbody = len(body)
    if not well_formed(e.cmds):
        return exe, line
    execute(ctx, binp, [e], jobs=1)
    r = validate(ctx, [e], "can")
    if r and r[0][2] == why:
        b2 = block_of(e, r[0][1])
        if b2 >= 0 and b2 - (len(PRELUDE) + 1) == k:
            return e, r[0][1]
    return exe, line


def report(ctx, binp, exe, line, why, others=0):
    again = Exe(exe.cmds, exe.source, exe.pool)
    again.nbody = getattr(exe, "nbody", len(exe.cmds))
    execute(ctx, binp, [again], jobs=1)
    r2 = validate(ctx, [again], "re")
    if not r2:
        raise vlib.ToolError("rejected execution did not reproduce (flaky harness?): %s" % exe.cmds)
    line, why = r2[0][1], r2[0][2]
    small, line, why = shrink(ctx, binp, again, line, why)
    small2, line2 = canonical_trigger(ctx, binp, small, line, why)
    if small2 is not small:
        small, line, why = shrink(ctx, binp, small2, line2, why, rounds=8)
    key = key_of(small, line, why)
    ev = small.events[line - 1] if 0 < line <= len(small.events) else {}
    bi = block_of(small, line)
    nb = getattr(small, "nbody", len(small.cmds))
    what = "%s: %s violated: event %s during `%s` (pool depth %d) is refused by Lifecycle_Trace; minimal script: %s [+ epilogue: %s]" % (
        key, why, json.dumps(ev), " ".join(small.blocks[bi][0]) if bi >= 0 else "?", small.pool,
        "; ".join(c for c in small.cmds[:nb] if not c.startswith(("who", "rcs"))),
        "; ".join(c for c in small.cmds[nb:] if not c.startswith(("who", "rcs", "policy", "reqmode"))))
    if small.san:
        what += " | sanitizer: %s" % (re.findall(r"(ERROR: \w+Sanitizer[^\n]*|runtime error[^\n]*|Assertion[^\n]*)", small.stderr) or [small.san])[0]
    if others:
        what += " | %d other rejected executions with the same signature (pipe type, kind of event)" % others
    ctx.violation(key, what, {"cmds": small.cmds, "pool": small.pool, "source": small.source,
                              "sentence": why, "rejected_event": ev, "original_cmds": exe.cmds})
    return key


def explained(exe, key):
    """True if the script contains, on a pipe of the same type, the call
    sequence of an already reported key (as a subsequence): the rejected
    execution is counted as another manifestation of that defect."""
    typ, _, seq = key.partition(";")
    want = [x for x in seq.split(",") if x]
    if not want or "." in want[0]:
        return False
    ty = types_of(exe)
    for n, t in ty.items():
        if t != typ:
            continue
        hist = []
        for c in exe.script():
            tk = c.split()
            if len(tk) > 1 and tk[1] == n:
                x = norm_cmd(tk)
                if x:
                    hist.append(x)
        i = 0
        for h in hist:
            if i < len(want) and h == want[i]:
                i += 1
        if i == len(want):
            return True
    return False


def corruption_selftest(ctx, exes):
    """Vacuity guard of the trace validation: corrupt a recorded, accepted
    execution in three ways (one release dropped, one free duplicated, one
    counter value changed) and require Lifecycle_Trace to reject each."""
    base = next((e for e in exes if not e.san and len(e.events) > 80
                 and any(ev["e"] == "Free" for ev in e.events) and e.events[-1]["e"] == "Quiescent"), None)
    if base is None:
        raise vlib.ToolError("vacuity: no clean execution to corrupt")
    evs = base.events
    rels = [i for i, ev in enumerate(evs) if ev["e"] == "Rel" and ev.get("v") == 1]
    frees = [i for i, ev in enumerate(evs) if ev["e"] == "Free"]
    variants = []
    i = rels[len(rels) // 2]
    variants.append(("release dropped", evs[:i] + evs[i + 1:]))
    j = frees[len(frees) // 2]
    variants.append(("free duplicated", evs[:j + 1] + [dict(evs[j])] + evs[j + 1:]))
    k = rels[len(rels) // 3]
    variants.append(("counter value changed", evs[:k] + [dict(evs[k], n=evs[k]["n"] + 1)] + evs[k + 1:]))
    fakes = []
    for name, v in variants:
        f = Exe(base.cmds, "corrupted: " + name, base.pool)
        f.events = v
        fakes.append(f)
    ok = Exe(base.cmds, "uncorrupted", base.pool)
    ok.events = evs
    rej = validate(ctx, fakes + [ok], "corrupt")
    ctx.traces -= len(fakes) + 1
    bad = {id(e) for e, _, _ in rej}
    missed = [f.source for f in fakes if id(f) not in bad]
    if missed or id(ok) in bad:
        raise vlib.ToolError("vacuity: Lifecycle_Trace accepted a corrupted trace (%s) or rejected the original" % missed)
    ctx.extra["corrupted_traces_rejected"] = {f.source: w for f in fakes for e, _, w in rej if e is f}


def signature(exe, line, why):
    """Cheap grouping of rejected executions before the (expensive) shrinking."""
    ty = types_of(exe)
    ev = exe.events[line - 1] if 0 < line <= len(exe.events) else {}
    t = target_of(exe, line)
    return (ty.get(t, "-"), ev.get("e", "?") + ":" + str(ev.get("kind", "")))


# ---------------------------------------------------------------- spec -> code
def beh_exe(b, topo, qlen, lin_types, pool, source):
    """A behaviour of MCLifecycle.tla as a harness script; after every call
    `rcs` observes what the specification predicted."""
    n = len(topo)
    name = {}
    si = pi = 0
    for p, c in enumerate(topo, 1):
        if c == "sink":
            name[p] = "s%d" % si
            si += 1
        else:
            name[p] = "p%d" % pi
            pi += 1
    src = next((p for p, c in enumerate(topo, 1) if c == "qsrc"), None)
    cmds, pred = [], []
    held = set()
    bid = 1
    li = 0
    for step in b:
        c, a, x = step["c"], step["a"], step["b"]
        first = len(cmds)
        if c == "new":
            cl = topo[a - 1]
            if cl == "lin":
                cmds.append("new %s %s" % (name[a], lin_types[li % len(lin_types)]))
                li += 1
            elif cl == "sink":
                cmds.append("sink %s" % name[a])
            elif cl == "qsrc":
                cmds.append("cnew %s qsrc %d" % (name[a], qlen))
            else:
                cmds.append("cnew %s qsink %s" % (name[a], name[src]))
            cmds.append("who %s" % name[a])
            held.add(a)
        elif c == "out":
            cmds.append("out %s %s" % (name[a], name[x] if x else "null"))
        elif c == "setfd":
            cmds.append("setfd %s bA" % name[a])
        elif c == "in":
            cmds.append("in %s %d 8" % (name[a], bid))
            bid += 1
        elif c == "flush":
            cmds.append("flush %s" % name[a])
        elif c == "rel":
            cmds.append("rel %s" % name[a])
            held.discard(a)
        elif c == "loop":
            cmds.append("loop")
        elif c == "finish":
            for p in sorted(held):
                cmds.append("rel %s" % name[p])
            held.clear()
            cmds.append("loop")
        cmds.append("rcs")
        pred.append((first, len(cmds) - 1, step))
    cmds.append("teardown")
    e = Exe(cmds, source, pool, pred=pred)
    e.name = name
    e.nbody = next((f for f, _, st in pred if st["c"] == "finish"), len(cmds) - 1)
    return e


def lockstep(e):
    """Compare, call by call, what TLC predicted with what the real code
    printed (string/number equality; no oracle here).  Returns None or the
    first difference."""
    off = len(PRELUDE) + 1
    blocks = e.blocks
    # output lines per command block
    out = []
    cur = None
    for line in e.raw:
        if line.startswith("cmd "):
            cur = []
            out.append(cur)
        elif cur is not None:
            cur.append(line)
    inv = {v: k for k, v in e.name.items()}
    for first, last, step in e.pred:
        if off + last >= len(out):
            return "execution stopped before `%s` (%s)" % (step["c"], e.san)
        dead = []
        for bi in range(off + first, off + last):
            for l in out[bi]:
                t = l.split()
                if len(t) == 3 and t[0] == "ev" and t[2] == "dead" and t[1] in inv:
                    dead.append(inv[t[1]])
        if dead != list(step["dead"]):
            return "after `%s %s %s`: pipes that died %s, predicted %s" % (step["c"], step["a"], step["b"], dead, step["dead"])
        rcs = [l for l in out[off + last] if l.startswith("rcs ")]
        if not rcs:
            return "no rcs line"
        vals = dict(kv.split("=") for kv in rcs[0].split()[1:] if "=" in kv)
        for p, want in enumerate(step["rc"], 1):
            got = int(vals[e.name[p]]) if e.name.get(p) in vals else -1
            if got != want:
                return "after `%s %s %s`: counter of %s is %d, predicted %d" % (step["c"], step["a"], step["b"], e.name[p], got, want)
        if int(vals.get("nuref", -1)) != step["u"]:
            return "after `%s %s %s`: %s live urefs, predicted %d" % (step["c"], step["a"], step["b"], vals.get("nuref"), step["u"])
    return None


def buf_exe(b, pool, source):
    """A behaviour of MCLifecycleBuf.tla (application-level urefs / ubufs) as a script."""
    cmds = ["sink s0", "who s0"]
    pred = []
    lu, lb = set(), set()
    for step in b:
        c, a, x = step["c"], step["a"], step["b"]
        first = len(cmds)
        if c == "ualloc":
            cmds.append("ualloc u%d 8" % a)
            lu.add(a)
        elif c == "udup":
            cmds.append("udup u%d u%d" % (a, x))
            lu.add(x)
        elif c == "ufree":
            cmds.append("ufree u%d" % a)
            lu.discard(a)
        elif c == "uin":
            cmds.append("uin s0 u%d" % a)
            lu.discard(a)
        elif c == "udetach":
            cmds.append("udetach u%d b%d" % (a, x))
            lb.add(x)
        elif c == "uattach":
            cmds.append("uattach u%d b%d" % (a, x))
            lb.discard(x)
        elif c == "bdup":
            cmds.append("bdup b%d b%d" % (a, x))
            lb.add(x)
        elif c == "bfree":
            cmds.append("bfree b%d" % a)
            lb.discard(a)
        elif c == "finish":
            for i in sorted(lu):
                cmds.append("ufree u%d" % i)
            for k in sorted(lb):
                cmds.append("bfree b%d" % k)
            lu.clear()
            lb.clear()
        cmds.append("rcs")
        pred.append((first, len(cmds) - 1, step))
    cmds += ["rel s0", "teardown"]
    e = Exe(cmds, source, pool, pred=pred)
    e.name = {}
    e.buf = True
    e.nbody = next((f for f, _, st in pred if st["c"] == "finish"), len(cmds) - 2)
    return e


def lockstep_buf(e):
    off = len(PRELUDE) + 1
    out = []
    cur = None
    for line in e.raw:
        if line.startswith("cmd "):
            cur = []
            out.append(cur)
        elif cur is not None:
            cur.append(line)
    for first, last, step in e.pred:
        if off + last >= len(out):
            return "execution stopped before `%s` (%s)" % (step["c"], e.san)
        for bi in range(off + first, off + last):
            if any(l.startswith("ret -") for l in out[bi]):
                return "command refused: %s" % out[bi]
        rcs = [l for l in out[off + last] if l.startswith("rcs ")]
        if not rcs:
            return "no rcs line"
        vals = dict(kv.split("=") for kv in rcs[0].split()[1:] if "=" in kv)
        for k in ("nuref", "nubuf", "nudict", "nmem"):
            if int(vals.get(k, -1)) != step[k]:
                return "after `%s %s %s`: %s = %s, predicted %d" % (step["c"], step["a"], step["b"], k, vals.get(k), step[k])
    return None


BCOVER = ["ualloc", "udup", "ufree", "udetach", "uattach", "bdup", "bfree", "uin", "finish", "areafree", "areakept", "replace"]
BNEGATIVE = {"Bneg_attachleak": "QuiescentClean", "Bneg_dupnoshare": "RcIsHolders", "Bneg_freetwice": "DestroyOnce"}
TOPOS = {"lls": ["lin", "lin", "sink"], "ls": ["lin", "sink"], "lss": ["lin", "sink", "sink"],
         "qs": ["qsink", "qsrc", "sink"], "lqs": ["lin", "qsink", "qsrc", "sink"],
         "qqs": ["qsink", "qsink", "qsrc", "sink"]}
COVER = {"lls": ["new", "out", "setfd", "in", "rel", "finish", "cascade", "drop", "forward"],
         "lss": ["new", "out", "setfd", "in", "rel", "finish", "drop", "forward"],
         "qs": ["new", "out", "setfd", "in", "flush", "rel", "loop", "finish", "stall", "watcher", "flushheld",
                "cascade", "refend", "realfree", "qdeliver", "srcend", "drop", "forward"],
         "lqs": ["new", "out", "setfd", "in", "flush", "rel", "loop", "finish", "stall", "watcher", "cascade",
                 "refend", "realfree", "qdeliver", "forward"],
         "qqs": ["new", "out", "in", "flush", "rel", "loop", "finish", "stall", "watcher", "refend", "realfree"]}
NEGATIVE = {"neg_s1": "RcIsHolders", "neg_noselfref": "RcIsHolders", "neg_norelout": "QuiescentClean",
            "neg_leakfd": "QuiescentClean", "neg_doublerel": "NoUseAfterDestroy", "neg_earlykill": "DestroyOnce"}


def run_tlc_jobs(ctx, jobs, par=4):
    res, err = {}, []
    it = iter(jobs)
    lock = threading.Lock()

    def work():
        while True:
            with lock:
                j = next(it, None)
            if j is None or err:
                return
            try:
                mod = j.get("mod", "MCLifecycle")
                res[j["cfg"]] = ctx.tlc(mod, "%s_%s.cfg" % (mod, j["cfg"][1:] if j["cfg"].startswith("B") else j["cfg"]),
                                        workers=1, count=False,
                                        name=j["cfg"], timeout=j.get("timeout", 600), heap=j.get("heap", "3g"),
                                        simulate=j.get("simulate"), depth=j.get("depth"))
            except Exception as ex:
                err.append(ex)
    ths = [threading.Thread(target=work) for _ in range(par)]
    for t in ths:
        t.start()
    for t in ths:
        t.join()
    if err:
        raise err[0] if isinstance(err[0], vlib.ToolError) else vlib.ToolError("TLC driver: %r" % err[0])
    return res


def cov_of(res):
    """Coverage from the COV registers printed by the POSTCONDITION."""
    i = res.out.find('"COV"')
    txt = res.out[i:i + 4000] if i >= 0 else ""
    return {a: (int(b), int(b)) for a, b in re.findall(r'<<"(\w+)", (\d+)>>', txt)}


# ---------------------------------------------------------------- code -> spec: random scripts
def calibrate(ctx, binp):
    """Ask the real code which pipe types can be allocated, which accept the
    flow definition block.A. and which have an input function (a pipe
    without one must not be given buffers; same for their sub-pipes): the
    generator respects what it learns here.  The calibration scripts are
    ordinary API programs and are validated like the others."""
    info = {}
    exes = []
    for t in REGISTRY_TYPES + EXT_TYPES + ["voidsrc"]:
        e = Exe(["cnew p0 %s" % t, "who p0", "caps p0", "setfd p0 bA", "rcs", "flush p0", "rel p0", "loop", "teardown"],
                "calibration " + t)
        e.type = t
        exes.append(e)
        if t in SUB_TYPES:
            e = Exe(["cnew p0 %s" % t, "who p0", "sub q0 p0", "who q0", "caps q0", "setfd q0 bA", "rel q0", "rel p0",
                     "loop", "teardown"], "calibration %s.sub" % t)
            e.type = t + ".sub"
            exes.append(e)
    execute(ctx, binp, exes, jobs=6)
    for e in exes:
        ok = {}
        cur = None
        inp = False
        for line in e.raw:
            if line.startswith("cmd "):
                cur = line.split()[1]
            elif line.startswith("ret ") and cur:
                ok.setdefault(cur, line.split()[1])
            elif line.startswith("caps "):
                inp = "input=1" in line
        alloc = ok.get("sub" if e.type.endswith(".sub") else "cnew") == "0"
        info[e.type] = {"alloc": alloc, "fd": alloc and ok.get("setfd") == "0", "input": alloc and inp,
                        "clean": e.san is None}
    return info, exes


def epilogue_for(body):
    """The epilogue of DESIGN.md C01 for a script body: resolve every stall
    (sinks accept and hold requests, outstanding requests answered, pipes
    without output get one so that their pending requests are registered
    somewhere, event loop run until idle), unregister, free what the
    application still owns, flush and release every handle in creation
    order, run the loop and the clock, release the managers."""
    held, kind, outof, reqs, urefs, ubufs = [], {}, {}, {}, [], []
    pumps = []
    for c in body:
        t = c.split()
        k = t[0]
        if k == "pump":
            pumps.append(t[1])
        elif k == "pfree" and t[1] in pumps:
            pumps.remove(t[1])
        if k in ("new", "cnew"):
            held.append(t[1])
            kind[t[1]] = t[2]
        elif k == "sink":
            held.append(t[1])
            kind[t[1]] = "sink"
        elif k == "sub":
            held.append(t[1])
            kind[t[1]] = "sub"
        elif k == "rel" and t[1] in held:
            held.remove(t[1])
        elif k == "out":
            outof[t[1]] = None if t[2] == "null" else t[2]
        elif k == "req":
            reqs[t[1]] = None
        elif k == "reg":
            reqs[t[2]] = t[1]
        elif k == "unreg":
            reqs[t[2]] = None
        elif k in ("ualloc", "ufd"):
            urefs.append(t[1])
        elif k == "udup":
            urefs.append(t[2])
        elif k in ("ufree",) and t[1] in urefs:
            urefs.remove(t[1])
        elif k == "uin" and t[2] in urefs:
            urefs.remove(t[2])
        elif k == "udetach":
            ubufs.append(t[2])
        elif k == "bdup":
            ubufs.append(t[2])
        elif k == "balloc":
            ubufs.append(t[1])
        elif k == "bappend" and t[2] in ubufs:
            ubufs.remove(t[2])
        elif k == "binsert" and t[3] in ubufs:
            ubufs.remove(t[3])
        elif k == "bsplit":
            ubufs.append(t[3])
        elif k == "bsplice":
            ubufs.append(t[4])
        elif k == "bfree" and t[1] in ubufs:
            ubufs.remove(t[1])
        elif k == "uattach" and t[2] in ubufs:
            ubufs.remove(t[2])
    ep = ["failoff"] if any(c.split()[0] in ("failmem", "failmalloc") for c in body) else []
    for n in held:
        if kind[n] == "sink":
            ep += ["policy %s accept" % n, "reqmode %s hold" % n]
    ep += ["answer", "loop", "sink se", "who se"]
    for n in held:
        if kind[n] != "sink" and outof.get(n) is None:
            ep.append("out %s se" % n)
    ep += ["answer", "loop"]
    for r in sorted(reqs):
        if reqs[r] is not None:
            ep.append("unreg %s %s" % (reqs[r], r))
    ep += ["ufree %s" % n for n in urefs] + ["bfree %s" % b for b in ubufs]
    # the application's source pumps are freed before the pipes they fed (the blockers' call-backs run into
    # live pipes) or after them (nothing of a dead pipe may be left on a pump), depending on the script
    pumps_first = len(body) % 2 == 1
    if pumps_first:
        ep += ["pfree %s" % w for w in pumps]
    for n in held:
        if kind[n] != "sink":
            ep.append("flush %s" % n)
        ep.append("rel %s" % n)
    # a pipe that is released may flush what it held into the next one (upipe_chunk_stream does): requests made
    # at that moment are answered too before the last sink goes away
    ep += ["answer", "loop", "rel se", "loop"]
    if not pumps_first:
        ep += ["pfree %s" % w for w in pumps]
    ep += ["advance 2700000000", "loop"]
    ep += ["reqclean %s" % r for r in sorted(reqs)]
    ep += ["rcs", "teardown"]
    return ep


PUMP_TYPES = ("buffer", "disblo", "burst", "time_limit", "rate_limit", "sync", "play", "trickp", "stream_switcher",
              "even", "audiocont", "videocont")
# pipes that keep a reference on themselves while they hold input waiting for an answer (ubuf manager, flow
# format, clock): released without any path to a sink, nobody can ever answer them and they stay alive by design.
# Scripts containing one keep every released pipe connected (contract checked by well_formed as well).
STALL_TYPES = ("tblk", "genaux", "even", "time_limit")
# pipes built on upipe_helper_output that forward the requests they are given to their output
FORWARDERS = tuple(t for t in REGISTRY_TYPES if t != "null")


def chain_op(rng, a, uid, ubufs, cmds):
    """One call on the application's segmented block buffers (a in 9..16)."""
    # segmented block buffers of the application: hand-over to a chain, cuts, split, full read
    known = sorted(b for b in ubufs if isinstance(ubufs[b], int) and not isinstance(ubufs[b], bool))
    if a == 9 or len(known) < 2:
        if len(ubufs) < 4:
            b = "b%d" % uid
            k = rng.choice([0, 1, 3, 8, 8, 16])
            cmds.append("balloc %s %d" % (b, k))
            ubufs[b] = k
    elif a in (10, 11):
        h = rng.choice(known)
        g = rng.choice([x for x in sorted(ubufs) if x != h])
        n = ubufs[h]
        if a == 10 or n == 0:
            cmds.append("bappend %s %s" % (h, g))
        else:
            cmds.append("binsert %s %d %s" % (h, rng.below(n), g))
        gs = ubufs.pop(g)
        ubufs[h] = n + gs if isinstance(gs, int) and not isinstance(gs, bool) else True
    elif a == 12:
        h = rng.choice(known)
        n = ubufs[h]
        c3 = rng.below(3)
        if c3 == 0:
            t_ = rng.below(n + 1)
            cmds.append("btrunc %s %d" % (h, t_))
            ubufs[h] = t_
        elif c3 == 1 and n > 0:
            o = rng.below(n)
            sz_ = 1 + rng.below(n - o)
            cmds.append("bdelete %s %d %d" % (h, o, sz_))
            ubufs[h] = n - sz_
        elif n > 0:
            o = rng.below(n)
            cmds.append("bresize %s %d -1" % (h, o))
            ubufs[h] = n - o
    elif a == 13 and len(ubufs) < 4:
        h = rng.choice(known)
        n = ubufs[h]
        if n > 0:
            b = "b%d" % uid
            o = rng.below(n)
            if rng.chance(2, 3):
                cmds.append("bsplit %s %d %s" % (h, o, b))
                ubufs[h], ubufs[b] = o, n - o
            else:
                sz_ = 1 + rng.below(n - o)
                cmds.append("bsplice %s %d %d %s" % (h, o, sz_, b))
                ubufs[b] = sz_
    else:
        cmds.append("bread %s" % rng.choice(sorted(ubufs)))


def gen_chain(rng, quick):
    """Programs made only of calls on segmented block buffers: allocation, hand-over to the chain of
    another buffer (append / insert), cuts that free segments (truncate / delete / resize), split /
    splice that give segments back, reads of whole chains, dup and free."""
    pool = rng.choice([0, 0, 2, 3])
    cmds, ubufs = [], {}
    uid = 0
    for _ in range(8 + rng.below(10 if quick else 24)):
        uid += 1
        a = rng.choice([9, 9, 10, 10, 10, 11, 11, 12, 12, 12, 13, 13, 14, 15, 16, 17, 18])
        if a == 17:
            if ubufs and len(ubufs) < 4:
                src = rng.choice(sorted(ubufs))
                b = "b%d" % uid
                cmds.append("bdup %s %s" % (src, b))
                ubufs[b] = ubufs[src]
        elif a == 18:
            if len(ubufs) > 1:
                b = rng.choice(sorted(ubufs))
                cmds.append("bfree %s" % b)
                del ubufs[b]
        else:
            chain_op(rng, a, uid, ubufs, cmds)
    e = Exe(cmds + epilogue_for(cmds), "random block chains", pool)
    e.nbody = len(cmds)
    return e


def gen_random(rng, info, quick):
    pool = rng.choice([0, 0, 2, 3])
    types = [t for t in REGISTRY_TYPES + EXT_TYPES if info.get(t, {}).get("alloc")]
    cmds = []
    held = {}         # handle name -> type
    order = {}        # name -> rank (outputs only point to higher ranks: no cycle)
    outof = {}        # name -> current output (as commanded)
    npipes = 1 + rng.below(3)
    rank = 0
    chosen = [rng.choice(types) for _ in range(npipes)]
    if any(t in STALL_TYPES for t in chosen):
        # (upipe_null throws the requests it is given to its probe, which nobody answers: like a sink in mode
        # throw / refuse it can never answer a pipe that keeps itself alive while it waits)
        chosen = [("idem" if t == "null" else t) for t in chosen]
        # ... and so is every pipe that does not hand requests on to its output (upipe_audio_split and other
        # pipes whose outputs are sub-pipes): next to a self-holding pipe only the forwarders are used
        chosen = [(t if t in FORWARDERS or t in STALL_TYPES else "idem") for t in chosen]
        # ... and one self-holding pipe per script: upipe_genaux answers the buffer manager requests of the
        # pipes in front of it through its own probe (it intercepts them), so a upipe_tblk in front of it waits
        # for ever when that probe does not answer
        seen_stall = False
        for i, t in enumerate(chosen):
            if t in STALL_TYPES:
                if seen_stall:
                    chosen[i] = "idem"
                seen_stall = True
    for i in range(npipes):
        t = chosen[i]
        n = "p%d" % i
        how = "cnew" if (t in PUMP_TYPES or rng.chance(2, 3)) else "new"
        cmds += ["%s %s %s" % (how, n, t), "who %s" % n]
        if rng.chance(1, 3):
            cmds.append("probeprov %s %s on" % (n, rng.choice(["ubuf_mgr", "uref_mgr", "uclock", "flow_format"])))
        held[n] = t
        order[n] = rank
        rank += 1
    np = npipes
    # (no queue next to a self-holding pipe: a request that has to cross it is only answered after several turns
    # of both loops, more than the epilogue runs - the pipe would look as if it never went away)
    if rng.chance(1, 3) and not any(t in STALL_TYPES for t in chosen):
        qsrc = "p%d" % np
        np += 1
        cmds += ["cnew %s qsrc %d" % (qsrc, 1 + rng.below(2)), "who %s" % qsrc]
        held[qsrc] = "qsrc"
        for _ in range(1 + rng.below(2)):
            n = "p%d" % np
            np += 1
            cmds += ["cnew %s qsink %s" % (n, qsrc), "who %s" % n]
            held[n] = "qsink"
            order[n] = rank
        rank += 1
        order[qsrc] = rank
        rank += 1
    sinks = []
    for i in range(1 + rng.below(2)):
        n = "s%d" % i
        cmds += ["sink %s%s" % (n, " reject" if rng.chance(1, 8) else ""), "who %s" % n]
        if rng.chance(1, 5) and not any(t in STALL_TYPES for t in held.values()):
            # (a sink that throws or refuses requests can never answer them: a pipe that keeps itself alive while
            # it waits for an answer would stay alive by design)
            cmds.append("reqmode %s %s" % (n, rng.choice(["throw", "refuse"])))
        sinks.append(n)
        held[n] = "sink"
        order[n] = 100 + i
    urefs, ubufs = {}, {}      # application urefs: name -> "blk" | "nobuf" | "fd"; application ubufs
    reqs = {}                  # request name -> pipe it is registered on (or None)
    nsub = 0
    bid = 1
    uid = 0
    fd_ok = set()
    has_stall = any(t in STALL_TYPES for t in held.values())
    released_one = False
    nrelsink = 0
    nreact = 0
    maybe_gone = []    # handles a reaction may have released (the epilogue releases them again: harmless)
    # source pumps of the application: buffers handed over with a pump the pipe may block while it holds them
    pumps = []
    if rng.chance(1, 2):
        for i in range(1 + rng.below(2)):
            cmds.append("pump w%d" % i)
            pumps.append("w%d" % i)
    npump = len(pumps)

    def can_input():
        return [n for n in held if held[n] == "sink" or
                (n in fd_ok and (held[n] == "qsink" or info.get(held[n], {}).get("input")))]

    def fd_accepts(n):
        return held[n] == "qsink" or info.get(held[n], {}).get("fd")
    # upipe_chunk_stream does not terminate when it is released holding a total that is not a
    # multiple of its alignment (DESIGN.md S4, property C14): it only gets multiples of 4
    sizes = [0, 8, 40] if "chunk_stream" in held.values() else [0, 1, 8, 40]
    nbody = (6 if quick else 10) + rng.below(16 if quick else 34)
    for _ in range(nbody):
        hp = sorted(n for n in held if held[n] != "sink")
        k = rng.below(100)
        if k < 16 and hp:
            p = rng.choice(hp)
            cands = sorted(n for n in held if order.get(n, -1) > order.get(p, 999) and held[n] != "qsrc"
                           and (held[n] == "sink" or held[n] == "qsink" or info.get(held[n], {}).get("input")))
            x = rng.choice(cands + ["null"]) if cands else "null"
            if x == "null" and has_stall and released_one:
                continue
            cmds.append("out %s %s" % (p, x))
            outof[p] = None if x == "null" else x
        elif k < 28 and hp:
            p = rng.choice(hp)
            if held[p] == "qsrc":
                continue
            cmds.append("setfd %s %s" % (p, rng.choice(["bA", "bA", "bB", "bA2"])))
            if fd_accepts(p):
                fd_ok.add(p)
        elif k < 48:
            tgt = sorted(can_input())
            if tgt:
                p = rng.choice(tgt)
                if pumps and rng.chance(2, 3):
                    cmds.append("inp %s %s %d %d" % (p, rng.choice(pumps), bid, rng.choice(sizes)))
                else:
                    cmds.append("in %s %d %d%s" % (p, bid, rng.choice(sizes), " 2" if rng.chance(1, 4) else ""))
                bid += 1
        elif k < 53 and hp:
            cmds.append("flush %s" % rng.choice(hp))
        elif k < 60 and hp and rng.chance(1, 3):
            # what a getter returned is handed back to the setter (the pipe may hold the only reference on it)
            p = rng.choice(hp)
            if held[p] != "qsrc":
                cmds.append("%s %s" % (rng.choice(["outself", "outself", "fdself"]), p))
        elif k < 60 and hp:
            p = rng.choice(hp)
            o = OPTIONS.get(held[p])
            if o:
                name, vals = rng.choice(o)
                if rng.chance(2, 3):
                    cmds.append("opt %s set %s %s" % (p, name, rng.choice(vals)))
                else:
                    cmds.append("opt %s get %s" % (p, name))
        elif k < 70 and held:
            p = rng.choice(sorted(held))
            for r, q in sorted(reqs.items()):
                if q == p:
                    cmds.append("unreg %s %s" % (p, r))
                    reqs[r] = None
            if has_stall and held[p] not in ("sink", "qsrc", "qsink", "null") and not held[p].endswith(".sub") \
                    and outof.get(p) is None:
                # keep it connected (see STALL_TYPES): a sink of its own, released at once
                sn = "sr%d" % nrelsink
                nrelsink += 1
                cmds += ["sink %s" % sn, "who %s" % sn, "out %s %s" % (p, sn), "rel %s" % sn]
                outof[p] = sn
            if has_stall and held[p] != "sink":
                released_one = True
            cmds.append("rel %s" % p)
            del held[p]
            fd_ok.discard(p)
            outof.pop(p, None)
        elif k < 72 and len(hp) >= 2 and nreact < 2 and not has_stall:
            # a reaction: when the probe of x catches an event, the application releases y from inside the call-back
            x = rng.choice(hp)
            y = rng.choice([n for n in hp if held[n] != "qsrc"] or hp)
            if y in reqs.values() or held[y] == "qsrc":
                continue
            cmds.append("onev %s %s rel %s" % (x, rng.choice(["source_end", "new_flow_def", "dead", "need_output"]), y))
            nreact += 1
            del held[y]
            fd_ok.discard(y)
            outof.pop(y, None)
            maybe_gone.append(y)
        elif k < 74 and pumps and rng.chance(1, 2):
            w = rng.choice(pumps)
            a = rng.below(8)
            if a < 3:
                cmds.append("pstart %s" % w)
            elif a < 4:
                cmds.append("pstop %s" % w)
            elif a < 6:
                cmds.append("pstate %s" % w)
            elif a < 7:
                cmds.append("pfree %s" % w)
                pumps.remove(w)
            elif npump < 3:
                cmds.append("pump w%d" % npump)
                pumps.append("w%d" % npump)
                npump += 1
        elif k < 75:
            cmds.append("loop")
        elif k < 77:
            cmds.append("advance %d" % rng.choice([1, 27000, 27000000]))
        elif k < 80:
            cmds.append("rcs")
        elif k < 83:
            s = [x for x in sinks if x in held]
            if s:
                cmds.append("policy %s %s" % (rng.choice(s), rng.choice(["accept", "reject"])))
        elif k < 86:
            sup = sorted(n for n in held if held[n] in SUB_TYPES and info.get(held[n] + ".sub", {}).get("alloc"))
            if sup and nsub < 3:
                p = rng.choice(sup)
                n = "q%d" % nsub
                nsub += 1
                cmds += ["sub %s %s" % (n, p), "who %s" % n]
                held[n] = held[p] + ".sub"
                order[n] = order[p]
        elif k < 90 and hp:
            free = sorted(r for r, q in reqs.items() if q is None)
            r = None
            if free and rng.chance(1, 2):
                r = rng.choice(free)
            elif len(reqs) < 2:
                r = "r%d" % len(reqs)
                cmds.append("req %s %s" % (r, rng.choice(["uref_mgr", "ubuf_mgr", "uclock", "flow_format", "sink_latency"])))
                reqs[r] = None
            if r is not None:
                p = rng.choice(hp)
                if held[p] != "qsrc":
                    cmds.append("reg %s %s" % (p, r))
                    reqs[r] = p
        elif k < 92:
            cmds.append("answer")
        else:
            # application-level urefs and ubufs
            a = rng.below(17)
            uid += 1
            if a >= 9:
                chain_op(rng, a, uid, ubufs, cmds)
                continue
            # a refused allocation (the n-th umem buffer / the n-th malloc) inside the next call: the call may
            # fail (the handle then stays unbound: later commands naming it do nothing), nothing may be lost
            fault = a in (0, 1, 5) and rng.chance(1, 5)
            if fault:
                cmds.append("%s %d" % (rng.choice(["failmem", "failmem", "failmalloc"]), 1 + rng.below(3)))
            if a == 0 and len(urefs) < 3:
                n = "u%d" % uid
                cmds.append("ualloc %s %d" % (n, rng.choice([0, 4, 32])))
                urefs[n] = "blk"
            elif a == 1 and urefs and len(urefs) < 4:
                n = "u%d" % uid
                src = rng.choice(sorted(urefs))
                cmds.append("udup %s %s" % (src, n))
                urefs[n] = urefs[src]
            elif a == 2 and urefs:
                n = rng.choice(sorted(urefs))
                cmds.append("ufree %s" % n)
                del urefs[n]
            elif a == 3 and urefs:
                n = rng.choice(sorted(urefs))
                if urefs[n] == "blk":
                    b = "b%d" % uid
                    cmds.append("udetach %s %s" % (n, b))
                    ubufs[b] = True          # size not tracked
                    urefs[n] = "nobuf"
            elif a == 4 and urefs and ubufs:
                n = rng.choice(sorted(urefs))
                b = rng.choice(sorted(ubufs))
                if urefs[n] != "fd":
                    cmds.append("uattach %s %s" % (n, b))
                    del ubufs[b]
                    urefs[n] = "blk"
            elif a == 5 and ubufs and len(ubufs) < 3:
                b = "b%d" % uid
                src = rng.choice(sorted(ubufs))
                cmds.append("bdup %s %s" % (src, b))
                ubufs[b] = ubufs[src]
            elif a == 6 and ubufs:
                b = rng.choice(sorted(ubufs))
                cmds.append("bfree %s" % b)
                del ubufs[b]
            elif a == 7 and urefs:
                n = rng.choice(sorted(urefs))
                tgt = sorted(can_input())
                if tgt and urefs[n] == "blk":
                    cmds.append("uin %s %s" % (rng.choice(tgt), n))
                    del urefs[n]
            elif a == 8 and hp:
                n = "u%d" % uid
                p = rng.choice(hp)
                if held[p] != "qsrc":
                    cmds += ["ufd %s bA" % n, "usetfd %s %s" % (p, n)]
                    urefs[n] = "fd"
                    if fd_accepts(p):
                        fd_ok.add(p)
            if fault:
                cmds.append("failoff")
    e = Exe(cmds + epilogue_for(cmds), "random", pool)
    e.nbody = len(cmds)
    return e


def directed():
    """A few hand-written scripts (repository test shapes, stall + release)."""
    out = []
    out.append(Exe(["cnew p0 qsrc 1", "who p0", "cnew p1 qsink p0", "who p1", "sink s0", "who s0", "out p0 s0",
                    "setfd p1 bA", "in p1 1 8", "in p1 2 8", "in p1 3 8", "rel p1", "rcs", "loop", "rel p0", "loop",
                    "rel s0", "rcs", "teardown"], "directed queue stall then release", 0))
    out.append(Exe(["new p0 dup", "who p0", "sub q0 p0", "who q0", "sub q1 p0", "who q1", "sink s0", "who s0",
                    "out q0 s0", "setfd p0 bA", "in p0 1 8", "rel p0", "rel q1", "rel q0", "rel s0",
                    "rcs", "teardown"], "directed dup", 2))
    out.append(Exe(["new p0 tblk", "who p0", "sink s0", "who s0", "out p0 s0", "setfd p0 bA", "in p0 1 8",
                    "rel p0", "rcs", "answer", "rel s0", "rcs", "teardown"], "directed held input, request answered", 0))
    # held input followed by flow definitions, then the manager request is answered synchronously while the
    # held input is drained (nested check): the self-reference must be released once
    for ty in ("genaux", "tblk"):
        body = ["cnew p1 %s" % ty, "who p1", "cnew p2 idem", "who p2", "probeprov p2 ubuf_mgr on", "setfd p1 bB",
                "in p1 1 1", "setfd p1 bA", "setfd p1 bA", "out p1 p2", "rcs"]
        e = Exe(body + epilogue_for(body), "directed nested check (%s)" % ty, 0)
        e.nbody = len(body)
        out.append(e)
    # what a getter returned handed back to the setter while the pipe holds the only reference on it
    for ty in ("idem", "skip", "dup"):
        body = ["new p0 %s" % ty, "who p0", "sink s0", "who s0", "setfd p0 bA", "out p0 s0", "rel s0", "outself p0",
                "fdself p0", "in p0 1 8", "outself p0", "rcs"]
        e = Exe(body + epilogue_for(body), "directed set(get()) (%s)" % ty, 0)
        e.nbody = len(body)
        out.append(e)
    # the application reacts to an event from inside the probe: it releases other pipes (re-entrancy)
    body = ["new p0 dup", "who p0", "sub q0 p0", "who q0", "sub q1 p0", "who q1", "sub q2 p0", "who q2",
            "onev q0 source_end rel q0", "onev q0 source_end rel q1", "onev q0 source_end rel q2", "rel p0", "rcs"]
    e = Exe(body + epilogue_for(body), "directed reaction: outputs released on the first source_end", 0)
    e.nbody = len(body)
    out.append(e)
    body = ["new p0 dup", "who p0", "sub q0 p0", "who q0", "sub q1 p0", "who q1", "setfd p0 bA",
            "onev q0 new_flow_def rel q1", "sink s0", "who s0", "out q0 s0", "setfd p0 bB", "in p0 1 8", "rcs"]
    e = Exe(body + epilogue_for(body), "directed reaction: sibling released on new_flow_def", 2)
    e.nbody = len(body)
    out.append(e)
    # buffers handed over with a source pump that the pipe blocks while it holds them: stalled queue sink,
    # flushed or released while blocked; the pump is freed after the pipe (nothing of a dead pipe may be left
    # on it) or before it (the blockers' call-backs run into the live pipe)
    for flush in (True, False):
        for pump_last in (True, False):
            body = ["cnew p0 qsrc 1", "who p0", "cnew p1 qsink p0", "who p1", "pump w0", "pump w1", "setfd p1 bA",
                    "inp p1 w0 1 8", "inp p1 w0 2 8", "inp p1 w1 3 8", "pstate w0"]
            if flush:
                body += ["flush p1", "pstate w0", "loop"]
            if pump_last:
                body += ["rel p1", "rel p0", "loop", "pfree w0", "pfree w1", "rcs"]
            else:
                body += ["pfree w0", "inp p1 w1 4 8", "rel p1", "pfree w1", "rcs"]
            e = Exe(body + epilogue_for(body), "directed blocked source pumps (qsink%s, pumps freed %s)"
                    % (", flush" if flush else "", "last" if pump_last else "first"), 0)
            e.nbody = len(body)
            out.append(e)
    # refused allocations inside uref_dup / uref_block_alloc / ubuf_dup with recycled structures in the pools:
    # whatever the error path releases must be its own
    for kind, n in (("failmem", 1), ("failmem", 2), ("failmalloc", 1), ("failmalloc", 2), ("failmalloc", 3)):
        body = ["sink s0", "who s0", "ualloc u1 32", "ualloc u2 8", "ufree u1", "ufree u2", "ufd u3 bA",
                "%s %d" % (kind, n), "udup u3 u4", "failoff", "ualloc u5 8", "ualloc u6 8",
                "%s %d" % (kind, n), "udup u5 u7", "failoff", "udetach u6 b1", "%s %d" % (kind, n), "bdup b1 b2", "failoff",
                "%s %d" % (kind, n), "ualloc u8 16", "failoff", "ufree u5", "ufree u6", "rcs"]
        e = Exe(body + epilogue_for(body), "directed refused allocation (%s %d)" % (kind, n), 2)
        e.nbody = len(body)
        out.append(e)
    body = ["cnew p1 stream_switcher", "who p1", "sub q0 p1", "who q0", "rel p1", "setfd q0 bA", "rcs"]
    e = Exe(body + epilogue_for(body), "directed sub-pipe controls its released super pipe", 0)
    e.nbody = len(body)
    out.append(e)
    return out


# ---------------------------------------------------------------- run
def run(ctx):
    quick = ctx.quick
    t0 = time.time()
    side = {"err": [], "rej": [], "exes": [], "t": {}}
    built = threading.Event()
    njobs = 8 if quick else 10

    def code_to_spec():
        """3. code -> spec (runs while TLC works on the models): build,
        calibration, directed and seeded random scripts, trace validation."""
        try:
            side["bin"] = build(ctx)
        except Exception as ex:
            side["err"].append(ex)
            built.set()
            return
        built.set()
        try:
            binp = side["bin"]
            info, cal = calibrate(ctx, binp)
            side["info"] = info
            rng = vlib.Rng(ctx.seed)
            rnd = [gen_random(rng, info, quick) for _ in range(300 if quick else 9000)]
            rnd += [gen_chain(rng, quick) for _ in range(120 if quick else 4000)]
            xs = directed() + rnd
            execute(ctx, binp, xs, jobs=4 if quick else 6)
            side["exes"] = cal + xs
            side["rnd"] = rnd
            side["rej"] = validate_parallel(ctx, cal + xs, "cs", jobs=2 if quick else 5)
            side["t"]["code_to_spec"] = round(time.time() - t0, 1)
        except Exception as ex:
            side["err"].append(ex)
    cs = threading.Thread(target=code_to_spec)
    cs.start()

    # ---- 1. model checking (+ behaviours for 2.)
    pos = ["lls", "lss", "qs"] + ([] if quick else ["qs2", "lqs", "qqs"])
    jobs = [dict(cfg="qs")] + [dict(cfg=c) for c in pos if c != "qs"] + [dict(cfg=c) for c in NEGATIVE]
    emit = ["emitq_lls", "emit_qs"] if quick else ["emit_lls", "emit_lss", "emit_qs", "emit_lqs", "emit_qqs"]
    jobs += [dict(cfg=c, timeout=900) for c in emit]
    sims = ["sim_lls", "sim_qs", "sim_lqs", "sim_qqs"]
    jobs += [dict(cfg=c, simulate=(30 if quick else 1200), depth=20) for c in sims]
    B = "MCLifecycleBuf"
    bpos = ["Bq"] if quick else ["Bq", "Bt"]
    bemit = ["Bemitq"] if quick else ["Bemit"]
    jobs += [dict(mod=B, cfg=c) for c in bpos + list(BNEGATIVE) + bemit]
    jobs += [dict(mod=B, cfg="Bsim", simulate=(40 if quick else 1500), depth=20)]
    try:
        res = run_tlc_jobs(ctx, jobs, par=4 if quick else 6)
    except Exception:
        cs.join()
        raise
    for c in pos:
        r = res[c]
        ctx.model_must_hold(r, "MCLifecycle/" + c)
        r.coverage = cov_of(r)
        ctx.require_coverage(r, COVER[c if c != "qs2" else "qs"])
        ctx.states += r.distinct
        ctx.transitions += r.generated
    for c in bpos:
        r = res[c]
        ctx.model_must_hold(r, "MCLifecycleBuf/" + c)
        r.coverage = cov_of(r)
        ctx.require_coverage(r, BCOVER)
        ctx.states += r.distinct
        ctx.transitions += r.generated
    ctx.exhaustive = True
    for c, want in list(NEGATIVE.items()) + list(BNEGATIVE.items()):
        r = res[c]
        if want not in r.violated:
            raise vlib.ToolError("vacuity: negative configuration %s: TLC reported %s, expected %s" % (c, r.violated, want))
        ctx.extra.setdefault("negative_configurations", {})[c] = r.violated
    t1 = time.time()

    # ---- 2. spec -> code
    exes = []
    seen = set()
    for c in emit + sims:
        r = res[c]
        if c.startswith("emit"):
            ctx.model_must_hold(r, "MCLifecycle/" + c)
        topo = c.split("_")[1]
        behs = r.beh()
        if not behs:
            raise vlib.ToolError("TLC emitted no behaviour for %s" % c)
        for bi, b in enumerate(behs):
            k = topo + json.dumps(b, sort_keys=True)
            if k in seen:
                continue
            seen.add(k)
            if quick and c == "emitq_lls" and bi % 2:
                continue                  # quick tier: every other program of the (large) filter pipeline
            for pool in (0, 2):
                if quick and pool and c.startswith("emit") and bi % 4:
                    continue              # quick tier: a quarter of the BFS programs also with pooled structures
                rot = len(exes) % len(LIN_TYPES)
                e = beh_exe(b, TOPOS[topo], 1, LIN_TYPES[rot:] + LIN_TYPES[:rot], pool,
                            "TLC %s %s" % ("BFS" if c.startswith("emit") else "simulation", topo))
                e.leaks = (not quick) or len(exes) % 4 == 0
                exes.append(e)
    for c in bemit + ["Bsim"]:
        r = res[c]
        ctx.model_must_hold(r, "MCLifecycleBuf/" + c)
        behs = r.beh()
        if not behs:
            raise vlib.ToolError("TLC emitted no behaviour for %s" % c)
        for bi, b in enumerate(behs):
            k = "buf" + json.dumps(b, sort_keys=True)
            if k in seen:
                continue
            seen.add(k)
            for pool in (0, 2):
                if quick and pool and c != "Bsim" and bi % 3:
                    continue
                e = buf_exe(b, pool, "TLC %s buffers" % ("simulation" if c == "Bsim" else "BFS"))
                e.leaks = (not quick) or len(exes) % 4 == 0
                exes.append(e)
    nbeh = len(exes)
    built.wait()
    if side["err"]:
        cs.join()
        ex = side["err"][0]
        raise ex if isinstance(ex, vlib.ToolError) else vlib.ToolError("code->spec driver: %r" % ex)
    binp = side["bin"]
    execute(ctx, binp, exes, jobs=njobs)
    t2 = time.time()
    rej = validate_parallel(ctx, exes, "sc", jobs=3 if quick else 6)
    t3 = time.time()
    cs.join()
    if side["err"]:
        ex = side["err"][0]
        raise ex if isinstance(ex, vlib.ToolError) else vlib.ToolError("code->spec driver: %r" % ex)
    rej += side["rej"]
    info = side["info"]
    rnd = side["rnd"]
    allx = exes + side["exes"]
    ctx.extra["pipe_types_covered"] = sorted(t for t in info if info[t]["alloc"]) + ["qsrc", "qsink", "recording sink"]
    ctx.extra["pipe_types_accepting_block_flow"] = sorted(t for t in info if info[t]["fd"])
    diffs = []
    for e in exes:
        d = lockstep_buf(e) if getattr(e, "buf", False) else lockstep(e)
        if d:
            diffs.append({"source": e.source, "pool": e.pool, "difference": d,
                          "script": [c for c in e.cmds if c != "rcs" and not c.startswith("who")]})
    ctx.evaluations += len(allx)
    ctx.extra["model_behaviours_replayed"] = nbeh
    ctx.extra["behaviours_differing_from_prediction"] = len(diffs)
    kinds = {}
    for d in diffs:
        k = re.sub(r"\d+", "N", d["difference"])
        kinds[k] = kinds.get(k, 0) + 1
    if kinds:
        ctx.extra["differences_by_kind"] = kinds
    if diffs:
        ctx.extra["first_differences"] = diffs[:3]
    ctx.extra["executions_on_real_code"] = len(allx)
    ctx.extra["random_scripts"] = len(rnd)
    ctx.extra["events_validated"] = sum(len(e.events) for e in allx)
    ctx.extra["executions_by_pool_depth"] = {str(p): sum(1 for e in allx if e.pool == p) for p in sorted(set(e.pool for e in allx))}
    hangs = [e for e in allx if e.san == "hang"]
    ctx.extra["executions_inconclusive_hang"] = len(hangs)
    if hangs:
        ctx.extra["inconclusive_scripts"] = [{"pool": e.pool, "script": e.cmds} for e in hangs[:2]]
    ctx.extra["phase_seconds"] = dict(side["t"], tlc=round(t1 - t0, 1), execute=round(t2 - t1, 1), validate=round(t3 - t2, 1))
    for e in exes:
        if len(e.events) > 60 and not e.san:
            ctx.sample({"source": e.source, "script": [c for c in e.cmds if c != "rcs"][:14],
                        "predicted": [s for _, _, s in e.pred][:4], "events": e.events[:14]}, limit=2)
            break
    for e in rnd:
        if 100 < len(e.events) < 900 and not e.san:
            ctx.sample({"source": "random seed=%d" % ctx.seed, "pool": e.pool, "script": e.cmds[:16],
                        "events": e.events[-8:]}, limit=3)
            break
    corruption_selftest(ctx, exes)
    # ---- verdicts: rejected executions are grouped by signature; per group the
    # shortest one is reproduced, shrunk, brought to its canonical trigger, keyed
    groups = {}
    for e, line, why in rej:
        if e.san == "hang":
            continue
        groups.setdefault(signature(e, line, why), []).append((e, line, why))
    ctx.extra["rejected_executions"] = sum(len(v) for v in groups.values())
    keys = []
    nexpl = 0
    for sig in sorted(groups, key=lambda g: min(len(x[0].cmds) for x in groups[g]))[:8]:
        lst = sorted(groups[sig], key=lambda x: len(x[0].cmds))
        lst2 = [x for x in lst if not any(explained(x[0], k) for k in keys)]
        nexpl += len(lst) - len(lst2)
        if not lst2:
            continue
        e, line, why = lst2[0]
        keys.append(report(ctx, binp, e, line, why, others=len(lst2) - 1))
    if nexpl:
        ctx.extra["rejected_executions_explained_by_a_reported_key"] = nexpl
    if diffs and not rej:
        ctx.extra["model_drift"] = True
        ctx.notes.append("the real code differs from the detailed model's prediction without violating the abstract specification")
    ctx.assumptions += [
        "ownership rules respected by the generated programs: a handle is used only while held and released once; a uref given to upipe_input belongs to the pipe; requests are unregistered before the pipe they were registered on is released; outputs never form a cycle; buffers are only sent to pipes that accepted a flow definition and have an input function",
        "QuiescentClean is judged after an epilogue that resolves every stall (outstanding requests answered, sinks accept, mock event loop run until idle, virtual clock advanced, flush) and after the creator released every manager",
        "single thread; event loops, clock and sockets are mocks (harness/vloop.c, virtual uclock)",
    ]
    ctx.trusted += ["TLC", "harness/pipe_driver.c + harness/pd_ext_c01.c (hook H4 call-back, destructor trampoline, interposed manager tables, pool poisoning)",
                    "harness/vloop.c", "gcc AddressSanitizer / UndefinedBehaviorSanitizer / LeakSanitizer",
                    "hook H4 in include/upipe/urefcount.h"]
    # second stage: the same trace specification over every buildable pipe type (checks/c01_types.py)
    try:
        from checks import c01_types
    except ImportError:
        c01_types = None
    if c01_types is not None:
        c01_types.run_part(ctx)



def replay(ctx, rp):
    if rp.get("replay", {}).get("part") == "types":
        from checks import c01_types
        return c01_types.replay(ctx, rp)
    binp = build(ctx)
    e = Exe(rp["replay"]["cmds"], "replay", rp["replay"].get("pool", 0))
    execute(ctx, binp, [e], jobs=1)
    r = validate(ctx, [e], "replay")
    if r:
        ev = e.events[r[0][1] - 1] if r[0][1] <= len(e.events) else {}
        print("VIOLATION property=C01 replay reproduced: %s refused (%s)" % (json.dumps(ev), r[0][2]))
        return 1
    print("OK property=C01 replay accepted")
    return 0
