"""C09 - a reference count runs its destructor exactly once, even under races.

1. TLC checks spec/Urefcount.tla (one action per shared access of
   urefcount_use/urefcount_release) exhaustively for 2-3 threads.
2. A negative variant of the model (non-atomic decrement) must be rejected;
   its counterexample schedule is run on the real code as a directed test.
3. Exhaustive / preemption-bounded DFS and seeded random schedules over the
   REAL urefcount and over REAL ubuf_block_mem dup/free on one shared area
   (pool depth 0 and 2); traces validated by spec/Ref_Trace.tla.
4. Lock-step replay of TLC simulation behaviours (model drift detection).
"""
import json
import vlib

LEVEL = "model_checking"
POS_QUICK = ["R_R", "UR_R", "URR_URR", "R_R_R", "URR_R_R", "URR_URR_URR"]
POS_THOROUGH = ["UURRR_URUR"]
SRC = ["sched_refcount.c", "vsched.c", "lib/upipe/ubuf_block_mem.c", "lib/upipe/ubuf_mem_common.c", "lib/upipe/ubuf_pic_mem.c",
       "lib/upipe/ubuf_pic_common.c", "lib/upipe/ubuf_pic.c", "lib/upipe/ubuf_sound_mem.c", "lib/upipe/ubuf_sound_common.c"]
# (mode, pool, progs, pb quick, pb thorough)   pb -1 = unbounded
DFS = [
    ("rc", 0, "R,R", -1, -1), ("rc", 0, "URR,R", -1, -1), ("rc", 0, "URR,URR", -1, -1),
    ("rc", 0, "R,R,R", -1, -1), ("rc", 0, "URR,R,R", 3, -1), ("rc", 0, "URR,URR,URR", 2, 4),
    ("rc", 0, "UURRR,URUR", 3, -1),
    ("shared", 0, "R,R", 3, -1), ("shared", 0, "URR,R", 2, 3), ("shared", 0, "URR,URR", 2, 3),
    ("shared", 0, "R,R,R", 2, 3),
    ("shared", 2, "R,R", 2, 3), ("shared", 2, "URR,R", 2, 3), ("shared", 2, "URR,URR", 1, 2),
    ("shared", 2, "R,R,R", 1, 2),
]


def parse(text):
    hs = []
    for line in text.splitlines():
        if line.startswith("{"):
            e = json.loads(line)
            if e["e"] == "Reset":
                hs.append([e])
            else:
                hs[-1].append(e)
    return hs


def harness(ctx, binp, mode, pool, progs, args, timeout=1500):
    r = ctx.run([binp, mode, str(pool), progs] + [str(a) for a in args], timeout=timeout)
    if r.returncode == 4:
        return None, {"diverged": True}
    if r.returncode != 0:
        raise vlib.ToolError("sched_refcount rc=%d %s" % (r.returncode, r.stderr[-1500:]))
    st = {}
    for l in r.stderr.splitlines():
        if l.startswith("{"):
            st.update(json.loads(l))
    return parse(r.stdout), st


# several areas, refused allocations, recycled structures (mode areas of the harness, spec/Areas_Trace.tla):
# (pool, programs, pb quick, pb thorough)
AREAS = [(2, "F,A", 3, 4), (2, "R,R", 3, 4), (2, "FR,AR", 2, 3), (2, "AR,AR", 2, 3), (0, "F,A", 3, 4),
         (2, "UR,FA", 2, 3), (1, "RA,RF", 2, 3), (2, "R,R,R", 2, 3),
         # segmented blocks (P: a new area appended to my buffer, X: a segment that cannot be duplicated -
         # the dup that follows fails after the segments before it were duplicated)
         (2, "PUR,R", 2, 3), (2, "XUR,R", 2, 3), (0, "XUR,UR", 2, 3), (1, "PXUR,AR", 2, 2), (2, "XUAR,XUR", 1, 2)]


# one area across two managers and two allocators (a block built on a picture's plane): who lets go last,
# of the buffers and of the manager handles (R free my buffer, M release my manager handle, U dup)
XAREAS = [(2, "RM,RM", 3, 4), (0, "RM,RM", 3, 4), (2, "MR,MR", 3, 4), (2, "URRM,RM", 2, 3), (1, "RM,URMR", 2, 3),
          (2, "RM,RM,R,R", 2, 2)]


def run_areas(ctx, binp):
    pool = []
    runs = 0
    for mode, pd, progs, pbq, pbt in [("areas",) + a for a in AREAS] + [("xareas",) + a for a in XAREAS]:
        pb = pbq if ctx.quick else pbt
        hs, st = harness(ctx, binp, mode, pd, progs, ["dfs", pb, 40000 if ctx.quick else 3000000])
        runs += st.get("runs", 0)
        ctx.extra.setdefault("areas_dfs", []).append({"mode": mode, "pool": pd, "prog": progs, "preemption_bound": pb,
                                                      "schedules": st.get("runs"), "distinct_traces": st.get("unique"),
                                                      "complete_within_bound": st.get("complete")})
        pool += [(h, "dfs pb=%d" % pb) for h in hs]
        hs, st = harness(ctx, binp, mode, pd, progs, ["random", 1000 if ctx.quick else 50000, ctx.seed, 4])
        runs += st.get("runs", 0)
        pool += [(h, "random") for h in hs]
    ctx.evaluations += runs
    ctx.extra["areas_schedules_run_on_real_code"] = runs
    if not any(e["e"] == "Refused" for h, _ in pool for e in h):
        raise vlib.ToolError("vacuity: no allocation was refused in mode areas")
    if not any(e["e"] == "DupFailed" for h, _ in pool for e in h) or not any(e["e"] == "Append" for h, _ in pool for e in h):
        raise vlib.ToolError("vacuity: no duplication of a segmented block failed / no area was appended in mode areas")
    # vacuity (xareas): the picture's allocator does go away, and in some schedules the block is the last holder
    if not any(e["e"] == "AllocDead" for h, _ in pool for e in h):
        raise vlib.ToolError("vacuity: the picture manager's allocator never ran its destructor in mode xareas")
    last = set()
    for h, _ in pool:
        if h[0].get("mode") != "xareas":
            continue
        fr = [e for e in h if e["e"] == "Free" and e["h"] in (0, 1)]
        if len(fr) == 2:
            last.add(fr[-1]["h"])
    if last != {0, 1}:
        raise vlib.ToolError("vacuity: xareas schedules never made both the picture and the block the last holder (%s)" % sorted(last))
    # vacuity: a corrupted copy (a Return moved before the last Free of its area) must be rejected
    fake = None
    for h, _ in pool:
        ret = [i for i, e in enumerate(h) if e["e"] == "Return"]
        if ret and h[ret[0] - 1]["e"] == "Free":
            fake = list(h)
            fake[ret[0] - 1], fake[ret[0]] = fake[ret[0]], fake[ret[0] - 1]
            break
    hists = [h for h, _ in pool] + ([fake] if fake else [])
    rej = ctx.validate_histories_1pass("Areas_Trace", "Areas_Trace.cfg", hists, tag="areas")
    if fake:
        ctx.traces -= 1
        if not any(i == len(hists) - 1 for i, _, _ in rej):
            raise vlib.ToolError("vacuity: an area returned before its last holder let go was accepted by Areas_Trace")
        rej = [r for r in rej if r[0] != len(hists) - 1]
    seen = set()
    for idx, line, inv in rej:
        h, source = pool[idx]
        r0 = h[0]
        ev = h[line - 1] if 0 < line <= len(h) else {}
        amode = r0.get("mode", "areas")
        key = "%s;pool=%d;prog=%s;%s" % (amode, r0["pool"], r0["prog"], ev.get("e", "?"))
        if key in seen:
            continue
        seen.add(key)
        hs, _ = harness(ctx, binp, amode, r0["pool"], r0["prog"], ["replay", r0["sched"]])
        rej2 = ctx.validate_histories_1pass("Areas_Trace", "Areas_Trace.cfg", hs, tag="areasre") if hs else []
        ctx.traces -= len(hs or [])
        if not rej2:
            raise vlib.ToolError("rejected trace did not reproduce: %s" % r0)
        ctx.violation(key, "trace of the real ubuf_block_mem over several areas (pool depth %d, programs %s + epilogue) rejected at "
                      "event %d %s: an area is not returned exactly once, after its last holder let go, to an allocator that still exists"
                      % (r0["pool"], r0["prog"], line, json.dumps(ev)),
                      {"cmd": "sched_refcount %s %d %s replay %s" % (amode, r0["pool"], r0["prog"], r0["sched"]), "trace": h, "source": source})


def run(ctx):
    binp = ctx.cc("sched_refcount", SRC)
    ctx.assumptions += ["sequentially consistent atomics; interleaving at hook granularity (H1 atomics, H4 plain cb accesses)",
                        "client programs respect the ownership rule (use only while holding a reference)"]
    for c in POS_QUICK + ([] if ctx.quick else POS_THOROUGH):
        res = ctx.tlc("MCUrefcount", "MCUrefcount_%s.cfg" % c, workers=1)
        ctx.model_must_hold(res, "Urefcount/" + c)
    pool = []
    res = ctx.tlc("MCUrefcount", "MCUrefcount_neg_nonatomic.cfg", workers=1, count=False)
    if not res.violated:
        raise vlib.ToolError("vacuity: negative model variant not rejected")
    sched = "".join(str(x - 1) for x in (res.last_seq("sched") or []))
    hs, st = harness(ctx, binp, "rc", 0, "R,R", ["replay", sched])
    ctx.extra["directed_schedules"] = [{"cfg": "neg_nonatomic", "sched": sched, "diverged": hs is None}]
    if hs:
        pool += [(h, "counterexample schedule of neg_nonatomic") for h in hs]
    runs = 0
    complete = True
    for mode, pd, progs, pbq, pbt in DFS:
        pb = pbq if ctx.quick else pbt
        hs, st = harness(ctx, binp, mode, pd, progs, ["dfs", pb, 80000 if ctx.quick else 5000000])
        runs += st.get("runs", 0)
        complete = complete and st.get("complete", False)
        ctx.extra.setdefault("dfs", []).append({"mode": mode, "pool": pd, "prog": progs, "preemption_bound": pb,
                                                "schedules": st.get("runs"), "distinct_traces": st.get("unique"),
                                                "complete_within_bound": st.get("complete")})
        pool += [(h, "dfs pb=%d" % pb) for h in hs]
        if hs:
            ctx.sample({"mode": mode, "prog": progs, "trace": hs[-1]}, limit=3)
        hs, st = harness(ctx, binp, mode, pd, progs, ["random", 2000 if ctx.quick else 100000, ctx.seed, 4])
        runs += st.get("runs", 0)
        pool += [(h, "random") for h in hs]
    # lock-step
    res = ctx.tlc("MCUrefcount", "MCUrefcount_sim.cfg", workers=1, simulate=100 if ctx.quick else 2000, depth=100, count=False)
    ctx.model_must_hold(res, "Urefcount/sim")
    drift = None
    nsim = 0
    for b in res.beh():
        s = "".join(str(x - 1) for x in b["sched"])
        hs, st = harness(ctx, binp, "rc", 0, "URR,URR", ["replay", s])
        nsim += 1
        if hs is None or st.get("replay_len") != len(b["sched"]):
            drift = drift or {"sched": s}
        if hs:
            pool += [(h, "model behaviour") for h in hs]
    ctx.extra["model_behaviours_replayed_lockstep"] = nsim
    ctx.extra["model_drift"] = drift is not None
    if drift:
        ctx.extra["model_drift_first"] = drift
    ctx.evaluations += runs + nsim
    ctx.extra["schedules_run_on_real_code"] = runs
    ctx.extra["dfs_complete_within_preemption_bound"] = complete
    hists = [h for h, _ in pool]
    rej = ctx.validate_histories("Ref_Trace", "Ref_Trace.cfg", hists, tag="ref", max_reject=6)
    for idx, line, inv in rej:
        h, source = pool[idx]
        r0 = h[0]
        hs, _ = harness(ctx, binp, r0["mode"], r0["pool"], r0["prog"], ["replay", r0["sched"]])
        rej2 = ctx.validate_histories("Ref_Trace", "Ref_Trace.cfg", hs, tag="refre") if hs else []
        if not rej2:
            raise vlib.ToolError("rejected trace did not reproduce: %s" % r0)
        ev = h[line - 1] if 0 < line <= len(h) else {}
        key = "%s;pool=%d;prog=%s;%s" % (r0["mode"], r0["pool"], r0["prog"], ev.get("e", "?"))
        ctx.violation(key, "reference-count trace of the real code rejected at event %d %s (mode %s, programs %s): destructor not exactly once after the last release"
                      % (line, json.dumps(ev), r0["mode"], r0["prog"]),
                      {"cmd": "sched_refcount %s %d %s replay %s" % (r0["mode"], r0["pool"], r0["prog"], r0["sched"]), "trace": h, "source": source})
    run_areas(ctx, binp)
    ctx.trusted += ["harness/vsched.c", "TLC"]


def replay(ctx, rp):
    from checks import schedreplay
    return schedreplay.replay_cmd(ctx, rp, "C09", {"sched_refcount": dict(src=SRC, trace=("Ref_Trace", "Ref_Trace.cfg"))})
