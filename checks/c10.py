"""C10 - attribute dictionaries behave as typed key-value maps.

Oracle: spec/Udict.tla (dict[d] = partial function (name|NoName, type) -> value).

1. TLC checks the abstract module exhaustively for small key sets / depth
   (MCUdict_<keys>.cfg: action properties DupIndependent, GetReturnsLastSet,
   CmpIffEqual, IterateExactlyOnce, and LastStored = agreement with an
   independent write-log formulation), with coverage as vacuity guard, and
   three deliberately broken variants (MCUdict_neg_*.cfg) that TLC must reject.
2. spec -> code: TLC (simulation, and in the thorough tier a bounded
   enumeration of ALL call sequences) prints behaviours with the results the
   specification predicts plus a final audit; harness/replay_udict.c executes
   them on the real udict_inline / uref_attr code (ASan+UBSan) for several
   manager configurations (min_size, extra_size, pool depth) and API levels
   (udict, uref, uref_alloc_control); results are compared string by string.
3. code -> spec: seeded random long command scripts (all types, all
   shorthands, prefix names, values up to 65520 octets, sources aliasing the
   dictionary's own storage) are executed and the (command, result) traces are
   validated by spec/Udict_Trace.tla.
Every disagreement is re-run in a fresh process and re-judged by TLC before it
is reported; it is then shrunk (candidates judged by TLC in one batch).
"""
import json, os, re, threading
import vlib

LEVEL = "model_checking"

LEVELS = ["udict", "uref", "urefc"]
# (pool depth, min_size, extra_size); <= 0 selects the manager default (128 / 64)
CONFS = [(0, 1, 1), (2, 1, 8), (1, 16, 1), (0, 0, 0), (3, 64, 8), (0, 16, 0), (1, 1, 64), (2, 0, 8)]

EXH = ["str", "opq", "num", "sml", "rat", "mix"]
NEG = ["neg_prefix", "neg_import", "neg_cmp"]
JENV = {"JAVA_TOOL_OPTIONS": "-XX:ParallelGCThreads=2"}     # several JVMs run side by side
NO_BLOB = ("num", "sml")      # key sets without a string / opaque key: SetAlias not applicable
ACTIONS = ["MAlloc", "MSet", "MSetAlias", "MGet", "MDelete", "MDup", "MImport", "MCopy", "MCmp",
           "MIterate", "MFree"]

BASE = ["opaque", "string", "void", "bool", "small_unsigned", "small_int", "unsigned", "int",
        "rational", "float"]
SH = {"FLOW_RANDOM": "void", "FLOW_ERROR": "void", "FLOW_DEF": "string", "FLOW_ID": "unsigned",
      "FLOW_RAWDEF": "string", "FLOW_LANGUAGES": "small_unsigned", "EVENT_EVENTS": "unsigned",
      "CLOCK_DURATION": "unsigned", "CLOCK_RATE": "rational", "CLOCK_LATENCY": "unsigned",
      "CLOCK_WRAP": "unsigned", "BLOCK_END": "void", "PIC_NUM": "unsigned", "PIC_KEY": "void",
      "PIC_HSIZE": "unsigned", "PIC_VSIZE": "unsigned", "PIC_HSIZE_VISIBLE": "unsigned",
      "PIC_VSIZE_VISIBLE": "unsigned", "PIC_VIDEO_FORMAT": "string", "PIC_FULL_RANGE": "void",
      "PIC_COLOUR_PRIMARIES": "string", "PIC_TRANSFER_CHARACTERISTICS": "string",
      "PIC_MATRIX_COEFFICIENTS": "string", "PIC_HPOSITION": "unsigned", "PIC_VPOSITION": "unsigned",
      "PIC_LPADDING": "unsigned", "PIC_RPADDING": "unsigned", "PIC_TPADDING": "unsigned",
      "PIC_BPADDING": "unsigned", "PIC_SAR": "rational", "PIC_OVERSCAN": "bool",
      "PIC_PROGRESSIVE": "void", "PIC_TF": "void", "PIC_BF": "void", "PIC_TFF": "void",
      "PIC_AFD": "small_unsigned", "PIC_CEA_708": "opaque", "PIC_BAR_DATA": "opaque"}
NAMES = ["a", "ab", "abc", "b", "f.def", "f.name", "f.headers", "f.lowdelay", "f.lang[0]",
         "x.a_rather_long_attribute_name_0123456789", "p.num"]
# the claim covers values with namelen + 1 + size <= 65535 (16-bit TLV length; the
# code asserts beyond); a string of n characters has size n + 1
MAXLEN = 65535 - 2 - max(len(n) for n in NAMES)


def base_of(t):
    return t if t in BASE else SH[t]


# ------------------------------------------------------------ command codec
def to_line(ev):
    e = ev["e"]
    if e == "Alloc":
        return "alloc %d" % ev["d"]
    if e == "Set":
        return "set %d %s %s %s" % (ev["d"], ev["t"], ev["n"], ev["v"])
    if e == "SetHex":
        return "sethex %d %s %s %s -1" % (ev["d"], ev["t"], ev["n"], ev["v"])
    if e == "SetBad":
        return "sethex %d %s %s %s %d" % (ev["d"], ev["t"], ev["n"], ev["v"], ev["bad"])
    if e == "SetAlias":
        return "seta %d %s %s %s %s" % (ev["d"], ev["t"], ev["n"], ev["t2"], ev["n2"])
    if e == "Get":
        return "get %d %s %s" % (ev["d"], ev["t"], ev["n"])
    if e == "Delete":
        return "del %d %s %s" % (ev["d"], ev["t"], ev["n"])
    if e == "Dup":
        return "dup %d %d" % (ev["d"], ev["s"])
    if e == "Import":
        return "import %d %d" % (ev["d"], ev["s"])
    if e == "Copy":
        return "copy %d %d %s %s" % (ev["d"], ev["s"], ev["t"], ev["n"])
    if e == "Cmp":
        return "cmp %d %d" % (ev["d"], ev["s"])
    if e == "Iter":
        return "iter %d" % ev["d"]
    if e == "Free":
        return "free %d" % ev["d"]
    raise vlib.ToolError("unknown event " + str(ev))


def with_result(cmd, line):
    """event = command + the result line printed by the harness"""
    ev = dict(cmd)
    if cmd["e"] == "Iter":
        ks = []
        ok = True
        if line != "-":
            for tok in line.split(" "):
                t, sep, n = tok.partition(":")
                if not sep or not t or not n:
                    ok = False
                    break
                ks.append({"t": t, "n": n})
        ev["ks"] = ks if ok else []
        ev["r"] = "ok" if ok else "bad:" + line[:60]
    else:
        ev["r"] = line
    return ev


def crashed(cmd, why):
    ev = dict(cmd)
    if cmd["e"] == "Iter":
        ev["ks"] = []
    ev["r"] = "crash"
    ev["why"] = why
    return ev


def well_formed(cmds):
    """handles used consistently (the generator's and the shrinker's only
    knowledge: which handles are allocated)"""
    live = set()
    for c in cmds:
        e, d = c["e"], c["d"]
        if e == "Alloc":
            if d in live:
                return False
            live.add(d)
        elif e == "Dup":
            if d in live or c["s"] not in live:
                return False
            live.add(d)
        elif e == "Free":
            if d not in live:
                return False
            live.discard(d)
        else:
            if d not in live:
                return False
            if e in ("Import", "Copy", "Cmp") and c["s"] not in live:
                return False
            if e == "Copy" and c["s"] == d:
                return False
    return True


# ---------------------------------------------------------- running the code
MAX_CRASHES = 5          # crashed / hung executions collected per batch before judging
SKIPPED = [0]            # executions not run because a batch was cut short (never on a green tree)


class Skipped(list):
    """history of a script that was NOT executed (its batch was cut short after
    MAX_CRASHES crashed executions): callers drop it - it is neither compared
    with a prediction, nor judged, nor counted"""


def run_scripts(ctx, binp, level, conf, scripts, timeout=300):
    """Execute scripts (lists of commands) on the real code, one process,
    'reset' between scripts.  Returns one event list per script (the first
    event is the Reset line).  A crash / hang is an event r = "crash".
    The harness runs every command under an alarm (exit status 5, no result
    line), so a command that never returns costs seconds; after MAX_CRASHES
    crashed executions the rest of the batch is not run (each gets a bare Reset
    history and is counted in SKIPPED): a few are enough to judge and report,
    and a broken tree must yield a verdict, not a crawl."""
    out = [None] * len(scripts)
    start = 0
    crashes = 0
    while start < len(scripts):
        if crashes >= MAX_CRASHES:
            for i in range(start, len(scripts)):
                out[i] = Skipped([reset_event(level, conf)])
            SKIPPED[0] += len(scripts) - start
            break
        lines = []
        owner = []
        for i in range(start, len(scripts)):
            lines.append("reset")
            owner.append((i, -1))
            for j, c in enumerate(scripts[i]):
                lines.append(to_line(c))
                owner.append((i, j))
        r = ctx.run([binp, level] + [str(x) for x in conf], input="\n".join(lines) + "\n", timeout=timeout,
                    env={"ASAN_OPTIONS": "detect_leaks=0:abort_on_error=0", "UBSAN_OPTIONS": "print_stacktrace=1",
                         "REPLAY_ALARM_S": "4" if ctx.quick else "10"})
        if r.returncode == 3:
            raise vlib.ToolError("replay_udict: " + (r.stderr or "")[-1500:])
        text = r.stdout or ""
        res = text.split("\n")
        res = res[:-1]          # the last element is '' or an unterminated line
        complete = (r.returncode == 0 and len(res) == len(lines))
        if r.returncode == 0 and not complete:
            raise vlib.ToolError("replay_udict: %d result lines for %d commands" % (len(res), len(lines)))
        nres = min(len(res), len(lines))
        for k in range(nres):
            i, j = owner[k]
            if j < 0:
                if res[k] != "ok":
                    raise vlib.ToolError("replay_udict: reset answered " + res[k])
                out[i] = [reset_event(level, conf)]
            else:
                out[i].append(with_result(scripts[i][j], res[k]))
        if complete:
            break
        if nres >= len(lines):
            raise vlib.ToolError("replay_udict failed after the last command rc=%d: %s"
                                 % (r.returncode, (r.stderr or "")[-1500:]))
        i, j = owner[nres]
        why = ("time-out" if r.returncode == 124 else
               "hang (command did not return within the harness alarm)" if r.returncode == 5 else
               "rc=%d %s" % (r.returncode, summarise_stderr(r.stderr)))
        if j < 0:
            raise vlib.ToolError("replay_udict crashed in reset: " + why)
        out[i].append(crashed(scripts[i][j], why))
        crashes += 1
        start = i + 1
    return out


def summarise_stderr(err):
    err = err or ""
    m = re.search(r"(ERROR: AddressSanitizer[^\n]*|runtime error:[^\n]*|Assertion[^\n]*|[^\n]*Assertion `[^\n]*)", err)
    return (m.group(1) if m else err[-200:]).strip()[:300]


def reset_event(level, conf):
    return {"e": "Reset", "level": level, "pool": conf[0], "min": conf[1], "extra": conf[2]}


# --------------------------------------------------------------- judging
def judge(ctx, hists, tag):
    """All executions in one TLC run (Udict_Trace, tolerant configuration).
    Returns [(index, line_in_execution (1-based, Reset = 1), expected)]"""
    if not hists:
        return []
    path = os.path.join(ctx.build, "%s.ndjson" % tag)
    starts = []
    n = 0
    with open(path, "w") as f:
        for h in hists:
            starts.append(n)
            for e in h:
                e = {k: v for k, v in e.items() if k != "why"}
                f.write(json.dumps(e, separators=(",", ":")) + "\n")
            n += len(h)
    accepted, res, line = ctx.validate_trace("Udict_Trace", "Udict_Trace_multi.cfg", path,
                                             timeout=1700, heap="8g", name=tag)
    if res.violated:
        # a property of the abstract module is false in a state of a trace:
        # locate the execution with the strict procedure of the framework
        rej = ctx.validate_histories("Udict_Trace", "Udict_Trace.cfg", hists, tag=tag + "_strict")
        return [(i, ln, "property " + ",".join(inv)) for i, ln, inv in rej]
    if not accepted:
        raise vlib.ToolError("trace validation gave no verdict (%s)\n%s" % (tag, res.out[-2000:]))
    want = {(w["ex"], w["l"]): w.get("want") for w in res.beh("EXPECTED")}
    rej = []
    for ex, l in re.findall(r'<<"EXEC_REJECTED", (\d+), (\d+)>>', res.out):
        ex, l = int(ex), int(l)
        rej.append((ex - 1, l - starts[ex - 1], want.get((ex, l))))
    ctx.traces += len(hists) - len(rej)
    return rej


def judge_strict(ctx, hist, tag):
    """single execution, strict configuration (POSTCONDITION Accepted)"""
    path = os.path.join(ctx.build, "%s.ndjson" % tag)
    with open(path, "w") as f:
        for e in hist:
            f.write(json.dumps({k: v for k, v in e.items() if k != "why"}, separators=(",", ":")) + "\n")
    accepted, res, line = ctx.validate_trace("Udict_Trace", "Udict_Trace.cfg", path, name=tag)
    if accepted:
        return None
    if line is None and res.violated:
        ls = re.findall(r"^/\\ l = (\d+)", res.out, re.M)
        line = int(ls[-1]) - 1 if ls else 0
    if line is None:
        raise vlib.ToolError("trace validation gave no verdict (%s)\n%s" % (tag, res.out[-2000:]))
    return line


def fmt(ev):
    s = to_line(ev)
    if "r" in ev:
        s += " -> " + (" ".join("%s:%s" % (k["t"], k["n"]) for k in ev["ks"]) or "-"
                       if ev["e"] == "Iter" and ev["r"] == "ok" else ev["r"])
    return s


def shrink(ctx, binp, level, conf, cmds, rounds=14):
    """Remove commands while TLC still rejects the execution of the rest on
    the real code.  cmds ends with the rejected command."""
    cur = list(cmds)
    for rnd in range(rounds):
        n = len(cur)
        if n <= 2:
            break
        cands = []
        seen = set()
        chunk = max(1, n // 2)
        while chunk >= 1 and len(cands) < 80:
            for s in range(0, n, chunk):
                c = cur[:s] + cur[s + chunk:]
                key = json.dumps(c, sort_keys=True)
                if c and key not in seen and well_formed(c):
                    seen.add(key)
                    cands.append(c)
            chunk //= 2
        if not cands:
            break
        hists = run_scripts(ctx, binp, level, conf, cands)
        saved = ctx.traces
        rej = judge(ctx, hists, "shrink%d" % rnd)
        ctx.traces = saved
        best = None
        for i, ln, _ in rej:
            c = cands[i][:ln - 1]
            if best is None or len(c) < len(best):
                best = c
        if best is None or len(best) >= len(cur):
            break
        cur = best
    return cur


def report(ctx, binp, level, conf, cmds, line, want, source):
    """cmds: commands of the execution; line: 1-based line of the rejected
    event (Reset = line 1).  Reproduce, shrink, report."""
    prefix = cmds[:line - 1]
    h2 = run_scripts(ctx, binp, level, conf, [prefix])[0]
    l2 = judge_strict(ctx, h2, "repro")
    if l2 is None:
        raise vlib.ToolError("rejected execution did not reproduce (non-deterministic harness?): %s %s\n%s"
                             % (level, conf, "\n".join(to_line(c) for c in prefix[-30:])))
    small = shrink(ctx, binp, level, conf, prefix[:l2 - 1])
    h3 = run_scripts(ctx, binp, level, conf, [small])[0]
    l3 = judge_strict(ctx, h3, "repro_small")
    if l3 is None:        # keep the unshrunk reproducer
        small, h3, l3 = prefix[:l2 - 1], h2, l2
    bad = h3[l3 - 1]
    saved = ctx.traces
    rj = judge(ctx, [h3], "repro_want")
    ctx.traces = saved
    want = rj[0][2] if rj else want
    kind = "crash" if bad.get("r") == "crash" else "wrong-result"
    sh = "shorthand" if bad.get("n") == "-" else ("named" if "n" in bad else "-")
    key = "%s;%s(%s);%s;%s" % (level.replace("urefc", "uref"), bad["e"], base_of(bad["t"]) if "t" in bad else "",
                               sh, kind)
    what = ("%s level, udict_inline_mgr(pool=%d, min_size=%d, extra_size=%d): after [%s] the real code answered "
            "'%s'%s but the specification (Udict.tla) requires %s"
            % (level, conf[0], conf[1], conf[2], "; ".join(fmt(e) for e in h3[1:l3 - 1]), fmt(bad),
               (" (" + bad["why"] + ")") if "why" in bad else "", json.dumps(want)))
    if binp.endswith("_ndebug"):
        key += ";NDEBUG"
        what = "(library compiled with -DNDEBUG) " + what
    ctx.violation(key, what, {"level": level, "conf": list(conf), "cmds": small, "trace": h3[:l3],
                              "expected": want, "source": source, "ndebug": binp.endswith("_ndebug"),
                              "cmd": "replay_udict %s %d %d %d" % ((level,) + tuple(conf))})


# ------------------------------------------------------- spec -> code (BEH)
OPMAP = {"alloc": "Alloc", "set": "Set", "seta": "SetAlias", "get": "Get", "del": "Delete", "dup": "Dup",
         "import": "Import", "copy": "Copy", "cmp": "Cmp", "iter": "Iter", "free": "Free"}


def beh_to_script(b):
    """TLC behaviour -> (commands, predicted results).  Pure re-formatting."""
    cmds, pred = [], []

    def add(rec):
        ev = {"e": OPMAP[rec["op"]], "d": rec["d"]}
        if "k" in rec:
            ev["t"], ev["n"] = rec["k"]["t"], rec["k"]["n"]
        if "k2" in rec:
            ev["t2"], ev["n2"] = rec["k2"]["t"], rec["k2"]["n"]
        if "v" in rec:
            ev["v"] = rec["v"]
        if "s" in rec:
            ev["s"] = rec["s"]
        cmds.append(ev)
        pred.append(rec["res"])
    for rec in b["h"]:
        add(rec)
    a = b["audit"]
    for rec in sorted(a["iters"], key=lambda r: r["d"]):
        add(dict(rec, op="iter"))
    for rec in sorted(a["gets"], key=lambda r: (r["d"], r["k"]["t"], r["k"]["n"])):
        add(dict(rec, op="get"))
    for rec in sorted(a["cmps"], key=lambda r: (r["d"], r["s"])):
        add(dict(rec, op="cmp"))
    return cmds, pred


def same(ev, pred):
    if ev["e"] == "Iter":
        return ev["r"] == "ok" and sorted((k["t"], k["n"]) for k in ev["ks"]) == \
            sorted((k["t"], k["n"]) for k in pred)
    return ev["r"] == pred


def replay_behaviours(ctx, binp, behs, combos, tag):
    """behs: [(cmds, pred)].  Each behaviour is executed under every
    (level, conf) of combos[i % len]."""
    plan = {}
    for i, (cmds, pred) in enumerate(behs):
        for lc in combos[i % len(combos)]:
            plan.setdefault(lc, []).append(i)
    nbad = 0
    pool = []
    for (level, conf), idxs in sorted(plan.items()):
        hists = run_scripts(ctx, binp, level, conf, [behs[i][0] for i in idxs])
        for i, h in zip(idxs, hists):
            if isinstance(h, Skipped):
                continue
            cmds, pred = behs[i]
            ctx.evaluations += 1
            bad = None
            for j, ev in enumerate(h[1:]):
                if not same(ev, pred[j]):
                    bad = j
                    break
            if bad is None and len(h) - 1 != len(cmds):
                bad = len(h) - 1
            pool.append((h, level, conf, cmds, bad, pred))
    # TLC judges the executions as well (Udict_Trace): a disagreement found by
    # the comparison must also be rejected by the trace specification
    rej = {i: (ln, want) for i, ln, want in judge(ctx, [p[0] for p in pool], tag)}
    for i, (h, level, conf, cmds, bad, pred) in enumerate(pool):
        if bad is None and i not in rej:
            continue
        if (bad is None) != (i not in rej) or (bad is not None and rej[i][0] != bad + 2):
            raise vlib.ToolError("MCUdict prediction and Udict_Trace disagree on an execution (%s %s): "
                                 "comparison says step %s, trace validation says line %s\n%s"
                                 % (level, conf, bad, rej.get(i), "\n".join(fmt(e) for e in h[1:][:60])))
        nbad += 1
        if nbad <= 3:
            report(ctx, binp, level, conf, cmds, rej[i][0], json.dumps(pred[bad]) if bad < len(pred) else None,
                   "TLC behaviour (%s)" % tag)
    return len(pool)


# ------------------------------------------------------- code -> spec (random)
SIZES_SMALL = [0, 1, 2, 3, 3, 3, 4, 7, 8, 9, 15, 16, 17, 31, 33, 64, 100, 127, 128, 129, 255, 256, 257]
SIZES_LARGE = [1000, 4096, 20000, 32767, 32768, 60000, 65000, MAXLEN - 1, MAXLEN]
U64 = [0, 1, 2, 127, 128, 255, 256, 65535, 65536, 2 ** 31 - 1, 2 ** 31, 2 ** 32 - 1, 2 ** 32, 2 ** 53,
       2 ** 63 - 1, 2 ** 63, 2 ** 64 - 2, 2 ** 64 - 1]
I64 = [0, 1, -1, 2, -2, 127, -128, 255, -256, 2 ** 31, -2 ** 31, 2 ** 63 - 1, -(2 ** 63 - 1), 2 ** 62, -2 ** 62]
F64 = [0x0000000000000000, 0x8000000000000000, 0x3ff0000000000000, 0xbff8000000000000, 0x7fefffffffffffff,
       0x0000000000000001, 0x7ff0000000000000, 0xfff0000000000000, 0x400921fb54442d18, 0x0010000000000000]


def rand_value(rng, base, big):
    if base in ("opaque", "string"):
        n = rng.choice(SIZES_LARGE) if big and rng.chance(1, 2) else rng.choice(SIZES_SMALL)
        return "%s%d.%d" % (base[0], n, rng.below(16) if n else 0)
    if base == "void":
        return "v"
    if base == "bool":
        return "b%d" % rng.below(2)
    if base == "small_unsigned":
        return "su%d" % rng.below(256)
    if base == "small_int":
        return "si%d" % (rng.below(256) - 128)
    if base == "unsigned":
        return "u%d" % (rng.choice(U64) if rng.chance(2, 3) else rng.next())
    if base == "int":
        if rng.chance(2, 3):
            return "i%d" % rng.choice(I64)
        x = rng.next() - 2 ** 63
        return "i%d" % (x if x != -2 ** 63 else 0)
    if base == "float":
        if rng.chance(2, 3):
            return "f%016x" % rng.choice(F64)
        x = rng.next()
        if (x >> 52) & 0x7ff == 0x7ff:      # no NaN payloads (inf is in F64)
            x &= ~(1 << 62)
        return "f%016x" % x
    if base == "rational":
        num = rng.choice(I64) if rng.chance(1, 2) else rng.next() % (2 ** 63) - 2 ** 62
        den = rng.choice(U64) if rng.chance(1, 2) else rng.next()
        return "r%d/%d" % (num, den)
    raise vlib.ToolError("base " + base)


def gen_script(rng, length, nkeys, big):
    """seeded random command script; the generator knows only which handles
    are allocated"""
    allkeys = [(n, t) for n in NAMES for t in BASE] + [("-", t) for t in sorted(SH)]
    keys = []
    # always a prefix pair of the same type, and a shorthand with its textual twin
    t0 = rng.choice(["string", "opaque", "string", "unsigned", "void"])
    keys += [("a", t0), ("ab", t0), ("-", "FLOW_DEF"), ("f.def", "string")]
    while len(keys) < nkeys:
        k = rng.choice(allkeys)
        if k not in keys:
            keys.append(k)
    blob = [k for k in keys if base_of(k[1]) in ("string", "opaque")]
    H = 4
    live = []
    cmds = []

    def key(c, k):
        c["n"], c["t"] = k
        return c
    cmds.append({"e": "Alloc", "d": 0})
    live.append(0)
    while len(cmds) < length:
        x = rng.below(100)
        free = [h for h in range(H) if h not in live]
        if not live:
            x = 99
        d = rng.choice(live) if live else 0
        if x < 34:
            k = rng.choice(keys)
            cmds.append(key({"e": "Set", "d": d, "v": rand_value(rng, base_of(k[1]), big)}, k))
        elif x < 38 and any(base_of(k[1]) == "opaque" and k[0] != "-" for k in keys):
            # the value as a hexadecimal string - and strings that stop being hexadecimal: a refused setter
            k = rng.choice([k for k in keys if base_of(k[1]) == "opaque" and k[0] != "-"])
            v = rand_value(rng, "opaque", False)
            n = int(v[1:].split(".")[0])
            if n > 0 and rng.chance(2, 3):
                cmds.append(key({"e": "SetBad", "d": d, "v": v, "bad": rng.choice([0, n - 1, rng.below(n)])}, k))
            else:
                cmds.append(key({"e": "SetHex", "d": d, "v": v}, k))
        elif x < 48:
            cmds.append(key({"e": "Get", "d": d}, rng.choice(keys)))
        elif x < 59:
            cmds.append(key({"e": "Delete", "d": d}, rng.choice(keys)))
        elif x < 66:
            k = rng.choice(blob)
            k2 = rng.choice([q for q in blob if base_of(q[1]) == base_of(k[1])])
            c = key({"e": "SetAlias", "d": d}, k)
            c["n2"], c["t2"] = k2
            cmds.append(c)
        elif x < 70:
            if free:
                h = rng.choice(free)
                cmds.append({"e": "Dup", "d": h, "s": d})
                live.append(h)
        elif x < 75:
            cmds.append({"e": "Import", "d": d, "s": rng.choice(live)})
        elif x < 81:
            others = [h for h in live if h != d]
            if others:
                cmds.append(key({"e": "Copy", "d": d, "s": rng.choice(others)}, rng.choice(keys)))
        elif x < 86:
            cmds.append({"e": "Cmp", "d": d, "s": rng.choice(live)})
        elif x < 92:
            cmds.append({"e": "Iter", "d": d})
        elif x < 95:
            if len(live) > 1 or rng.chance(1, 4):
                cmds.append({"e": "Free", "d": d})
                live.remove(d)
        else:
            if free:
                h = rng.choice(free)
                cmds.append({"e": "Alloc", "d": h})
                live.append(h)
    # probe epilogue: everything observable
    for d in sorted(live):
        cmds.append({"e": "Iter", "d": d})
        for k in keys:
            cmds.append(key({"e": "Get", "d": d}, k))
    for d in sorted(live):
        for s in sorted(live):
            cmds.append({"e": "Cmp", "d": d, "s": s})
    return cmds


def random_traces(ctx, binp, nexec, length, tag):
    rng = vlib.Rng(ctx.seed * 1000003 + 10)
    plan = {}
    for i in range(nexec):
        level = LEVELS[i % 3]
        conf = CONFS[(i // 3) % len(CONFS)]
        big = (i % 4) != 3
        cmds = gen_script(rng, length // 3 + rng.below(length), 6 + rng.below(14), big)
        if not well_formed(cmds):
            raise vlib.ToolError("generator produced an ill-formed script")
        plan.setdefault((level, conf), []).append(cmds)
    pool = []
    for (level, conf), scripts in sorted(plan.items()):
        hists = run_scripts(ctx, binp, level, conf, scripts, timeout=900)
        for c, h in zip(scripts, hists):
            if not isinstance(h, Skipped):
                pool.append((h, level, conf, c))
    ctx.evaluations += len(pool)
    nev = sum(len(p[0]) for p in pool)
    rej = judge(ctx, [p[0] for p in pool], tag)
    for i, ln, want in rej[:3]:
        h, level, conf, cmds = pool[i]
        report(ctx, binp, level, conf, cmds, ln, want, "random trace seed=%d #%d" % (ctx.seed, i))
    if pool:
        h = pool[0][0]
        ctx.sample({"random_trace": [fmt(e) if e["e"] != "Reset" else json.dumps(e) for e in h[:14]],
                    "events": len(h)}, limit=3)
    return len(pool), nev, len(rej)


# ---------------------------------------------------------------------- main
def build(ctx, ndebug=False):
    """ndebug: library and harness compiled with -DNDEBUG (assert() compiled out - the configuration of a release
    build; the repository's tests all #undef NDEBUG, so nothing they run sees it)."""
    return ctx.cc("replay_udict_ndebug" if ndebug else "replay_udict",
                  ["replay_udict.c", "lib/upipe/udict_inline.c", "lib/upipe/umem_alloc.c", "lib/upipe/uref_std.c"],
                  san="asan", flags=["-DNDEBUG"] if ndebug else [])


def parallel(jobs):
    """run TLC jobs (closures) concurrently; re-raise the first error"""
    res = [None] * len(jobs)
    err = []

    def work(i):
        try:
            res[i] = jobs[i]()
        except BaseException as e:      # noqa
            err.append(e)
    th = [threading.Thread(target=work, args=(i,)) for i in range(len(jobs))]
    for t in th:
        t.start()
    for t in th:
        t.join()
    if err:
        raise err[0]
    return res


def with_depth(ctx, cfg, depth):
    """the cfg files in spec/ carry the quick-tier depth; the thorough tier
    runs a deepened copy (written to the build directory)"""
    with open(os.path.join(vlib.SPEC, cfg)) as f:
        text = f.read()
    text2 = re.sub(r"MaxDepth = \d+", "MaxDepth = %d" % depth, text)
    if text2 == text:
        return cfg
    path = os.path.join(ctx.build, "d%d_%s" % (depth, cfg))
    with open(path, "w") as f:
        f.write(text2)
    return path


def run(ctx):
    SKIPPED[0] = 0
    try:
        _run(ctx)
    finally:
        # executions cut from a batch after MAX_CRASHES crashed ones were not run on
        # the real code; they are dropped before comparison / judging (class
        # Skipped) and therefore not counted anywhere - only reported here
        if SKIPPED[0]:
            ctx.extra["executions_skipped_after_crashes"] = SKIPPED[0]


def _run(ctx):
    binp = build(ctx)
    q = ctx.quick
    ctx.assumptions += [
        "values that do not fit the 16-bit TLV length (namelen + 1 + size > 65535), INT64_MIN, NaN payloads, types outside enum udict_type and uref_attr_copy_* of a dictionary onto itself are outside the claim and never generated",
        "value tokens are materialised / recognised by harness/replay_udict.c (injective codec, 16 content patterns per length); token equality stands for value equality",
        "allocation failure paths (UBASE_ERR_ALLOC) are not exercised",
    ]
    ctx.trusted += ["TLC", "harness/replay_udict.c (codec token <-> value, command interpreter)", "ASan/UBSan (gcc)"]

    # 1. the abstract module: exhaustive, small scope -------------------------
    depth = 4 if q else 7
    jobs = []
    for k in EXH:
        cfg = with_depth(ctx, "MCUdict_%s.cfg" % k, depth)
        jobs.append(lambda cfg=cfg: ctx.tlc("MCUdict", cfg, workers=2, coverage=True, heap="4g", env=JENV,
                                            timeout=(300 if q else 1500), name=os.path.basename(cfg)))
    for k, res in zip(EXH, parallel(jobs)):
        ctx.model_must_hold(res, "Udict/" + k)
        # vacuity guard: every API action generated transitions (the observers
        # Get/Cmp/Iterate never produce a NEW state under the VIEW hiding
        # `last`, so the count of generated - not distinct - states is used)
        missing = [a for a in ACTIONS if res.coverage.get(a, (0, 0))[1] == 0
                   and not (a == "MSetAlias" and k in NO_BLOB)]
        if missing:
            raise vlib.ToolError("vacuity (%s): actions never taken: %s" % (k, missing))
    ctx.exhaustive = True
    ctx.extra["exhaustive_scope"] = ("2 dictionaries, 4-8 keys per configuration (prefix names, shorthand + textual twin, "
                                     "every base type over the 6 configurations), 1-4 values per type, call sequences <= %d"
                                     % depth)
    # negative variants of the model: TLC must reject each
    jobs = [lambda c=c: ctx.tlc("MCUdict", "MCUdict_%s.cfg" % c, workers=1, count=False, name=c, env=JENV)
            for c in NEG]
    for c, res in zip(NEG, parallel(jobs)):
        if not res.violated:
            raise vlib.ToolError("vacuity: broken model variant %s not rejected by TLC" % c)
        ctx.extra.setdefault("negative_configs", {})[c] = res.violated

    # 2. spec -> code ----------------------------------------------------------
    sims = [("all", 120 if q else 1500, 40 if q else 60), ("str", 60 if q else 800, 40),
            ("opq", 60 if q else 800, 40), ("mix", 50 if q else 600, 40), ("num", 30 if q else 400, 30),
            ("sml", 30 if q else 400, 30), ("rat", 30 if q else 400, 30)]
    jobs = []
    for k, num, dep in sims:
        cfg = with_depth(ctx, "MCUdict_sim_%s.cfg" % k, dep)
        jobs.append(lambda cfg=cfg, num=num: ctx.tlc("MCUdict", cfg, workers=1, simulate=num, depth=200, env=JENV,
                                                     count=False, timeout=1500, name=os.path.basename(cfg)))
    behs = []
    for (k, num, dep), res in zip(sims, parallel(jobs)):
        ctx.model_must_hold(res, "Udict/sim_" + k)
        bs = res.beh()
        if len(bs) < num:
            raise vlib.ToolError("simulation %s emitted %d behaviours, expected %d" % (k, len(bs), num))
        behs += [beh_to_script(b) for b in bs]
    if not q:
        res = ctx.tlc("MCUdict", "MCUdict_enum.cfg", workers=4, count=False, timeout=1500, heap="8g")
        ctx.model_must_hold(res, "Udict/enum")
        en = [beh_to_script(b) for b in res.beh()]
        ctx.extra["enumerated_call_sequences_replayed"] = len(en)
        if len(en) < 1000:
            raise vlib.ToolError("enumeration emitted only %d behaviours" % len(en))
        behs += en
    # every behaviour under the three API levels, manager configurations rotating
    ncf = 2 if q else 4
    combos = []
    for r in range(len(CONFS)):
        combos.append([(lv, CONFS[(r + j * 3 + li) % len(CONFS)]) for li, lv in enumerate(LEVELS) for j in range(ncf)])
    nrep = replay_behaviours(ctx, binp, behs, combos, "beh")
    ctx.extra["model_behaviours"] = len(behs)
    ctx.extra["model_behaviour_replays"] = nrep
    if behs:
        c, p = behs[0]
        ctx.sample({"tlc_behaviour_with_predicted_results":
                    [to_line(x) + " => " + json.dumps(y) for x, y in list(zip(c, p))[:12]]}, limit=3)

    # 3. code -> spec ----------------------------------------------------------
    nexec, nev, nrej = random_traces(ctx, binp, 48 if q else 720, 500 if q else 1500, "rnd")
    ctx.extra["random_executions"] = nexec
    ctx.extra["random_events_validated"] = nev
    # 4. the same, with assert() compiled out (-DNDEBUG: a release build of the library)
    binp2 = build(ctx, ndebug=True)
    nexec2, nev2, nrej2 = random_traces(ctx, binp2, 24 if q else 360, 500 if q else 1500, "rnd_ndebug")
    ctx.extra["random_executions_ndebug_build"] = nexec2
    ctx.extra["random_events_validated_ndebug_build"] = nev2
    ctx.extra["manager_configurations"] = [{"pool": c[0], "min_size": c[1], "extra_size": c[2]} for c in CONFS]
    ctx.extra["api_levels"] = LEVELS


def replay(ctx, rp):
    """bin/check C10 --replay replays/C10_xxx.json"""
    r = rp["replay"]
    binp = build(ctx, ndebug=bool(r.get("ndebug")))
    h = run_scripts(ctx, binp, r["level"], tuple(r["conf"]), [r["cmds"]])[0]
    line = judge_strict(ctx, h, "replay")
    for e in h[1:]:
        print("  " + fmt(e))
    if line is None:
        print("NOT-REPRODUCED property=C10 (the execution is accepted by Udict_Trace)")
        return 0
    print("VIOLATION property=C10 reproduced: line %d (%s) rejected by Udict_Trace" % (line, fmt(h[line - 1])))
    return 1
