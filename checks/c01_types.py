"""C01, second stage of the code -> spec binding: EVERY buildable pipe type.

checks/c01.py validates recorded executions of 39 pipe types against
spec/Lifecycle_Trace.tla.  This part drives every pipe type the per-type
templates of checks/c04.py can build (picture, sound, TS, framers, sinks and
sources that run offline, plus row_join, blit, graph, the blank / sine / file /
udp / multicat sources, multicat_sink, ts_encaps, ts_metadata_generator) through
application-level OWNERSHIP scenarios and validates every object event of
every execution with the SAME Lifecycle_Trace.tla (TLC is the only judge):

  * the application keeps - and frees later, before or after the pipe - its own
    reference of everything it passes by reference without giving ownership:
    flow definitions given to upipe_set_flow_def / upipe_flow_alloc, requests,
    the probe chain and the pipe manager;
  * set_flow_def several times with the same uref, an equal one, a different one;
  * outputs back and forth (x, NULL, x, y);
  * buffers (block / picture / sound, matching the flow definition) the
    application has duplicated: the dup is kept and freed before or after the
    pipe is released;
  * flush, sub-pipes released before and after the super-pipe, release while
    the pipe holds input; pool depths 0, 2, 3.

Directed scripts run on every type in both tiers; seeded random scripts on a
per-seed sample of the types in the quick tier and on all of them in the
thorough tier.  Rejected executions are re-run, shrunk under the ownership
rules, keyed by the normalised call sequence on the pipe concerned.

run_part(ctx) is called by checks/c01.py at the end of its run();
`bin/check C01_TYPES` runs this part alone.
"""
import glob, json, os, re, time
import vlib
from checks import pipecommon
from checks import c01 as C
from checks import c04

LEVEL = "model_checking"
Exe = C.Exe

M = "lib/upipe-modules/upipe_%s.c"
TS = "lib/upipe-ts/upipe_%s.c"
SATTR = c04.SATTR.strip()
PATTR = c04.PATTR.strip()
PIC = {"A": "pic.A. " + PATTR, "B": "pic.B. " + PATTR}


def snd(fmt="s16"):
    return {"A": "sound.%s.A. %s" % (fmt, SATTR), "B": "sound.%s.B. %s" % (fmt, SATTR)}


# ---------------------------------------------------------------- templates
def fixfmt(d):
    """c04 never feeds sound: its attributes announce 4 octets per sample for every format; packed
    stereo s32 / f32 is 8 octets per sample (the buffers built from the definition must match it)"""
    if d.startswith(("sound.s32.", "sound.f32.")):
        d = d.replace("sample_size=4", "sample_size=8")
    return d


def fdspec(v):
    """flow definition of a c04 template as `<def> [k=v..]`"""
    if v.startswith("x:"):
        return fixfmt(" ".join(v[2:].split()))
    return "block.%s." % v[1:]


def conv_alloc(cmds):
    out = []
    for c in cmds:
        t = c.split()
        if t[0] == "new":
            out.append("cnew " + " ".join(t[1:]))
        elif t[0] == "newf":
            out.append("cnew %s %s %s" % (t[1], t[2], fixfmt(" ".join(t[3:]))))
        elif t[0] == "newqsrc":
            out.append("cnew %s qsrc %s" % (t[1], t[2]))
        elif t[0] == "newqsink":
            out.append("cnew %s qsink %s" % (t[1], t[2]))
        elif t[0] == "subf":
            out.append("subf %s %s %s" % (t[1], t[2], fdspec(t[3])))
        elif t[0] == "setfd":
            out.append("setfdx %s %s" % (t[1], fdspec(t[2])))
        else:
            out.append(c)
    return out


def from_c04(t):
    if t.get("key"):
        return None                 # second configuration of a type already listed
    src = t["src"] if t["src"] is not None else [M % t["name"]]
    return dict(name=t["name"], src=list(src), alloc=conv_alloc(t["alloc"]), fdp=t["fdp"], inp=t["inp"],
                outp=t["outp"], fd={k: fdspec(v) for k, v in t["fd"].items()}, opt=t["optfd"] or t["opt"],
                size=t["size"], subfd=None, subattr="")


def typ(name, alloc=None, src=None, fdp="p0", inp="p0", outp="p0", fd=None, opt=None, size=188, subfd=None,
        subattr=""):
    return dict(name=name, src=src if src is not None else [M % name], alloc=alloc or ["cnew p0 " + name],
                fdp=fdp, inp=inp, outp=outp, fd=fd or {"A": "block.A.", "B": "block.B."}, opt=opt, size=size,
                subfd=subfd, subattr=subattr)


EXTRA_TYPES = [
    typ("row_join", fd=PIC),
    # blit: the main pipe takes the background picture, every sub-pipe a picture to blit on it
    # (a sub-pipe is told where its pictures go)
    typ("blit", alloc=["cnew p0 blit", "sub p1 p0"], fd=PIC, subfd="p1", subattr=" hpos=0 vpos=0"),
    # graph: the main pipe is told the picture format it draws, the sub-pipes receive the values
    typ("graph", alloc=["cnew p0 graph", "subf p1 p0 graph.A."], fd=PIC, inp=None),
    typ("sinesrc", src=[M % "sine_wave_source"], fdp=None, inp=None),
    typ("blksrc", src=[M % "blank_source"], alloc=["cnew p0 blksrc pic.A. " + PATTR], fd=PIC, inp=None),
    typ("fsrc", src=[M % "file_source"], fdp=None, inp=None, opt=("uri", "@FILE@", "none")),
    typ("udpsrc", src=[M % "udp_source"], fdp=None, inp=None),
    typ("msrc", src=[M % "multicat_source"], fdp=None, inp=None),
    typ("multicat_sink"),
    typ("ts_encaps", src=[TS % "ts_encaps"],
        fd={"A": "block.mpegtspes.A. octetrate=10000 tb_rate=10000 pid=68 pes_id=224",
            "B": "block.mpegtspes.B. octetrate=10000 tb_rate=10000 pid=69 pes_id=224"}),
    # (no buffers: its interval is set by upipe_ts_mux, it divides by it)
    typ("ts_metadata_generator", src=[TS % "ts_metadata_generator"], fd={"A": "block.id3.A.", "B": "block.id3.B."}, inp=None),
]
MORE_OPT = {"fsink": ("path", "@FILE@", "none"), "crop": ("rect", "0,0,0,0", "2,2,2,2")}


# templates of c04 refined: the inputs of these types are sub-pipes (c04 never feeds them)
SUBINPUT = {
    # (its inputs are planar: as many planes as channels)
    "audio_merge": dict(alloc=["cnew p0 audio_merge sound.s16. rate=48000 channels=2 sample_size=2 splanes=2 samples=1024",
                               "sub p1 p0"], fdp=None, inp=None, subfd="p1",
                        fd={"A": "sound.s16.A. rate=48000 channels=2 sample_size=2 splanes=2 samples=1024",
                            "B": "sound.s16.B. rate=48000 channels=2 sample_size=2 splanes=2 samples=1024"}),
    # (NTSC pictures with room for the lines it prepends)
    "ntsc_prepend": dict(fd={"A": "pic.A. hsize=720 vsize=480 vvisible=480 vprepend=5 vappend=1 fps=25 pplanes=3",
                             "B": "pic.B. hsize=720 vsize=480 vvisible=480 vprepend=5 vappend=1 fps=25 pplanes=3"}),
    "audiocont": dict(alloc=["cnew p0 audiocont sound.f32. " + SATTR.replace("sample_size=4", "sample_size=8"), "sub p1 p0"],
                      subfd="p1"),
    "videocont": dict(alloc=["cnew p0 videocont", "sub p1 p0"], subfd="p1"),
    "play": dict(alloc=["cnew p0 play", "sub p1 p0"], fdp=None, inp=None, subfd="p1", outp="p1"),
}


def templates():
    ts = []
    for t in c04.TYPES:
        x = from_c04(t)
        if x is not None:
            x.update(SUBINPUT.get(x["name"], {}))
            if x["opt"] is None and x["name"] in MORE_OPT:
                x["opt"] = MORE_OPT[x["name"]]
            ts.append(x)
    return ts + EXTRA_TYPES


def bad_fd(T, rng=None):
    """a flow definition the pipe is likely to refuse or to accept only half-way: the right family without
    its attributes, or another family altogether (error paths of set_flow_def)"""
    d = T["fd"]["A"].split()[0]
    cands = [d.replace(".A.", ".X."), "void.X.", "block.X." if not d.startswith("block.") else "pic.X."]
    return cands[rng.below(len(cands))] if rng else cands[0]


def family(T):
    d = T["fd"]["A"]
    return "pic" if d.startswith("pic.") else "sound" if d.startswith("sound.") else \
        "block" if d.startswith("block.") else "other"


def pipes_of(T):
    """names of the pipes a template allocates, in allocation order, with the super-pipe of each"""
    res = []
    for c in T["alloc"]:
        t = c.split()
        if t[0] == "cnew":
            res.append((t[1], t[3] if t[2] == "qsink" else None))
        elif t[0] in ("sub", "subf"):
            res.append((t[1], t[2]))
    return res


# -------------------------------------------------------------------- build
def build(ctx):
    base = set(M % m for m in pipecommon.MODULES)
    mods, extra = set(C.EXTRA_MODULES), ["vloop.c"]
    for T in templates():
        for s in T["src"]:
            if s in base:
                continue
            if s.startswith("lib/upipe-modules/upipe_"):
                mods.add(s[len("lib/upipe-modules/upipe_"):-2])
            elif s not in extra:
                extra.append(s)
    mods.add("udp")
    have = set("lib/upipe/%s.c" % n for n in pipecommon.LIB)
    for f in sorted(glob.glob(os.path.join(vlib.REPO, "lib/upipe/*.c"))):
        rel = os.path.relpath(f, vlib.REPO)
        if rel not in have and rel not in extra:
            extra.append(rel)
    srcs = pipecommon.driver_sources(sorted(mods), extra, ["pd_ext_c01t.c"])
    flags = ["-I", vlib.HARNESS + "/shim", "-pthread", "-O0", "-g1"]
    # objects checks/c01.py compiled during this very run (same sources, same sanitizers; ctx.build is
    # emptied when the run starts) are linked as they are: only what is new here is compiled
    reuse, todo = [], []
    for s in srcs:
        p = s if os.path.isabs(s) else (os.path.join(vlib.HARNESS, s) if os.path.exists(os.path.join(vlib.HARNESS, s))
                                        else os.path.join(vlib.REPO, s))
        o = os.path.join(ctx.build, "o", re.sub(r"[^A-Za-z0-9_]", "_", os.path.relpath(p, "/")) + ".o")
        if os.path.exists(o) and os.path.getmtime(o) >= os.path.getmtime(p) and not s.startswith("pd_ext_"):
            reuse.append(o)
        else:
            todo.append(s)
    objs = reuse + ctx.cc_objs(todo, flags=flags, san="asan", tag="ot")
    ctx.extra["types_objects_compiled"] = len(todo)
    return ctx.cc("pd_c01t", objs, flags=flags + ["-Wl,--no-as-needed", "-lm", "-Wl,--wrap=malloc"], san="asan")


# ----------------------------------------------------- script vocabulary
CREATE = ("cnew", "new", "sub", "subf")
PROTECTED = CREATE + ("who", "attach")
NORM = dict(C.NORM, setfdx="set_flow_def", subf="alloc_sub")
ADDRESSED = ("out", "setfd", "setfdx", "usetfd", "in", "uin", "flush", "rel", "opt", "reg", "unreg", "krel")


def types_of(exe):
    ty = {}
    for c in exe.script():
        t = c.split()
        if t[0] in ("new", "cnew") and len(t) >= 3:
            ty[t[1]] = t[2]
        elif t[0] == "sink":
            ty[t[1]] = "sink"
        elif t[0] in ("sub", "subf") and len(t) >= 3:
            ty[t[1]] = ty.get(t[2], "?") + ".sub"
    return ty


def norm_cmd(t):
    n = NORM.get(t[0])
    if n is None:
        return None
    if t[0] == "out":
        return "set_output(%s)" % ("NULL" if t[2] == "null" else "x")
    if t[0] == "opt":
        return "%s_%s" % (t[2], t[3]) if len(t) > 3 else "option"
    return n


def epilogue_for(body):
    """Epilogue of DESIGN.md C01 (see checks/c01.py) for the vocabulary of this part: resolve every
    stall, unregister, free what the application still owns, release kept references, flush and release
    every handle in creation order, run loop and clock, release the managers."""
    held, kind, outof, reqs, urefs, kept = [], {}, {}, {}, [], []
    keep = {"probe": False, "mgr": False}
    for c in body:
        t = c.split()
        k = t[0]
        if k in ("new", "cnew"):
            held.append(t[1])
            kind[t[1]] = t[2]
            if k == "cnew" and t[2] not in ("qsrc", "qsink"):
                kept += [(t[1], w) for w in ("probe", "mgr") if keep[w]]
        elif k == "keep":
            keep[t[1]] = t[2] == "on"
        elif k == "krel" and (t[1], t[2]) in kept:
            kept.remove((t[1], t[2]))
        elif k == "sink":
            held.append(t[1])
            kind[t[1]] = "sink"
        elif k in ("sub", "subf"):
            held.append(t[1])
            kind[t[1]] = "sub"
        elif k == "rel" and t[1] in held:
            held.remove(t[1])
        elif k == "out":
            outof[t[1]] = None if t[2] == "null" else t[2]
        elif k == "req":
            reqs[t[1]] = None
        elif k == "reg":
            reqs[t[2]] = t[1]
        elif k == "unreg":
            reqs[t[2]] = None
        elif k in ("ualloc", "ufd", "ufdx", "mkbuf"):
            urefs.append(t[1])
        elif k == "udup":
            urefs.append(t[2])
        elif k == "ufree" and t[1] in urefs:
            urefs.remove(t[1])
        elif k == "uin" and t[2] in urefs:
            urefs.remove(t[2])
    ep = []
    for n in held:
        if kind[n] == "sink":
            ep += ["policy %s accept" % n, "reqmode %s hold" % n]
    ep += ["answer", "loop", "sink se", "who se"]
    for n in held:
        # every pipe still held gets the fresh (accepting, request-holding) sink as output: whatever it
        # waits for - a request refused or thrown by an earlier output, a flow definition rejected - is
        # asked again there
        if kind[n] not in ("sink", "qsrc") or outof.get(n) is None and kind[n] != "sink":
            ep.append("out %s se" % n)
    ep += ["answer", "loop", "answer", "loop"]
    for r in sorted(reqs):
        if reqs[r] is not None:
            ep.append("unreg %s %s" % (reqs[r], r))
    ep += ["ufree %s" % n for n in urefs]
    for n in held:
        if kind[n] != "sink":
            ep.append("flush %s" % n)
        ep.append("rel %s" % n)
    ep += ["krel %s %s" % kw for kw in kept]
    ep += ["rel se", "loop", "advance 2700000000", "loop"]
    ep += ["reqclean %s" % r for r in sorted(reqs)]
    ep += ["rcs", "teardown"]
    return ep


def well_formed(cmds):
    """Static check that a (shrunk) script still respects the ownership rules and the input contract."""
    live, fdset, sinks, regs, kept = set(), set(), set(), {}, set()
    keep = {"probe": False, "mgr": False}
    sup = {}
    for c in cmds:
        t = c.split()
        k = t[0]
        if k == "sink":
            sinks.add(t[1])
        if k in ("setfd", "setfdx", "usetfd"):
            fdset.add(t[1])
        if k in ("in", "uin") and t[1] not in sinks and t[1] not in fdset:
            return False
        if k == "reg":
            if regs.get(t[2]) is not None:
                return False
            regs[t[2]] = t[1]
        if k == "unreg":
            if regs.get(t[2]) != t[1]:
                return False
            regs[t[2]] = None
        if k == "rel" and t[1] in regs.values():
            return False
        if k == "keep":
            keep[t[1]] = t[2] == "on"
        elif k == "krel":
            if (t[1], t[2]) not in kept:
                return False
            kept.discard((t[1], t[2]))
        elif k in ("new", "cnew", "sink", "ualloc", "ufd", "ufdx", "req"):
            if t[1] in live:
                return False
            if k == "cnew" and len(t) > 3:
                if t[2] == "qsink" and t[3] not in live:
                    return False
                if re.match(r"^u\d+$", t[3]) and t[3] not in live:
                    return False
            if k == "cnew" and t[2] not in ("qsrc", "qsink"):
                kept |= {(t[1], w) for w in keep if keep[w]}
            live.add(t[1])
        elif k in ("sub", "subf"):
            if t[1] in live or t[2] not in live:
                return False
            if k == "subf" and re.match(r"^u\d+$", t[3]) and t[3] not in live:
                return False
            live.add(t[1])
        elif k == "mkbuf":
            if t[1] in live or t[2] not in live:
                return False
            live.add(t[1])
        elif k == "udup":
            if t[1] not in live or t[2] in live:
                return False
            live.add(t[2])
        elif k in ("rel", "ufree", "reqclean"):
            if t[1] not in live:
                return False
            live.discard(t[1])
        elif k in ("uin", "usetfd", "reg", "unreg"):
            if t[1] not in live or t[2] not in live:
                return False
            if k == "uin":
                live.discard(t[2])
        elif k == "out":
            if t[1] not in live or (t[2] != "null" and t[2] not in live):
                return False
        elif k in ("setfd", "setfdx", "in", "flush", "opt", "who", "caps", "policy", "reqmode", "probeprov"):
            if t[1] not in live:
                return False
        elif k == "teardown":
            if live or kept:
                return False
    return not live and not kept


def target_of(exe, line):
    ty = types_of(exe)
    bi = C.block_of(exe, line)
    cmd = exe.blocks[bi][0] if bi >= 0 else ["?"]
    if cmd[0] in ADDRESSED and len(cmd) > 1 and cmd[1] in ty:
        return cmd[1]
    inv = {o: n for n, o in getattr(exe, "names", {}).items()}
    stack = []
    for ev in exe.events[:line - 1]:
        if ev["e"] == "Destroy":
            stack.append(ev["o"])
        elif ev["e"] == "End" and stack and stack[-1] == ev["o"]:
            stack.pop()
    for o in reversed(stack):
        if o in inv and inv[o] in ty:
            return inv[o]
    return None


APPCALLS = {"ufdx": "flow_def_alloc", "ufd": "flow_def_alloc", "mkbuf": "uref_alloc", "udup": "uref_dup",
            "ufree": "uref_free", "krel": "release_kept", "answer": "requests_answered", "loop": "event_loop",
            "advance": "clock_advanced", "teardown": "managers_released", "quit": "end"}
OBJKIND = {"u": "uref", "b": "ubuf", "x": "ubuf", "d": "udict", "m": "buffer", "o": "refcount"}


def calls_of(exe, line):
    """normalised calls on the pipes of the type under test up to the refused event (for the report)"""
    ty = types_of(exe)
    tname = getattr(exe, "tname", None)
    mine = [n for n, t in ty.items() if tname and (t == tname or t == tname + ".sub")]
    bi = C.block_of(exe, line)
    seq = []
    for c, _ in exe.blocks[len(C.PRELUDE) + 1:bi + 1]:
        if c[0] == "ufree":
            seq.append("uref_free")
        elif len(c) > 1 and c[1] in mine:
            n = norm_cmd(c)
            if n:
                seq.append(("sub." if ty[c[1]].endswith(".sub") else "") + n)
    return ",".join(seq)


def left_over(exe):
    """kinds of objects created and never destroyed in a recorded execution"""
    live = {}
    named = set(getattr(exe, "names", {}).values())
    for ev in exe.events:
        if ev["e"] == "Alloc":
            live[ev["o"]] = OBJKIND.get(ev["o"][0], ev.get("k", "?"))
        elif ev["e"] == "Init" and ev.get("v") == 1:
            live[ev["o"]] = "refcount"
        elif ev["e"] in ("Free", "End"):
            live.pop(ev["o"], None)
    return sorted(set("pipe" if (k == "refcount" and o in named) else k for o, k in live.items()))


def key_of(exe, line, why):
    """<pipe type>;<sentence>;<what was refused>@<call during which it happened> - for the final audit
    the kinds of objects that were never destroyed.  It does not depend on how far the script could be
    shrunk; the call sequence is part of the description."""
    ev = exe.events[line - 1] if 0 < line <= len(exe.events) else {}
    tname = getattr(exe, "tname", None) or "?"
    if ev.get("e") == "Quiescent" or ev.get("kind") == "leak":
        return "%s;QuiescentClean;never destroyed: %s" % (tname, ",".join(left_over(exe)) or "unreachable memory")
    bi = C.block_of(exe, line)
    cmd = exe.blocks[bi][0] if bi >= 0 else ["?"]
    where = norm_cmd(cmd) or APPCALLS.get(cmd[0], cmd[0])
    ty = types_of(exe)
    if len(cmd) > 1 and ty.get(cmd[1], "").endswith(".sub"):
        where = "sub." + where
    if ev.get("e") == "San":
        what = ev.get("kind", "sanitizer")
    else:
        what = "%s(%s)" % (ev.get("e", "?"), OBJKIND.get(str(ev.get("o", "?"))[0], "?"))
    return "%s;%s;%s@%s" % (tname, why, what, where)


def same_failure(e, line, why, ref):
    ev = e.events[line - 1] if 0 < line <= len(e.events) else {}
    return why == ref[0] and ev.get("e") == ref[1] and ev.get("kind") == ref[2]


def mk(body, src, pool, tname, nsetup=0):
    e = Exe(list(body) + epilogue_for(body), src, pool)
    e.nbody = len(body)
    e.tname = tname
    e.nsetup = nsetup
    return e


def shrink(ctx, binp, exe, line, why, rounds=30, deadline=float("inf")):
    """Delta debugging on the body (never on the set-up commands that allocate the pipes); the epilogue
    is recomputed, candidates must be well formed and rejected for the same sentence with the same kind
    of event."""
    ev0 = exe.events[line - 1] if 0 < line <= len(exe.events) else {}
    ref = (why, ev0.get("e"), ev0.get("kind"))
    cur, cline = exe, line
    # first: everything after the command during which the event was refused goes (one candidate)
    k = C.block_of(exe, line) - (len(C.PRELUDE) + 1)
    if 0 <= k < exe.nbody - 1:
        c = mk(exe.cmds[:k + 1], exe.source, exe.pool, exe.tname)
        if well_formed(c.cmds):
            execute(ctx, binp, [c], jobs=1)
            before = ctx.traces
            rej = C.validate(ctx, [c], "tshr") if c.san != "hang" else []
            ctx.traces = before
            if rej and same_failure(c, rej[0][1], rej[0][2], ref):
                cur, cline = c, rej[0][1]
    n = 2
    while rounds > 0 and cur.nbody > 1 and time.time() < deadline:
        rounds -= 1
        body = cur.cmds[:cur.nbody]
        chunk = max(1, len(body) // n)
        cands = []
        for i in range(0, len(body), chunk):
            # the commands that build the pipes under test (and attach their clock) are never removed
            b = body[:i] + [c for c in body[i:i + chunk] if c.split()[0] in PROTECTED] + body[i + chunk:]
            if len(b) == len(body):
                continue
            c = mk(b, cur.source, cur.pool, cur.tname)
            if well_formed(c.cmds):
                cands.append(c)
        rej = []
        if cands:
            execute(ctx, binp, cands, jobs=4)
            before = ctx.traces
            rej = C.validate(ctx, [e for e in cands if e.san != "hang"], "tshr")
            ctx.traces = before
        ok = [(e, l) for e, l, w in rej if same_failure(e, l, w, ref)]
        if ok:
            ok.sort(key=lambda x: x[0].nbody)
            cur, cline = ok[0]
            n = max(2, n - 1)
        elif chunk == 1:
            break
        else:
            n = min(len(body), n * 2)
    return cur, cline, why


def report(ctx, binp, exe, line, why, others=0, deadline=float("inf")):
    again = mk(exe.cmds[:exe.nbody], exe.source, exe.pool, exe.tname)
    execute(ctx, binp, [again], jobs=1)
    before = ctx.traces
    r2 = C.validate(ctx, [again], "tre")
    ctx.traces = before
    if not r2:
        raise vlib.ToolError("rejected execution did not reproduce (flaky harness?): %s" % exe.cmds)
    line, why = r2[0][1], r2[0][2]
    small, line, why = shrink(ctx, binp, again, line, why, rounds=16 if ctx.quick else 40, deadline=deadline)
    key = key_of(small, line, why)
    ev = small.events[line - 1] if 0 < line <= len(small.events) else {}
    bi = C.block_of(small, line)
    nb = small.nbody
    what = "%s: %s violated: event %s during `%s` (pool depth %d) after the calls %s is refused by Lifecycle_Trace; minimal script: %s [+ epilogue: %s]" % (
        key, why, json.dumps(ev), " ".join(small.blocks[bi][0]) if bi >= 0 else "?", small.pool, calls_of(small, line),
        "; ".join(c for c in small.cmds[:nb] if not c.startswith(("who", "rcs"))),
        "; ".join(c for c in small.cmds[nb:] if not c.startswith(("who", "rcs", "policy", "reqmode"))))
    if small.san:
        what += " | sanitizer: %s" % (re.findall(r"(ERROR: \w+Sanitizer[^\n]*|runtime error[^\n]*|Assertion[^\n]*)", small.stderr) or [small.san])[0]
    if others:
        what += " | %d other rejected executions of this pipe type with the same kind of event" % others
    ctx.violation(key, what, {"part": "types", "cmds": small.cmds, "pool": small.pool, "source": small.source,
                              "type": small.tname, "sentence": why, "rejected_event": ev,
                              "original_cmds": exe.cmds})
    return key


# ------------------------------------------------------- running executions
LIFECYCLE_KINDS = ("use-after-free", "double-free", "leak", "bad-free", "alloc-dealloc-mismatch", "hang")


class Skipped(Exception):
    pass


def execute(ctx, binp, exes, jobs=4, batch=48, max_hung=6):
    """c01.execute in batches, then: an execution that DIED for a reason the statement does not speak
    about (null pointer, division by zero, assertion, overflow of a buffer: no object was used after its
    destruction, freed twice or leaked) is cut at its last event and marked `died` - its prefix is
    validated like any other, its death is recorded in the evidence, not judged.
    A broken tree must give a verdict, not a crawl: every execution is its own process under a
    time-out; once max_hung executions have hit it, the remaining ones are not run (dropped, not judged,
    not counted) and the caller decides."""
    hung = 0
    done = []
    for k in range(0, len(exes), batch):
        part = exes[k:k + batch]
        if hung >= max_hung:
            break
        C.execute(ctx, binp, part, jobs=jobs)
        hung += sum(1 for e in part if e.san == "hang")
        done += part
    for e in done:
        e.died = None
        if e.san is not None and e.san not in LIFECYCLE_KINDS:
            e.died = e.san
            if e.events and e.events[-1].get("e") == "San":
                e.events.pop()
    dropped = len(exes) - len(done)
    if dropped:
        ctx.extra["types_executions_dropped_after_hangs"] = ctx.extra.get("types_executions_dropped_after_hangs", 0) + dropped
        del exes[len(done):]
    return hung


# pipes that take their clock when the application calls upipe_attach_uclock (they do not ask by themselves)
ATTACH_UCLOCK = ("fsink", "fsrc", "grid", "multicat_sink", "rate_limit", "sinesrc", "sync", "time_limit", "udpsink",
                 "udpsrc")


def subst(cmd, ctx):
    return cmd.replace("@FILE@", os.path.join(ctx.build, "c01t_io.bin"))


def setup_cmds(T, ctx, fdalloc=None):
    """allocation commands of a template, each followed by `who`; fdalloc: name of an application-held
    uref to use as the flow definition of flow-allocated pipes (instead of a built one)"""
    out = []
    for c in T["alloc"]:
        t = c.split()
        if fdalloc and t[0] in ("cnew", "subf") and len(t) > 3 and "." in t[3]:
            i = 3
            out.append("ufdx %s %s" % (fdalloc, " ".join(t[i:])))
            c = " ".join(t[:i] + [fdalloc])
            fdalloc = None
        out.append(subst(c, ctx))
        if t[0] in CREATE:
            out.append("who %s" % t[1])
            if t[0] == "cnew" and t[2] in ATTACH_UCLOCK:
                out.append("attach %s uclock" % t[1])
    return out


def calibrate(ctx, binp, ts):
    """Ask the real code, per template: can it be allocated, does the pipe that takes the flow definition
    accept definition A, does the input pipe have an input function."""
    exes = []
    for T in ts:
        body = setup_cmds(T, ctx)
        for q in (T["inp"], T["subfd"]):
            if q:
                body.append("caps %s" % q)
        if T["fdp"]:
            body += ["ufdx u1 %s" % T["fd"]["A"], "usetfd %s u1" % T["fdp"]]
        if T["subfd"]:
            body += ["ufdx u2 %s%s" % (T["fd"]["A"], T["subattr"]), "usetfd %s u2" % T["subfd"]]
        body.append("rcs")
        e = mk(body, "calibration " + T["name"], 0, T["name"])
        e.T = T
        exes.append(e)
    execute(ctx, binp, exes, jobs=4)
    info = {}
    for e in exes:
        T = e.T
        rets = {}
        cur = None
        caps = {}
        for line in e.raw:
            if line.startswith("cmd "):
                cur = line[4:]
            elif line.startswith("ret ") and cur:
                rets.setdefault(cur, line.split()[1])
            elif line.startswith("caps "):
                caps[line.split()[1]] = "input=1" in line
        inp = caps.get(T["inp"], False)
        alloc = all(rets.get(subst(c, ctx)) == "0" for c in T["alloc"] if c.split()[0] in CREATE)
        fd = alloc and T["fdp"] is not None and rets.get("usetfd %s u1" % T["fdp"]) == "0"
        sfd = alloc and T["subfd"] is not None and rets.get("usetfd %s u2" % T["subfd"]) == "0" \
            and caps.get(T["subfd"], False)
        info[T["name"]] = {"alloc": alloc, "fd": fd, "input": alloc and inp and T["inp"] is not None,
                           "subfd": sfd, "clean": e.san is None}
    for T in ts:
        info.setdefault(T["name"], {"alloc": False, "fd": False, "input": False, "subfd": False, "clean": False})
    return info, exes


# ---------------------------------------------------------------- scenarios
def directed(T, I, ctx):
    """Hand-written ownership scenarios, instantiated for one template (all types, both tiers)."""
    out = []
    name = T["name"]
    fdp, inp, outp = T["fdp"], T["inp"], T["outp"]
    A, B = T["fd"]["A"], T["fd"]["B"]
    pipes = pipes_of(T)
    feed = I["fd"] and I["input"] and family(T) != "other"
    base = ["sink s0", "who s0", "sink s1", "who s1"]
    relsub_first = ["rel %s" % n for n, _ in reversed(pipes)]
    relsup_first = ["rel %s" % n for n, _ in pipes]
    # 1. the caller keeps every flow definition: A, B, free A, B again (same uref), A' (equal to A), free all
    #    AFTER the pipe is gone
    if fdp:
        o = [subst("opt p0 set %s %s" % (T["opt"][0], T["opt"][-1]), ctx)] if T["opt"] else []
        b = base + setup_cmds(T, ctx) + o + ["out %s s0" % outp, "ufdx u1 " + A, "usetfd %s u1" % fdp, "ufdx u2 " + B,
                                         "usetfd %s u2" % fdp, "ufree u1", "answer", "usetfd %s u2" % fdp,
                                         "ufdx u6 " + bad_fd(T), "usetfd %s u6" % fdp, "ufdx u7 void.X.",
                                         "usetfd %s u7" % fdp, "ufree u6", "ufdx u3 " + A,
                                         "usetfd %s u3" % fdp, "answer", "loop"]
        if feed:
            b += ["mkbuf u4 u3 1 %d" % T["size"], "udup u4 u5", "uin %s u4" % inp, "loop"]
        b += relsub_first + ["loop", "ufree u3", "ufree u2", "ufree u7"] + (["ufree u5"] if feed else [])
        out.append(mk(b, "directed keep-flow-defs", 0, name))
        # 1b. the same with pooled structures, flow definitions freed BEFORE the pipe, no output at all
        b = base + setup_cmds(T, ctx) + ["ufdx u1 " + A, "usetfd %s u1" % fdp, "usetfd %s u1" % fdp, "ufree u1",
                                         "ufdx u2 " + A, "usetfd %s u2" % fdp, "ufree u2", "setfdx %s %s" % (fdp, B)]
        b += relsup_first
        out.append(mk(b, "directed flow-defs-freed-first", 2, name))
    # 2. outputs back and forth x, NULL, x, y; duplicated buffers; flush; release while holding input (with an
    #    output: what the pipe waits for can still be answered there after the application let go of it)
    b = base + ["keep probe on", "keep mgr on"] + setup_cmds(T, ctx, fdalloc="u9") + ["keep probe off", "keep mgr off"]
    b += ["out %s s0" % outp, "out %s null" % outp, "out %s s0" % outp, "out %s s1" % outp]
    if fdp:
        b += ["ufdx u1 " + A, "usetfd %s u1" % fdp]
    if T["subfd"]:
        b += ["ufdx u8 %s%s" % (A, T["subattr"]), "usetfd %s u8" % T["subfd"]]
    b += ["answer"]
    if feed:
        b += ["mkbuf u2 u1 1 %d" % T["size"], "udup u2 u3", "udup u2 u4", "uin %s u2" % inp, "flush %s" % inp,
              "uin %s u3" % inp, "mkbuf u5 u1 2 %d" % T["size"], "uin %s u5" % inp]
    if family(T) != "other":
        if T["subfd"] and I["subfd"]:
            b += ["mkbuf u6 u8 3", "udup u6 u7", "uin %s u6" % T["subfd"], "mkbuf u10 u8 4", "uin %s u10" % T["subfd"],
                  "ufree u7"]
    b += relsup_first
    if feed:
        b += ["ufree u4"]
    out.append(mk(b, "directed outputs-dups-release-holding", 3, name))
    # 3. request kept by the application, registered, the output changed underneath, unregistered late
    b = base + setup_cmds(T, ctx) + ["req r0 uref_mgr", "req r1 flow_format", "reg %s r0" % outp, "out %s s0" % outp,
                                     "reg %s r1" % outp, "answer", "out %s s1" % outp, "answer", "out %s null" % outp,
                                     "unreg %s r0" % outp, "out %s s0" % outp, "unreg %s r1" % outp]
    b += relsub_first
    out.append(mk(b, "directed requests-output-changes", 0, name))
    # 4. nothing is answered at first: buffers (a short one among them) and a second flow definition go in
    #    while the pipe may still be waiting for its ubuf manager / flow format; the caller frees its flow
    #    definitions at once; only then are the requests answered
    if fdp and feed:
        short = 8 if family(T) == "block" else 1
        b = base + setup_cmds(T, ctx) + ["out %s s0" % outp, "ufdx u1 " + A, "usetfd %s u1" % fdp,
                                         "mkbuf u2 u1 1 %d" % T["size"], "udup u2 u3", "uin %s u2" % inp,
                                         "ufdx u4 " + B, "usetfd %s u4" % fdp, "mkbuf u5 u4 2 %d" % short,
                                         "ufree u4", "ufree u1", "uin %s u5" % inp, "answer", "loop", "ufree u3",
                                         "advance 27000"]
        b += relsup_first
        out.append(mk(b, "directed held-input-then-flow-def", 2, name))
    # 5. the event loop manager attached again and again, while the probe that hands it out answers and while it
    #    does not (frozen, as an application does around the allocation of a worker): a pipe that is not given
    #    a manager must end up without one - it released the one it had
    b = base + setup_cmds(T, ctx) + ["out %s s0" % outp]
    for n, _ in pipes:
        b += ["attach %s upump" % n, "freeze %s" % n, "attach %s upump" % n, "loop", "thaw %s" % n, "attach %s upump" % n,
              "freeze %s" % n, "attach %s upump" % n, "attach %s upump" % n]
    b += relsub_first + ["loop"]
    out.append(mk(b, "directed attach-while-frozen", 0, name))
    return out


def gen_random(rng, T, I, ctx, quick):
    """A seeded random ownership program for one template.  The only restriction beyond the ownership
    rules: the application does not let go of the pipe that carries the output while input may be held
    upstream of an output that cannot be answered any more (no output, or a sink that refused the
    request): that stall would be unresolvable and the pipes keep themselves alive by design."""
    name = T["name"]
    pool = rng.choice([0, 0, 2, 3])
    fdp, inp, outp = T["fdp"], T["inp"], T["outp"]
    cmds = []
    sinks, mode = [], {}
    for i in range(1 + rng.below(2)):
        n = "s%d" % i
        cmds += ["sink %s%s" % (n, " reject" if rng.chance(1, 10) else ""), "who " + n]
        mode[n] = "hold"
        if rng.chance(1, 6):
            mode[n] = rng.choice(["throw", "refuse"])
            cmds.append("reqmode %s %s" % (n, mode[n]))
        sinks.append(n)
    kp, km = rng.chance(1, 3), rng.chance(1, 4)
    cmds += ["keep probe on"] * kp + ["keep mgr on"] * km
    flowalloc = any(c.split()[0] in ("cnew", "subf") and len(c.split()) > 3 and "." in c.split()[3] for c in T["alloc"])
    fa = "u0" if flowalloc and rng.chance(1, 2) else None
    cmds += setup_cmds(T, ctx, fdalloc=fa)
    cmds += ["keep probe off"] * kp + ["keep mgr off"] * km
    urefs = {}          # application urefs: name -> "fd" | "buf" | "fdalloc"
    if fa:
        urefs[fa] = "fdalloc"
    held = [n for n, _ in pipes_of(T)]
    kept = set()
    for c in T["alloc"]:
        t = c.split()
        if t[0] == "cnew" and t[2] not in ("qsrc", "qsink"):
            kept |= {(t[1], w) for w, on in (("probe", kp), ("mgr", km)) if on}
    fd_ok = set()
    reqs = {}
    st = {"uid": 0, "bid": 0, "fed": False, "out": None}
    feedable = (I["input"] or I["subfd"]) and family(T) != "other"

    def fresh():
        st["uid"] += 1
        return "u%d" % st["uid"]

    def answerable():
        return st["out"] is not None and mode[st["out"]] == "hold"

    for _ in range((8 if quick else 10) + rng.below(18 if quick else 36)):
        k = rng.below(100)
        fds = sorted(n for n, w in urefs.items() if w == "fd")
        bufs = sorted(n for n, w in urefs.items() if w == "buf")
        fdtargets = [p for p in (fdp, T["subfd"]) if p and p in held]
        if k < 18 and fdtargets:
            p = rng.choice(fdtargets)
            m = rng.below(10)
            good = True
            if m < 5 or not fds:
                n = fresh()
                good = not rng.chance(1, 6)
                d = T["fd"][rng.choice(["A", "A", "B"])] if good else bad_fd(T, rng)
                if good and p == T["subfd"]:
                    d += T["subattr"]
                cmds += ["ufdx %s %s" % (n, d), "usetfd %s %s" % (p, n)]
                urefs[n] = "fd" if good else "badfd"
                if rng.chance(1, 4):
                    cmds.append("ufree " + n)
                    del urefs[n]
            elif m < 8:
                cmds.append("usetfd %s %s" % (p, rng.choice(fds)))
            else:
                cmds.append("setfdx %s %s" % (p, T["fd"][rng.choice(["A", "B"])]))
            # after a definition of the wrong kind nothing is fed until a good one was given again (if the
            # pipe accepted it, buffers of the old format would not match it)
            if good and (I["fd"] if p == fdp else I["subfd"]):
                fd_ok.add(p)
            elif not good:
                fd_ok.discard(p)
        elif k < 24 and (fds or "badfd" in urefs.values()):
            n = rng.choice(sorted(x for x, w in urefs.items() if w in ("fd", "badfd")))
            cmds.append("ufree " + n)
            del urefs[n]
        elif k < 38 and outp in held:
            x = rng.choice(sinks + ["null"])
            cmds.append("out %s %s" % (outp, x))
            st["out"] = None if x == "null" else x
        elif k < 56 and feedable:
            tg = [p for p, ok in ((inp, I["input"]), (T["subfd"], I["subfd"])) if p and ok and p in held and p in fd_ok]
            if not tg:
                continue
            p = rng.choice(tg)
            m = rng.below(10)
            if m < 5 or not bufs:
                if not fds:
                    n = fresh()
                    cmds.append("ufdx %s %s" % (n, T["fd"]["A"]))
                    urefs[n] = "fd"
                    fds = [n]
                n = fresh()
                st["bid"] += 1
                size = rng.choice([T["size"], T["size"], 8, 0]) if family(T) == "block" else rng.choice([0, 64, 1024])
                cmds.append("mkbuf %s %s %d %d" % (n, rng.choice(fds), st["bid"], size))
                urefs[n] = "buf"
                if rng.chance(1, 2) and len(urefs) < 8:
                    d = fresh()
                    cmds.append("udup %s %s" % (n, d))
                    urefs[d] = "buf"
                if rng.chance(3, 4):
                    cmds.append("uin %s %s" % (p, n))
                    del urefs[n]
                    st["fed"] = True
            elif m < 8:
                n = rng.choice(bufs)
                cmds.append("uin %s %s" % (p, n))
                del urefs[n]
                st["fed"] = True
            else:
                n = rng.choice(bufs)
                cmds.append("ufree " + n)
                del urefs[n]
        elif k < 61 and held:
            p = rng.choice(held)
            cmds.append("flush %s" % p)
        elif k < 66 and T["opt"] and "p0" in held:
            o = T["opt"]
            if rng.chance(3, 4):
                cmds.append(subst("opt p0 set %s %s" % (o[0], rng.choice(list(o[1:]))), ctx))
            else:
                cmds.append("opt p0 get %s" % o[0])
        elif k < 74 and held:
            p = rng.choice(held)
            if p == outp and st["fed"] and not answerable():
                hold = [x for x in sinks if mode[x] == "hold"]
                if not hold:
                    continue
                x = rng.choice(hold)
                cmds.append("out %s %s" % (outp, x))
                st["out"] = x
            for r, q in sorted(reqs.items()):
                if q == p:
                    cmds.append("unreg %s %s" % (p, r))
                    reqs[r] = None
            cmds.append("rel %s" % p)
            held.remove(p)
            fd_ok.discard(p)
        elif k < 79:
            cmds.append(rng.choice(["loop", "loop", "advance 27000", "advance 27000000", "rcs"]))
            if inp is None:
                st["fed"] = True        # a source feeds itself from its pump
        elif k < 84:
            cmds.append("answer")
        elif k < 88:
            cmds.append("policy %s %s" % (rng.choice(sinks), rng.choice(["accept", "reject"])))
        elif k < 94 and held:
            free = sorted(r for r, q in reqs.items() if q is None)
            r = None
            if free and rng.chance(1, 2):
                r = rng.choice(free)
            elif len(reqs) < 2:
                r = "r%d" % len(reqs)
                cmds.append("req %s %s" % (r, rng.choice(["uref_mgr", "ubuf_mgr", "uclock", "flow_format", "sink_latency"])))
                reqs[r] = None
            if r is not None:
                p = rng.choice(held)
                if not (name == "qsink" and p == "p1"):
                    cmds.append("reg %s %s" % (p, r))
                    reqs[r] = p
        elif k < 97 and kept:
            kw = rng.choice(sorted(kept))
            cmds.append("krel %s %s" % kw)
            kept.discard(kw)
        elif "fdalloc" in urefs.values() and rng.chance(1, 2):
            n = [x for x, w in urefs.items() if w == "fdalloc"][0]
            cmds.append("ufree " + n)
            del urefs[n]
    return mk(cmds, "random", pool, name)


# ---------------------------------------------------------------------- run
def corruption_selftest(ctx, exes):
    """Vacuity guard on THIS part's traces: in an accepted execution in which the application kept a
    flow definition, (a) drop the application's Give before its free (= freed under the owner's feet),
    (b) duplicate a free, (c) drop one internal release: each must be rejected."""
    base = None
    for e in exes:
        if e.san or not e.events or e.events[-1]["e"] != "Quiescent":
            continue
        gi = [i for i, ev in enumerate(e.events) if ev["e"] == "Give" and i + 1 < len(e.events)
              and any(x["e"] == "Free" and x["o"] == ev["o"] for x in e.events[i + 1:i + 6])]
        if gi and len(e.events) > 120:
            base = (e, gi[len(gi) // 2])
            break
    if base is None:
        raise vlib.ToolError("vacuity (types part): no clean execution with an application-held uref to corrupt")
    e, g = base
    evs = e.events
    frees = [i for i, ev in enumerate(evs) if ev["e"] == "Free"]
    rels = [i for i, ev in enumerate(evs) if ev["e"] == "Rel" and ev.get("v") == 1 and ev.get("h") == "int"]
    j, r = frees[len(frees) // 2], rels[len(rels) // 2]
    variants = [("application Give dropped", evs[:g] + evs[g + 1:]),
                ("free duplicated", evs[:j + 1] + [dict(evs[j])] + evs[j + 1:]),
                ("internal release dropped", evs[:r] + evs[r + 1:])]
    fakes = []
    for nm, v in variants:
        f = Exe(e.cmds, "corrupted: " + nm, e.pool)
        f.events = v
        fakes.append(f)
    ok = Exe(e.cmds, "uncorrupted", e.pool)
    ok.events = evs
    before = ctx.traces
    rej = C.validate(ctx, fakes + [ok], "tcorrupt")
    ctx.traces = before
    bad = {id(x) for x, _, _ in rej}
    missed = [f.source for f in fakes if id(f) not in bad]
    if missed or id(ok) in bad:
        raise vlib.ToolError("vacuity (types part): Lifecycle_Trace accepted a corrupted trace (%s) or rejected the original" % missed)
    ctx.extra["types_corrupted_traces_rejected"] = {f.source: w for f in fakes for x, _, w in rej if x is f}


def run_part(ctx):
    t0 = time.time()
    quick = ctx.quick
    binp = build(ctx)
    t1 = time.time()
    with open(os.path.join(ctx.build, "c01t_io.bin"), "wb") as f:
        f.write(bytes(range(256)) * 8)
    ts = templates()
    info, cal = calibrate(ctx, binp, ts)
    usable = [T for T in ts if info[T["name"]]["alloc"]]
    rng = vlib.Rng(ctx.seed * 7919 + 17)
    exes = []
    for T in usable:
        exes += directed(T, info[T["name"]], ctx)
    ndir = len(exes)
    if quick:
        pick = list(usable)
        sample = []
        while pick and len(sample) < 32:
            sample.append(pick.pop(rng.below(len(pick))))
        per = 8
    else:
        sample = usable
        per = 120
    rnd = []
    for T in sample:
        for _ in range(per):
            rnd.append(gen_random(rng, T, info[T["name"]], ctx, quick))
    exes += rnd
    execute(ctx, binp, exes, jobs=4 if quick else 6)
    t2 = time.time()
    allx = cal + exes
    rej = C.validate_parallel(ctx, allx, "ty", jobs=2 if quick else 5)
    t3 = time.time()
    ctx.evaluations += len(allx)
    x = ctx.extra
    x["types_pipe_types_driven"] = sorted(T["name"] for T in usable)
    x["types_not_allocatable"] = sorted(T["name"] for T in ts if not info[T["name"]]["alloc"])
    x["types_accepting_flow_def"] = sorted(n for n in info if info[n]["fd"] or info[n]["subfd"])
    x["types_receiving_buffers"] = sorted(T["name"] for T in usable if family(T) != "other" and
                                          (info[T["name"]]["fd"] and info[T["name"]]["input"] or info[T["name"]]["subfd"]))
    x["types_random_sampled"] = sorted(T["name"] for T in sample)
    x["types_executions"] = {"calibration": len(cal), "directed": ndir, "random": len(rnd)}
    x["types_events_validated"] = sum(len(e.events) for e in allx)
    x["types_executions_by_pool_depth"] = {str(p): sum(1 for e in allx if e.pool == p) for p in sorted(set(e.pool for e in allx))}
    hangs = [e for e in allx if e.san == "hang"]
    x["types_executions_inconclusive_hang"] = len(hangs)
    if hangs:
        x["types_inconclusive_scripts"] = [{"type": e.tname, "pool": e.pool, "script": e.cmds} for e in hangs[:3]]
    for e in exes:
        if e.source.startswith("directed keep") and not e.san and getattr(e, "tname", "") in ("crop", "audio_copy", "ts_check"):
            ctx.sample({"source": e.source + " " + e.tname, "pool": e.pool,
                        "script": [c for c in e.cmds if not c.startswith(("who", "rcs"))][:24],
                        "events": e.events[-6:]}, limit=5)
            break
    corruption_selftest(ctx, [e for e in exes if e.source.startswith("directed keep")])
    died = [e for e in allx if getattr(e, "died", None)]
    x["types_executions_died_outside_the_statement"] = len(died)
    if died:
        kinds = {}
        for e in died:
            kinds.setdefault("%s: %s" % (e.tname, e.died), []).append(e)
        x["types_deaths_not_judged"] = {
            k: {"executions": len(v), "report": (re.findall(r"(ERROR: \w+Sanitizer[^\n]*|runtime error[^\n]*|Assertion[^\n]*)", v[0].stderr) or [v[0].died])[0][:200],
                "script": [c for c in v[0].cmds[:v[0].nbody] if not c.startswith(("who", "rcs"))][:30]}
            for k, v in sorted(kinds.items())}
    # verdicts: rejected executions grouped by (pipe type, sentence); per group the representative is a
    # directed script if there is one (its key does not depend on the seed), else the shortest
    groups = {}
    for e, line, why in rej:
        if e.san == "hang":
            continue
        groups.setdefault((e.tname, why), []).append((e, line, why))
    x["types_rejected_executions"] = sum(len(v) for v in groups.values())
    keys = []
    for sig in sorted(groups)[:12 if quick else 40]:
        lst = sorted(groups[sig], key=lambda y: (not y[0].source.startswith("directed"), len(y[0].cmds)))
        e, line, why = lst[0]
        # quick tier: the shrinking of all findings together gets 40 s; what is found later is reported
        # (re-run, reproduced) with the script as it is
        k = report(ctx, binp, e, line, why, others=len(lst) - 1, deadline=t3 + (40 if quick else 600))
        if k not in keys:
            keys.append(k)
    if not ctx.violations and len(hangs) >= 6:
        raise vlib.ToolError("types part: %d executions of the real code did not terminate (first: type %s, script %s): "
                             "no verdict" % (len(hangs), hangs[0].tname, hangs[0].cmds[:hangs[0].nbody]))
    x["types_phase_seconds"] = {"build": round(t1 - t0, 1), "execute": round(t2 - t1, 1), "validate": round(t3 - t2, 1),
                                "total": round(time.time() - t0, 1)}
    ctx.assumptions += [
        "types part: the application obeys the ownership rules (a flow definition passed to set_flow_def / flow_alloc stays the caller's; a buffer given to upipe_input belongs to the pipe; dups are the caller's); buffers are only given to a pipe whose set_flow_def returned success during calibration and match that flow definition's format (block / planar yuv420 picture / packed sound)",
    ]
    ctx.trusted += ["harness/pd_ext_c01t.c (ubuf_mem managers built from flow definitions and interposed, kept references)",
                    "harness/shim/bitstream (TS pipes)"]


def run(ctx):
    """`bin/check C01_TYPES`: this part alone (development and replay)."""
    run_part(ctx)


def replay(ctx, rp):
    binp = build(ctx)
    with open(os.path.join(ctx.build, "c01t_io.bin"), "wb") as f:
        f.write(bytes(range(256)) * 8)
    e = Exe(rp["replay"]["cmds"], "replay", rp["replay"].get("pool", 0))
    execute(ctx, binp, [e], jobs=1)
    r = C.validate(ctx, [e], "replay")
    if r:
        ev = e.events[r[0][1] - 1] if r[0][1] <= len(e.events) else {}
        print("VIOLATION property=C01 replay reproduced: %s refused (%s)" % (json.dumps(ev), r[0][2]))
        return 1
    print("OK property=C01 replay accepted")
    return 0
