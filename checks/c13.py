"""C13 - a pump fires only while started and not blocked.

1. TLC checks spec/UpumpBlocker.tla exhaustively (the automaton of
   lib/upipe/upump_common.c + the back-end watcher; finite, no bound needed),
   with coverage of every action, and prints every transition of the state
   graph (EDGE lines: source state, command, predicted outputs).
2. Negative configurations (deliberately broken variants) must be rejected.
3. spec -> code: every edge of the state graph is replayed by
   harness/replay_pump.c (shortest path to the source state, the edge, one
   loop iteration) on (a) the vloop mock over the real upump_common.c and (b)
   the real upump_ev manager + libev; after every command the observations
   (watcher active, call-backs invoked, blocker notifications, returned
   status) are compared with what TLC predicted.  A different sequence of
   back-end calls alone is model drift, not a violation.
4. code -> spec: seeded random command scripts are executed on both back-ends
   and the recorded histories are validated by spec/UpumpBlocker_Trace.tla.
Every disagreement is re-run (and shrunk) before it is reported.
"""
import json, os
import vlib

LEVEL = "model_checking"

SRCS = ["replay_pump.c", "vloop.c", "lib/upipe/upump_common.c", "lib/upump-ev/upump_ev.c"]
LIBS = ["-lev", "-Wl,--wrap=malloc"]
ACTIONS = ["Start", "Stop", "Restart", "SetStatus", "GetStatus", "BlockerAlloc", "BlockerAllocRefused",
           "BlockerFree", "Dispatch", "Poll", "Free"]
NEG = [("allocfail_stops", "ActiveIff"), ("bfree_no_restart", "ActiveIff"), ("start_ignores_blockers", "ActiveIff"),
       ("free_skips_notify", "FreeNotifiesAll"), ("fire_when_blocked", "NoCallbackWhenInactive")]
BACKENDS = ["vloop", "ev"]
KINDS = ["idler", "fd", "timer", "oneshot"]
TIMERS = ("timer", "oneshot")
ENV = {"ASAN_OPTIONS": "detect_leaks=0:abort_on_error=0", "UBSAN_OPTIONS": "print_stacktrace=1"}


# ----------------------------------------------------------------- harness i/o
def cmd_text(c):
    op = c["op"]
    if op in ("status", "balloc", "bfree", "ballocfail"):
        return "%s %d" % (op, c["arg"])
    if op in ("poll", "poll2"):
        return op + " " + c["act"]
    return op


def predicted(be, st):
    """Observation line TLC predicts for the state reached (verdict part, drift part)."""
    ret = "-" if st["ret"] == -1 else str(st["ret"])
    a = ("1" if st["active"] else "0") if be == "vloop" else "-"
    v = "a=%s fired=%d notif=%s ret=%s" % (a, st["cbLog"]["pump"],
                                           "".join(str(x) for x in st["cbLog"]["blk"]), ret)
    d = "calls=[%s]" % ",".join(st["calls"]) if be == "vloop" else "calls=-"
    return v, d


def split_obs(line):
    """harness line -> (verdict part, drift part, alive)"""
    f = line.split()
    if len(f) != 6:
        raise vlib.ToolError("replay_pump: unexpected output line %r" % line)
    return " ".join(f[0:4]), f[4], f[5].split("=")[1]


def run_scripts(ctx, binp, scripts, timeout=900):
    """scripts: list of lists of command lines (first = 'new be kind').
    Returns (outputs, crash): outputs[i] = list of output lines of script i
    (without the 'ok'); crash = None or (index, rc, stderr tail) of the script
    during which the process died."""
    text = "".join("\n".join(s) + "\n" for s in scripts)
    r = ctx.run([binp], input=text, timeout=timeout, env=ENV)
    if r.returncode == 124:
        raise vlib.ToolError("replay_pump timed out")
    if r.returncode == 3:
        raise vlib.ToolError("replay_pump usage error: " + r.stderr[-1500:])
    outs = []
    for l in r.stdout.splitlines():
        if l == "ok":
            outs.append([])
        elif outs:
            outs[-1].append(l)
    crash = None
    if r.returncode != 0:
        crash = (max(len(outs) - 1, 0), r.returncode, (r.stderr or "")[-3000:])
        outs = outs[:crash[0]]
    else:
        if len(outs) != len(scripts):
            raise vlib.ToolError("replay_pump: %d scripts, %d outputs" % (len(scripts), len(outs)))
        for s, o in zip(scripts, outs):
            if len(o) != len(s) - 1:
                raise vlib.ToolError("replay_pump: output length mismatch for %r" % (s,))
    return outs, crash


def crash_summary(rc, stderr):
    for l in stderr.splitlines():
        if l.startswith("SUMMARY:") or "runtime error:" in l:
            return l.strip()
    return "exit status %d%s" % (rc, " (signal %d)" % -rc if rc < 0 else "")


def crashes(ctx, binp, script):
    """Runs one script with per-line flushing; returns None, or (commands completed, rc, stderr)."""
    r = ctx.run([binp], input="\n".join(script) + "\n", timeout=120,
                env=dict(ENV, REPLAY_PUMP_FLUSH="1"))
    if r.returncode in (0, 3, 124):
        return None
    done = max(len([l for l in r.stdout.splitlines() if l != "ok"]), 0)
    return done, r.returncode, r.stderr or ""


def report_crash(ctx, binp, script, crash, source):
    again = crashes(ctx, binp, script)
    if again is None:
        raise vlib.ToolError("harness died (rc=%d) but not when re-run alone: %r\n%s"
                             % (crash[1], script, crash[2]))
    # shrink: cut after the command that dies, then drop commands one by one
    cur = script[:again[0] + 2]
    if crashes(ctx, binp, cur) is None:
        cur = script
    budget = 300
    changed = True
    while changed and budget > 0:
        changed = False
        for k in range(1, len(cur)):
            cand = cur[:k] + cur[k + 1:]
            budget -= 1
            if in_domain(cand) and crashes(ctx, binp, cand) is not None:
                cur, changed = cand, True
                break
    again = crashes(ctx, binp, cur)
    be, kind = cur[0].split()[1:3]
    key = "%s;%s;crash;%s" % (be, kind, ",".join(cur[1:]))
    ctx.violation(key, "the real code crashes / is stopped by the sanitizer during the legal command "
                  "sequence %s on a %s pump of %s: %s"
                  % (cur[1:], kind, be, crash_summary(again[1], again[2])),
                  {"cmd": "replay_pump", "stdin": cur, "stderr": again[2][-3000:], "source": source})


# ------------------------------------------------------------- spec -> code
def build_graph(edges):
    nodes, adj, order = {}, {}, []
    for e in edges:
        ku = json.dumps(e["from"], sort_keys=True)
        kv = json.dumps(e["to"], sort_keys=True)
        if ku not in nodes:
            nodes[ku] = e["from"]
            order.append(ku)
        nodes.setdefault(kv, e["to"])
        adj.setdefault(ku, []).append((cmd_text(e["to"]["cmd"]), kv))
    inits = [k for k in order if nodes[k]["cmd"]["op"] == "new"]
    # shortest paths (BFS, deterministic order)
    parent = {k: None for k in inits}
    queue = list(inits)
    while queue:
        u = queue.pop(0)
        for c, v in adj.get(u, []):
            if v not in parent:
                parent[v] = (u, c)
                queue.append(v)
    return nodes, adj, inits, parent


def path_to(parent, k):
    steps = []
    while parent[k] is not None:
        u, c = parent[k]
        steps.append((c, k))
        k = u
    steps.reverse()
    return k, steps


def edge_scripts(nodes, adj, parent):
    """One script per edge: [(cmd, predicted state key)...]"""
    res = []
    for u in adj:
        if u not in parent:
            raise vlib.ToolError("edge source not reachable from an initial state")
        root, prefix = path_to(parent, u)
        for c, v in adj[u]:
            steps = prefix + [(c, v)]
            polls = [x for x in adj.get(v, []) if x[0] == "poll none"]
            if len(polls) != 1:
                raise vlib.ToolError("state without a unique 'poll none' edge")
            steps = steps + [polls[0]]
            res.append((nodes[root]["kind"], steps))
    return res


def pair_scripts(nodes, adj, parent):
    """One script per pair of consecutive edges (thorough tier): what the real
    code remembers beyond the model's state would show here."""
    for u in adj:
        root, prefix = path_to(parent, u)
        for c, v in adj[u]:
            for c2, w in adj.get(v, []):
                poll = [x for x in adj.get(w, []) if x[0] == "poll none"][0]
                yield nodes[root]["kind"], prefix + [(c, v), (c2, w), poll]


def chunks(it, n):
    buf = []
    for x in it:
        buf.append(x)
        if len(buf) == n:
            yield buf
            buf = []
    if buf:
        yield buf


def replay_edges(ctx, binp, be, nodes, scripts, tag):
    """Replays all edge scripts on back-end `be`; returns stats."""
    texts = [["new %s %s" % (be, kind)] + [c for c, _ in steps] for kind, steps in scripts]
    outs, crash = run_scripts(ctx, binp, texts)
    if crash is not None:
        report_crash(ctx, binp, texts[crash[0]], crash, "edge walk " + tag)
    bad = []        # (length, text, script index, step index)
    drift = None
    alive_odd = None
    nsteps = 0
    for i, o in enumerate(outs):
        kind, steps = scripts[i]
        for j, line in enumerate(o):
            nsteps += 1
            if line == "skip":
                raise vlib.ToolError("replay_pump refused a command the model allows: %r step %d"
                                     % (texts[i], j))
            st = nodes[steps[j][1]]
            pv, pd = predicted(be, st)
            ov, od, alive = split_obs(line)
            if ov != pv:
                bad.append((j + 1, ",".join(texts[i][1:j + 2]), i, j, pv, ov))
                break
            if od != pd and drift is None:
                drift = {"backend": be, "script": texts[i][:j + 2], "model": pd, "code": od}
            if alive != "-" and alive_odd is None and \
                    alive != ("1" if st["active"] and st["status"] else "0"):
                alive_odd = {"backend": be, "script": texts[i][:j + 2], "loop_reports_alive": alive,
                             "watcher_active": st["active"], "status": st["status"]}
    ctx.evaluations += nsteps
    ctx.traces += len(outs)
    if bad:
        bad.sort()
        n, txt, i, j, pv, ov = bad[0]
        script = texts[i][:j + 2]
        outs2, crash2 = run_scripts(ctx, binp, [script])
        if crash2 is not None:
            report_crash(ctx, binp, script, crash2, "edge walk " + tag)
        elif split_obs(outs2[0][j])[0] != ov:
            raise vlib.ToolError("mismatch did not reproduce (flaky harness?): %r" % script)
        else:
            # the recorded execution must also be rejected by the trace specification
            rej, _ = validate(ctx, binp, [script], "edge witness", count=False)
            if not rej:
                raise vlib.ToolError("edge replay disagrees with TLC's prediction but "
                                     "UpumpBlocker_Trace accepts the history: %r" % script)
            kind = scripts[i][0]
            key = "%s;%s;%s" % (be, kind, ",".join(script[1:]))
            ctx.violation(key,
                          "%s pump on %s: after %s the code shows <%s> but UpumpBlocker predicts <%s> "
                          "(%d of %d edges of the state graph disagree)"
                          % (kind, be, script[1:], ov, pv, len(bad), len(scripts)),
                          {"cmd": "replay_pump", "stdin": script, "predicted": pv, "observed": ov,
                           "source": "edge walk " + tag})
    return {"backend": be, "build": tag, "edges": len(outs), "commands": nsteps,
            "edges_disagreeing": len(bad)}, drift, alive_odd


# ------------------------------------------------------------- code -> spec
def gen_script(rng, be, kind, n):
    cmds = ["new %s %s" % (be, kind)]
    prev = None
    for _ in range(n):
        r = rng.below(100)
        if r < 12:
            c = "start"
        elif r < 22:
            c = "stop"
        elif r < 29:
            # restart is defined on timers, and on any pump already started
            c = "restart" if (kind in TIMERS or prev == "start") else "start"
        elif r < 36:
            c = "status %d" % rng.below(2)
        elif r < 40:
            c = "getstatus"
        elif r < 54:
            c = "balloc %d" % (1 + rng.below(3))
        elif r < 57:
            c = "ballocfail %d" % (1 + rng.below(3))
        elif r < 75:
            c = "bfree %d" % (1 + rng.below(3))
        elif r < 94:
            a = rng.below(100)
            c = "poll " + ("none" if a < 55 else "stop" if a < 67 else "restart" if a < 79
                           else "block" if a < 96 else "free")
        elif r < 96:
            c = "poll2 " + rng.choice(["stop", "block", "free"])
        elif r < 98:
            c = "dispatch" if be == "vloop" else "poll none"
        else:
            c = "free"
        cmds.append(c)
        prev = c
        if c == "free":
            break
    cmds += ["free", "poll none"]
    return cmds


def to_history(script, out):
    be, kind = script[0].split()[1:3]
    h = [{"e": "Reset", "kind": kind, "be": be}]
    idx = []    # command index of each event
    for k, (c, line) in enumerate(zip(script[1:], out)):
        if line == "skip":
            continue
        f = c.split()
        ov, od, alive = split_obs(line)
        d = dict(x.split("=") for x in ov.split())
        h.append({"e": f[0],
                  "arg": int(f[1]) if f[0] in ("status", "balloc", "bfree", "ballocfail") else 0,
                  "act": f[1] if f[0] in ("poll", "poll2") else "none",
                  "a": -1 if d["a"] == "-" else int(d["a"]),
                  "fired": int(d["fired"]),
                  "n": [int(x) for x in d["notif"]],
                  "ret": -1 if d["ret"] == "-" else int(d["ret"])})
        idx.append(k + 1)
    return h, idx


def validate(ctx, binp, scripts, tag, count=True):
    """Runs scripts, validates their histories; returns [(script index, command index, invariants)]."""
    outs, crash = run_scripts(ctx, binp, scripts)
    if crash is not None:
        report_crash(ctx, binp, scripts[crash[0]], crash, tag)
        scripts = scripts[:crash[0]]
    hs = [to_history(s, o) for s, o in zip(scripts, outs)]
    before = ctx.traces
    rej = ctx.validate_histories("UpumpBlocker_Trace", "UpumpBlocker_Trace.cfg",
                                 [h for h, _ in hs], tag="pump", max_reject=3)
    if not count:
        ctx.traces = before
    res = []
    for i, line, inv in rej:
        h, idx = hs[i]
        # line 1 is the Reset; line k+1 is event k (1-based) -> command idx[k-1]
        if line - 2 >= len(idx) or line < 2:
            raise vlib.ToolError("trace validation: rejected line %d outside execution" % line)
        res.append((i, idx[line - 2], inv, h[line - 1]))
    return res, sum(len(h) for h, _ in hs)


def in_domain(script):
    """The generator's rule: restart on a non-timer pump only right after start."""
    kind = script[0].split()[2]
    if kind in TIMERS:
        return True
    return all(c != "restart" or script[k - 1] == "start" for k, c in enumerate(script))


def shrink(ctx, binp, script, cmd_index, ev):
    """Greedy one-command-removal minimisation of a rejected script (each
    round = one harness run + one TLC run over all candidates)."""
    cur = script[:cmd_index + 1]
    for _ in range(40):
        cands = [cur[:k] + cur[k + 1:] for k in range(1, len(cur))]
        cands = [c for c in cands if in_domain(c)]
        if not cands:
            break
        rej, _ = validate(ctx, binp, cands, "shrink", count=False)
        if not rej:
            break
        i, ci, _, ev = rej[0]
        cur = cands[i][:ci + 1]
    return cur, ev


def random_histories(ctx, binp, nexec, length, tag, report=True):
    rng = vlib.Rng(ctx.seed * 7919 + len(tag))
    scripts = []
    for k in range(nexec):
        be = BACKENDS[k % 2]
        kind = KINDS[(k // 2) % 4]
        scripts.append(gen_script(rng, be, kind, 8 + rng.below(length)))
    rej, nev = validate(ctx, binp, scripts, tag)
    ctx.evaluations += nev
    for i, ci, inv, ev in (rej[:1] if report else []):
        again, _ = validate(ctx, binp, [scripts[i]], tag + " (re-run)", count=False)
        if not again:
            raise vlib.ToolError("rejected history did not reproduce (flaky harness?): %r" % scripts[i])
        small, ev = shrink(ctx, binp, scripts[i], ci, ev)
        be, kind = small[0].split()[1:3]
        key = "%s;%s;%s" % (be, kind, ",".join(small[1:]))
        ctx.violation(key,
                      "%s pump on %s: the recorded history of %s is not a behaviour of UpumpBlocker "
                      "(last event %s; invariants %s)" % (kind, be, small[1:], json.dumps(ev), inv or "-"),
                      {"cmd": "replay_pump", "stdin": small, "full_script": scripts[i],
                       "source": "random histories " + tag})
    return {"build": tag, "executions": len(scripts), "events": nev, "rejected": len(rej)}


# --------------------------------------------------------------------- replay
def replay(ctx, rp):
    """bin/check C13 --replay replays/C13_xxx.json"""
    binp = ctx.cc("replay_pump_asan", SRCS, libs=LIBS, san="asan")
    script = rp["replay"]["stdin"]
    c = crashes(ctx, binp, script)
    if c is not None:
        print("VIOLATION property=C13 reproduced: %s dies after %d commands: %s"
              % (script, c[0], crash_summary(c[1], c[2])))
        return 1
    outs, _ = run_scripts(ctx, binp, [script])
    for cmd, line in zip(script[1:], outs[0]):
        print("  %-14s -> %s" % (cmd, line))
    rej, _ = validate(ctx, binp, [script], "replay", count=False)
    if rej:
        print("VIOLATION property=C13 reproduced: UpumpBlocker_Trace rejects command %d (%s): %s"
              % (rej[0][1], script[rej[0][1]], json.dumps(rej[0][3])))
        return 1
    print("OK property=C13 replay not reproduced (history accepted)")
    return 0


# ------------------------------------------------------------------------ run
def run(ctx):
    bin_asan = ctx.cc("replay_pump_asan", SRCS, libs=LIBS, san="asan")
    # tool sanity: the parts of the vloop API the replay does not reach
    r = ctx.run([bin_asan], input="selftest\n", timeout=60, env=ENV)
    selftest_failed = None
    if r.returncode != 0 or "selftest ok" not in r.stdout:
        # the mock loop rests on the code under test (upump_common.c): a failing self-test may be the
        # repository's fault.  The replay below decides; without a verdict from it this is a tool error.
        selftest_failed = "vloop selftest failed rc=%d: %s" % (r.returncode, (r.stderr or "")[-1500:])
        ctx.extra["vloop_selftest_failed"] = selftest_failed[:300]
    ctx.assumptions += [
        "one pump, up to 3 blockers, the blocker call-back frees its blocker (as upipe_helper_input does)",
        "upump_restart is exercised where it is documented: on timer pumps, and on other pumps only "
        "when already started (a no-op there)",
        "a one-shot timer that has fired is inactive although still 'started' (the loop stops it by "
        "itself); it is re-armed by whatever next calls real_start/real_restart",
        "upump_ev: 'active' is observed by one ev_run(EVRUN_NOWAIT) iteration (up to 3 for timers); "
        "timers use after=0, repeat=0/1 tick",
        "the exact sequence of back-end calls (e.g. set_status = stop+start) is a detail: a difference "
        "there alone is recorded as model drift, not reported as a violation",
    ]
    ctx.trusted += ["TLC", "harness/vloop.c (table back-end)", "harness/replay_pump.c", "libev"]

    # 1. exhaustive model checking + edge enumeration
    res = ctx.tlc("UpumpBlocker", "MCUpumpBlocker.cfg", workers=1, coverage=True, timeout=300)
    ctx.model_must_hold(res, "UpumpBlocker")
    ctx.require_coverage(res, ACTIONS)
    ctx.exhaustive = True
    edges = res.beh("EDGE")
    nodes, adj, inits, parent = build_graph(edges)
    if len(edges) + len(inits) != res.generated:
        raise vlib.ToolError("edge enumeration incomplete: %d EDGE lines, %d states generated"
                             % (len(edges), res.generated))
    if len(nodes) != res.distinct:
        raise vlib.ToolError("graph reconstruction: %d nodes, TLC found %d distinct states"
                             % (len(nodes), res.distinct))
    ctx.extra["state_graph"] = {"states": len(nodes), "edges": len(edges), "initial": len(inits)}

    # 2. negative configurations
    for v, inv in NEG:
        r = ctx.tlc("UpumpBlocker", "MCUpumpBlocker_neg_%s.cfg" % v, workers=1, count=False, timeout=300)
        if inv not in r.violated:
            raise vlib.ToolError("vacuity: broken variant %s not rejected by %s (violated=%s)"
                                 % (v, inv, r.violated))
    ctx.extra["negative_configs_rejected"] = [v for v, _ in NEG]

    # 3. every edge on both back-ends
    scripts = edge_scripts(nodes, adj, parent)
    builds = [("asan", bin_asan)]
    if not ctx.quick:
        builds.append(("O2", ctx.cc("replay_pump_o2", SRCS, flags=["-O2"], libs=LIBS)))
    walk = []
    drift = None
    alive_odd = None
    for tag, b in builds:
        for be in BACKENDS:
            st, d, ao = replay_edges(ctx, b, be, nodes, scripts, tag)
            walk.append(st)
            drift = drift or d
            alive_odd = alive_odd or ao
    if not ctx.quick and not ctx.violations:
        for be in BACKENDS:
            tot = {"backend": be, "build": "asan", "edge_pairs": 0, "commands": 0, "pairs_disagreeing": 0}
            for ch in chunks(pair_scripts(nodes, adj, parent), 40000):
                st, d, ao = replay_edges(ctx, bin_asan, be, nodes, ch, "asan, edge pairs")
                tot["edge_pairs"] += st["edges"]
                tot["commands"] += st["commands"]
                tot["pairs_disagreeing"] += st["edges_disagreeing"]
                drift = drift or d
                if st["edges_disagreeing"] or ctx.violations:
                    break
            walk.append(tot)
    ctx.extra["edge_walk"] = walk
    ctx.extra["model_drift"] = drift is not None
    if drift:
        ctx.extra["model_drift_first"] = drift
        ctx.notes.append("back-end call sequence differs from the model (model drift); observable "
                         "behaviour was compared step by step and decides")
    if alive_odd:
        # outside the statement of C13 (loop keep-alive accounting of upump_ev), recorded only
        ctx.extra["keepalive_observation_outside_statement"] = alive_odd
    k0, s0 = max(scripts, key=lambda ks: len(set(predicted("vloop", nodes[v]) for _, v in ks[1])))
    ctx.sample({"kind": k0, "script": [c for c, _ in s0],
                "predicted": [predicted("vloop", nodes[v]) for _, v in s0]})

    # 4. random histories validated by the trace specification
    #    (when the edge walk already produced a minimal witness, rejected
    #    histories are only counted)
    rh = []
    if ctx.quick:
        rh.append(random_histories(ctx, bin_asan, 600, 60, "asan", report=not ctx.violations))
    else:
        for tag, b in builds:
            rh.append(random_histories(ctx, b, 6000, 240, tag, report=not ctx.violations))
    ctx.extra["random_histories"] = rh
    if selftest_failed and not ctx.violations:
        raise vlib.ToolError(selftest_failed)
