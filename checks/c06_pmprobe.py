"""C06, fifth stage: the probe that hands event-loop managers to pipes, per thread, and its freeze / thaw
sections (lib/upipe-pthread/uprobe_pthread_upump_mgr.c).  Called from checks/c06.py.

spec/PumpMgrProbe.tla (exhaustive: two threads, two managers, sections nested up to 3 deep; the variant in
which the nesting counter is a boolean must be rejected) states that no need_upump_mgr of a thread is answered
while that thread has a freeze outstanding, and that outside every frozen section a thread is given exactly
the manager it set.  harness/replay_pmprobe.c drives the REAL probe from two real threads (thread-local
storage each); random and directed command sequences are validated by spec/PumpMgrProbe_Trace.tla."""
import json
import vlib

SRC = ["replay_pmprobe.c", "lib/upipe-pthread/uprobe_pthread_upump_mgr.c", "lib/upipe/uprobe.c"]
DIRECTED = [
    # the application builds a remote pipeline inside a frozen section and allocates a worker in the middle of it
    ["set 0 0", "set 1 1", "need 0", "freeze 0", "need 0", "freeze 0", "thaw 0", "need 0", "thaw 0", "need 0", "need 1"],
    ["set 0 0", "freeze 0", "freeze 0", "freeze 0", "thaw 0", "need 0", "thaw 0", "need 0", "thaw 0", "need 0"],
    ["set 1 1", "freeze 1", "need 1", "need 0", "set 0 2", "need 0", "freeze 0", "thaw 1", "need 1", "need 0", "thaw 0", "need 0"],
    ["need 0", "need 1", "freeze 0", "set 0 3", "need 0", "thaw 0", "need 0", "set 0 1", "need 0"],
]


def gen(rng, n):
    depth = {0: 0, 1: 0}
    out = []
    for _ in range(n):
        t = rng.below(2)
        c = rng.below(10)
        if c < 2:
            out.append("set %d %d" % (t, rng.below(4)))
        elif c < 5 and depth[t] < 4:
            out.append("freeze %d" % t)
            depth[t] += 1
        elif c < 7 and depth[t] > 0:
            out.append("thaw %d" % t)
            depth[t] -= 1
        else:
            out.append("need %d" % t)
    return out


def run_part(ctx):
    for cfg in ("MCPumpMgrProbe.cfg",):
        res = ctx.tlc("PumpMgrProbe", cfg, workers=2)
        ctx.model_must_hold(res, "PumpMgrProbe/" + cfg)
    res = ctx.tlc("PumpMgrProbe", "MCPumpMgrProbe_neg_bool.cfg", workers=1, count=False)
    if "NoAnswerWhileFrozen" not in res.violated:
        raise vlib.ToolError("vacuity: the boolean variant of the freeze counter is not rejected (%s)" % res.violated)
    binp = ctx.cc("replay_pmprobe", SRC, flags=["-pthread"])
    rng = vlib.Rng(ctx.seed + 606)
    scripts = [list(d) for d in DIRECTED] + [gen(rng, 8 + rng.below(30)) for _ in range(300 if ctx.quick else 20000)]
    text = "".join("exec %d\n%s\n" % (i, "\n".join(s)) for i, s in enumerate(scripts))
    r = ctx.run([binp], input=text, timeout=600)
    if r.returncode != 0:
        raise vlib.ToolError("replay_pmprobe rc=%d %s" % (r.returncode, (r.stderr or "")[-800:]))
    hs = []
    for line in r.stdout.splitlines():
        if not line.startswith("{"):
            continue
        e = json.loads(line)
        if e["e"] == "Reset":
            hs.append([e])
        else:
            hs[-1].append(e)
    if len(hs) != len(scripts):
        raise vlib.ToolError("replay_pmprobe: %d executions for %d scripts" % (len(hs), len(scripts)))
    nested = sum(1 for h in hs if any(a["e"] == "Freeze" and b["e"] == "Freeze" and a["t"] == b["t"] for a, b in zip(h, h[1:])))
    answered = sum(1 for h in hs for e in h if e["e"] == "Need" and e["m"] != "none")
    if nested == 0 or answered == 0:
        raise vlib.ToolError("vacuity: nested sections %d, answered requests %d" % (nested, answered))
    ctx.extra["pump_manager_probe"] = {"executions": len(hs), "with_nested_sections": nested, "requests_answered": answered,
                                       "events": sum(len(h) for h in hs)}
    # vacuity of the validation: an answer moved inside a frozen section must be rejected
    fake = [dict(e) for e in hs[0]]
    for k, e in enumerate(fake):
        if e["e"] == "Need" and e["m"] == "none" and any(x["e"] == "Freeze" for x in fake[:k]):
            e["m"] = "m0"
            break
    rej = ctx.validate_histories_1pass("PumpMgrProbe_Trace", "PumpMgrProbe_Trace.cfg", hs + [fake], tag="pmp")
    ctx.traces -= 1
    if not any(i == len(hs) for i, _, _ in rej):
        raise vlib.ToolError("vacuity: an answer given inside a frozen section was accepted by PumpMgrProbe_Trace")
    ctx.evaluations += sum(len(h) for h in hs)
    seen = set()
    for idx, line, inv in rej:
        if idx == len(hs):
            continue
        h = hs[idx]
        ev = h[line - 1] if 0 < line <= len(h) else {}
        inside = sum(1 for x in h[:line - 1] if x["e"] == "Freeze" and x["t"] == ev.get("t")) - \
            sum(1 for x in h[:line - 1] if x["e"] == "Thaw" and x["t"] == ev.get("t"))
        key = "pump_mgr_probe;%s;%s" % (ev.get("e", "?"), "answered-inside-frozen-section" if inside > 0 and ev.get("m") != "none"
                                        else "wrong-or-missing-manager")
        if key in seen:
            continue
        seen.add(key)
        # a second run of the same script must repeat it
        r2 = ctx.run([binp], input="exec 0\n%s\n" % "\n".join(scripts[idx]), timeout=60)
        h2 = [json.loads(x) for x in r2.stdout.splitlines() if x.startswith("{")]
        if not ctx.validate_histories_1pass("PumpMgrProbe_Trace", "PumpMgrProbe_Trace.cfg", [h2], tag="pmpre"):
            raise vlib.ToolError("rejected execution did not reproduce: %s" % scripts[idx])
        ctx.traces -= 1
        ctx.violation(key, "the real uprobe_pthread_upump_mgr answers need_upump_mgr %s (event %d %s of the script %s): a pipe built by "
                      "that thread inside a frozen section would put its pumps on the wrong thread's loop" % (
                          key.split(";")[2], line, json.dumps(ev), "; ".join(scripts[idx])),
                      {"stage": "pmprobe", "script": scripts[idx], "trace": h})


def replay(ctx, rp):
    binp = ctx.cc("replay_pmprobe", SRC, flags=["-pthread"])
    r = ctx.run([binp], input="exec 0\n%s\n" % "\n".join(rp["script"]), timeout=60)
    h = [json.loads(x) for x in r.stdout.splitlines() if x.startswith("{")]
    rej = ctx.validate_histories_1pass("PumpMgrProbe_Trace", "PumpMgrProbe_Trace.cfg", [h], tag="pmprp")
    print("VIOLATION property=C06 replay reproduced" if rej else "replay: accepted")
    return 1 if rej else 0
