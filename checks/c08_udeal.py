"""udeal part of C08 (called from checks/c08.py)."""
import json
import vlib

MODELS = ["t2r2", "t3r1", "t3r2", "abort_t3r1", "abort_t3r2"]
# nt, rounds (a<t>: contender t gives up when it finds itself waiting before its watcher has run), pb quick, pb thorough
DFS = [(2, 2, 4, 6), (2, 1, 6, 8), (3, 1, 3, 4), (3, 2, 2, 3), (3, "1a1", 3, 4), (2, "2a1", 4, 6), (3, "2a2", 2, 3)]


def rounds_arg(r0):
    return "%da%d" % (r0["rounds"], r0["aborter"]) if r0.get("aborter", -1) >= 0 else str(r0["rounds"])


def parse(text):
    hs = []
    for line in text.splitlines():
        if line.startswith("{"):
            e = json.loads(line)
            if e["e"] == "Reset":
                hs.append([e])
            else:
                hs[-1].append(e)
    return hs


def harness(ctx, binp, nt, rounds, args, timeout=1500):
    r = ctx.run([binp, str(nt), str(rounds)] + [str(a) for a in args], timeout=timeout)
    if r.returncode == 4:
        return None, {"diverged": True}
    if r.returncode != 0:
        raise vlib.ToolError("sched_udeal rc=%d %s" % (r.returncode, r.stderr[-1500:]))
    st = {}
    for l in r.stderr.splitlines():
        if l.startswith("{"):
            st.update(json.loads(l))
    return parse(r.stdout), st


def run_udeal(ctx):
    binp = ctx.cc("sched_udeal", ["sched_udeal.c", "vsched.c"])
    for c in MODELS:
        res = ctx.tlc("Udeal", "MCUdeal_%s.cfg" % c, workers=2)
        ctx.model_must_hold(res, "Udeal/" + c)
    res = ctx.tlc("Udeal", "MCUdeal_live_t2r1.cfg", workers=1)
    ctx.model_must_hold(res, "Udeal/live_t2r1")
    pool = []
    res = ctx.tlc("Udeal", "MCUdeal_neg_nonotify.cfg", workers=1, count=False)
    if not res.violated:
        raise vlib.ToolError("vacuity: negative udeal variant not rejected")
    sched = "".join(str(x - 1) for x in (res.last_seq("sched") or []))
    hs, st = harness(ctx, binp, 2, 1, ["replay", sched])
    ctx.extra.setdefault("directed_schedules", []).append({"cfg": "udeal neg_nonotify", "sched": sched, "diverged": hs is None})
    if hs:
        pool += [(h, "counterexample schedule of neg_nonotify") for h in hs]
    runs = 0
    for nt, rounds, pbq, pbt in DFS:
        pb = pbq if ctx.quick else pbt
        hs, st = harness(ctx, binp, nt, rounds, ["dfs", pb, 60000 if ctx.quick else 3000000])
        runs += st.get("runs", 0)
        ctx.extra.setdefault("udeal_dfs", []).append({"contenders": nt, "rounds": rounds, "preemption_bound": pb,
                                                      "schedules": st.get("runs"), "distinct_traces": st.get("unique"),
                                                      "complete_within_bound": st.get("complete")})
        pool += [(h, "dfs pb=%d" % pb) for h in hs]
        if hs:
            ctx.sample({"udeal": {"contenders": nt, "rounds": rounds}, "trace": hs[len(hs) // 2][:16]}, limit=4)
        hs, st = harness(ctx, binp, nt, rounds, ["random", 2000 if ctx.quick else 100000, ctx.seed, 4])
        runs += st.get("runs", 0)
        pool += [(h, "random") for h in hs]
    ctx.evaluations += runs
    ctx.extra["udeal_schedules_run_on_real_code"] = runs
    hists = [h for h, _ in pool]
    if not any(e["e"] == "Abort" for h in hists for e in h):
        raise vlib.ToolError("vacuity: no contender ever gave up (udeal_abort) in the schedules run")
    rej = ctx.validate_histories_1pass("Udeal_Trace", "Udeal_Trace.cfg", hists, tag="ud")
    seen = set()
    for idx, line, inv in rej:
        h, source = pool[idx]
        r0 = h[0]
        ev = h[line - 1] if 0 < line <= len(h) else {}
        key = "udeal;nt=%d;%s" % (r0["nt"], {"Enter": "two-holders", "Quiescent": "lost-hand-over"}.get(ev.get("e"), ev.get("e", "?")))
        if key in seen:
            continue
        seen.add(key)
        hs, _ = harness(ctx, binp, r0["nt"], rounds_arg(r0), ["replay", r0["sched"]])
        rej2 = ctx.validate_histories_1pass("Udeal_Trace", "Udeal_Trace.cfg", hs, tag="udre") if hs else []
        if not rej2:
            raise vlib.ToolError("rejected udeal trace did not reproduce: %s" % r0)
        ctx.violation(key, "trace of the real udeal (%d contenders, %d rounds) rejected at event %d %s: %s"
                      % (r0["nt"], r0["rounds"], line, json.dumps(ev), key),
                      {"cmd": "sched_udeal %d %s replay %s" % (r0["nt"], rounds_arg(r0), r0["sched"]), "trace": h, "source": source})
